(* Model of the path from pragmatic DOCUMENTS to routing answers (C16, second part).  No proofs in this file.
   Builds on Model/Routing.v (core providers; nothing there is changed).
   Rust items modelled:
     vrp-core/src/models/problem/costs.rs :: TravelTime::{Arrival, Departure} as consumed by TimeAwareMatrixTransportCost::
                                             {interpolate_duration, interpolate_distance} (both variants: the carried time as is)
     core::slice::binary_search_by (rust 1.82+ loop: `while size > 1 { half = size / 2; mid = base + half;
                                             base = if cmp == Greater { base } else { mid }; size -= half }` + final compare)  [std_bsearch]
     vrp-pragmatic/src/format/coord_index.rs :: CoordIndex::{new (order of visits = d_locs), add, max_matrix_index, has_*, custom offset}
     vrp-pragmatic/src/validation/routing.rs :: check_e1500 .. check_e1505, validate_routing (clustering profile of E1505 not modelled)
     vrp-pragmatic/src/format/problem/fleet_reader.rs :: get_profile_index_map, create_transport_costs (with the `error_codes.len() < capacity`
                                             exit of f7d2f27, the error-code loop, the positional fall-back), read_fleet (Profile::new(index, scale)),
                                             create_approx_matrices (speed set, per-profile lookup)
     vrp-pragmatic/src/format/problem/problem_reader.rs :: map_to_problem (validate -> read_fleet -> create_transport_costs), map_to_problem_with_approx
     vrp-pragmatic/src/utils/approx_transportation.rs :: get_approx_transportation (all ordered pairs, `round() as i64`, division by the speed)
                                             over an ABSTRACT distance function (haversine uses libm sin/cos/atan2: values not modelled);
                                             get_haversine_distance / degree_rad / wgs84_earth_radius: the STRUCTURE over abstract
                                             operations (haversine), with and without the parenthesised cosine product of d74b2b6
   Entry points for the correspondence: run_doc, run_approx_post, run_bs. *)
From VRP Require Import Base.Tac Model.Routing.
From Coq Require Import QArith Qround.
#[global] Open Scope Z_scope.

(* ------------------------------------------------------------------ TravelTime *)
Inductive travel_time := TArrival (t : Q) | TDeparture (t : Q).
(* interpolate_*: `let timestamp = match travel_time { Arrival(arrival) => arrival, Departure(departure) => departure }` *)
Definition tt_time (tt : travel_time) : Q := match tt with TArrival t => t | TDeparture t => t end.
Definition duration_tt (pr : provider) (fb : fallback) (p : nat) (scale : Q) (from to : nat) (tt : travel_time) : res :=
  duration pr fb p scale from to (tt_time tt).
Definition distance_tt (pr : provider) (fb : fallback) (p : nat) (from to : nat) (tt : travel_time) : res :=
  distance pr fb p from to (tt_time tt).

(* ------------------------------------------------------------------ core::slice::binary_search (the real loop) *)
Fixpoint std_bs_loop (fuel : nat) (l : list Z) (x : Z) (base size : nat) : nat :=
  match fuel with
  | O => base
  | S f =>
    if (size <=? 1)%nat then base
    else let half := (size / 2)%nat in
         let mid := (base + half)%nat in
         let base' := if nth mid l 0 >? x then base else mid in
         std_bs_loop f l x base' (size - half)
  end.

Definition std_bsearch (l : list Z) (x : Z) : bs :=
  match l with
  | [] => Insert 0
  | _ :: _ =>
    let base := std_bs_loop (length l) l x 0 (length l) in
    let v := nth base l 0 in
    if v =? x then Found base else Insert (if v <? x then S base else base)
  end.

(* ------------------------------------------------------------------ documents *)
(* a location as written in the document: matrix index, coordinate pair (identified by a number: equal numbers = equal
   coordinates), or the custom "unknown" location *)
Inductive dloc := LRef (i : nat) | LCoord (c : nat) | LCustom.
Record dprofile := mkDP { dp_name : nat; dp_speed : option Q }.
Record dvehicle := mkDV { dv_profile : nat; dv_scale : option Q }.
(* d_locs: every location of the document in the order CoordIndex::new visits them (job places in plan order, then per
   vehicle and shift: start, end, break places, reloads, recharge stations) *)
Record document := mkDoc { d_profiles : list dprofile; d_vehicles : list dvehicle; d_locs : list dloc; d_matrices : list pmatrix }.

Definition loc_eqb (a b : dloc) : bool :=
  match a, b with
  | LRef i, LRef j => (i =? j)%nat
  | LCoord c, LCoord e => (c =? e)%nat
  | LCustom, LCustom => true
  | _, _ => false
  end.
Definition is_custom (l : dloc) : bool := match l with LCustom => true | _ => false end.
Definition is_ref (l : dloc) : bool := match l with LRef _ => true | _ => false end.
Definition is_coord (l : dloc) : bool := match l with LCoord _ => true | _ => false end.

(* CoordIndex::add on the direct index (insertion order kept): a coordinate gets the current length, a reference its own
   index, the custom location is not added (it is promoted afterwards to len*len) *)
Definition ci_add (acc : list (dloc * nat)) (l : dloc) : list (dloc * nat) :=
  if existsb (fun e => loc_eqb (fst e) l) acc then acc
  else match l with
       | LCustom => acc
       | LRef i => acc ++ [(l, i)]
       | LCoord _ => acc ++ [(l, length acc)]
       end.
Definition ci_direct (locs : list dloc) : list (dloc * nat) := fold_left ci_add locs [].
Definition ci_len (locs : list dloc) : nat := length (ci_direct locs).
Definition ci_max_index (locs : list dloc) : nat := (Nat.max (ci_len locs) 1 - 1)%nat.
Definition ci_has_custom (locs : list dloc) : bool := existsb is_custom locs.
Definition ci_has_indices (locs : list dloc) : bool := existsb is_ref locs.
Definition ci_has_coords (locs : list dloc) : bool := existsb is_coord locs.
Definition ci_custom_index (locs : list dloc) : nat := (ci_len locs * ci_len locs)%nat.
Definition ci_get (locs : list dloc) (l : dloc) : option nat :=
  match l with
  | LCustom => if ci_has_custom locs then Some (ci_custom_index locs) else None
  | _ => option_map snd (find (fun e => loc_eqb (fst e) l) (ci_direct locs))
  end.

(* create_transport_costs: UnknownLocationFallback when the index has a custom location, NoFallback otherwise *)
Definition doc_fallback (d : document) : fallback :=
  if ci_has_custom (d_locs d) then unknown_fallback (ci_len (d_locs d)) else no_fallback.

(* ------------------------------------------------------------------ validation/routing.rs *)
Definition prof_names (d : document) : list nat := map dp_name (d_profiles d).
Definition e1500 (d : document) : bool := negb (length (profile_names (prof_names d)) =? length (prof_names d))%nat.
Definition e1501 (d : document) : bool := match d_profiles d with [] => true | _ => false end.
Definition e1502 (d : document) : bool := ci_has_coords (d_locs d) && ci_has_indices (d_locs d).
Definition e1503 (d : document) : bool := ci_has_indices (d_locs d) && match d_matrices d with [] => true | _ => false end.
Definition e1504 (d : document) : bool :=
  match d_matrices d with
  | [] => false
  | m :: _ =>
    let size := rsqrt (length (pm_dists m)) in
    negb ((ci_max_index (d_locs d) + 1 =? size)%nat
          && negb (existsb (fun e => match fst e with LRef i => (size <=? i)%nat | _ => false end) (ci_direct (d_locs d))))
  end.
Definition e1505 (d : document) : bool := existsb (fun v => negb (nmem (dv_profile v) (prof_names d))) (d_vehicles d).
Definition validate_routing (d : document) : list Z :=
  (if e1500 d then [1500] else []) ++ (if e1501 d then [1501] else []) ++ (if e1502 d then [1502] else []) ++
  (if e1503 d then [1503] else []) ++ (if e1504 d then [1504] else []) ++ (if e1505 d then [1505] else []).

(* ------------------------------------------------------------------ create_transport_costs *)
Inductive derr := DMixedProfiles | DTsWithoutProfile | DNotEnough | DNotEnoughCodes | DCodesLength | DInvalidIndex | DProfileCount
                | DCore (e : berr).

(* per-matrix data: Err "not enough error codes" (f7d2f27), Err "error codes, travel times and distances must have the same
   length" (repair 7d3c5fe, finding C16-F4), Err "invalid matrix index" (with_codes = None; unreachable since 7d3c5fe), or
   the two vectors *)
Definition pm_data2 (pm : pmatrix) : derr + (list Q * list Q) :=
  match pm_err pm with
  | Some codes =>
    if (length codes <? length (pm_dists pm))%nat then inl DNotEnoughCodes
    else if negb ((length codes =? length (pm_dists pm))%nat && (length (pm_times pm) =? length (pm_dists pm))%nat)
    then inl DCodesLength
    else match with_codes codes 0 (pm_times pm) (pm_dists pm) with
         | Some v => inr v
         | None => inl DInvalidIndex
         end
  | None => inr (map inject_Z (pm_times pm), map inject_Z (pm_dists pm))
  end.

(* the step as it was before repair 7d3c5fe (the three lengths were never compared); kept only for the witness theorem *)
Definition pm_data2_prefix (pm : pmatrix) : derr + (list Q * list Q) :=
  match pm_err pm with
  | Some codes =>
    if (length codes <? length (pm_dists pm))%nat then inl DNotEnoughCodes
    else match with_codes codes 0 (pm_times pm) (pm_dists pm) with
         | Some v => inr v
         | None => inl DInvalidIndex
         end
  | None => inr (map inject_Z (pm_times pm), map inject_Z (pm_dists pm))
  end.

(* the iterator stops at the first failing matrix (collect::<Result<..>>) *)
Fixpoint pm_convert2 (names : list nat) (pos : nat) (pms : list pmatrix) : derr + list matrix :=
  match pms with
  | [] => inr []
  | pm :: r =>
    match pm_data2 pm with
    | inl e => inl e
    | inr (du, di) =>
      match pm_convert2 names (S pos) r with
      | inl e => inl e
      | inr ms => inr (mkM (pm_index names pos pm) (option_map inject_Z (pm_ts pm)) du di :: ms)
      end
    end
  end.

Inductive dbuilt := TErr (e : derr) | TOk (p : provider).
Definition doc_transport (profiles : list nat) (pms : list pmatrix) : dbuilt :=
  if negb (forallb (fun m => is_some (pm_profile m)) pms) && negb (forallb (fun m => negb (is_some (pm_profile m))) pms)
  then TErr DMixedProfiles
  else if existsb (fun m => negb (is_some (pm_profile m))) pms && existsb (fun m => is_some (pm_ts m)) pms
  then TErr DTsWithoutProfile
  else
    let names := profile_names profiles in
    if (length pms <? length names)%nat then TErr DNotEnough
    else match pm_convert2 names 0 pms with
         | inl e => TErr e
         | inr data =>
           if negb (length names =? distinct_count (map m_index data))%nat then TErr DProfileCount
           else match build data with
                | Ok p => TOk p
                | Err e => TErr (DCore e)
                end
         end.

(* ------------------------------------------------------------------ map_to_problem: validation, read_fleet, create_transport_costs *)
Definition dscale (v : dvehicle) : Q := match dv_scale v with Some s => s | None => 1%Q end.
Inductive dres :=
| DInvalid (codes : list Z)                              (* validation errors (routing rules only) *)
| DRejected (e : derr)                                   (* E0002 from create_transport_costs *)
| DOk (p : provider) (vs : list (option (nat * Q))).     (* the provider and Profile{index, scale} of every vehicle (None = unwrap panics) *)

Definition doc_read (d : document) : dres :=
  match validate_routing d with
  | c :: r => DInvalid (c :: r)
  | [] =>
    match doc_transport (prof_names d) (d_matrices d) with
    | TErr e => DRejected e
    | TOk p => DOk p (map (fun v => vehicle_profile (prof_names d) (dv_profile v) (dv_scale v)) (d_vehicles d))
    end
  end.

(* the reader before repair 7d3c5fe (pm_data2_prefix instead of pm_data2), for the witness theorem only *)
Fixpoint pm_convert2_prefix (names : list nat) (pos : nat) (pms : list pmatrix) : derr + list matrix :=
  match pms with
  | [] => inr []
  | pm :: r =>
    match pm_data2_prefix pm with
    | inl e => inl e
    | inr (du, di) =>
      match pm_convert2_prefix names (S pos) r with
      | inl e => inl e
      | inr ms => inr (mkM (pm_index names pos pm) (option_map inject_Z (pm_ts pm)) du di :: ms)
      end
    end
  end.
Definition doc_transport_prefix (profiles : list nat) (pms : list pmatrix) : dbuilt :=
  if negb (forallb (fun m => is_some (pm_profile m)) pms) && negb (forallb (fun m => negb (is_some (pm_profile m))) pms)
  then TErr DMixedProfiles
  else if existsb (fun m => negb (is_some (pm_profile m))) pms && existsb (fun m => is_some (pm_ts m)) pms
  then TErr DTsWithoutProfile
  else
    let names := profile_names profiles in
    if (length pms <? length names)%nat then TErr DNotEnough
    else match pm_convert2_prefix names 0 pms with
         | inl e => TErr e
         | inr data =>
           if negb (length names =? distinct_count (map m_index data))%nat then TErr DProfileCount
           else match build data with
                | Ok p => TOk p
                | Err e => TErr (DCore e)
                end
         end.
Definition doc_read_prefix (d : document) : dres :=
  match validate_routing d with
  | c :: r => DInvalid (c :: r)
  | [] =>
    match doc_transport_prefix (prof_names d) (d_matrices d) with
    | TErr e => DRejected e
    | TOk p => DOk p (map (fun v => vehicle_profile (prof_names d) (dv_profile v) (dv_scale v)) (d_vehicles d))
    end
  end.

(* ------------------------------------------------------------------ approximation *)
(* f64::round (half away from zero) followed by `as i64` (saturation not modelled: values are far below 2^63) *)
Definition qround (q : Q) : Z := if Qle_bool 0 q then Qfloor (q + (1 # 2)) else - Qfloor (- q + (1 # 2)).

Definition default_speed : Q := 10 # 1.
Definition speed_of (p : dprofile) : Q := match dp_speed p with Some s => s | None => default_speed end.
(* "get each speed value once": the set of speeds (any order; first-seen here, the result does not depend on it) *)
Definition dedup_speeds (l : list Q) : list Q :=
  fold_left (fun acc s => if existsb (Qeq_bool s) acc then acc else acc ++ [s]) l [].
Fixpoint speed_position (s : Q) (l : list Q) : nat :=
  match l with [] => O | x :: r => if Qeq_bool x s then O else S (speed_position s r) end.

(* unique non-custom locations in index order; for coordinate documents index order = first-seen order *)
Definition approx_locs (d : document) : list nat :=
  flat_map (fun e => match fst e with LCoord c => [c] | _ => [] end) (ci_direct (d_locs d)).

Section ApproxDoc.
  Variable hav : nat -> nat -> Q.          (* get_haversine_distance on two coordinate identifiers *)

  (* get_approx_transportation(locations, speeds) *)
  Definition approx_data (locs : list nat) (speeds : list Q) : list (list Z * list Z) :=
    map (fun s => (approx_durations hav qround s locs, approx_distances hav qround locs)) speeds.

  Definition create_approx_matrices (d : document) : list pmatrix :=
    match d_profiles d with
    | [] => []
    | _ =>
      let speeds := dedup_speeds (map speed_of (d_profiles d)) in
      let data := approx_data (approx_locs d) speeds in
      map (fun p => let e := nth (speed_position (speed_of p) speeds) data ([], []) in
                    mkPM (Some (dp_name p)) None (fst e) (snd e) None) (d_profiles d)
    end.

  (* map_to_problem_with_approx *)
  Definition doc_with_approx (d : document) : document :=
    mkDoc (d_profiles d) (d_vehicles d) (d_locs d)
          (if ci_has_indices (d_locs d) then [] else create_approx_matrices d).
  Definition doc_read_approx (d : document) : dres := doc_read (doc_with_approx d).
End ApproxDoc.

(* ------------------------------------------------------------------ the STRUCTURE of get_haversine_distance *)
(* over an abstract carrier with abstract operations (binary64 with libm in the code): which operations are applied to what, in
   which order.  [fixed] = true: the product of the two cosines is taken first (repair d74b2b6, finding C16-F6);
   false: the product is evaluated left to right as before the repair *)
Section HaversineStructure.
  Variable F : Type.
  Variables (fadd fsub fmul fdiv : F -> F -> F) (fsin fcos fsqrt : F -> F) (fatan2 : F -> F -> F).
  Variables (one two pi c180 wa wb : F).
  Definition deg_rad (x : F) : F := fdiv (fmul pi x) c180.
  Definition wgs84_radius (lat : F) : F :=
    let an := fmul (fmul wa wa) (fcos lat) in
    let bn := fmul (fmul wb wb) (fsin lat) in
    let ad := fmul wa (fcos lat) in
    let bd := fmul wb (fsin lat) in
    fsqrt (fdiv (fadd (fmul an an) (fmul bn bn)) (fadd (fmul ad ad) (fmul bd bd))).
  Definition haversine (fixed : bool) (p1 p2 : F * F) : F :=
    let d_lat := deg_rad (fsub (fst p1) (fst p2)) in
    let d_lng := deg_rad (fsub (snd p1) (snd p2)) in
    let lat1 := deg_rad (fst p1) in
    let lat2 := deg_rad (fst p2) in
    let s1 := fsin (fdiv d_lat two) in
    let s2 := fsin (fdiv d_lng two) in
    let a := if fixed then fadd (fmul s1 s1) (fmul (fmul s2 s2) (fmul (fcos lat1) (fcos lat2)))
             else fadd (fmul s1 s1) (fmul (fmul (fmul s2 s2) (fcos lat1)) (fcos lat2)) in
    let c := fmul two (fatan2 (fsqrt a) (fsqrt (fsub one a))) in
    fmul (wgs84_radius d_lat) c.
End HaversineStructure.

(* ------------------------------------------------------------------ entry points for the correspondence *)
Definition derr_code (e : derr) : Z :=
  match e with DMixedProfiles => 101 | DTsWithoutProfile => 102 | DNotEnough => 103 | DInvalidIndex => 104
             | DProfileCount => 105 | DNotEnoughCodes => 106 | DCodesLength => 107 | DCore e => berr_code e end.

Definition mkDVz (name : nat) (sn sd : Z) : dvehicle := mkDV name (if sd =? 0 then None else Some (qz sn sd)).

(* query = (vehicle position, from, to, t num, t den, kind: 0 Departure / 1 Arrival) *)
Definition dquery := (nat * nat * nat * Z * Z * Z)%type.
Inductive dout :=
| OInvalid (codes : list Z)
| ORejected (code : Z)
| OAccepted (aware : bool) (size : Z) (vehicles : list (Z * rout)) (answers : list (rout * rout))
            (custom_idx : Z) (loc_idx : list Z).

Definition opt_idx (o : option nat) : Z := match o with Some k => Z.of_nat k | None => -1 end.

Definition run_doc (d : document) (qs : list dquery) : dout :=
  match doc_read d with
  | DInvalid codes => OInvalid codes
  | DRejected e => ORejected (derr_code e)
  | DOk pr vs =>
    OAccepted (match pr with PAgnostic _ _ _ => false | PAware _ _ => true end) (Z.of_nat (psize pr))
      (map (fun o => match o with Some (k, s) => (Z.of_nat k, res_out (Val s)) | None => (-1, RPanic) end) vs)
      (map (fun q : dquery =>
              let '(vi, from, to, tn, td, kind) := q in
              let tt := if kind =? 0 then TDeparture (qz tn td) else TArrival (qz tn td) in
              match nth vi vs None with
              | None => (RPanic, RPanic)
              | Some (k, s) => (res_out (duration_tt pr (doc_fallback d) k s from to tt),
                                res_out (distance_tt pr (doc_fallback d) k from to tt))
              end) qs)
      (opt_idx (ci_get (d_locs d) LCustom))
      (map (fun l => opt_idx (ci_get (d_locs d) l)) (d_locs d))
  end.

(* integer post-processing of the approximation on given (dyadic) distances: dists = row-major n*n raw distances *)
Definition run_approx_post (dists : list (Z * Z)) (speeds : list (Z * Z)) : list Z * list (list Z) :=
  let ds := map (fun p => qz (fst p) (snd p)) dists in
  (map qround ds, map (fun s => map (fun x => qround (x / qz (fst s) (snd s))%Q) ds) speeds).

Definition bs_out (b : bs) : Z * Z := match b with Found k => (0, Z.of_nat k) | Insert k => (1, Z.of_nat k) end.
Definition run_bs (l : list Z) (xs : list Z) : list ((Z * Z) * (Z * Z)) :=
  map (fun x => (bs_out (std_bsearch l x), bs_out (bsearch l x))) xs.
