(* C06, multi-task jobs: the greedy sequential search of eval_multi as a PROGRAM, for every InsertionPosition.
   The search itself (MultiContext::{new, next, success, fail, promote, is_success, is_failure}, the shadow tour, the loop over
   the start indices, sub-job by sub-job insertion through analyze_insertion_in_route with `skip = next_index`) is the one
   modelled in Model/ObjectivesX.v for the quote (property C20): m_services / m_loop / m_promote / ganalyze are REUSED here.
   New in this file (vrp-core/src/construction/heuristics/evaluators.rs):
     eval_multi                      :: `insertion_idx = get_insertion_index(route_ctx, position).unwrap_or(0)`: the start index of
                                        both MultiContext::new calls for InsertionPosition::{Any, Concrete, Last}
                                        (ObjectivesX.m_perms / geval_multi are the instance start = 0)
     get_insertion_index             :: Any -> None, Concrete(i) -> Some(i), Last -> Some(legs().count().max(1) - 1)
     eval_job_insertion_in_route     :: the route-level gate for a Multi job in front of the search
     TransportConstraint::evaluate_job  (Multi: ALL sub-jobs need a window that intersects the shift)
     CapacityConstraint::evaluate_job   (Multi: ANY sub-job passes the border test)
   Entry point of the correspondence (sub-stream c06_multi): run_c06_multi.  No proofs in this file. *)
From VRP Require Import Base.Tac Model.Core Spec.Feasible Model.Eval Model.Objectives Model.ObjectivesX.

Section SearchAt.
Variable dur : Z -> Z -> Z.
Variable ev : list act -> nat -> act -> option (Z * bool).
Variable est : list act -> nat -> act -> Z.
Variable closed : bool.

(* get_insertion_index(route_ctx, position).unwrap_or(0) *)
Definition insertion_start (t : list act) (pos : position) : nat :=
  match pos with
  | PAny => 0%nat
  | PConcrete i => i
  | PLast => (Nat.max (leg_count closed t) 1 - 1)%nat
  end.

(* permutations().try_fold(MultiContext::new(best_known_cost = None, insertion_idx), ..): per permutation a fresh shadow and a fresh
   loop (0..).try_fold(MultiContext::new(None, insertion_idx), ..) over the start indices; (result, out of fuel) *)
Fixpoint m_perms_at (start : nat) (rc : Z) (t : list act) (jac : nat) (perms : list (list single)) (acc : mctx) : mctx * bool :=
  match perms with
  | [] => (acc, false)
  | sv :: r =>
    let '(perm_res, oof) := m_loop dur ev est closed (S (S (length t))) rc t sv jac (m_new None start) in
    if oof then (acc, true) else
    let '(res, brk) := m_promote perm_res acc in
    if brk then (res, false) else m_perms_at start rc t jac r res
  end.

Definition geval_multi_at (start : nat) (rc : Z) (t : list act) (perms : list (list single)) : gresult :=
  let '(result, oof) := m_perms_at start rc t (job_activity_count closed t) perms (m_new None start) in
  if oof then GOutOfFuel else
  if m_is_success result
  then GSuccess (match m_cost result with Some c => c | None => 0 end) (match m_acts result with Some l => l | None => [] end)
  else match m_viol result with Some (code, st) => GFailure code st | None => GFailure (-1) false end.
End SearchAt.

(* eval_job_insertion_in_route for a Multi job (alternative = plain failure, job not in `unassigned`), goal [transport; capacity]
   with ONE objective layer: kind 0 = minimize cost (vehicle rates; the driver of the harness has zero costs), kind 1 = minimize distance *)
Definition eval_multi_job (w : world) (t : list act) (subs : list single) (perms : list (list nat)) (pos : position) (kind : Z)
  : gresult :=
  let v := w_veh w in
  let shift := (w_shift_start w, v_shift_end v) in
  let est := if kind =? 0 then cost_estimate_activity (wdur w) (wdist w) v else leg_estimate (wdist w) in
  let rc := if kind =? 0 then cost_estimate_route v t else 0 in
  if negb (forallb (eval_route_time shift) subs) then GFailure 1 true else
  if negb (existsb (eval_route_cap v t) subs) then GFailure 2 true else
  geval_multi_at (wdur w) (eval_activity_multi w) est (closed w) (insertion_start (closed w) t pos) rc t (resolve_perms subs perms).

(* the tour after carrying the placement out, WITHOUT the schedule refresh: tour.insert_at(activity, index + 1) per returned pair *)
Fixpoint insert_all (t : list act) (steps : list (nat * act)) : list act :=
  match steps with
  | [] => t
  | (idx, a) :: r => insert_all (insert_after t idx a) r
  end.

(* what identifies an activity apart from its schedule *)
Definition act_core (a : act) := (a_job a, a_loc a, a_svc a, a_tws a, a_twe a, a_dem a).

(* ---------------- brute force: every combination of positions / places / windows in the order of one permutation ----------------
   (used by the correspondence to LABEL the cases in which the greedy search misses a feasible combination, and by the
   `_refuted` witness; not part of the evaluator) *)
Section Brute.
Variable w : world.
Definition alts_of (j : single) (prev : act) : list act :=
  flat_map (fun p => map (mk_target j prev p) (p_tws p)) (s_places j).

(* is there a feasible completion placing `sv` in order at legs >= lo of t ? *)
Fixpoint brute (lo : nat) (t : list act) (sv : list single) : bool :=
  match sv with
  | [] => feasible (wdur w) (w_veh w) t
  | s :: r =>
    existsb (fun idx =>
      existsb (fun a => brute (S idx) (insert_after t idx a) r) (alts_of s (nth idx t xd0)))
      (seq lo (leg_count (closed w) t - lo))
  end.
Definition brute_any (t : list act) (perms : list (list single)) (start : nat) : bool :=
  existsb (brute start t) perms.
End Brute.

Definition gres_out (r : gresult) : list Z * list (list Z) :=
  match r with
  | GSuccess cost steps => ([1; cost], map step_out steps)
  | GFailure code st => ([0; code; if st then 1 else 0], [])
  | GOutOfFuel => ([2], [])
  end.

(* returned: schedule of the tour, feasibility of the tour, the verdict + the (index, place, ..) list, the schedule of the tour with
   the placement carried out and its feasibility for the simulation, whether brute force finds ANY feasible combination
   (evaluated only when the search fails) *)
Definition run_c06_multi (w : world) (acts : list tact) (subs : list single) (perms : list (list nat)) (pos : position) (kind : Z) :=
  let t := build_tour w acts in
  let r := eval_multi_job w t subs perms pos kind in
  let st := match r with GSuccess _ steps => map step_of steps | _ => [] end in
  let t' := apply_steps (wdur w) t st in
  (sched_out t, (if feasible (wdur w) (w_veh w) t then 1 else 0), gres_out r,
   sched_out t', (if feasible (wdur w) (w_veh w) t' then 1 else 0),
   (match r with
    | GSuccess _ _ => 1
    | _ => if brute_any w t (resolve_perms subs perms) (insertion_start (closed w) t pos) then 1 else 0
    end)).
