(* Model of the routing-cost providers (C16).  No proofs in this file.
   Rust items modelled:
     vrp-core/src/models/problem/costs.rs :: create_matrix_transport_cost_with_fallback   (build; with the `size * size` length
                                             test of repair 17fc8e9 — build_prefix is the function before it)
     vrp-core/src/models/problem/costs.rs :: TimeAgnosticMatrixTransportCost::{new, duration_approx, distance_approx, duration, distance, size}
     vrp-core/src/models/problem/costs.rs :: TimeAwareMatrixTransportCost::{new, interpolate_duration, interpolate_distance, *_approx}
                                             (interpolate_duration with the marker guard of repair d8f731f: interp_marked;
                                              aware_dur_raw_prefix / duration_prefix are the functions before it)
     vrp-core/src/models/problem/costs.rs :: SimpleTransportCost::{new, duration_approx, distance_approx}
     vrp-core/src/models/problem/costs.rs :: NoFallback (panic) / TransportFallback (a function returning a value or panicking)
     vrp-pragmatic/src/format/problem/fleet_reader.rs :: get_profile_index_map, create_transport_costs, read_fleet (profile index / scale of a vehicle)
     vrp-pragmatic/src/format/location_fallback.rs :: UnknownLocationFallback (zero for the custom location, panic otherwise)
     vrp-scientific/src/common/routing.rs :: CoordIndex::create_transport (rounded), SingleDataTransportCost::{new, duration, distance}
     vrp-pragmatic/src/utils/approx_transportation.rs :: get_approx_transportation (shape only: rounding of an abstract distance oracle)
   Numbers are exact rationals (Q): the generators only produce data on which f64 arithmetic is exact.
   `as u64` on a time is [ztrunc] (saturating at 0).  `HashMap<usize, _>` = function from the profile index.
   `slice::binary_search` is modelled by its contract on strictly increasing slices ([bsearch]).
   `sort_by` (stable) = stable insertion sort.
   Entry points for the correspondence: run_core, run_simple, run_prag, run_sci. *)
From VRP Require Import Base.Tac.
From Coq Require Import QArith Qround.
#[global] Open Scope Z_scope.

(* ------------------------------------------------------------------ generic helpers *)
Section Sort.
  Context {A : Type} (key : A -> Z).
  Fixpoint insert_by (x : A) (l : list A) : list A :=
    match l with
    | [] => [x]
    | y :: r => if key x <=? key y then x :: y :: r else y :: insert_by x r
    end.
  Fixpoint sort_by (l : list A) : list A :=
    match l with [] => [] | x :: r => insert_by x (sort_by r) end.
End Sort.

(* (len as Float).sqrt().round() as usize *)
Definition rsqrt (n : nat) : nat :=
  let z := Z.of_nat n in
  let r := Z.sqrt z in
  Z.to_nat (if z - r * r >? r then r + 1 else r).

(* Timestamp as u64 *)
Definition ztrunc (q : Q) : Z := if Qle_bool 0 q then Qfloor q else 0.

Inductive bs := Found (k : nat) | Insert (k : nat).
Fixpoint bsearch (l : list Z) (x : Z) : bs :=
  match l with
  | [] => Insert 0
  | y :: r => if y =? x then Found 0
              else if x <? y then Insert 0
              else match bsearch r x with Found k => Found (S k) | Insert k => Insert (S k) end
  end.

(* ------------------------------------------------------------------ core data *)
Record matrix := mkM { m_index : nat; m_ts : option Q; m_dur : list Q; m_dist : list Q }.

Inductive berr := ENoData | ELenDiffer | EDistLen | EDurLen | ENotSquare | EAgnTimestamp | EDupProfiles | EMissingTs | ESingleMatrix.
Inductive provider :=
| PAgnostic (durs dists : list (list Q)) (size : nat)
| PAware (costs : list matrix) (size : nat).
Inductive result (A : Type) := Ok (a : A) | Err (e : berr).
Arguments Ok {A}. Arguments Err {A}.

(* a query either yields a value or panics (NoFallback / unwrap on a missing profile) *)
Inductive res := Val (q : Q) | Panic.
Definition fallback := nat -> nat -> option Q.          (* None = the fallback panics *)
Definition no_fallback : fallback := fun _ _ => None.

Definition has_ts (m : matrix) : bool := match m_ts m with Some _ => true | None => false end.
Definition ts_of (m : matrix) : Q := match m_ts m with Some q => q | None => 0%Q end.
Definition ts_key (m : matrix) : Z := ztrunc (ts_of m).
Definition idx_key (m : matrix) : Z := Z.of_nat (m_index m).

Fixpoint idx_ok (k : nat) (l : list nat) : bool :=
  match l with [] => true | i :: r => (i =? k)%nat && idx_ok (S k) r end.

Definition build_agnostic (costs : list matrix) (size : nat) : result provider :=
  let s := sort_by idx_key costs in
  if existsb has_ts s then Err EAgnTimestamp
  else if negb (idx_ok 0 (map m_index s)) then Err EDupProfiles
  else Ok (PAgnostic (map m_dur s) (map m_dist s) size).

Definition same_idx (p : nat) (m : matrix) : bool := (m_index m =? p)%nat.
Definition group_raw (costs : list matrix) (p : nat) : list matrix := filter (same_idx p) costs.

Definition build_aware (costs : list matrix) (size : nat) : result provider :=
  if existsb (fun m => negb (has_ts m)) costs then Err EMissingTs
  else if existsb (fun m => (length (group_raw costs (m_index m)) =? 1)%nat) costs then Err ESingleMatrix
  else Ok (PAware costs size).

Definition build (costs : list matrix) : result provider :=
  match costs with
  | [] => Err ENoData
  | c0 :: _ =>
    let size := rsqrt (length (m_dur c0)) in
    if existsb (fun m => negb (length (m_dist m) =? length (m_dur m))%nat) costs then Err ELenDiffer
    else if existsb (fun m => negb (rsqrt (length (m_dist m)) =? size)%nat) costs then Err EDistLen
    else if existsb (fun m => negb (rsqrt (length (m_dur m)) =? size)%nat) costs then Err EDurLen
    else if existsb (fun m => negb (((length (m_dist m) =? size * size) && (length (m_dur m) =? size * size))%nat)) costs
         then Err ENotSquare                                   (* since repair 17fc8e9 (finding C16-F1) *)
    else if existsb has_ts costs then build_aware costs size
    else build_agnostic costs size
  end.

(* the function as it was before repair 17fc8e9: squareness only tested through the rounded square root (finding C16-F1);
   kept only for the witness theorem about the pre-fix code *)
Definition build_prefix (costs : list matrix) : result provider :=
  match costs with
  | [] => Err ENoData
  | c0 :: _ =>
    let size := rsqrt (length (m_dur c0)) in
    if existsb (fun m => negb (length (m_dist m) =? length (m_dur m))%nat) costs then Err ELenDiffer
    else if existsb (fun m => negb (rsqrt (length (m_dist m)) =? size)%nat) costs then Err EDistLen
    else if existsb (fun m => negb (rsqrt (length (m_dur m)) =? size)%nat) costs then Err EDurLen
    else if existsb has_ts costs then build_aware costs size
    else build_agnostic costs size
  end.

Definition psize (p : provider) : nat := match p with PAgnostic _ _ s => s | PAware _ s => s end.

(* ------------------------------------------------------------------ queries *)
Definition or_fallback (fb : fallback) (from to : nat) (o : option Q) : res :=
  match o with
  | Some v => Val v
  | None => match fb from to with Some v => Val v | None => Panic end
  end.
Definition rscale (r : res) (s : Q) : res := match r with Val v => Val (v * s)%Q | Panic => Panic end.

(* the sorted group of a profile: HashMap::get(&profile.index) *)
Definition aware_group (costs : list matrix) (p : nat) : option (list matrix) :=
  match group_raw costs p with [] => None | g => Some (sort_by ts_key g) end.

Definition interp (t tl tr lv rv : Q) : Q := (lv + (t - tl) / (tr - tl) * (rv - lv))%Q.
(* since repair d8f731f (finding C16-F5): `if left_value < 0. || right_value < 0. { return left_value; }` in front of the
   interpolation - a negative value is the unreachable marker *)
Definition is_neg (q : Q) : bool := negb (Qle_bool 0 q).
Definition interp_marked (t tl tr lv rv : Q) : Q :=
  if is_neg lv || is_neg rv then lv else interp t tl tr lv rv.

Definition cell (sel : matrix -> list Q) (idx : nat) (o : option matrix) : option Q :=
  match o with Some m => nth_error (sel m) idx | None => None end.

Definition aware_dur_raw (ms : list matrix) (idx : nat) (t : Q) : option Q :=
  match bsearch (map ts_key ms) (ztrunc t) with
  | Found k => cell m_dur idx (nth_error ms k)
  | Insert O => cell m_dur idx (hd_error ms)
  | Insert (S k) =>
    if (S k =? length ms)%nat then cell m_dur idx (nth_error ms k)      (* matrices.last() *)
    else match nth_error ms k, nth_error ms (S k) with
         | Some l, Some r =>
           match nth_error (m_dur l) idx, nth_error (m_dur r) idx with
           | Some lv, Some rv => Some (interp_marked t (ts_of l) (ts_of r) lv rv)
           | _, _ => None
           end
         | _, _ => None
         end
  end.

(* the lookup as it was before repair d8f731f: interpolation through the marker (finding C16-F5); kept only for the
   witness theorems about the pre-fix code *)
Definition aware_dur_raw_prefix (ms : list matrix) (idx : nat) (t : Q) : option Q :=
  match bsearch (map ts_key ms) (ztrunc t) with
  | Found k => cell m_dur idx (nth_error ms k)
  | Insert O => cell m_dur idx (hd_error ms)
  | Insert (S k) =>
    if (S k =? length ms)%nat then cell m_dur idx (nth_error ms k)
    else match nth_error ms k, nth_error ms (S k) with
         | Some l, Some r =>
           match nth_error (m_dur l) idx, nth_error (m_dur r) idx with
           | Some lv, Some rv => Some (interp t (ts_of l) (ts_of r) lv rv)
           | _, _ => None
           end
         | _, _ => None
         end
  end.

Definition aware_dist_raw (ms : list matrix) (idx : nat) (t : Q) : option Q :=
  match bsearch (map ts_key ms) (ztrunc t) with
  | Found k => cell m_dist idx (nth_error ms k)
  | Insert O => cell m_dist idx (hd_error ms)
  | Insert (S k) => cell m_dist idx (nth_error ms k)     (* last() when S k = len, left matrix otherwise *)
  end.

(* TransportCost::duration / ::distance for a vehicle with Profile{index:=p; scale} *)
Definition duration (pr : provider) (fb : fallback) (p : nat) (scale : Q) (from to : nat) (t : Q) : res :=
  match pr with
  | PAgnostic durs _ size =>
    match nth_error durs p with
    | None => Panic
    | Some row => rscale (or_fallback fb from to (nth_error row (from * size + to))) scale
    end
  | PAware costs size =>
    match aware_group costs p with
    | None => Panic
    | Some ms => rscale (or_fallback fb from to (aware_dur_raw ms (from * size + to) t)) scale
    end
  end.

(* TransportCost::duration before repair d8f731f *)
Definition duration_prefix (pr : provider) (fb : fallback) (p : nat) (scale : Q) (from to : nat) (t : Q) : res :=
  match pr with
  | PAgnostic durs _ size =>
    match nth_error durs p with
    | None => Panic
    | Some row => rscale (or_fallback fb from to (nth_error row (from * size + to))) scale
    end
  | PAware costs size =>
    match aware_group costs p with
    | None => Panic
    | Some ms => rscale (or_fallback fb from to (aware_dur_raw_prefix ms (from * size + to) t)) scale
    end
  end.

Definition distance (pr : provider) (fb : fallback) (p : nat) (from to : nat) (t : Q) : res :=
  match pr with
  | PAgnostic _ dists size =>
    match nth_error dists p with
    | None => Panic
    | Some row => or_fallback fb from to (nth_error row (from * size + to))
    end
  | PAware costs size =>
    match aware_group costs p with
    | None => Panic
    | Some ms => or_fallback fb from to (aware_dist_raw ms (from * size + to) t)
    end
  end.

(* *_approx: time-aware uses TravelTime::Departure(0.) *)
Definition duration_approx pr fb p scale from to := duration pr fb p scale from to 0%Q.
Definition distance_approx pr fb p from to := distance pr fb p from to 0%Q.

(* ------------------------------------------------------------------ SimpleTransportCost *)
Definition simple_new (durs dists : list Q) : option nat :=
  let size := rsqrt (length durs) in
  if (rsqrt (length dists) =? size)%nat then Some size else None.
Definition simple_get (l : list Q) (size from to : nat) : Q :=
  match nth_error l (from * size + to) with Some v => v | None => 0%Q end.

(* ------------------------------------------------------------------ scientific CoordIndex::create_transport(is_rounded = true) *)
(* round(sqrt(n)) for a non-negative integer n *)
Definition round_sqrt (n : Z) : Z := let r := Z.sqrt n in if n - r * r >? r then r + 1 else r.
Definition euclid_rounded (a b : Z * Z) : Z :=
  let dx := fst a - fst b in let dy := snd a - snd b in round_sqrt (dx * dx + dy * dy).
Definition sci_values (locs : list (Z * Z)) : list Z :=
  flat_map (fun a => map (fun b => euclid_rounded a b) locs) locs.
(* SingleDataTransportCost::new : size = floor(sqrt(len)); Err unless size*size = len *)
Definition sci_new (values : list Z) : option nat :=
  let size := Z.to_nat (Z.sqrt (Z.of_nat (length values))) in
  if (size * size =? length values)%nat then Some size else None.
(* values[from*size+to] : indexing panics when out of range *)
Definition sci_get (values : list Z) (size from to : nat) : option Z := nth_error values (from * size + to).

(* ------------------------------------------------------------------ get_approx_transportation (shape) *)
(* [hav] is the haversine distance (not modelled), [rnd] is f64::round-as-i64 *)
Section Approx.
  Context {L : Type} (hav : L -> L -> Q) (rnd : Q -> Z).
  Definition approx_distances (locs : list L) : list Z :=
    flat_map (fun a => map (fun b => rnd (hav a b)) locs) locs.
  Definition approx_durations (speed : Q) (locs : list L) : list Z :=
    flat_map (fun a => map (fun b => rnd (hav a b / speed)%Q) locs) locs.
End Approx.

(* ------------------------------------------------------------------ pragmatic create_transport_costs *)
(* profile names are abstract identifiers (nat); time stamps are whole seconds (parse_time) *)
Record pmatrix := mkPM { pm_profile : option nat; pm_ts : option Z; pm_times : list Z; pm_dists : list Z;
                         pm_err : option (list Z) }.
Inductive perr := PMixedProfiles | PTsWithoutProfile | PNotEnough | PInvalidIndex | PProfileCount | PCore (e : berr).
Inductive presult (A : Type) := POk (a : A) | PErr (e : perr).
Arguments POk {A}. Arguments PErr {A}.

Definition nmem (n : nat) (l : list nat) : bool := existsb (Nat.eqb n) l.
(* get_profile_index_map: name -> number of distinct names inserted before it *)
Definition profile_names (profiles : list nat) : list nat :=
  fold_left (fun acc n => if nmem n acc then acc else acc ++ [n]) profiles [].
Fixpoint index_of (n : nat) (l : list nat) : option nat :=
  match l with
  | [] => None
  | x :: r => if (x =? n)%nat then Some O else match index_of n r with Some k => Some (S k) | None => None end
  end.

Definition is_some {A} (o : option A) : bool := match o with Some _ => true | None => false end.

(* per-matrix conversion; None = "invalid matrix index" *)
Fixpoint with_codes (codes : list Z) (i : nat) (times dists : list Z) : option (list Q * list Q) :=
  match codes with
  | [] => Some ([], [])
  | e :: r =>
    if e >? 0 then
      match with_codes r (S i) times dists with
      | Some (du, di) => Some ((-1 # 1)%Q :: du, (-1 # 1)%Q :: di)
      | None => None
      end
    else
      match nth_error times i with
      | None => None
      | Some tv =>
        match nth_error dists i with
        | None => None
        | Some dv =>
          match with_codes r (S i) times dists with
          | Some (du, di) => Some (inject_Z tv :: du, inject_Z dv :: di)
          | None => None
          end
        end
      end
  end.

(* with error codes: Err unless codes, travel times and distances have the same length (`<` test of f7d2f27, `!=` test of
   7d3c5fe, finding C16-F4); all failures of the step are None here (the kinds are distinguished in Model/RoutingDoc.v pm_data2) *)
Definition pm_data (pm : pmatrix) : option (list Q * list Q) :=
  match pm_err pm with
  | Some codes =>
    if (length codes <? length (pm_dists pm))%nat then None
    else if negb ((length codes =? length (pm_dists pm))%nat && (length (pm_times pm) =? length (pm_dists pm))%nat) then None
    else with_codes codes 0 (pm_times pm) (pm_dists pm)
  | None => Some (map inject_Z (pm_times pm), map inject_Z (pm_dists pm))
  end.

Definition pm_index (names : list nat) (pos : nat) (pm : pmatrix) : nat :=
  match pm_profile pm with
  | Some n => match index_of n names with Some k => k | None => pos end
  | None => pos
  end.

Fixpoint pm_convert (names : list nat) (pos : nat) (pms : list pmatrix) : option (list matrix) :=
  match pms with
  | [] => Some []
  | pm :: r =>
    match pm_data pm with
    | None => None
    | Some (du, di) =>
      match pm_convert names (S pos) r with
      | None => None
      | Some ms => Some (mkM (pm_index names pos pm) (option_map inject_Z (pm_ts pm)) du di :: ms)
      end
    end
  end.

Definition distinct_count (l : list nat) : nat := length (profile_names l).

Definition prag_build (profiles : list nat) (pms : list pmatrix) : presult provider :=
  if negb (forallb (fun m => is_some (pm_profile m)) pms) && negb (forallb (fun m => negb (is_some (pm_profile m))) pms)
  then PErr PMixedProfiles
  else if existsb (fun m => negb (is_some (pm_profile m))) pms && existsb (fun m => is_some (pm_ts m)) pms
  then PErr PTsWithoutProfile
  else
    let names := profile_names profiles in
    if (length pms <? length names)%nat then PErr PNotEnough
    else match pm_convert names 0 pms with
         | None => PErr PInvalidIndex
         | Some data =>
           if negb (length names =? distinct_count (map m_index data))%nat then PErr PProfileCount
           else match build data with
                | Ok p => POk p
                | Err e => PErr (PCore e)
                end
         end.

(* read_fleet: Profile::new(index of vehicle.profile.matrix, vehicle.profile.scale) ; unwrap -> None = panic *)
Definition vehicle_profile (profiles : list nat) (vname : nat) (scale : option Q) : option (nat * Q) :=
  match index_of vname (profile_names profiles) with
  | Some k => Some (k, match scale with Some s => s | None => 1%Q end)
  | None => None
  end.

(* UnknownLocationFallback over a matrix of n known locations: the (single) custom location has index n*n *)
Definition unknown_fallback (n : nat) : fallback :=
  fun from to => if (from =? n * n)%nat || (to =? n * n)%nat then Some 0%Q else None.

(* ------------------------------------------------------------------ entry points for the correspondence *)
Definition qz (n d : Z) : Q := Qmake n (Z.to_pos d).
Definition qout (q : Q) : Z * Z := let r := Qred q in (Qnum r, Zpos (Qden r)).
Inductive rout := RVal (n d : Z) | RPanic.
Definition res_out (r : res) : rout := match r with Val q => let (n, d) := qout q in RVal n d | Panic => RPanic end.

Definition mkMz (i : nat) (ts : option (Z * Z)) (du di : list Z) : matrix :=
  mkM i (option_map (fun p => qz (fst p) (snd p)) ts) (map inject_Z du) (map inject_Z di).

Definition berr_code (e : berr) : Z :=
  match e with ENoData => 1 | ELenDiffer => 2 | EDistLen => 3 | EDurLen => 4 | EAgnTimestamp => 5
             | EDupProfiles => 6 | EMissingTs => 7 | ESingleMatrix => 8 | ENotSquare => 9 end.

(* harness fallback: duration from*1000+to+7, distance from*1000+to+9 *)
Definition test_fb (off : Z) (on : bool) : fallback :=
  fun from to => if on then Some (inject_Z (Z.of_nat from * 1000 + Z.of_nat to + off)) else None.

(* query = (profile index, scale num, scale den, from, to, t num, t den) *)
Definition query := (nat * Z * Z * nat * nat * Z * Z)%type.
Definition run_query (pr : provider) (fbon : bool) (q : query) : rout * rout * rout * rout :=
  let '(p, sn, sd, from, to, tn, td) := q in
  let s := qz sn sd in let t := qz tn td in
  (res_out (duration pr (test_fb 7 fbon) p s from to t), res_out (distance pr (test_fb 9 fbon) p from to t),
   res_out (duration_approx pr (test_fb 7 fbon) p s from to), res_out (distance_approx pr (test_fb 9 fbon) p from to)).

(* result: (code, size, answers) ; code 0 = agnostic provider, -1 = time aware provider, k>0 = berr_code *)
Definition run_core (costs : list matrix) (fbon : bool) (qs : list query) : Z * Z * list (rout * rout * rout * rout) :=
  match build costs with
  | Err e => (berr_code e, 0, [])
  | Ok pr => (match pr with PAgnostic _ _ _ => 0 | PAware _ _ => -1 end, Z.of_nat (psize pr), map (run_query pr fbon) qs)
  end.

Definition run_simple (du di : list Z) (qs : list (nat * nat)) : Z * list (Z * Z) :=
  match simple_new (map inject_Z du) (map inject_Z di) with
  | None => (-1, [])
  | Some size => (Z.of_nat size,
                  map (fun q => (Qfloor (simple_get (map inject_Z du) size (fst q) (snd q)),
                                 Qfloor (simple_get (map inject_Z di) size (fst q) (snd q)))) qs)
  end.

Definition perr_code (e : perr) : Z :=
  match e with PMixedProfiles => 101 | PTsWithoutProfile => 102 | PNotEnough => 103 | PInvalidIndex => 104
             | PProfileCount => 105 | PCore e => berr_code e end.

(* pragmatic query = (vehicle profile name, scale (0,0 = absent), from, to, t seconds) *)
Definition pquery := (nat * Z * Z * nat * nat * Z)%type.
Definition run_prag (profiles : list nat) (pms : list pmatrix) (nloc : nat) (custom : bool) (qs : list pquery)
  : Z * Z * list (Z * rout * rout) :=
  match prag_build profiles pms with
  | PErr e => (perr_code e, 0, [])
  | POk pr =>
    let fb := if custom then unknown_fallback nloc else no_fallback in
    (match pr with PAgnostic _ _ _ => 0 | PAware _ _ => -1 end, Z.of_nat (psize pr),
     map (fun q : pquery =>
            let '(vn, sn, sd, from, to, t) := q in
            match vehicle_profile profiles vn (if sd =? 0 then None else Some (qz sn sd)) with
            | None => (-1, RPanic, RPanic)
            | Some (k, s) => (Z.of_nat k, res_out (duration pr fb k s from to (inject_Z t)),
                              res_out (distance pr fb k from to (inject_Z t)))
            end) qs)
  end.

(* CoordIndex::collect : first-seen order, duplicates merged *)
Definition pair_eqb (a b : Z * Z) : bool := (fst a =? fst b) && (snd a =? snd b).
Fixpoint sci_collect (acc : list (Z * Z)) (l : list (Z * Z)) : list (Z * Z) :=
  match l with
  | [] => acc
  | x :: r => if existsb (pair_eqb x) acc then sci_collect acc r else sci_collect (acc ++ [x]) r
  end.

Definition run_sci (locs : list (Z * Z)) (qs : list (nat * nat)) : Z * list Z :=
  let vs := sci_values (sci_collect [] locs) in
  match sci_new vs with
  | None => (-1, [])
  | Some size => (Z.of_nat size, map (fun q => match sci_get vs size (fst q) (snd q) with Some v => v | None => -1 end) qs)
  end.
