(* C04: the solution context and the primitives every shipped search operator is made of, as functions on the dumped
   state of Spec/Inv.v (the homes of a job, the registry, the tours).
   Rust items modelled (vrp-core/src):
     solver/search/utils/removal.rs      :: JobRemovalTracker::{try_remove_job, remove_whole_route}        (PRemove; a whole route = PRemove* + PDropEmpty)
     solver/search/redistribute_search.rs:: remove_jobs (job leaves its tour and goes to `unassigned`)       (PRemove to_unassigned)
     construction/heuristics/context.rs  :: SolutionContext::{keep_routes, remove_empty_routes}, RegistryContext::{get_route,
                                            free_route, use_route}, InsertionContext::restore               (PDropEmpty)
     construction/heuristics/insertions.rs :: apply_insertion_success, apply_insertion_failure, finalize_unassigned,
                                            prepare_insertion_ctx                                            (PInsert / PFail / PFinalize)
     construction/enablers/departure_time.rs :: advance/recede departure (RescheduleDeparture)               (PDeparture)
     solver/search/decompose_search.rs   :: merge_best                                                       (merge)
   Guards are the checks the Rust code performs before the mutation (locked jobs are refused, the registry hands out a
   free actor only, the evaluator accepted the insertion); a primitive whose guard fails returns None.
   The guard of PInsert is the evaluator's contract - the tour obtained is accepted by `route_ok` (Spec/Feasible simulation,
   multi-job order, compatibility) and the group rule - which C06 proves for the transport/capacity evaluator
   (Proofs/CoreEvalP.v: eval_activity_sound, Proofs/CoreMultiP.v: cert_steps_sound).
   That each shipped operator IS a composition of these primitives is not proved; it is validated on every run by explaining
   each dumped before -> after transition with a primitive word and replaying it here (`run_word`).  No proofs in this file. *)
From VRP Require Import Base.Tac Model.Core Spec.Feasible Model.Eval Spec.Inv.

(* ---------------- route level ---------------- *)
Definition route_ok (P : pworld) (r : rdump) : bool :=
  match route_viol P r with [] => true | _ => false end.

(* a tour after update_schedules (accept_route_state's effect on the activities); the invariant never reads the cached
   schedules of job activities, so `step` leaves them alone and the correspondence reschedules before comparing *)
Definition resched_route (P : pworld) (r : rdump) : rdump :=
  mkRoute (r_actor r) (combine (reschedule (pdur P) (tour_of r)) (map snd (r_acts r))).

Definition remove_job_acts (j : Z) (acts : list ract) : list ract := filter (fun x => negb (a_job (fst x) =? j)) acts.

Definition new_route (vs : vspec) : rdump :=
  let s := mkAct (-1) (vs_start vs) 0 (vs_shift_start vs) (vs_shift_latest vs) dzero (vs_shift_start vs) (vs_shift_start vs) in
  let e := match vs_end vs with
           | Some e => [(mkAct (-1) e 0 0 (v_shift_end (vs_veh vs)) dzero 0 0, 0)]
           | None => [] end in
  mkRoute (vs_id vs) ((s, 0) :: e).

(* tour.insert_at(activity, index + 1), one activity after the other (InsertionSuccess::activities) *)
Fixpoint insert_steps (acts : list ract) (steps : list (nat * ract)) : list ract :=
  match steps with
  | [] => acts
  | (idx, a) :: r => insert_steps (firstn (S idx) acts ++ a :: skipn (S idx) acts) r
  end.

(* ---------------- primitives ---------------- *)
(* remove_whole_route is PRemove for every job of the tour followed by PDropEmpty (keep_routes);
   prepare_insertion_ctx (unassigned -> required) is folded into the guard of PInsert, which accepts both lists *)
Inductive prim :=
| PRemove (actor : Z) (job : Z) (to_unassigned : bool)
| PDropEmpty
| PInsert (actor : Z) (job : Z) (steps : list (nat * ract))
| PFail (job : Z)
| PFinalize
| PDeparture (actor : Z) (dep : Z).

Definition removez (j : Z) (l : list Z) : list Z := filter (fun k => negb (k =? j)) l.
Definition find_route (d : dump) (a : Z) : option rdump := find (fun r => r_actor r =? a) (d_routes d).
Definition replace_route (rs : list rdump) (r' : rdump) : list rdump :=
  map (fun r => if r_actor r =? r_actor r' then r' else r) rs.
Definition others (d : dump) (a : Z) : list rdump := filter (fun x => negb (r_actor x =? a)) (d_routes d).

Definition set_departure (acts : list ract) (dep : Z) : list ract :=
  match acts with
  | (s, k) :: r => (set_sched s (a_arr s) dep, k) :: r
  | [] => []
  end.

(* the group rule of GroupConstraint: no other tour serves a job of the same group *)
Definition group_free (P : pworld) (d : dump) (a : Z) (j : Z) : bool :=
  (group_of P j =? 0) || negb (existsb (has_group P (group_of P j)) (others d a)).

Definition step (P : pworld) (p : prim) (d : dump) : option dump :=
  match p with
  | PRemove a j to_un =>
    match find_route d a with
    | Some r =>
      if serves r j && negb (memz j (d_locked d)) then
        Some (mkDump (replace_route (d_routes d) (mkRoute a (remove_job_acts j (r_acts r))))
                     (if to_un then d_required d else d_required d ++ [j]) (d_ignored d)
                     (if to_un then d_unassigned d ++ [j] else d_unassigned d) (d_locked d) (d_avail d))
      else None
    | None => None
    end
  | PDropEmpty =>
    Some (mkDump (filter nonempty (d_routes d)) (d_required d) (d_ignored d) (d_unassigned d) (d_locked d)
                 (map r_actor (filter (fun r => negb (nonempty r)) (d_routes d)) ++ d_avail d))
  | PInsert a j steps =>
    if (memz j (d_required d) || memz j (d_unassigned d)) && forallb (fun s => a_job (fst (snd s)) =? j) steps
       && group_free P d a j then
      match find_route d a with
      | Some r =>
        let r' := mkRoute a (insert_steps (r_acts r) steps) in
        if route_ok P r' && serves r' j then
          Some (mkDump (replace_route (d_routes d) r') (removez j (d_required d)) (d_ignored d)
                       (removez j (d_unassigned d)) (d_locked d) (d_avail d))
        else None
      | None =>
        match find_vs P a with
        | Some vs =>
          let r' := mkRoute a (insert_steps (r_acts (new_route vs)) steps) in
          if memz a (d_avail d) && route_ok P r' && serves r' j then
            Some (mkDump (d_routes d ++ [r']) (removez j (d_required d)) (d_ignored d)
                         (removez j (d_unassigned d)) (d_locked d) (removez a (d_avail d)))
          else None
        | None => None
        end
      end
    else None
  | PFail j =>
    if memz j (d_required d) && negb (memz j (d_unassigned d)) then
      Some (mkDump (d_routes d) (removez j (d_required d)) (d_ignored d) (d_unassigned d ++ [j]) (d_locked d) (d_avail d))
    else None
  | PFinalize =>
    Some (mkDump (d_routes d) [] (d_ignored d)
                 (d_unassigned d ++ filter (fun j => negb (memz j (d_unassigned d))) (d_required d)) (d_locked d) (d_avail d))
  | PDeparture a dep =>
    match find_route d a with
    | Some r =>
      let r' := mkRoute a (set_departure (r_acts r) dep) in
      if route_ok P r' then
        Some (mkDump (replace_route (d_routes d) r') (d_required d) (d_ignored d) (d_unassigned d) (d_locked d) (d_avail d))
      else None
    | None => None
    end
  end.

Fixpoint run (P : pworld) (w : list prim) (d : dump) : option dump :=
  match w with
  | [] => Some d
  | p :: r => match step P p d with Some d' => run P r d' | None => None end
  end.

(* the words of a shipped operator: removals, `restore`, then insertions / failures / departure shifts, finalize *)
Definition is_removal (p : prim) : bool := match p with PRemove _ _ _ => true | _ => false end.
Definition keeps_tours_served (p : prim) : bool :=
  match p with PRemove _ _ _ => false | _ => true end.

(* merge_best of DecomposeSearch: the parts are put side by side; the registry is rebuilt by use_route *)
Definition merge (P : pworld) (a b : dump) : dump :=
  mkDump (d_routes a ++ d_routes b) (d_required a ++ d_required b) (d_ignored a ++ d_ignored b)
         (d_unassigned a ++ d_unassigned b) (d_locked a ++ d_locked b)
         (filter (fun v => negb (memz v (used a ++ used b))) (map vs_id (pw_vehicles P))).

(* ---------------- correspondence entry points ---------------- *)
Definition canon_route (P : pworld) (r0 : rdump) :=
  let r := resched_route P r0 in
  (r_actor r, map (fun x => (a_job (fst x), snd x, a_loc (fst x), a_tws (fst x), a_twe (fst x), a_arr (fst x), a_dep (fst x))) (r_acts r)).
Definition canon (P : pworld) (d : dump) :=
  (map (canon_route P) (d_routes d), d_required d, d_ignored d, d_unassigned d, d_avail d).

(* replays the explanation of one dumped transition; the plugin compares the result with the dumped after-state *)
Fixpoint first_failing (P : pworld) (w : list prim) (d : dump) (k : Z) : Z :=
  match w with
  | [] => -1
  | p :: r => match step P p d with Some d' => first_failing P r d' (k + 1) | None => k end
  end.
Definition run_word (P : pworld) (before : dump) (w : list prim) :=
  match run P w before with
  | Some d' => (1, [canon P d'], -1)
  | None => (0, [], first_failing P w before 0)
  end.
