(* Model of:
     vrp-core/src/algorithms/clustering/dbscan.rs :: create_clusters   (the whole function, work-list as in the code)
   Points are natural numbers (indices into a universe), the neighbourhood function is a table
   (row p = the list `neighborhood_fn(p)` returns, in the order it returns it; points without a row have no neighbours).
   `point_types : HashMap<&T, PointType>` is the pair of lists (clustered, noise): lookup gives Clustered if the
   point is in `clustered` (insert(Clustered) overwrites Noise), Noise if only in `noise`, None otherwise; the map
   is used for lookups only, so hash order is not observable.  `neighbors_index : HashSet` = `seen` (membership only).
   `neighbors[index..]` = `work` (the code only ever appends to `neighbors` and advances `index`).
   Entry point for the correspondence: run_dbscan.  Executable contract checker: check_dbscan.  No proofs here. *)
From VRP Require Import Base.Tac.
Local Open Scope nat_scope.

Definition mem (x : nat) (l : list nat) : bool := existsb (Nat.eqb x) l.
Definition nbrs (tbl : list (list nat)) (p : nat) : list nat := nth p tbl [].
Definition is_core (tbl : list (list nat)) (minp p : nat) : bool := minp <=? length (nbrs tbl p).

(* the `while index < neighbors.len()` loop; returns (cluster, clustered) or None when fuel is exhausted *)
Fixpoint grow (fuel : nat) (tbl : list (list nat)) (minp : nat) (work seen clustered noise cluster : list nat)
  : option (list nat * list nat) :=
  match fuel with
  | O => None
  | S f =>
    match work with
    | [] => Some (cluster, clustered)
    | q :: rest =>
      let is_cl := mem q clustered in
      let typed := is_cl || mem q noise in
      let other := nbrs tbl q in
      let expand := negb typed && (minp <=? length other) in
      let work' := if expand then rest ++ filter (fun x => negb (mem x seen)) other else rest in
      let seen' := if expand then seen ++ other else seen in
      if is_cl then grow f tbl minp work' seen' clustered noise cluster
      else grow f tbl minp work' seen' (q :: clustered) noise (cluster ++ [q])
    end
  end.

(* the `for point in points` loop; acc = clusters found so far, newest first *)
Fixpoint outer (fuel : nat) (tbl : list (list nat)) (minp : nat) (pts clustered noise : list nat) (acc : list (list nat))
  : option (list (list nat)) :=
  match pts with
  | [] => Some (rev acc)
  | p :: ps =>
    if mem p clustered || mem p noise then outer fuel tbl minp ps clustered noise acc
    else
      let nb := nbrs tbl p in
      if length nb <? minp then outer fuel tbl minp ps clustered (p :: noise) acc
      else match grow fuel tbl minp nb nb (p :: clustered) noise [p] with
           | None => None
           | Some (c, cl') => outer fuel tbl minp ps cl' noise (c :: acc)
           end
  end.

(* a bound on the number of work-list steps of one cluster: every row is appended at most once *)
Definition dbscan_fuel (tbl : list (list nat)) : nat := S (length (concat tbl) + length (concat tbl)).

Definition create_clusters (tbl : list (list nat)) (minp : nat) (pts : list nat) : option (list (list nat)) :=
  outer (dbscan_fuel tbl) tbl minp pts [] [] [].

Definition run_dbscan := create_clusters.

(* ------------------------------------------------------------------ executable contract checker *)
Fixpoint nodupb (l : list nat) : bool :=
  match l with [] => true | x :: r => negb (mem x r) && nodupb r end.

(* every element after the first has a core "parent" earlier in the list whose neighbourhood contains it *)
Fixpoint grown_b (tbl : list (list nat)) (minp : nat) (before rest : list nat) : bool :=
  match rest with
  | [] => true
  | q :: r => existsb (fun c => is_core tbl minp c && mem q (nbrs tbl c)) before
              && grown_b tbl minp (before ++ [q]) r
  end.

Definition cluster_ok_b (tbl : list (list nat)) (minp : nat) (c : list nat) : bool :=
  match c with
  | [] => false
  | p :: r => is_core tbl minp p && grown_b tbl minp [p] r
  end.

Definition check_dbscan (tbl : list (list nat)) (minp : nat) (pts : list nat) (cs : list (list nat)) : bool :=
  nodupb (concat cs)
  && forallb (cluster_ok_b tbl minp) cs
  && forallb (fun p => negb (is_core tbl minp p) || existsb (mem p) cs) pts.
