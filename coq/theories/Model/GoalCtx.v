(* Model of every way the code configures a goal and hands out a goal context (C09):
     vrp-core/src/models/goal.rs ::
       GoalBuilder::add_single / add_multi / build, Goal::simple / subset_of / add_with_name,
       Goal::total_order / fitness,
       GoalContextBuilder::with_features / get_heuristic_goal / set_main_goal / add_alternative_goal / build,
       GoalContext::get_alternative / get_alternatives / fitness, impl Alternative (maybe_new),
       impl HeuristicObjective (total_order)
     vrp-core/src/construction/features/known_edge.rs :: KnownEdgeObjective::fitness (keep_solution_fitness = false: constant +0.0)
     vrp-pragmatic/src/format/problem/goal_reader.rs ::
       get_objectives (default objectives), get_objective_feature_layer (nesting), get_features_with_goal,
       eval_multi_objective_strategy (the layer comparator AND the cost-estimate function of every MultiStrategy: `sum` = f64 sum of
       the estimates, `weighted-sum` = f64 sum of estimate * weights[idx]), create_goal_context (the GoalContextBuilder calls)
     vrp-core/src/models/goal.rs :: Goal::estimate / GoalContext::estimate (one component per LAYER, collected into an InsertionCost),
       GoalBuilder::add_single (estimate = objectives[0].estimate) / add_multi (any objective list, also the empty one)
     vrp-core/src/construction/enablers/feature_combinator.rs :: FeatureCombinator::combine (name of the combined feature, no objective)
     vrp-scientific/src/common/text_reader.rs :: get_essential_features, create_goal_context_prefer_min_tours (solomon, lilim readers),
       create_goal_context_distance_only (tsplib reader)
   A solution is seen through its state vector `s : list Z` (bit patterns): `getd s i` is the fitness the i-th objective computes.
   A move is seen through its estimate vector `e : list Z` (bit patterns): `getd e i` is what the i-th objective estimates for it
   (known_edge estimates +0.0 for route moves and for activity moves of a solution without footprint: the moves of the correspondence).
   Feature names are `list nat` ("a+b" = the concatenation; known_edge = [0]).
   Entry points of the correspondence: run_gctx, run_gctx_est, run_reader, run_reader_est, run_sci.
   No proofs in this file. *)
From VRP Require Import Base.Tac Base.TotalCmp Model.CostOrder Model.InsCost.

Inductive gres (A : Type) := GOk (a : A) | GErr (code : nat).
Arguments GOk {A} a.
Arguments GErr {A} code.
Definition gbind {A B} (r : gres A) (f : A -> gres B) : gres B :=
  match r with GOk a => f a | GErr e => GErr e end.

(* error codes (the harness maps the messages of the code to the same numbers) *)
Definition E_DUP_FEATURE : nat := 1.     (* "some of the features are defined more than once" *)
Definition E_NO_OBJECTIVES : nat := 2.   (* "no objectives specified in the goal" *)
Definition E_NO_FEATURE : nat := 3.      (* "cannot find a feature with given name" *)
Definition E_NO_OBJECTIVE : nat := 4.    (* "feature '..' has no objective" *)
Definition E_NESTED : nat := 5.          (* "nested composite objectives are not supported" *)
Definition E_WEIGHTS : nat := 6.         (* "weighted sum requires same amount of weights as objective count" *)
Definition E_INDEX : nat := 7.           (* alternative_goals[idx]: index out of bounds (panic) *)
Definition E_NO_MAIN : nat := 8.         (* "missing goal of optimization" *)
Definition E_DEFAULT_ID : nat := 9.      (* "features with default id are not allowed" (empty multi-objective) *)
Definition E_EMPTY_FEATURE : nat := 10.  (* "empty feature is not allowed" (combined feature without constraint, objective, state) *)

(* ---------- objectives, layers, goals ---------- *)
Inductive obj := OFeat (i : nat) | OKnownEdge.
Definition ofit (s : list Z) (o : obj) : Z := match o with OFeat i => getd s i | OKnownEdge => 0 end.

(* MultiStrategy: the weights (bit patterns) of weighted-sum enter the insertion estimate only; the reader checks their number *)
Inductive strategy := SSum | SWeightedSum (ws : list Z).

(* eval_multi_objective_strategy: the total_order_fn handed to add_multi, per strategy, as written *)
Definition strategy_cmp (st : strategy) (fa fb : list Z) : comparison :=
  match st with
  | SSum => dominance (map2 total_cmp fa fb)
  | SWeightedSum _ => dominance (map2 total_cmp fa fb)
  end.

Inductive glayer := GSingle (o : obj) | GMulti (st : strategy) (os : list obj).
Definition lobjs (l : glayer) : list obj := match l with GSingle o => [o] | GMulti _ os => os end.
Definition layer_cmp (l : glayer) (sa sb : list Z) : comparison :=
  match l with
  | GSingle o => single_cmp (ofit sa o) (ofit sb o)
  | GMulti st os => strategy_cmp st (map (ofit sa) os) (map (ofit sb) os)
  end.

Definition goal := list glayer.

(* the cost-estimate function of a layer.  add_single: objectives[0].estimate(move).  eval_multi_objective_strategy:
   sum = os.iter().map(|o| o.estimate(m)).sum();  weighted-sum = os.iter().enumerate().map(|(idx, o)| o.estimate(m) * weights[idx]).sum()
   (None = the index panic of weights[idx] when there are fewer weights than objectives) *)
Definition oest (e : list Z) (o : obj) : Z := match o with OFeat i => getd e i | OKnownEdge => 0 end.
Definition strategy_est (st : strategy) (es : list Z) : option Z :=
  match st with
  | SSum => Some (f64_sum es)
  | SWeightedSum ws => if (length ws <? length es)%nat then None else Some (f64_sum (map2 f64_mul es ws))
  end.
Definition layer_est (l : glayer) (e : list Z) : option Z :=
  match l with
  | GSingle o => Some (oest e o)
  | GMulti st os => strategy_est st (map (oest e) os)
  end.
(* Goal::estimate : layers.iter().map(estimate_fn).collect::<InsertionCost>() *)
Fixpoint gestimate (g : goal) (e : list Z) : option (list Z) :=
  match g with
  | [] => Some []
  | l :: g' => match layer_est l e, gestimate g' e with
               | Some v, Some r => Some (v :: r)
               | _, _ => None
               end
  end.

(* Goal::total_order : try_fold over the layers, break on the first non-Equal *)
Fixpoint gorder (g : goal) (sa sb : list Z) : comparison :=
  match g with
  | [] => Eq
  | l :: g' => match layer_cmp l sa sb with Eq => gorder g' sa sb | c => c end
  end.
(* Goal::fitness : layers.flat_map(objectives).map(fitness) *)
Definition gfitness (g : goal) (s : list Z) : list Z := flat_map (fun l => map (ofit s) (lobjs l)) g.

(* GoalBuilder::build *)
Definition goal_build (ls : list glayer) : gres goal :=
  match ls with [] => GErr E_NO_OBJECTIVES | _ => GOk ls end.

(* ---------- features ---------- *)
Definition name := list nat.
Fixpoint name_eqb (a b : name) : bool :=
  match a, b with
  | [], [] => true
  | x :: a', y :: b' => (x =? y)%nat && name_eqb a' b'
  | _, _ => false
  end.
Record feat := { fname : name; fobj : option obj }.
Definition has_obj (f : feat) : bool := match fobj f with Some _ => true | None => false end.

Fixpoint find_feat (fs : list feat) (n : name) : option feat :=
  match fs with
  | [] => None
  | f :: fs' => if name_eqb (fname f) n then Some f else find_feat fs' n
  end.

(* Goal::subset_of : for name in names { builder = add_with_name(builder, features, name)? } ; builder.build() *)
Fixpoint subset_layers (fs : list feat) (names : list name) : gres (list glayer) :=
  match names with
  | [] => GOk []
  | n :: ns =>
    match find_feat fs n with
    | None => GErr E_NO_FEATURE
    | Some f => match fobj f with
                | None => GErr E_NO_OBJECTIVE
                | Some o => gbind (subset_layers fs ns) (fun ls => GOk (GSingle o :: ls))
                end
    end
  end.
Definition goal_subset_of (fs : list feat) (names : list name) : gres goal := gbind (subset_layers fs names) goal_build.
Definition obj_names (fs : list feat) : list name := map fname (filter has_obj fs).
(* Goal::simple *)
Definition goal_simple (fs : list feat) : gres goal := goal_subset_of fs (obj_names fs).

Definition ke_name : name := [0%nat].
Definition ke_feat : feat := {| fname := ke_name; fobj := Some OKnownEdge |}.
(* GoalContextBuilder::get_heuristic_goal : objective_names.insert(1, "known_edge") *)
Definition heuristic_goal (fs : list feat) : gres goal :=
  match obj_names fs with
  | [] => GErr E_NO_OBJECTIVES
  | n0 :: rest => goal_subset_of (fs ++ [ke_feat]) (n0 :: ke_name :: rest)
  end.

Fixpoint name_mem (n : name) (ns : list name) : bool :=
  match ns with [] => false | m :: ns' => name_eqb n m || name_mem n ns' end.
Fixpoint names_nodup (ns : list name) : bool :=
  match ns with [] => true | n :: ns' => negb (name_mem n ns') && names_nodup ns' end.

(* ---------- GoalContextBuilder / GoalContext ---------- *)
Record builder := { bmain : option goal; balts : list goal; bfeats : list feat }.
Record gctx := { cgoal : goal; calts : list goal }.

Definition with_features (fs : list feat) : gres builder :=
  if negb (names_nodup (map fname fs)) then GErr E_DUP_FEATURE
  else gbind (goal_simple fs) (fun g =>
       gbind (heuristic_goal fs) (fun h => GOk {| bmain := Some g; balts := [h]; bfeats := fs |})).
Definition set_main_goal (b : builder) (g : goal) : builder := {| bmain := Some g; balts := balts b; bfeats := bfeats b |}.
Definition add_alternative_goal (b : builder) (g : goal) : builder :=
  {| bmain := bmain b; balts := balts b ++ [g]; bfeats := bfeats b |}.
Definition build (b : builder) : gres gctx :=
  match bmain b with None => GErr E_NO_MAIN | Some g => GOk {| cgoal := g; calts := balts b |} end.

(* impl HeuristicObjective for GoalContext :: total_order ; GoalContext::fitness *)
Definition ctx_total_order (c : gctx) (sa sb : list Z) : comparison := gorder (cgoal c) sa sb.
Definition ctx_fitness (c : gctx) (s : list Z) : list Z := gfitness (cgoal c) s.
(* GoalContext::estimate *)
Definition ctx_estimate (c : gctx) (e : list Z) : option (list Z) := gestimate (cgoal c) e.

(* GoalContext::get_alternative : Self { goal: alternative_goals[idx].clone(), ..self.clone() } *)
Definition get_alternative (c : gctx) (idx : nat) : gres gctx :=
  match nth_error (calts c) idx with
  | Some g => GOk {| cgoal := g; calts := calts c |}
  | None => GErr E_INDEX
  end.
Definition get_alternatives (c : gctx) : list gctx := map (fun g => {| cgoal := g; calts := calts c |}) (calts c).
(* Alternative::maybe_new : `hit` = random.is_hit(0.1), `draw` = random.uniform_int(0, len-1) *)
Definition maybe_new (c : gctx) (hit : bool) (draw : nat) : gres gctx :=
  match calts c with
  | [] => GOk c
  | _ => if hit then get_alternative c draw else GOk c
  end.
Fixpoint follow (c : gctx) (path : list (bool * nat)) : gres gctx :=
  match path with
  | [] => GOk c
  | (hit, draw) :: p => gbind (maybe_new c hit draw) (fun c' => follow c' p)
  end.

(* ---------- vrp-pragmatic goal_reader: the `objectives` section ---------- *)
(* objective types are tags (0 minimize-cost, 1 minimize-distance, ...: only their identity matters); a `multi-objective`
   lists inner objectives, an inner `multi-objective` is INested (its content is never looked at) *)
Inductive pinner := IObj (tag : nat) | INested.
Inductive pobjective := PObj (tag : nat) | PMulti (st : strategy) (inner : list pinner).

Definition T_COST : nat := 0.
Definition T_TOURS : nat := 3.
Definition T_VALUE : nat := 5.
Definition T_UNASSIGNED : nat := 6.
(* get_objectives *)
Definition default_objectives (has_value : bool) : list pobjective :=
  (if has_value then [PObj T_VALUE] else []) ++ [PObj T_UNASSIGNED; PObj T_TOURS; PObj T_COST].

Definition has_nested (o : pobjective) : bool :=
  match o with
  | PObj _ => false
  | PMulti _ inner => existsb (fun i => match i with INested => true | IObj _ => false end) inner
  end.
Definition inner_tags (inner : list pinner) : list nat :=
  flat_map (fun i => match i with IObj t => [t] | INested => [] end) inner.
Definition tag_name (t : nat) : name := [S t].
(* does the feature of an objective type carry a constraint or a state? (minimize-tours 3, maximize-tours 4, minimize-unassigned 6,
   minimize-arrival-time 7 are objective-only features).  FeatureCombinator gives the combined feature of a multi-objective no
   objective, so a multi-objective over objective-only features is an empty feature and is rejected by FeatureBuilder::build *)
Definition tag_has_aux (t : nat) : bool := negb (existsb (Nat.eqb t) [3; 4; 6; 7]%nat).
Definition capacity_feat : feat := {| fname := [0%nat; 0%nat]; fobj := None |}.

(* get_features_with_goal: try_fold over the layers; k = index of the next objective in the main goal's flattened order *)
Fixpoint read_layers (objs : list pobjective) (k : nat) : gres (list feat * list glayer) :=
  match objs with
  | [] => GOk ([], [])
  | PObj t :: rest =>
    gbind (read_layers rest (S k)) (fun r =>
      GOk ({| fname := tag_name t; fobj := Some (OFeat k) |} :: fst r, GSingle (OFeat k) :: snd r))
  | PMulti st inner :: rest =>
    let ts := inner_tags inner in
    match ts with
    | [] => GErr E_DEFAULT_ID                       (* FeatureCombinator: name "" *)
    | _ =>
      let n := length ts in
      let ok := match st with SSum => true | SWeightedSum ws => (length ws =? n)%nat end in
      if negb (existsb tag_has_aux ts) then GErr E_EMPTY_FEATURE
      else if negb ok then GErr E_WEIGHTS
      else gbind (read_layers rest (k + n)) (fun r =>
        GOk ({| fname := flat_map tag_name ts; fobj := None |} :: fst r,
             GMulti st (map OFeat (seq k n)) :: snd r))
    end
  end.

(* create_goal_context (documents without optional breaks: no other feature carries an objective) *)
Definition read_goal (objs : option (list pobjective)) (has_value : bool) : gres gctx :=
  let os := match objs with Some o => o | None => default_objectives has_value end in
  if existsb has_nested os then GErr E_NESTED
  else gbind (read_layers os 0) (fun r =>
       gbind (with_features (fst r ++ [capacity_feat])) (fun b =>
       gbind (goal_build (snd r)) (fun g => build (set_main_goal b g)))).

(* ---------- vrp-scientific: the goal contexts of the text readers ---------- *)
(* get_essential_features: min_unassigned (objective 0 of the state vector), min_tours (1), min_distance (2), capacity (no objective) *)
Definition N_UNASSIGNED : name := [1%nat].
Definition N_TOURS : name := [2%nat].
Definition N_DISTANCE : name := [3%nat].
Definition N_CAPACITY : name := [4%nat].
Definition sci_features : list feat :=
  [ {| fname := N_UNASSIGNED; fobj := Some (OFeat 0) |}; {| fname := N_TOURS; fobj := Some (OFeat 1) |};
    {| fname := N_DISTANCE; fobj := Some (OFeat 2) |}; {| fname := N_CAPACITY; fobj := None |} ].
(* create_goal_context_prefer_min_tours (true) / create_goal_context_distance_only (false):
   with_features(..)?.set_main_goal(subset_of(main)?).add_alternative_goal(subset_of(other)?).build() *)
Definition sci_goal_context (prefer_min_tours : bool) : gres gctx :=
  let full := [N_UNASSIGNED; N_TOURS; N_DISTANCE] in
  let short := [N_UNASSIGNED; N_DISTANCE] in
  gbind (with_features sci_features) (fun b =>
  gbind (goal_subset_of sci_features (if prefer_min_tours then full else short)) (fun m =>
  gbind (goal_subset_of sci_features (if prefer_min_tours then short else full)) (fun a =>
  build (add_alternative_goal (set_main_goal b m) a)))).

(* ---------- entry points of the correspondence ---------- *)
Definition res_z {A} (f : A -> list (list Z)) (r : gres A) : list (list Z) :=
  match r with GOk a => f a | GErr e => [[-1; Z.of_nat e]] end.

(* what is observed of one context on a pair of solutions: [ab; ba; aa], fitness a, fitness b *)
Definition observe (sa sb : list Z) (c : gctx) : list (list Z) :=
  [[ord_z (ctx_total_order c sa sb); ord_z (ctx_total_order c sb sa); ord_z (ctx_total_order c sa sa)];
   ctx_fitness c sa; ctx_fitness c sb].
Definition observe_paths (paths : list (list (bool * nat))) (sa sb : list Z) (c0 : gctx) : list (list Z) :=
  flat_map (fun p => res_z (observe sa sb) (follow c0 p)) paths.

(* core stream: features f_i (flag: carries IdxObjective(i)); a goal specification is (via, layers), a layer (kind, indices, weights):
   via 0 = Goal::subset_of(features, names of the first index of every layer), via 1 = GoalBuilder (kind 0 add_single, 1 add_multi
   with the comparator / estimate of strategy `sum`, 2 add_multi with those of `weighted-sum` and the given weights) *)
Definition fname_of (i : Z) : name := [S (Z.to_nat i)].
Definition feats_of (flags : list Z) : list feat :=
  map (fun p => {| fname := fname_of (Z.of_nat (fst p));
                   fobj := if snd p =? 0 then None else Some (OFeat (fst p)) |}) (combine (seq 0 (length flags)) flags).
Definition lspec : Type := Z * list Z * list Z.
Definition gspec : Type := Z * list lspec.
Definition layer_of (l : lspec) : glayer :=
  let '(k, idxs, ws) := l in
  if k =? 0 then GSingle (OFeat (Z.to_nat (hd 0 idxs)))
  else GMulti (if k =? 1 then SSum else SWeightedSum ws) (map (fun i => OFeat (Z.to_nat i)) idxs).
Definition goal_of (fs : list feat) (spec : gspec) : gres goal :=
  if fst spec =? 0 then goal_subset_of fs (map (fun l : lspec => fname_of (hd 0 (snd (fst l)))) (snd spec))
  else goal_build (map layer_of (snd spec)).
Fixpoint add_alts (fs : list feat) (b : builder) (alts : list gspec) : gres builder :=
  match alts with
  | [] => GOk b
  | a :: alts' => gbind (goal_of fs a) (fun g => add_alts fs (add_alternative_goal b g) alts')
  end.
Definition path_of (p : list (Z * Z)) : list (bool * nat) := map (fun hd => (negb (fst hd =? 0), Z.to_nat (snd hd))) p.

Definition gctx_of (flags : list Z) (main : option gspec) (alts : list gspec) : gres gctx :=
  let fs := feats_of flags in
  gbind (with_features fs) (fun b =>
  gbind (match main with None => GOk b | Some m => gbind (goal_of fs m) (fun g => GOk (set_main_goal b g)) end) (fun b1 =>
  gbind (add_alts fs b1 alts) build)).

Definition run_gctx (flags : list Z) (main : option gspec) (alts : list gspec)
                    (paths : list (list (Z * Z))) (sa sb : list Z) : list (list Z) :=
  res_z (observe_paths (map path_of paths) sa sb) (gctx_of flags main alts).

(* the estimate of every context (one row per path; [-2] = the index panic of weights[idx]) for the estimate vector e *)
(* NaN components are reported as the one pattern NAN_BITS (as the harness does: a single layer hands the NaN of its objective through) *)
Definition canon (b : Z) : Z := if is_nan b then NAN_BITS else b.
Definition est_z (o : option (list Z)) : list Z := match o with Some v => 1 :: map canon v | None => [-2] end.
Definition run_gctx_est (flags : list Z) (main : option gspec) (alts : list gspec)
                        (paths : list (list (Z * Z))) (e : list Z) : list (list Z) :=
  res_z (fun c0 => flat_map (fun p => res_z (fun c => [est_z (ctx_estimate c e)]) (follow c0 (path_of p))) paths)
        (gctx_of flags main alts).

(* reader stream: objectives as (tag, strategy, inner): tag >= 0 a plain objective; tag = -1 a multi-objective with
   strategy (None sum | Some weights: weighted-sum) and inner tags (-1 = a nested multi-objective) *)
Definition pobj_of (o : Z * option (list Z) * list Z) : pobjective :=
  let '(t, st, inner) := o in
  if 0 <=? t then PObj (Z.to_nat t)
  else PMulti (match st with None => SSum | Some ws => SWeightedSum ws end)
              (map (fun i => if i <? 0 then INested else IObj (Z.to_nat i)) inner).
(* observations of the solutions `sols` (state vectors) under every path: for every pair (i, j) and path the orders [ab; ba; aa]
   (or [-1; code] when the path fails), and for every path the fitness vector of every solution ([[-1; code]] when it fails) *)
Definition observe_all (paths : list (list (bool * nat))) (sols : list (list Z)) (pairs : list (nat * nat)) (c0 : gctx)
  : list (list Z) * list (list Z) :=
  let cs := map (follow c0) paths in
  (flat_map (fun ij : nat * nat =>
     let sa := nth (fst ij) sols [] in let sb := nth (snd ij) sols [] in
     map (fun rc => match rc with
                    | GOk c => [ord_z (ctx_total_order c sa sb); ord_z (ctx_total_order c sb sa); ord_z (ctx_total_order c sa sa)]
                    | GErr e => [-1; Z.of_nat e]
                    end) cs) pairs,
   flat_map (fun rc => match rc with GOk c => map (ctx_fitness c) sols | GErr e => [[-1; Z.of_nat e]] end) cs).
Definition res_z2 {A} (f : A -> list (list Z) * list (list Z)) (r : gres A) : list (list Z) * list (list Z) :=
  match r with GOk a => f a | GErr e => ([[-1; Z.of_nat e]], []) end.
Definition pair_of (p : Z * Z) : nat * nat := (Z.to_nat (fst p), Z.to_nat (snd p)).
Definition run_reader (objs : option (list (Z * option (list Z) * list Z))) (has_value : bool) (paths : list (list (Z * Z)))
                      (sols : list (list Z)) (pairs : list (Z * Z)) : list (list Z) * list (list Z) :=
  res_z2 (observe_all (map path_of paths) sols (map pair_of pairs)) (read_goal (option_map (map pobj_of) objs) has_value).
(* the estimates of the main context and of every context of `paths` for moves given by the per-objective estimate vectors *)
Definition run_reader_est (objs : option (list (Z * option (list Z) * list Z))) (has_value : bool) (paths : list (list (Z * Z)))
                          (moves : list (list Z)) : list (list Z) :=
  res_z (fun c0 => flat_map (fun e => flat_map (fun p => res_z (fun c => [est_z (ctx_estimate c e)]) (follow c0 (path_of p))) paths) moves)
        (read_goal (option_map (map pobj_of) objs) has_value).
(* scientific readers: observations of the solutions (state vectors (unassigned, tours, distance)) under every path *)
Definition run_sci (prefer_min_tours : bool) (paths : list (list (Z * Z))) (sols : list (list Z)) (pairs : list (Z * Z))
  : list (list Z) * list (list Z) :=
  res_z2 (observe_all (map path_of paths) sols (map pair_of pairs)) (sci_goal_context prefer_min_tours).
