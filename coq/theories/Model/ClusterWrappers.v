(* Model of the thin wrappers that sit between the clustering algorithms and their users in the solver:
     vrp-core/src/construction/clustering/dbscan/neighbour_clusters.rs :: create_job_clusters, estimate_epsilon, get_average_costs
     vrp-core/src/construction/clustering/dbscan/mod.rs               :: get_max_curvature, job_has_locations
     vrp-core/src/algorithms/geometry/point.rs                        :: Point::distance_to_line, cross_product (see `curv_key`)
     vrp-core/src/construction/clustering/kmedoids/multi_tier_clusters.rs :: create_multi_tier_clusters
   (callers: models/problem/jobs.rs :: Jobs::new -> Jobs::clusters() -> solver/search/ruin/cluster_removal.rs, and vrp-cli analyze clusters).

   Jobs are natural numbers.  `neighbour_fn(profile, job)` is a table: one entry per fleet profile (in the order of
   `fleet.profiles`), each a list of rows indexed by job id; row = the (neighbour, cost) pairs in the order the iterator yields
   them (jobs without a row have no neighbours).  Costs are integers (f32 index costs of integer-valued data), epsilon is
   a rational.  `job_has_locations` enters the wrapper as the predicate `hasloc` (run_job_clusters computes it from the jobs' places).
   Float facts used (trusted, the generators stay inside them): sums/averages are exact when every divisor
   (taken neighbours + 1, number of profiles) is a power of two; `distance_to_line` divides every cross product by the same
   positive |first last|, so `distance > best` orders like the exact absolute cross products (`curv_key`).
   Entry points for the correspondence: run_job_clusters, run_multi_tier.  No proofs here. *)
From Coq Require Import QArith Qabs.
From VRP Require Import Base.Tac Model.Dbscan Model.KMedoids.
Local Open Scope nat_scope.

Definition nrow := list (nat * Z).                       (* what neighbour_fn(profile, job) yields *)

Definition qltb (a b : Q) : bool := negb (Qle_bool b a).   (* a < b *)

Fixpoint take_while {A : Type} (f : A -> bool) (l : list A) : list A :=
  match l with
  | [] => []
  | x :: r => if f x then x :: take_while f r else []
  end.

(* `min_points.unwrap_or(3).max(2)` *)
Definition jc_min_points (mp : option nat) : nat := Nat.max (match mp with Some m => m | None => 3 end) 2.

Definition located (hasloc : nat -> bool) (row : nrow) : nrow := filter (fun jc => hasloc (fst jc)) row.

(* the closure `neighbor_fn`: .filter(job_has_locations).take_while(cost < epsilon).map(job) *)
Definition jc_neighbours (hasloc : nat -> bool) (eps : Q) (row : nrow) : list nat :=
  map fst (take_while (fun jc => qltb (inject_Z (snd jc)) eps) (located hasloc row)).

(* the neighbourhood table handed to dbscan::create_clusters *)
Definition jc_table (hasloc : nat -> bool) (eps : Q) (prow : list nrow) : list (list nat) :=
  map (jc_neighbours hasloc eps) prow.

(* ------------------------------------------------------------------ estimate_epsilon *)
(* one (profile, job) contribution of get_average_costs: NOTE the count starts at 1, i.e. sum / (taken + 1) *)
Definition avg_cost (hasloc : nat -> bool) (minp : nat) (row : nrow) : Q :=
  let taken := firstn minp (located hasloc row) in
  inject_Z (fold_left Z.add (map snd taken) 0%Z) / inject_Z (Z.of_nat (S (length taken))).

Fixpoint qinsert (x : Q) (l : list Q) : list Q :=
  match l with
  | [] => [x]
  | y :: r => if Qle_bool x y then x :: l else y :: qinsert x r
  end.
Definition qsort (l : list Q) : list Q := fold_right qinsert [] l.
(* Vec::dedup_by(|a, b| a == b): drops an element equal to its predecessor *)
Fixpoint qdedup (l : list Q) : list Q :=
  match l with
  | [] => []
  | x :: r => match r with
              | [] => [x]
              | y :: _ => if Qeq_bool x y then qdedup r else x :: qdedup r
              end
  end.

(* get_average_costs: `jobs` is the UNFILTERED slice (jobs without locations contribute too); with no profile the code divides
   by zero (NaN) - irrelevant, the caller then returns Err *)
Definition average_costs (hasloc : nat -> bool) (rows : list (list nrow)) (jobs : list nat) (minp : nat) : list Q :=
  let raw := map (fun j => fold_left (fun acc prow => (acc + avg_cost hasloc minp (nth j prow []))%Q) rows 0%Q) jobs in
  qdedup (qsort (map (fun c => (c / inject_Z (Z.of_nat (length rows)))%Q) raw)).

(* cross_product(a, b, c) = AB x AC *)
Definition cross (a b c : Q * Q) : Q :=
  ((fst b - fst a) * (snd c - snd a) - (snd b - snd a) * (fst c - fst a))%Q.

(* |a b| * distance_to_line(p; a, b); 0 when a = b (`a_b_distance == 0.`) *)
Definition curv_key (a b p : Q * Q) : Q :=
  if Qeq_bool (fst a) (fst b) && Qeq_bool (snd a) (snd b) then 0%Q else Qabs (cross a b p).

(* get_max_curvature: fold((0., Float::MIN), |acc, p| if distance > acc.1 { (p.y, distance) } else { acc }).0 ; None = Float::MIN *)
Definition max_curvature (pts : list (Q * Q)) : Q :=
  match pts with
  | [] => 0%Q
  | first :: _ =>
    let lst := last pts first in
    fst (fold_left (fun (acc : Q * option Q) p =>
                      let dist := curv_key first lst p in
                      match snd acc with
                      | None => (snd p, Some dist)
                      | Some best => if qltb best dist then (snd p, Some dist) else acc
                      end) pts (0%Q, None))
  end.

Definition estimate_epsilon (hasloc : nat -> bool) (rows : list (list nrow)) (jobs : list nat) (minp : nat) : Q :=
  let costs := average_costs hasloc rows jobs minp in
  max_curvature (combine (map (fun i => inject_Z (Z.of_nat i)) (seq 0 (length costs))) costs).

(* ------------------------------------------------------------------ create_job_clusters *)
Inductive jres := JOk (clusters : list (list nat)) | JErr (* "cannot find any profile" *) | JFuel.

Definition jc_epsilon (hasloc : nat -> bool) (rows : list (list nrow)) (jobs : list nat) (mp : option nat) (eps : option Q) : Q :=
  match eps with Some e => e | None => estimate_epsilon hasloc rows jobs (jc_min_points mp) end.

(* the result is a Vec of HashSets: every inner list is to be read as a set; NOTHING is filtered or merged after
   dbscan::create_clusters returns *)
Definition create_job_clusters (hasloc : nat -> bool) (rows : list (list nrow)) (jobs : list nat)
                               (mp : option nat) (eps : option Q) : jres :=
  let minp := jc_min_points mp in
  let e := jc_epsilon hasloc rows jobs mp eps in
  match rows with
  | [] => JErr
  | prow0 :: _ =>                                        (* "use always first profile" *)
    match create_clusters (jc_table hasloc e prow0) minp (filter hasloc jobs) with
    | Some cs => JOk cs
    | None => JFuel
    end
  end.

(* job_has_locations: a job is the list of its sub-jobs (one for Job::Single), a sub-job the list of its places' locations *)
Definition job_has_locations (job : list (list (option nat))) : bool :=
  existsb (existsb (fun l => match l with Some _ => true | None => false end)) job.

(* correspondence entry: (code 0 ok / 1 Err / 2 fuel, epsilon used as reduced fraction, clusters);
   jl = the problem's jobs by id, rows = what Jobs::neighbors reported per fleet profile and job id, jobs = the slice passed *)
Definition run_job_clusters (jl : list (list (list (option nat)))) (rows : list (list nrow)) (jobs : list nat)
                            (mp : option nat) (eps : option Q)
  : nat * (Z * Z) * list (list nat) :=
  let hasloc := fun j => job_has_locations (nth j jl []) in
  let e := Qred (jc_epsilon hasloc rows jobs mp eps) in
  match create_job_clusters hasloc rows jobs mp eps with
  | JOk cs => (0, (Qnum e, Zpos (Qden e)), cs)
  | JErr => (1, (Qnum e, Zpos (Qden e)), [])
  | JFuel => (2, (Qnum e, Zpos (Qden e)), [])
  end.

(* ------------------------------------------------------------------ create_multi_tier_clusters *)
Definition multi_tier_ks : list nat := [2; 3; 4; 5; 8; 10; 12; 16; 32; 64].

Definition cm_is_empty (m : cmap) : bool := match m with [] => true | _ => false end.

(* points = 0..transport.size(); distance_fn = |from, to| transport.distance_approx(profile, from, to) *)
Definition create_multi_tier_clusters (d : nat -> nat -> Z) (chunks : list nat -> list (list nat)) (ord : list nat -> list nat)
                                      (size : nat) : list cmap :=
  filter (fun m => negb (cm_is_empty m))
         (map (fun k => create_kmedoids d chunks ord (seq 0 size) k)
              (filter (fun k => k <=? size / 3) multi_tier_ks)).

(* one (tie flag, canonical clusters) pair per tier *)
Definition run_multi_tier (dm : list (list Z)) (size : nat) : list (bool * cmap) :=
  filter (fun tm => negb (cm_is_empty (snd tm)))
         (map (fun k => run_kmedoids dm (seq 0 size) k) (filter (fun k => k <=? size / 3) multi_tier_ks)).
