(* Multi-trip (reload) and multi-dimensional capacity: the code that cuts a tour into intervals at marker (reload)
   activities, the per-interval load states, the capacity constraint on route and activity level, the marker placement rules,
   the interval policy hooks of the simple reload feature, and the load types.
   Rust items modelled (vrp-core/src):
     models/common/load.rs                        :: SingleDimLoad (Load, Add, Sub, PartialOrd), MultiDimLoad::{new, get, default},
                                                     Load for MultiDimLoad::{is_not_empty, max_load, can_fit}, Add / Sub / PartialOrd for
                                                     MultiDimLoad, Demand::{change, default, add}
     construction/enablers/route_intervals.rs     :: get_route_intervals, RouteIntervals::{is_marker_job, is_marker_assignable,
                                                     is_new_interval_needed, get_marker_intervals, has_markers, update_solution_intervals,
                                                     remove_trivial_markers, promote_markers_when_needed}
     construction/enablers/multi_trip.rs          :: MultiTripConstraint::{evaluate, merge}, MultiTripState::{accept_route_state,
                                                     accept_solution_state}, MarkerInsertionPolicy
     construction/features/reloads.rs             :: ReloadFeatureFactory::build (is_new_interval_needed_fn, is_obsolete_interval_fn)
     construction/features/capacity.rs            :: CapacitatedMultiTrip::{recalculate_states, evaluate_job, evaluate_activity,
                                                     has_markers, can_handle_demand_on_intervals, get_demand, merge}, has_demand_violation
     construction/enablers/feature_combinator.rs  :: accept_solution_state_with_states (the re-run loop, for this feature)
     construction/heuristics/evaluators.rs        :: eval_single / analyze_insertion_in_route(_leg) over the goal [transport; capacity]
                                                     (the scan of Model/Core.v with the activity-level evaluation as a parameter)
   The code is generic in the load type `T: LoadOps`; so is the model (`load_ops` dictionary, instances SingleOps = SingleDimLoad
   over Z and MultiOps = MultiDimLoad: the fixed array of LOAD_DIMENSION_SIZE = 8 numbers plus the `size` field).
   Reused from Model/Core.v: activities with their schedule (`act`), `eval_time`, `eval_route_time`, `cost_estimate_*`,
   `mk_target`, `leg_count`, `reschedule`; from Model/Eval.v the `world` of a case.  For SingleOps and one interval the load states ARE Core's
   `cur_states / past_states / fut_states` (lemma in Proofs/CapacityMTP.v).
   Not modelled: Load::ratio / MaxVehicleLoad tour state (a float), Mul<Float> (the threshold is an input: `thr`), Sum, Display,
   the shared-resource reload flavour, try_recover (returns false), i32 overflow (data is small).
   Unreachable panics not represented: `idx - 1` / `end_idx - 1` underflow in get_route_intervals needs a marker at index 0
   (the first activity is the vehicle start: no job); activities_slice out of range (intervals come from get_route_intervals);
   the assert_eq!(left_end + 1, right_start) in remove_trivial_markers (holds for every result of get_route_intervals).
   Entry points for the correspondence (tools/props/c06_multitrip.py), at the end of the file: run_tour (schedule, intervals,
   states), cand_single / cand_multi (route-level verdict, activity-level verdict at every leg, evaluator results / certificates),
   run_sol (accept_solution_state), run_merge, spec_check_single / spec_check_multi (Spec/Intervals.v on a visiting order).
   A case with the plain capacity feature (RouteIntervals::Single) is evaluated with has_ri = false and every marker flag false.
   No proofs in this file. *)
From VRP Require Import Base.Tac Model.Core Spec.Feasible Spec.Intervals Model.Eval.

(* ================= models/common/load.rs ================= *)
Definition LOAD_DIMENSION_SIZE : nat := 8.
Record mload := mkML { ml_load : list Z; ml_size : nat }.     (* load: [i32; 8], size: usize *)

Definition ml_default : mload := mkML (repeat 0 LOAD_DIMENSION_SIZE) 0.
(* MultiDimLoad::new; None = assert!(data.len() <= LOAD_DIMENSION_SIZE) fails *)
Definition ml_new (data : list Z) : option mload :=
  if (length data <=? LOAD_DIMENSION_SIZE)%nat
  then Some (mkML (data ++ repeat 0 (LOAD_DIMENSION_SIZE - length data)) (length data)) else None.
Definition ml_get (x : mload) (i : nat) : Z := nth i (ml_load x) 0.

(* a.iter_mut().zip(b.iter()).for_each: every element x of a with a partner y in b becomes f x y *)
Fixpoint zipw (f : Z -> Z -> Z) (a b : list Z) : list Z :=
  match a, b with
  | x :: a', y :: b' => f x y :: zipw f a' b'
  | _, _ => a
  end.

Definition ml_is_not_empty (x : mload) : bool := (ml_size x =? 0)%nat || existsb (fun v => negb (v =? 0)) (ml_load x).
Definition ml_max_load (x y : mload) : mload := mkML (zipw Z.max (ml_load x) (ml_load y)) (ml_size x).   (* keeps self.size *)
(* self.can_fit(other): all(|(a, b)| a >= b) over the whole arrays *)
Definition ml_can_fit (x y : mload) : bool := forallb (fun p => snd p <=? fst p) (combine (ml_load x) (ml_load y)).
Definition ml_add (x y : mload) : mload := mkML (zipw Z.add (ml_load x) (ml_load y)) (Nat.max (ml_size x) (ml_size y)).
Definition ml_sub (x y : mload) : mload := mkML (zipw Z.sub (ml_load x) (ml_load y)) (Nat.max (ml_size x) (ml_size y)).

Definition cmp_eqb (a b : comparison) : bool :=
  match a, b with Eq, Eq | Lt, Lt | Gt, Gt => true | _, _ => false end.
(* (0..size).try_fold(None, ...): the first dimension sets the result, any later dimension that compares differently gives None *)
Fixpoint pcmp_fold (x y : mload) (idxs : list nat) (acc : option comparison) : option comparison :=
  match idxs with
  | [] => acc
  | i :: r => let res := Z.compare (ml_get x i) (ml_get y i) in
              match acc with
              | None => pcmp_fold x y r (Some res)
              | Some a => if cmp_eqb a res then pcmp_fold x y r (Some res) else None
              end
  end.
Definition ml_partial_cmp (x y : mload) : option comparison :=
  pcmp_fold x y (seq 0 (Nat.max (ml_size x) (ml_size y))) None.      (* two empty loads: None *)

(* the operations the generic code uses (trait Load + Add + Sub + PartialOrd + Default) *)
Record load_ops : Type := mkOps {
  LT : Type;
  l_default : LT;
  l_add : LT -> LT -> LT;
  l_sub : LT -> LT -> LT;
  l_is_not_empty : LT -> bool;
  l_max_load : LT -> LT -> LT;          (* self.max_load(other) *)
  l_can_fit : LT -> LT -> bool;         (* self.can_fit(other) *)
  l_partial_cmp : LT -> LT -> option comparison
}.
Definition SingleOps : load_ops :=
  mkOps Z 0 Z.add Z.sub (fun v => negb (v =? 0)) Z.max (fun c o => o <=? c) (fun a b => Some (a ?= b)).
Definition MultiOps : load_ops :=
  mkOps mload ml_default ml_add ml_sub ml_is_not_empty ml_max_load ml_can_fit ml_partial_cmp.

Record gdemand (T : Type) := mkGD { g_ps : T; g_pd : T; g_ds : T; g_dd : T }.   (* pickup (static, dynamic), delivery (static, dynamic) *)
Arguments mkGD {T}. Arguments g_ps {T}. Arguments g_pd {T}. Arguments g_ds {T}. Arguments g_dd {T}.

Definition slice {A} (s e : nat) (l : list A) : list A := firstn (S e - s) (skipn s l).          (* activities_slice: inclusive *)
(* arr[i + k] = vals[k] *)
Definition write_at {A} (i : nat) (vals arr : list A) : list A := firstn i arr ++ vals ++ skipn (i + length vals) arr.
Definition last_opt {A} (l : list A) : option A := match rev l with [] => None | x :: _ => Some x end.

Section Generic.
Variable O : load_ops.
Notation T := (LT O).
Notation zero := (l_default O).
Notation add := (l_add O).
Notation sub := (l_sub O).

(* Demand::change: pickup.0 + pickup.1 - delivery.0 - delivery.1 *)
Definition g_change (d : gdemand T) : T := sub (sub (add (g_ps d) (g_pd d)) (g_ds d)) (g_dd d).
Definition g_demand_default : gdemand T := mkGD zero zero zero zero.
Definition g_demand_add (a b : gdemand T) : gdemand T :=
  mkGD (add (g_ps a) (g_ps b)) (add (g_pd a) (g_pd b)) (add (g_ds a) (g_ds b)) (add (g_dd a) (g_dd b)).

(* a tour activity: `ga_core` carries job id (negative: vehicle start / end, job = None), place and schedule; the a_dem field of
   the core activity is not read by this model.  ga_marker: the activity's single job satisfies is_marker_single_fn;
   ga_multi: retrieve_job() is a Multi job; ga_dem: the job's demand dimension *)
Record gact := mkGA { ga_core : act; ga_marker : bool; ga_multi : bool; ga_dem : option (gdemand T) }.

Definition get_demand (a : gact) : option (gdemand T) := if is_terminal (ga_core a) then None else ga_dem a.
Definition is_marker_act (a : gact) : bool := negb (is_terminal (ga_core a)) && ga_marker a.
Definition change_of (a : gact) : T := match get_demand a with Some d => g_change d | None => zero end.

(* ================= route_intervals.rs :: get_route_intervals ================= *)
Fixpoint route_intervals_from (idx last_idx : nat) (acts : list gact) (acc : list (nat * nat)) : list (nat * nat) :=
  match acts with
  | [] => acc
  | a :: r =>
    let m := is_marker_act a in
    let is_last := (idx =? last_idx)%nat in
    let acc' :=
      if m || is_last then
        let start_idx := match last_opt acc with Some it => (snd it + 1)%nat | None => 0%nat end in
        let end_idx := if is_last then last_idx else (idx - 1)%nat in
        if m && is_last then acc ++ [(start_idx, (end_idx - 1)%nat); (end_idx, end_idx)] else acc ++ [(start_idx, end_idx)]
      else acc in
    route_intervals_from (S idx) last_idx r acc'
  end.
Definition get_route_intervals (t : list gact) : list (nat * nat) := route_intervals_from 0 (length t - 1) t [].

(* ================= capacity.rs :: recalculate_states ================= *)
Record gstates := mkGS { gs_cur : list T; gs_past : list T; gs_fut : list T; gs_max_load : T }.

Fixpoint gcurrents (cur : T) (l : list gact) : list T :=
  match l with [] => [] | a :: r => let c := add cur (change_of a) in c :: gcurrents c r end.
Fixpoint grun_max (m : T) (l : list T) : list T :=
  match l with [] => [] | c :: r => let m' := l_max_load O m c in m' :: grun_max m' r end.

(* static deliveries loaded at the begin / static pickups brought to the end of the interval *)
Definition delivery_pickup (acc : T) (sl : list gact) : T * T :=
  fold_left (fun ac a => match get_demand a with
                         | Some d => (add (fst ac) (g_ds d), add (snd ac) (g_ps d))
                         | None => ac
                         end) sl (acc, zero).

(* one step of the fold over marker_intervals: ((acc, max), arrays) *)
Definition interval_step (t : list gact) (st : T * T * (list T * list T * list T)) (iv : nat * nat)
  : T * T * (list T * list T * list T) :=
  let '(acc, mx, (cur, past, fut)) := st in
  let '(s, e) := iv in
  let sl := slice s e t in
  let '(start_delivery, end_pickup) := delivery_pickup acc sl in
  let cs := gcurrents start_delivery sl in
  let current := last cs start_delivery in
  let ps := grun_max zero cs in
  let fs := rev (grun_max current (rev cs)) in
  let current_max := hd current fs in
  (sub current end_pickup, l_max_load O current_max mx, (write_at s cs cur, write_at s ps past, write_at s fs fut)).

Definition recalculate_states (ivs : list (nat * nat)) (t : list gact) : gstates :=
  let n := length t in
  let '(_, max_load, (cur, past, fut)) :=
    fold_left (interval_step t) ivs (zero, zero, (repeat zero n, repeat zero n, repeat zero n)) in
  mkGS cur past fut max_load.

(* a route as the constraint sees it: tour, vehicle capacity dimension (None: not set for this load type), the intervals stored
   by accept_route_state (None: RouteIntervals::Single), the cached states *)
Record groute := mkGR { gr_acts : list gact; gr_cap : option T; gr_ivs : option (list (nat * nat)); gr_st : gstates }.

(* MultiTripState::accept_route_state *)
Definition accept_route_state (has_ri : bool) (cap : option T) (t : list gact) : groute :=
  let ivs := if has_ri then Some (get_route_intervals t) else None in
  let marker_intervals := match ivs with Some i => i | None => [(0%nat, (length t - 1)%nat)] end in
  mkGR t cap ivs (recalculate_states marker_intervals t).

(* ================= capacity.rs :: has_demand_violation ================= *)
Definition st_at (l : list T) (i : nat) : T := nth i l zero.      (* get_..._at(idx).copied().unwrap_or_default() *)

Definition has_demand_violation (r : groute) (pivot : nat) (demand : option (gdemand T)) (stopped : bool) : option bool :=
  match demand with
  | None => None
  | Some d =>
    match gr_cap r with
    | None => Some stopped
    | Some cap =>
      let st := gr_st r in
      if l_is_not_empty O (g_ds d) && negb (l_can_fit O cap (add (st_at (gs_past st) pivot) (g_ds d))) then Some stopped else
      if l_is_not_empty O (g_ps d) && negb (l_can_fit O cap (add (st_at (gs_fut st) pivot) (g_ps d))) then Some false else
      let c := g_change d in
      if l_is_not_empty O c then
        if negb (l_can_fit O cap (add (st_at (gs_fut st) pivot) c)) then Some false else
        if negb (l_can_fit O cap (add (st_at (gs_cur st) pivot) c)) then Some false else None
      else None
    end
  end.

Definition is_none {A} (o : option A) : bool := match o with None => true | Some _ => false end.

(* CapacitatedMultiTrip::can_handle_demand_on_intervals *)
Definition can_handle_demand_on_intervals (r : groute) (demand : option (gdemand T)) (insert_idx : option nat) : bool :=
  let hdv := fun i => has_demand_violation r i demand true in
  let on_borders := fun s e => is_none (hdv s) || is_none (hdv e) in
  match gr_ivs r with
  | Some ivs =>
    match insert_idx with
    | Some i => forallb (fun iv => is_none (hdv (Nat.max i (fst iv)))) (filter (fun iv => (i <=? snd iv)%nat) ivs)
    | None => existsb (fun iv => on_borders (fst iv) (snd iv)) ivs
    end
  | None =>
    match insert_idx with
    | Some i => is_none (hdv i)
    | None => on_borders 0%nat (length (gr_acts r) - 1)%nat        (* tour.end_idx().unwrap_or_default() *)
    end
  end.

Definition has_markers (r : groute) : bool := match gr_ivs r with Some ivs => (1 <? length ivs)%nat | None => false end.

(* jobs *)
Record gsingle := mkGSi {
  gj_single : single;          (* id, places (Core); its s_dem field is not read *)
  gj_marker : bool;            (* is_marker_single_fn *)
  gj_assignable : bool;        (* is_assignable_fn(route, job): policy hook of the feature's user *)
  gj_dem : option (gdemand T)
}.
Inductive gjob := GSingle (s : gsingle) | GMulti (subs : list gsingle).

Definition is_marker_job (j : gjob) : bool := match j with GSingle s => gj_marker s | GMulti _ => false end.
Definition is_marker_assignable (j : gjob) : bool :=
  match j with GSingle s => gj_marker s && gj_assignable s | GMulti _ => false end.

(* CapacitatedMultiTrip::evaluate_job: Some stopped-flag = violation *)
Definition cap_evaluate_job (r : groute) (j : gjob) : option bool :=
  let can_handle := match j with
                    | GSingle s => can_handle_demand_on_intervals r (gj_dem s) None
                    | GMulti subs => existsb (fun s => can_handle_demand_on_intervals r (gj_dem s) None) subs
                    end in
  if can_handle then None else Some true.

(* CapacitatedMultiTrip::evaluate_activity *)
Definition cap_evaluate_activity (r : groute) (idx : nat) (target : gact) : option bool :=
  let demand := get_demand target in
  if ga_multi target
  then (if can_handle_demand_on_intervals r demand (Some idx) then None else Some false)
  else has_demand_violation r idx demand (negb (has_markers r)).

(* ================= multi_trip.rs :: MultiTripConstraint::evaluate ================= *)
Inductive marker_policy := PolicyAny | PolicyLast.

Definition mt_evaluate_job (r : groute) (j : gjob) : option bool :=
  if is_marker_job j then (if is_marker_assignable j then None else Some true)
  else cap_evaluate_job r j.

(* prev = activity at idx, next = the one after it (None: open tour, insertion after the last activity) *)
Definition mt_evaluate_activity (policy : marker_policy) (r : groute) (idx : nat) (target : gact) : option bool :=
  let marker_rule :=
    if is_marker_act target then
      match policy with
      | PolicyAny => false
      | PolicyLast =>
        let is_first := match nth_error (gr_acts r) idx with Some p => is_terminal (ga_core p) | None => true end in
        let is_not_last := match nth_error (gr_acts r) (S idx) with Some n => negb (is_terminal (ga_core n)) | None => false end in
        is_first || is_not_last
      end
    else false in
  if marker_rule then Some false else cap_evaluate_activity r idx target.

(* MultiTripConstraint::merge over CapacitatedMultiTrip::merge: Some job = Ok, None = Err(code) *)
Definition mt_merge (source candidate : gjob) : option gjob :=
  if is_marker_job source || is_marker_job candidate then None else
  match source, candidate with
  | GSingle s, GSingle c =>
    match gj_dem s, gj_dem c with
    | None, None | Some _, None => Some source
    | sd, cd =>
      let sd' := match sd with Some d => d | None => g_demand_default end in
      let cd' := match cd with Some d => d | None => g_demand_default end in
      Some (GSingle (mkGSi (gj_single s) (gj_marker s) (gj_assignable s) (Some (g_demand_add sd' cd'))))
    end
  | _, _ => None
  end.

(* ================= reloads.rs :: the interval policy hooks of the simple reload feature ================= *)
(* is_new_interval_needed_fn; thr = load_schedule_threshold_fn(vehicle capacity or default) *)
Definition is_new_interval_needed (thr : T) (r : groute) : bool :=
  match gr_acts r with
  | [] => false                                                             (* tour.end_idx() = None *)
  | _ => let current := st_at (gs_past (gr_st r)) (length (gr_acts r) - 1) in
         match l_partial_cmp O current thr with Some Lt => false | _ => true end
  end.

Definition fold_demand (t : list gact) (s e : nat) (f : gdemand T -> T) : T :=
  fold_left (fun acc a => match get_demand a with Some d => add acc (f d) | None => acc end) (slice s e t) zero.

(* is_obsolete_interval_fn(route_ctx, left.0..left.1, right.0..right.1) *)
Definition is_obsolete_interval (r : groute) (lft rgt : nat * nat) : bool :=
  let capacity := match gr_cap r with Some c => c | None => zero end in
  let t := gr_acts r in
  let left_pickup := fold_demand t (fst lft) (snd lft) g_ps in
  let right_delivery := fold_demand t (fst rgt) (snd rgt) g_ds in
  let new_max_load_left := add (st_at (gs_fut (gr_st r)) (fst lft)) right_delivery in
  let new_max_load_right := add (st_at (gs_fut (gr_st r)) (fst rgt)) left_pickup in
  l_can_fit O capacity new_max_load_left && l_can_fit O capacity new_max_load_right.

(* remove_trivial_markers on one route: index of the marker activity that is removed (the first obsolete pair only) *)
Fixpoint first_obsolete (r : groute) (ivs : list (nat * nat)) : option nat :=
  match ivs with
  | lft :: ((rgt :: _) as rest) => if is_obsolete_interval r lft rgt then Some (fst rgt) else first_obsolete r rest
  | _ => None
  end.
Definition trivial_marker (r : groute) : option nat :=
  if has_markers r then first_obsolete r (match gr_ivs r with Some i => i | None => [] end) else None.
Definition remove_at {A} (i : nat) (l : list A) : list A := firstn i l ++ skipn (S i) l.

(* MultiTripState::accept_solution_state on a solution with ONE route, seen through the marker jobs that are not in the tour:
   `req` / `ign` = how many assignable ones are in required / ignored, `other` = how many non-assignable ones (they move
   between the two lists but are never promoted).  Returns the new tour and counters. *)
Record msol := mkMSol { ms_acts : list gact; ms_req : nat; ms_ign : nat; ms_other_req : nat; ms_other_ign : nat }.

Definition accept_solution_pass (has_ri : bool) (cap : option T) (thr : T) (s : msol) : msol :=
  if has_ri then
    (* process_conditional_jobs: every marker job leaves `required` *)
    let ign := (ms_ign s + ms_req s)%nat in
    let oign := (ms_other_ign s + ms_other_req s)%nat in
    (* stale routes: accept_route_state *)
    let r := accept_route_state has_ri cap (ms_acts s) in
    (* promote_markers_when_needed *)
    let '(req', ign') := if is_new_interval_needed thr r then (ign, 0%nat) else (0%nat, ign) in
    (* remove_trivial_markers: the removed marker job goes to `ignored` (the tour's markers are assignable to their route) *)
    match trivial_marker r with
    | Some i => mkMSol (remove_at i (ms_acts s)) req' (S ign') 0 oign
    | None => mkMSol (ms_acts s) req' ign' 0 oign
    end
  else s.                                  (* RouteIntervals::Single: no job is a marker job, update_solution_intervals does nothing *)

(* accept_solution_state_with_states: passes are repeated while the sizes of required / ignored change; 100 passes: assert *)
Fixpoint accept_solution_loop (fuel : nat) (has_ri : bool) (cap : option T) (thr : T) (s : msol) : option msol :=
  match fuel with
  | 0%nat => None                                                           (* assert_ne!(counter, 100) *)
  | S f => let s' := accept_solution_pass has_ri cap thr s in
           if ((ms_req s' + ms_other_req s' =? ms_req s + ms_other_req s)%nat && (ms_ign s' + ms_other_ign s' =? ms_ign s + ms_other_ign s)%nat)
           then Some s' else accept_solution_loop f has_ri cap thr s'
  end.

(* ================= the goal [transport (code 1); capacity (code 2)] on activity level, and the scan ================= *)
Section Eval.
Variable dur dist : Z -> Z -> Z.

Definition cores (t : list gact) : list act := map ga_core t.
Definition set_core (a : gact) (c : act) : gact := mkGA c (ga_marker a) (ga_multi a) (ga_dem a).
Fixpoint set_cores (t : list gact) (cs : list act) : list gact :=
  match t, cs with a :: t', c :: cs' => set_core a c :: set_cores t' cs' | _, _ => [] end.
(* update_schedules of the transport feature *)
Definition greschedule (t : list gact) : list gact := set_cores t (reschedule dur (cores t)).

Definition target_of (j : gsingle) (multi : bool) (core : act) : gact := mkGA core (gj_marker j) multi (gj_dem j).

Definition goal_evaluate_activity (v : vehicle) (policy : marker_policy) (r : groute) (idx : nat) (target : gact) : option (Z * bool) :=
  let t := cores (gr_acts r) in
  let prev := nth idx t (ga_core target) in
  let nexts := skipn (S idx) t in
  match eval_time dur v prev (ga_core target) nexts with
  | Some s => Some (1, s)
  | None => match mt_evaluate_activity policy r idx target with Some s => Some (2, s) | None => None end
  end.

(* analyze_insertion_in_route_leg: windows of one place; (ctx, stop) — Core.scan_windows with the goal of this file *)
Fixpoint gscan_windows (v : vehicle) (policy : marker_policy) (r : groute) (idx : nat) (j : gsingle) (multi : bool) (pi : nat) (p : place)
         (route_cost : Z) (ws : list (Z * Z)) (c : sctx) : sctx * bool :=
  match ws with
  | [] => (c, false)
  | w :: ws' =>
    let t := cores (gr_acts r) in
    let prev := nth idx t (mkAct (-1) 0 0 0 0 dzero 0 0) in
    let target := mk_target (gj_single j) prev p w in
    match goal_evaluate_activity v policy r idx (target_of j multi target) with
    | Some (code, stopped) =>
      let c' := mkSctx (Some (code, stopped)) (sc_index c) (sc_cost c) (sc_place c) in
      if stopped then (c', true) else gscan_windows v policy r idx j multi pi p route_cost ws' c'
    | None =>
      let costs := cost_estimate_activity dur dist v t idx target + route_cost in
      let better := match sc_cost c with Some o => costs <? o | None => true end in
      let c' := if better
                then mkSctx None idx (Some costs) (Some (pi, a_loc target, a_svc target, a_tws target, a_twe target))
                else c in
      gscan_windows v policy r idx j multi pi p route_cost ws' c'
    end
  end.

Fixpoint gscan_places (v : vehicle) (policy : marker_policy) (r : groute) (idx : nat) (j : gsingle) (multi : bool) (pi : nat)
         (route_cost : Z) (ps : list place) (c : sctx) : sctx * bool :=
  match ps with
  | [] => (c, false)
  | p :: ps' =>
    let '(c', stop) := gscan_windows v policy r idx j multi pi p route_cost (p_tws p) c in
    if stop then (c', true) else gscan_places v policy r idx j multi (S pi) route_cost ps' c'
  end.

Fixpoint gscan_legs (v : vehicle) (policy : marker_policy) (r : groute) (j : gsingle) (multi : bool) (route_cost : Z) (idx n : nat) (c : sctx) : sctx :=
  match n with
  | 0%nat => c
  | S n' => let '(c', stop) := gscan_places v policy r idx j multi 0 route_cost (s_places (gj_single j)) c in
            if stop then c' else gscan_legs v policy r j multi route_cost (S idx) n' c'
  end.

Definition ganalyze (v : vehicle) (policy : marker_policy) (closed : bool) (r : groute) (j : gsingle) (pos : position) (route_cost : Z) : sctx :=
  let init := mkSctx None 0 None None in
  let n := leg_count closed (cores (gr_acts r)) in
  match pos with
  | PAny => gscan_legs v policy r j false route_cost 0 n init
  | PConcrete i => if (i <? n)%nat then fst (gscan_places v policy r i j false 0 route_cost (s_places (gj_single j)) init) else init
  | PLast => let i := (Nat.max n 1 - 1)%nat in
             if (i <? n)%nat then fst (gscan_places v policy r i j false 0 route_cost (s_places (gj_single j)) init) else init
  end.

(* goal.evaluate(MoveContext::route): transport first, then the multi-trip capacity constraint *)
Definition goal_evaluate_route (v : vehicle) (shift_start : Z) (r : groute) (j : gjob) : option (Z * bool) :=
  let time_ok := match j with
                 | GSingle s => eval_route_time (shift_start, v_shift_end v) (gj_single s)
                 | GMulti subs => forallb (fun s => eval_route_time (shift_start, v_shift_end v) (gj_single s)) subs
                 end in
  if negb time_ok then Some (1, true) else
  match mt_evaluate_job r j with Some s => Some (2, s) | None => None end.

(* eval_job_insertion_in_route for a single job (alternative = plain failure, job not in `unassigned`) *)
Definition geval_single (v : vehicle) (policy : marker_policy) (shift_start : Z) (closed : bool) (r : groute) (j : gsingle) (pos : position)
  : eval_result :=
  match goal_evaluate_route v shift_start r (GSingle j) with
  | Some (code, _) => EFailure code true
  | None =>
    let res := ganalyze v policy closed r j pos (cost_estimate_route v (cores (gr_acts r))) in
    match sc_place res with
    | Some p => ESuccess (sc_index res) p (match sc_cost res with Some c => c | None => 0 end)
    | None => match sc_viol res with Some (code, st) => EFailure code st | None => EFailure (-1) false end
    end
  end.

End Eval.
End Generic.

Arguments mkGA {O}. Arguments ga_core {O}. Arguments ga_marker {O}. Arguments ga_multi {O}. Arguments ga_dem {O}.
Arguments mkGS {O}. Arguments gs_cur {O}. Arguments gs_past {O}. Arguments gs_fut {O}. Arguments gs_max_load {O}.
Arguments mkGR {O}. Arguments gr_acts {O}. Arguments gr_cap {O}. Arguments gr_ivs {O}. Arguments gr_st {O}.
Arguments mkGSi {O}. Arguments gj_single {O}. Arguments gj_marker {O}. Arguments gj_assignable {O}. Arguments gj_dem {O}.
Arguments GSingle {O}. Arguments GMulti {O}.
Arguments mkMSol {O}. Arguments ms_acts {O}. Arguments ms_req {O}. Arguments ms_ign {O}. Arguments ms_other_req {O}. Arguments ms_other_ign {O}.

(* ================= projection to the one-dimensional activities of Spec/Intervals.v ================= *)
(* `get` reads one dimension of a load; a marker activity becomes a reload activity of the specification *)
Definition ginsert_after {A} (t : list A) (idx : nat) (a : A) : list A := firstn (S idx) t ++ a :: skipn (S idx) t.

Section Proj.
Variable O : load_ops.
Variable get : LT O -> Z.
Definition proj_demand (d : option (gdemand (LT O))) : demand :=
  match d with Some d => mkDemand (get (g_ps d)) (get (g_pd d)) (get (g_ds d)) (get (g_dd d)) | None => dzero end.
Definition proj_act (a : gact O) : act :=
  let c := ga_core a in
  mkAct (if is_terminal c then -1 else if ga_marker a then RELOAD_JOB else a_job c)
        (a_loc c) (a_svc c) (a_tws c) (a_twe c) (proj_demand (get_demand O a)) (a_arr c) (a_dep c).
Definition proj_tour (t : list (gact O)) : list act := map proj_act t.
End Proj.
Definition get_single (x : Z) : Z := x.
Definition get_dim (d : nat) (x : mload) : Z := ml_get x d.

(* ================= entry points of the correspondence ================= *)
Section Run.
Variable O : load_ops.
Notation T := (LT O).
Variable show : T -> list Z * nat.        (* rendering of a load: SingleDimLoad ([v], 1), MultiDimLoad (load, size) *)

(* tour activity description: core data (job id, loc, svc, tws, twe, unused demand), marker?, demand dimension *)
Definition gtact : Type := tact * bool * option (gdemand T).

Definition build_gtour (w : world) (acts : list gtact) : list (gact O) :=
  greschedule O (wdur w)
    (mkGA (start_act w) false false None
     :: map (fun d : gtact => mkGA (act_of (fst (fst d))) (snd (fst d)) false (snd d)) acts
     ++ map (fun e => mkGA e false false None) (end_acts w)).

Definition verdict_out (v : option (Z * bool)) : list Z :=
  match v with None => [] | Some (c, s) => [c; if s then 1 else 0] end.
Definition ids_out (t : list (gact O)) : list Z := map (fun a => a_job (ga_core a)) t.
Definition states_out (r : groute O) : list (list (list Z * nat)) :=
  [map show (gs_cur (gr_st r)); map show (gs_past (gr_st r)); map show (gs_fut (gr_st r))].

Definition run_tour (w : world) (has_ri : bool) (cap : option T) (acts : list gtact) :=
  let t := build_gtour w acts in
  let r := accept_route_state O has_ri cap t in
  (sched_out (cores O t), match gr_ivs r with Some i => i | None => [] end, states_out r, show (gs_max_load (gr_st r))).

(* activity-level verdict of the goal at every leg, first place / first window of the (sub-)job *)
Definition probes (w : world) (policy : marker_policy) (r : groute O) (j : gsingle O) (multi : bool) (sub : nat) : list (list Z) :=
  map (fun idx =>
         let prev := nth idx (cores O (gr_acts r)) (start_act w) in
         match s_places (gj_single j) with
         | p :: _ => match p_tws p with
                     | win :: _ => [Z.of_nat sub; Z.of_nat idx]
                                   ++ verdict_out (goal_evaluate_activity O (wdur w) (w_veh w) policy r idx
                                                     (target_of O j multi (mk_target (gj_single j) prev p win)))
                     | [] => []
                     end
         | [] => []
         end)
      (seq 0 (leg_count (closed w) (cores O (gr_acts r)))).

(* a candidate: route-level verdict, probes, results of the evaluator for the listed positions *)
Definition cand_single (w : world) (has_ri : bool) (cap : option T) (policy : marker_policy) (acts : list gtact) (j : gsingle O)
           (positions : list position) :=
  let r := accept_route_state O has_ri cap (build_gtour w acts) in
  (verdict_out (goal_evaluate_route O (w_veh w) (w_shift_start w) r (GSingle j)),
   probes w policy r j false 0,
   map (fun pos => res_out (geval_single O (wdur w) (wdist w) (w_veh w) policy (w_shift_start w) (closed w) r j pos)) positions).

(* multi job: the implementation's results are certificates (activity, index) replayed on the shadow route (eval_multi's
   ShadowContext: insert_at + accept_route_state after every step); [ok; cost] per certificate *)
Fixpoint gcert_steps (w : world) (has_ri : bool) (cap : option T) (policy : marker_policy) (t : list (gact O)) (steps : list (nat * gact O))
  : bool * Z * list (gact O) :=
  match steps with
  | [] => (true, 0, t)
  | (idx, a) :: rest =>
    let r := accept_route_state O has_ri cap t in
    if (idx <? length t)%nat then
      match goal_evaluate_activity O (wdur w) (w_veh w) policy r idx a with
      | None =>
        let c := cost_estimate_activity (wdur w) (wdist w) (w_veh w) (cores O t) idx (ga_core a) in
        let '(ok, cost, t') := gcert_steps w has_ri cap policy (greschedule O (wdur w) (ginsert_after t idx a)) rest in
        (ok, c + cost, t')
      | Some _ => (false, 0, t)
      end
    else (false, 0, t)
  end.

Definition sub_probes (w : world) (policy : marker_policy) (r : groute O) (subs : list (gsingle O)) : list (list Z) :=
  concat (map (fun p : nat * gsingle O => probes w policy r (snd p) true (fst p)) (combine (seq 0 (length subs)) subs)).

Definition cand_multi (w : world) (has_ri : bool) (cap : option T) (policy : marker_policy) (acts : list gtact) (subs : list (gsingle O))
           (certs : list (list (nat * gact O))) :=
  let t := build_gtour w acts in
  let r := accept_route_state O has_ri cap t in
  (verdict_out (goal_evaluate_route O (w_veh w) (w_shift_start w) r (GMulti subs)),
   sub_probes w policy r subs,
   map (fun steps => let '(ok, cost, _) := gcert_steps w has_ri cap policy t steps in
                     [if ok then 1 else 0; cost_estimate_route (w_veh w) (cores O t) + cost]) certs).

(* accept_solution_state on a solution holding this one route; n_assignable / n_other unassigned marker jobs wait in `ignored` *)
Definition run_sol (w : world) (has_ri : bool) (cap : option T) (thr : T) (acts : list gtact) (n_assignable n_other : nat) :=
  match accept_solution_loop O 100 has_ri cap thr (mkMSol (build_gtour w acts) 0 n_assignable 0 n_other) with
  | Some s => (1, ids_out (ms_acts s), [ms_req s; ms_ign s; ms_other_req s; ms_other_ign s])
  | None => (0, [], [])
  end.

Definition demand_out (d : option (gdemand T)) : list (list Z * nat) :=
  match d with Some d => [show (g_ps d); show (g_pd d); show (g_ds d); show (g_dd d)] | None => [] end.
Definition run_merge (a b : gjob O) :=
  match mt_merge O a b with
  | Some (GSingle s) => (1, s_id (gj_single s), demand_out (gj_dem s))
  | Some (GMulti _) => (1, -2, [])
  | None => (0, 0, [])
  end.

End Run.

Definition show_single (x : Z) : list Z * nat := ([x], 1%nat).
Definition show_multi (x : mload) : list Z * nat := (ml_load x, ml_size x).
Definition ml_of (data : list Z) : mload := match ml_new data with Some x => x | None => ml_default end.

(* the property evaluated by the verified checker of Spec/Intervals.v on a visiting order (implementation output): per
   dimension, feasibility and the loads after every activity *)
Definition spec_check_multi (caps : list Z) (t : list (gact MultiOps)) : list (bool * list Z) :=
  map (fun d => let pt := proj_tour MultiOps (get_dim d) t in (ivl_load_feasible (nth d caps 0) pt, ivl_loads_of pt))
      (seq 0 LOAD_DIMENSION_SIZE).
Definition spec_check_single (cap : Z) (t : list (gact SingleOps)) : list (bool * list Z) :=
  let pt := proj_tour SingleOps get_single t in [(ivl_load_feasible cap pt, ivl_loads_of pt)].
