(* C12: executable model of the BUNDLED solution checker, vrp-pragmatic/src/checker/*.rs, rule by rule, AS WRITTEN
   (early exits, `try_for_each` = first error only, `windows(2)` on stops, skipped first stop, `idx - 1` on usize = Panic,
   tolerance `abs() > 1`, statistic fields that are read), over the reduced document types of Spec/Valid.v.  No proofs here
   (Proofs/CheckerP.v); the tie to the code is tools/props/c12_rules.py: `run_rules` is evaluated by vm_compute on every
   (problem, solution) pair of the C12 campaign, base and breached, and compared with the error list of the real checker.

   Rust items modelled (file :: fn):
     checker/mod.rs      :: CheckerContext::check (order of the groups; the HashSet de-duplication is invisible at class level),
                            get_vehicle, get_vehicle_shift (the shift is found BY TIME, not by shiftIndex), get_activity_time,
                            get_activity_location, get_activity_type, visit_job, match_job_task, get_matrix_data
     checker/limits.rs   :: check_limits, check_shift_limits, check_shift_time, check_recharge_limits (no recharges in the
                            fragment: only its get_vehicle_shift errors)
     checker/capacity.rs :: check_vehicle_load, check_vehicle_load_assignment, get_intervals, get_activities_from_interval,
                            is_reload_stop, get_demand, check_resource_consumption (no resource ids in the fragment: only its
                            calls of get_intervals, i.e. its panics)
     checker/routing.rs  :: check_routing, check_routing_rules, check_stop_statistic, check_tour_statistic,
                            check_solution_statistic, skip_distance_check
     checker/assignment.rs :: check_assignment, check_vehicles, check_jobs_presence, check_groups
                            (check_jobs_match = activity_matcher.rs is NOT modelled: class EJobsMatch never comes out of the model
                            and is excluded from the comparison)
     checker/relations.rs :: check_relations, check_relations_assignment, get_tour_by_vehicle_id, get_activity_ids, intersection
     checker/breaks.rs   :: check_breaks / check_break_assignment, FIRST PART only (matched count, break time, break location,
                            as_leg_info_with_break, get_break_time_window); the amount rule reads the break `policy` and the
                            document's `violations`, which the reduced types do not carry: see brk_tour_front
     vrp-core models/common/load.rs :: MultiDimLoad add / sub / can_fit / eq (zero padded vectors; `eq` of two loads of size 0 is
                            false in the code - every stop of a generated document reports at least one dimension)
   Entry point used by the correspondence: run_rules_t (the six results as a tuple).  The tail of the file holds the fragment
   predicates and the declarative stop-level rules (RoutingRule, stops_in_shift) the theorems of Properties/C12.v are stated with.

   Rendering assumptions (tools/props/e2e.py, trusted): the `jobId` of a departure / arrival / break / reload activity is its type
   name (they are rendered -1 / -1 / BREAK_JOB / RELOAD_JOB; relations see them as REL_DEPARTURE / REL_ARRIVAL / BREAK_JOB /
   RELOAD_JOB); the problem uses exactly the locations 0 .. pr_n - 1 (CoordIndex knows a location iff it is in that range); one
   routing profile without scale, one matrix without timestamp; job ids are unique (HashMap job_map); every optional break has
   at least one place (its `time` is carried by the places' single window); no required breaks, recharges, resources, clustering.
   Errors are compared at the level of the message PREFIX (eclass), never the text. *)
From VRP Require Import Base.Tac Model.Core Spec.Feasible Spec.Intervals Spec.Valid Spec.Relations.

(* ------------------------------------------------------------------ results *)
Inductive eclass :=
(* mod.rs (shared by several groups) *)
| ENoVehicle             (* "cannot find vehicle with id" *)
| ENoShift               (* "cannot find shift for tour with vehicle if" *)
| ENoFirstActivity       (* "cannot get first activity" / "cannot get last activity" *)
| ENoJob                 (* "cannot find job with id '...'" (get_activity_type) *)
| ENoBreak               (* "cannot find break for tour" *)
| ENoReload              (* "cannot find reload for tour" *)
| ENoRecharge            (* "cannot find recharge for tour" *)
| EUnknownActivityType   (* "unknown activity type" *)
| EMultiJobTag           (* "checker requires that multi job activity must have tag" *)
| ENoJobPlace            (* "cannot match activity to job place" *)
| ENoCoordinate          (* "cannot find coordinate in coord index" *)
| EMatrixBounds          (* "attempt to get value out of bounds" *)
(* capacity.rs *)
| ELoadExceeds           (* "load exceeds capacity in tour" *)
| ELoadMismatch          (* "load mismatch at stop(s)" *)
(* limits.rs *)
| EMaxDistance           (* "max distance limit violation" *)
| EMaxDuration           (* "shift time limit violation" *)
| ETourSize              (* "tour size limit violation" *)
| EShiftTime             (* "tour time is outside shift time" *)
| EEmptyTour             (* "empty tour" *)
(* routing.rs *)
| ENoActivities          (* "no activities in first stop" *)
| EArrival               (* "arrival time mismatch for N stop" *)
| EStopDistance          (* "distance mismatch for N stop" *)
| ETourDistance          (* "distance mismatch for tour statistic" *)
| ETourDuration          (* "duration mismatch for tour statistic" *)
| ESolutionStat          (* "solution statistic mismatch" *)
(* assignment.rs *)
| EUnknownVehicle        (* "used vehicle with unknown id" *)
| EVehicleTwice          (* "vehicle with '..' id used more than once for shift" *)
| EMultipleTours         (* "job served in multiple tours" *)
| EUsedJobUnknown        (* "cannot find job with id ..." (check_jobs_presence; no quotes around the id) *)
| ETasksCount            (* "not all tasks served for" *)
| EPickupAfterDelivery   (* "found pickup after delivery for" *)
| EUnassignedDup         (* "duplicated job ids in the list of unassigned jobs" *)
| EUnassignedUnknown     (* "unknown job id in the list of unassigned jobs" *)
| EBoth                  (* "job present as assigned and unassigned" *)
| EJobCount              (* "amount of jobs present in problem and solution doesn't match" *)
| EGroups                (* "job groups are not respected" *)
| EJobsMatch             (* "cannot match activities to jobs" - check_jobs_match, NOT modelled *)
(* relations.rs *)
| ERelNoTour             (* "cannot find tour for" *)
| ERelUnknownJob         (* "relation has unknown job id" *)
| ERelDuplicated         (* "relation N contains duplicated ids" *)
| ERelStrict             (* "relation N does not follow strict rule" *)
| ERelSequence           (* "relation N does not follow sequence rule" *)
| ERelAny                (* "relation N has jobs assigned to another tour" *)
(* breaks.rs *)
| EBreakTime             (* "break visit time ... is invalid" *)
| EBreakLocation         (* "break location ... is invalid" *)
| EBreakMatched          (* "cannot match all breaks" *)
| EBreakAmount           (* "amount of breaks does not match" - NOT modelled *).

Inductive ptag :=
| PSubOverflow           (* "attempt to subtract with overflow": capacity.rs get_intervals `*idx - 1` / `end_idx - start_idx + 1` *)
| PWindowsZero           (* "window size must be non-zero": breaks.rs `activities.windows(len.min(2))` on a stop without activities *).

(* a value or the error of a `?` *)
Inductive kres (A : Type) := KOk (a : A) | KErr (e : eclass).
Arguments KOk {A} a.
Arguments KErr {A} e.
Definition kbind {A B} (x : kres A) (f : A -> kres B) : kres B := match x with KOk a => f a | KErr e => KErr e end.

(* one rule function (GenericResult<()>): Ok, ONE error message, or a panic.  Where the message that comes out depends on
   HashMap iteration order (two loops of check_jobs_presence) the model lists every candidate: exactly one of them is reported. *)
Inductive rres := ROk | RErr (candidates : list eclass) | RPanic (t : ptag).
(* one rule group (Result<(), Vec<GenericError>> of combine_error_results): the errors of its rule functions, in order *)
Inductive cres := COk | CErr (errs : list (list eclass)) | CPanic (t : ptag).

Definition of_kres (x : kres unit) : rres := match x with KOk _ => ROk | KErr e => RErr [e] end.
(* combine_error_results(&[r1, r2, ...]): the array is evaluated left to right (a panic of any element is a panic) *)
Fixpoint combine_results (l : list rres) : cres :=
  match l with
  | [] => COk
  | r :: rest =>
    match r with
    | RPanic t => CPanic t
    | ROk => combine_results rest
    | RErr c => match combine_results rest with COk => CErr [c] | CErr cs => CErr (c :: cs) | CPanic t => CPanic t end
    end
  end.

(* Iterator::try_for_each over the tours: the first error *)
Fixpoint try_each {A} (f : A -> kres unit) (l : list A) : kres unit :=
  match l with [] => KOk tt | x :: r => match f x with KOk _ => try_each f r | KErr e => KErr e end end.

Definition enum {A} (l : list A) : list (nat * A) := combine (seq 0 (length l)) l.

(* ------------------------------------------------------------------ mod.rs: CheckerContext helpers *)
Definition get_vehicle (P : pproblem) (v : Z) : kres pvtype :=
  match find (fun vt => zmem v (vt_vehicles vt)) (pr_fleet P) with Some vt => KOk vt | None => KErr ENoVehicle end.

(* TimeWindow::intersects (inclusive) *)
Definition tw_intersects (a b : Z * Z) : bool := (fst a <=? snd b) && (fst b <=? snd a).
Definition shift_end_time (sh : pshift) : Z := match sh_end sh with Some (_, latest) => latest | None => INF end.

(* get_vehicle_shift: the FIRST shift of the vehicle whose [start.earliest, end.latest] intersects [arrival at the first stop,
   arrival at the last stop]; tour.shift_index is not looked at *)
Definition get_vehicle_shift (P : pproblem) (t : stour) : kres pshift :=
  match to_stops t with
  | [] => KErr ENoFirstActivity
  | f :: _ =>
    let l := last (to_stops t) f in
    kbind (get_vehicle P (to_vehicle t)) (fun vt =>
      match find (fun sh => tw_intersects (sh_earliest sh, shift_end_time sh) (ss_arr f, ss_arr l)) (vt_shifts vt) with
      | Some sh => KOk sh
      | None => KErr ENoShift
      end)
  end.

Definition act_time (st : sstop) (a : sact) : Z * Z := match sa_time a with Some t => t | None => (ss_arr st, ss_dep st) end.
Definition act_loc (st : sstop) (a : sact) : Z := match sa_loc a with Some l => l | None => ss_loc st end.

(* breaks.rs get_break_time_window: an offset interval is taken relative to the DEPARTURE OF THE FIRST STOP *)
Definition bk_window (b : pbreak) : Z * Z := match bk_places b with p :: _ => hd (0, 0) (pl_tws p) | [] => (0, 0) end.
Definition first_stop_departure (t : stour) : option Z := match to_stops t with f :: _ => Some (ss_dep f) | [] => None end.
Definition break_tw (t : stour) (b : pbreak) : option (Z * Z) :=
  match first_stop_departure t with
  | None => None
  | Some dep => let w := bk_window b in Some (if bk_offset b then (dep + fst w, dep + snd w) else w)
  end.

Inductive atype := ATerminal | AJob (job : pjob) | ABreakT (b : pbreak) | AReloadT (r : pplace).

Definition get_activity_type (P : pproblem) (t : stour) (st : sstop) (a : sact) : kres atype :=
  kbind (get_vehicle_shift P t) (fun sh =>
    let k := sa_kind a in
    if (k =? 10) || (k =? 11) then KOk ATerminal
    else if is_job_kind k then match find_job P (sa_job a) with Some job => KOk (AJob job) | None => KErr ENoJob end
    else if k =? 12 then
      match find (fun b => match break_tw t b with Some w => tw_intersects w (act_time st a) | None => false end) (sh_breaks sh) with
      | Some b => KOk (ABreakT b)
      | None => KErr ENoBreak
      end
    else if k =? 13 then
      match find (fun r => (pl_loc r =? act_loc st a) && opt_eqb (pl_tag r) (sa_tag a)) (sh_reloads sh) with
      | Some r => KOk (AReloadT r)
      | None => KErr ENoReload
      end
    else if k =? 14 then KErr ENoRecharge
    else KErr EUnknownActivityType).

(* ------------------------------------------------------------------ load vectors (MultiDimLoad) *)
Fixpoint vadd (a b : list Z) : list Z :=
  match a, b with
  | [], _ => b
  | _, [] => a
  | x :: a', y :: b' => (x + y) :: vadd a' b'
  end.
Definition vsub (a b : list Z) : list Z := vadd a (map Z.opp b).
(* pointwise comparison of two zero-padded vectors *)
Fixpoint vall2 (f : Z -> Z -> bool) (a b : list Z) : bool :=
  match a with
  | [] => forallb (fun y => f 0 y) b
  | x :: a' => match b with
               | [] => f x 0 && forallb (fun x' => f x' 0) a'
               | y :: b' => f x y && vall2 f a' b'
               end
  end.
Definition veq (a b : list Z) : bool := vall2 Z.eqb a b.
(* capacity.can_fit(load): capacity >= load in every slot *)
Definition vfit (cap l : list Z) : bool := vall2 (fun c y => y <=? c) cap l.

Definition capacity_of (vt : pvtype) : list Z := vt_cap vt :: vt_xcap vt.
(* the load reported at stop number i of the tour *)
Definition stop_load (t : stour) (i : nat) (st : sstop) : list Z := ss_load st :: map (fun xs => nth i xs 0) (to_xload t).
(* the demand of task number i of the job *)
Definition task_demand (job : pjob) (i : nat) (tk : ptask) : list Z := tk_demand tk :: map (fun xs => nth i xs 0) (pj_xdem job).

(* ------------------------------------------------------------------ mod.rs visit_job / capacity.rs get_demand *)
Definition count_kind (job : pjob) (k : Z) : nat := length (filter (fun tk => tk_kind tk =? k) (pj_tasks job)).
Definition itasks (job : pjob) : list (nat * ptask) := enum (pj_tasks job).
(* the task an activity of a job is attributed to: a job with one task, or with one pickup and one delivery: the FIRST task of
   the activity's kind; any other job: the activity must carry a tag, and the first task of the activity's kind one of whose
   places has that tag *)
Definition visit_job_task (job : pjob) (a : sact) : kres (nat * ptask) :=
  let n := length (pj_tasks job) in
  let of_kind := filter (fun it => tk_kind (snd it) =? sa_kind a) (itasks job) in
  if (n <? 2)%nat || ((n =? 2)%nat && (count_kind job 0 =? 1)%nat && (count_kind job 1 =? 1)%nat) then
    match of_kind with it :: _ => KOk it | [] => KErr ENoJobPlace end
  else
    match sa_tag a with
    | None => KErr EMultiJobTag
    | Some _ =>
      match find (fun it => existsb (fun p => opt_eqb (pl_tag p) (sa_tag a)) (tk_places (snd it))) of_kind with
      | Some it => KOk it
      | None => KErr ENoJobPlace
      end
    end.

Inductive dtype := DNone | DStaticPickup | DStaticDelivery | DStaticPickupDelivery | DDynamicPickup | DDynamicDelivery.

Definition get_demand (a : sact) (ty : atype) : kres (dtype * list Z) :=
  kbind (match ty with
         | AJob job => kbind (visit_job_task job a) (fun it => KOk (negb (pj_static job), task_demand job (fst it) (snd it)))
         | _ => KOk (false, [])
         end) (fun dd =>
    let '(is_dynamic, d) := dd in
    let k := sa_kind a in
    KOk (if k =? 3 then DStaticPickupDelivery
         else if k =? 0 then (if is_dynamic then DDynamicPickup else DStaticPickup)
         else if k =? 1 then (if is_dynamic then DDynamicDelivery else DStaticDelivery)
         else DNone, d)).

(* ------------------------------------------------------------------ capacity.rs *)
Definition is_reload_stop (st : sstop) : bool := match ss_acts st with a :: _ => sa_kind a =? 13 | [] => false end.

Definition leg := (nat * (sstop * sstop))%type.
(* tour.stops.windows(2).enumerate() *)
Definition legs_of (stops : list sstop) : list leg := enum (combine stops (tl stops)).

(* the fold of get_intervals: (start_idx, end_idx) per interval; None = the usize subtraction `*idx - 1` underflows *)
Fixpoint ivl_bounds (legs : list leg) (last_idx : nat) (acc : list (nat * nat)) : option (list (nat * nat)) :=
  match legs with
  | [] => Some acc
  | (idx, (_, to)) :: r =>
    if is_reload_stop to || (idx =? last_idx)%nat then
      let start_idx := match rev acc with item :: _ => (snd item + 2)%nat | [] => 0%nat end in
      if (idx =? last_idx)%nat then ivl_bounds r last_idx (acc ++ [(start_idx, last_idx)])
      else match idx with
           | O => None
           | S i => ivl_bounds r last_idx (acc ++ [(start_idx, i)])
           end
    else ivl_bounds r last_idx acc
  end.

(* legs.skip(start).take(end - start + 1); None = `end_idx - start_idx` underflows *)
Fixpoint ivl_slices (legs : list leg) (bounds : list (nat * nat)) : option (list (list leg)) :=
  match bounds with
  | [] => Some []
  | (s, e) :: r =>
    if (e <? s)%nat then None
    else match ivl_slices legs r with
         | Some rest => Some (firstn (e - s + 1) (skipn s legs) :: rest)
         | None => None
         end
  end.

Definition get_intervals (t : stour) : option (list (list leg)) :=
  let legs := legs_of (to_stops t) in
  match ivl_bounds legs (length legs - 1) [] with
  | Some bounds => ivl_slices legs bounds
  | None => None
  end.

(* get_activities_from_interval: the stops of the interval (`from` of its first leg, then every `to`) *)
Definition interval_stops (iv : list leg) : list sstop :=
  match iv with
  | [] => []
  | (_, (from, _)) :: _ => from :: map (fun l => snd (snd l)) iv
  end.

(* (start_delivery, end_pickup): the static deliveries of the interval are on board at its start, its static pickups leave at
   its end *)
Fixpoint interval_totals (P : pproblem) (t : stour) (acc : list Z * list Z) (l : list (sstop * sact)) : kres (list Z * list Z) :=
  match l with
  | [] => KOk acc
  | (st, a) :: r =>
    kbind (get_activity_type P t st a) (fun ty =>
    kbind (get_demand a ty) (fun dd =>
      let '(dt, d) := dd in
      interval_totals P t (match dt with
                           | DStaticDelivery => (vadd (fst acc) d, snd acc)
                           | DStaticPickup => (fst acc, vadd (snd acc) d)
                           | DStaticPickupDelivery => (vadd (fst acc) d, vadd (snd acc) d)
                           | _ => acc
                           end) r))
  end.

(* the load change the activities of stop `to` account for; an arrival or a reload unloads the interval's static pickups *)
Fixpoint stop_change (P : pproblem) (t : stour) (to : sstop) (end_pickup acc : list Z) (l : list sact) : kres (list Z) :=
  match l with
  | [] => KOk acc
  | a :: r =>
    kbind (get_activity_type P t to a) (fun ty =>
    kbind (if (sa_kind a =? 11) || (sa_kind a =? 13) then KOk (DStaticDelivery, end_pickup) else get_demand a ty) (fun dd =>
      let '(dt, d) := dd in
      stop_change P t to end_pickup (match dt with
                                     | DStaticDelivery | DDynamicDelivery => vsub acc d
                                     | DStaticPickup | DDynamicPickup => vadd acc d
                                     | DNone | DStaticPickupDelivery => acc
                                     end) r))
  end.

(* the legs of one interval: capacity at BOTH ends of the leg, then the reported loads against the bookkeeping *)
Fixpoint interval_legs (P : pproblem) (t : stour) (cap end_pickup acc : list Z) (iv : list leg) : kres (list Z) :=
  match iv with
  | [] => KOk acc
  | (idx, (from, to)) :: r =>
    let from_load := stop_load t idx from in
    let to_load := stop_load t (S idx) to in
    if negb (vfit cap from_load) || negb (vfit cap to_load) then KErr ELoadExceeds
    else kbind (stop_change P t to end_pickup [] (ss_acts to)) (fun change =>
      if veq from_load acc && veq to_load (vadd from_load change) then interval_legs P t cap end_pickup to_load r
      else KErr ELoadMismatch)
  end.

Fixpoint load_intervals (P : pproblem) (t : stour) (cap acc : list Z) (ivs : list (list leg)) : kres unit :=
  match ivs with
  | [] => KOk tt
  | iv :: r =>
    kbind (interval_totals P t (acc, []) (flat_map (fun st => map (fun a => (st, a)) (ss_acts st)) (interval_stops iv))) (fun se =>
    kbind (interval_legs P t cap (snd se) (fst se) iv) (fun end_capacity =>
      load_intervals P t cap (vsub end_capacity (snd se)) r))
  end.

(* check_vehicle_load_assignment; the panic of get_intervals of a tour is reached only when no earlier tour has an error *)
Fixpoint load_assignment (P : pproblem) (tours : list stour) : rres :=
  match tours with
  | [] => ROk
  | t :: r =>
    match get_vehicle P (to_vehicle t) with
    | KErr e => RErr [e]
    | KOk vt =>
      match get_intervals t with
      | None => RPanic PSubOverflow
      | Some ivs => match load_intervals P t (capacity_of vt) [] ivs with
                    | KErr e => RErr [e]
                    | KOk _ => load_assignment P r
                    end
      end
    end
  end.

(* check_resource_consumption: without resource ids nothing is consumed; it still builds the intervals of EVERY tour *)
Definition resource_consumption (S : ssolution) : rres :=
  if forallb (fun t => match get_intervals t with Some _ => true | None => false end) (sl_tours S) then ROk else RPanic PSubOverflow.

Definition check_vehicle_load (P : pproblem) (S : ssolution) : cres :=
  combine_results [load_assignment P (sl_tours S); resource_consumption S].

(* ------------------------------------------------------------------ limits.rs *)
Definition count_activities (t : stour) : nat := length (flat_map ss_acts (to_stops t)).
Definition gt_opt (x : Z) (lim : option Z) : bool := match lim with Some l => l <? x | None => false end.

Definition shift_limits_tour (P : pproblem) (t : stour) : kres unit :=
  kbind (get_vehicle P (to_vehicle t)) (fun vt =>
    if gt_opt (st_dist (to_stat t)) (vt_maxdist vt) then KErr EMaxDistance
    else if gt_opt (st_dur (to_stat t)) (vt_maxdur vt) then KErr EMaxDuration
    else match vt_toursize vt with
         | None => KOk tt
         | Some lim =>
           kbind (get_vehicle_shift P t) (fun sh =>
             let extra := match sh_end sh with Some _ => 2%nat | None => 1%nat end in
             if lim <? Z.of_nat (count_activities t - extra) then KErr ETourSize else KOk tt)
         end).

Definition shift_time_tour (P : pproblem) (t : stour) : kres unit :=
  kbind (get_vehicle P (to_vehicle t)) (fun vt =>
    match to_stops t with
    | [] => KErr EEmptyTour
    | f :: _ =>
      let l := last (to_stops t) f in
      if existsb (fun sh => (sh_earliest sh <=? ss_dep f) && (ss_arr l <=? shift_end_time sh)) (vt_shifts vt) then KOk tt
      else KErr EShiftTime
    end).

(* check_recharge_limits: tours with more than one stop; no shift of the fragment has recharges *)
Definition recharge_limits_tour (P : pproblem) (t : stour) : kres unit :=
  if (1 <? length (to_stops t))%nat then kbind (get_vehicle_shift P t) (fun _ => KOk tt) else KOk tt.

Definition check_limits (P : pproblem) (S : ssolution) : cres :=
  combine_results [of_kres (try_each (shift_limits_tour P) (sl_tours S));
                   of_kres (try_each (shift_time_tour P) (sl_tours S));
                   of_kres (try_each (recharge_limits_tour P) (sl_tours S))].

(* ------------------------------------------------------------------ routing.rs *)
Definition loc_known (P : pproblem) (l : Z) : bool := (0 <=? l) && (l <? pr_n P).
(* get_matrix_data on the RAW matrix (errorCodes are not looked at): (distance, duration) *)
Definition matrix_data (P : pproblem) (from to : Z) : kres (Z * Z) :=
  if negb (loc_known P from) || negb (loc_known P to) then KErr ENoCoordinate
  else let i := Z.to_nat (from * pr_n P + to) in
       match nth_error (pr_dist P) i, nth_error (pr_dur P) i with
       | Some d, Some t => KOk (d, t)
       | _, _ => KErr EMatrixBounds
       end.

Definition absgt1 (x : Z) : bool := 1 <? Z.abs x.

(* the fold over tour.stops.windows(2): state (departure of the previous stop, REPORTED distance of the previous stop) *)
Fixpoint routing_legs (P : pproblem) (skip : bool) (st : Z * Z) (l : list (sstop * sstop)) : kres (Z * Z) :=
  match l with
  | [] => KOk st
  | (from, to) :: r =>
    kbind (matrix_data P (ss_loc from) (ss_loc to)) (fun dd =>
      let arrival_time := fst st + snd dd in
      let total_distance := snd st + fst dd in
      if absgt1 (arrival_time - ss_arr to) then KErr EArrival
      else if negb skip && absgt1 (total_distance - ss_dist to) then KErr EStopDistance
      else routing_legs P skip (ss_dep to, ss_dist to) r)
  end.

Definition routing_tour (P : pproblem) (skip : bool) (t : stour) : kres unit :=
  kbind (get_vehicle P (to_vehicle t)) (fun _ =>
    match to_stops t with
    | [] => KErr EEmptyTour
    | f :: _ =>
      match ss_acts f with
      | [] => KErr ENoActivities
      | a :: _ =>
        let time_offset := match sa_time a with Some iv => snd iv | None => ss_dep f end in
        kbind (routing_legs P skip (ss_dep f, 0) (combine (to_stops t) (tl (to_stops t)))) (fun st =>
          if negb skip && absgt1 (snd st - st_dist (to_stat t)) then KErr ETourDistance
          else if absgt1 (fst st - time_offset - st_dur (to_stat t)) then KErr ETourDuration
          else KOk tt)
      end
    end).

Definition skip_distance_check (S : ssolution) : bool :=
  forallb (fun st => ss_dist st =? 0) (flat_map to_stops (sl_tours S)).

Definition solution_statistic (S : ssolution) : kres unit :=
  let sum := fold_left stat_add (map to_stat (sl_tours S)) stat0 in
  if negb (st_dur sum =? st_dur (sl_stat S)) || negb (st_dist sum =? st_dist (sl_stat S)) then KErr ESolutionStat else KOk tt.

Definition check_routing_rules (P : pproblem) (S : ssolution) : kres unit :=
  kbind (try_each (routing_tour P (skip_distance_check S)) (sl_tours S)) (fun _ => solution_statistic S).
Definition check_routing (P : pproblem) (S : ssolution) : cres := combine_results [of_kres (check_routing_rules P S)].

(* ------------------------------------------------------------------ assignment.rs *)
Definition all_vehicles (P : pproblem) : list Z := flat_map vt_vehicles (pr_fleet P).
Fixpoint vehicles_from (P : pproblem) (used : list (Z * nat)) (l : list stour) : kres unit :=
  match l with
  | [] => KOk tt
  | t :: r =>
    if negb (zmem (to_vehicle t) (all_vehicles P)) then KErr EUnknownVehicle
    else if existsb (fun u => (fst u =? to_vehicle t) && (snd u =? to_shift t)%nat) used then KErr EVehicleTwice
    else vehicles_from P ((to_vehicle t, to_shift t) :: used) r
  end.
Definition check_vehicles (P : pproblem) (S : ssolution) : kres unit := vehicles_from P [] (sl_tours S).

(* used_jobs: job id -> (tour_info of its first activity, every (kind, index in the flattened activities of ITS tour)) *)
Record jasg := mkJAsg { ja_job : Z; ja_tour : Z * nat; ja_acts : list (Z * nat) }.
Definition job_sacts (t : stour) : list (nat * sact) :=
  filter (fun ia => is_job_kind (sa_kind (snd ia))) (enum (flat_map ss_acts (to_stops t))).
Fixpoint asg_add (j : Z) (ti : Z * nat) (k : Z) (i : nat) (used : list jasg) : option (list jasg) :=
  match used with
  | [] => Some [mkJAsg j ti [(k, i)]]
  | u :: r =>
    if ja_job u =? j then
      (if (fst (ja_tour u) =? fst ti) && (snd (ja_tour u) =? snd ti)%nat then Some (mkJAsg j (ja_tour u) (ja_acts u ++ [(k, i)]) :: r)
       else None)                                           (* "job served in multiple tours" *)
    else match asg_add j ti k i r with Some r' => Some (u :: r') | None => None end
  end.
Fixpoint asg_acts (ti : Z * nat) (l : list (nat * sact)) (used : list jasg) : option (list jasg) :=
  match l with
  | [] => Some used
  | (i, a) :: r => match asg_add (sa_job a) ti (sa_kind a) i used with Some u' => asg_acts ti r u' | None => None end
  end.
Fixpoint asg_tours (l : list stour) (used : list jasg) : option (list jasg) :=
  match l with
  | [] => Some used
  | t :: r => match asg_acts (to_vehicle t, to_shift t) (job_sacts t) used with Some u' => asg_tours r u' | None => None end
  end.

Definition idx_of_kind (k : Z) (u : jasg) : list nat := map snd (filter (fun ki => fst ki =? k) (ja_acts u)).
Definition nat_max (l : list nat) : option nat := match l with [] => None | x :: r => Some (fold_left Nat.max r x) end.
Definition nat_min (l : list nat) : option nat := match l with [] => None | x :: r => Some (fold_left Nat.min r x) end.
(* Option<&usize> comparison `a > b`: None is the least element *)
Definition opt_gt (a b : option nat) : bool :=
  match a, b with Some x, Some y => (y <? x)%nat | Some _, None => true | None, _ => false end.
(* the error of one used job, if any *)
Definition used_job_error (P : pproblem) (u : jasg) : list eclass :=
  match find_job P (ja_job u) with
  | None => [EUsedJobUnknown]
  | Some job =>
    if negb (length (pj_tasks job) =? length (ja_acts u))%nat then [ETasksCount]
    else if negb (match idx_of_kind 1 u with [] => true | _ => false end)
            && opt_gt (nat_max (idx_of_kind 0 u)) (nat_min (idx_of_kind 1 u)) then [EPickupAfterDelivery]
    else []
  end.

Definition unassigned_error (P : pproblem) (used : list jasg) (j : Z) : list eclass :=
  if negb (zmem j (job_ids P)) then [EUnassignedUnknown]
  else if existsb (fun u => ja_job u =? j) used then [EBoth]
  else [].

Definition check_jobs_presence (P : pproblem) (S : ssolution) : rres :=
  match asg_tours (sl_tours S) [] with
  | None => RErr [EMultipleTours]
  | Some used =>
    match flat_map (used_job_error P) used with
    | (_ :: _) as cands => RErr cands                         (* used_jobs.iter(): HashMap order decides which one *)
    | [] =>
      let un := map fst (sl_unassigned S) in
      let uniq := nodup Z.eq_dec un in
      if negb (length uniq =? length un)%nat then RErr [EUnassignedDup]
      else match flat_map (unassigned_error P used) uniq with
           | (_ :: _) as cands => RErr cands                  (* unique_unassigned_jobs.iter(): HashSet order *)
           | [] => if negb (length uniq + length used =? length (pr_jobs P))%nat then RErr [EJobCount] else ROk
           end
    end
  end.

(* check_groups: per group the set of (type id, vehicle id, shift index) of the tours with an activity of one of its jobs *)
Definition tour_key (t : stour) : Z * Z * nat := (to_type t, to_vehicle t, to_shift t).
Definition key_eqb (a b : Z * Z * nat) : bool :=
  (fst (fst a) =? fst (fst b)) && (snd (fst a) =? snd (fst b)) && (snd a =? snd b)%nat.
Definition act_groups (P : pproblem) (t : stour) : list Z :=
  somes (map (fun a => match find_job P (sa_job a) with Some job => pj_group job | None => None end)
             (filter (fun a => is_job_kind (sa_kind a)) (flat_map ss_acts (to_stops t)))).
Definition group_keys (P : pproblem) (S : ssolution) (g : Z) : list (Z * Z * nat) :=
  map tour_key (filter (fun t => zmem g (act_groups P t)) (sl_tours S)).
Definition keys_differ (l : list (Z * Z * nat)) : bool :=
  match l with [] => false | x :: r => existsb (fun y => negb (key_eqb x y)) r end.
Definition check_groups (P : pproblem) (S : ssolution) : kres unit :=
  if existsb (fun g => keys_differ (group_keys P S g)) (flat_map (act_groups P) (sl_tours S)) then KErr EGroups else KOk tt.

(* check_jobs_match is not modelled *)
Definition check_assignment (P : pproblem) (S : ssolution) : cres :=
  combine_results [of_kres (check_vehicles P S); check_jobs_presence P S; of_kres (check_groups P S)].

(* ------------------------------------------------------------------ relations.rs *)
(* get_activity_ids: the jobId of EVERY activity of the tour (terminals, breaks and reloads included) *)
Definition act_rel_id (a : sact) : Z :=
  let k := sa_kind a in
  if k =? 10 then REL_DEPARTURE else if k =? 11 then REL_ARRIVAL else if k =? 12 then BREAK_JOB else if k =? 13 then RELOAD_JOB
  else sa_job a.
Definition activity_ids (t : stour) : list Z := map act_rel_id (flat_map ss_acts (to_stops t)).
Definition is_reserved (j : Z) : bool := (j =? REL_DEPARTURE) || (j =? REL_ARRIVAL) || (j =? BREAK_JOB) || (j =? RELOAD_JOB).

(* left.skip(position of right[0] in left).zip(right).filter(a == b) *)
Fixpoint zip_eq (l r : list Z) : list Z :=
  match l, r with
  | x :: l', y :: r' => (if x =? y then [x] else []) ++ zip_eq l' r'
  | _, _ => []
  end.
Fixpoint skip_to (x : Z) (l : list Z) : option (list Z) :=
  match l with [] => None | y :: r => if y =? x then Some l else skip_to x r end.
Definition intersection (left right : list Z) : list Z :=
  match right with
  | [] => []
  | x :: _ => match skip_to x left with Some l' => zip_eq l' right | None => [] end
  end.

Definition relation_count (P : pproblem) (ids : list Z) : kres nat :=
  fold_left (fun acc j => kbind acc (fun n =>
               match find_job P j with
               | Some job => KOk (n + length (pj_tasks job))%nat
               | None => if is_reserved j then KOk (n + 1)%nat else KErr ERelUnknownJob
               end)) ids (KOk 0%nat).

Definition relation_rule (P : pproblem) (S : ssolution) (r : prel) : kres unit :=
  match find (fun t => (to_vehicle t =? rl_vehicle r) && (to_shift t =? rl_shift r)%nat) (sl_tours S) with
  | None => if rl_type r =? 0 then KOk tt else KErr ERelNoTour
  | Some t =>
    let aids := activity_ids t in
    let rids := nodup Z.eq_dec (rl_jobs r) in
    kbind (relation_count P rids) (fun n =>
      if negb (n =? length (rl_jobs r))%nat then KErr ERelDuplicated
      else if rl_type r =? 2 then
        (if list_eqb (intersection aids (rl_jobs r)) (rl_jobs r) then KOk tt else KErr ERelStrict)
      else if rl_type r =? 1 then
        (if list_eqb (filter (fun x => zmem x rids) aids) (rl_jobs r) then KOk tt else KErr ERelSequence)
      else
        (if existsb (fun o => negb (to_vehicle o =? to_vehicle t) && existsb (fun x => zmem x rids) (activity_ids o)) (sl_tours S)
         then KErr ERelAny else KOk tt))
  end.

Definition check_relations (rels : list prel) (P : pproblem) (S : ssolution) : cres :=
  combine_results [of_kres (try_each (relation_rule P S) rels)].

(* ------------------------------------------------------------------ breaks.rs (first part of check_break_assignment) *)
(* as_leg_info_with_break: the first of (to, from) that get_activity_type attributes to a break of the shift *)
Definition as_break (P : pproblem) (t : stour) (st : sstop) (a : sact) : option pbreak :=
  match get_activity_type P t st a with KOk (ABreakT b) => Some b | _ => None end.
(* (from, to) pairs of stop.activities().windows(len.min(2)); None = windows(0) *)
Definition act_pairs (st : sstop) : option (list (option sact * sact)) :=
  match ss_acts st with
  | [] => None
  | [a] => Some [(None, a)]
  | l => Some (map (fun ft => (Some (fst ft), snd ft)) (combine l (tl l)))
  end.
Definition break_pair (P : pproblem) (t : stour) (st : sstop) (ft : option sact * sact) : kres nat :=
  let '(from, to) := ft in
  match (match as_break P t st to with
         | Some b => Some (to, b)
         | None => match from with Some f => match as_break P t st f with Some b => Some (f, b) | None => None end | None => None end
         end) with
  | None => KOk 0%nat
  | Some (ba, b) =>
    match break_tw t b with
    | None => KErr EBreakTime                      (* unreachable: as_break needed the same window *)
    | Some w =>
      if negb (tw_intersects (act_time st ba) w) then KErr EBreakTime
      else
        let actual_loc := act_loc st to in
        let from_loc := match from with Some f => act_loc st f | None => ss_loc st end in
        if existsb (fun p => if pl_loc p =? NOLOC then from_loc =? actual_loc else pl_loc p =? actual_loc) (bk_places b)
        then KOk 1%nat else KErr EBreakLocation
    end
  end.
Fixpoint sum_pairs (P : pproblem) (t : stour) (st : sstop) (acc : nat) (l : list (option sact * sact)) : kres nat :=
  match l with
  | [] => KOk acc
  | ft :: r => kbind (break_pair P t st ft) (fun n => sum_pairs P t st (acc + n)%nat r)
  end.
Inductive bres := BOk (n : nat) | BErr (e : eclass) | BPanic (t : ptag).
Fixpoint matched_breaks (P : pproblem) (t : stour) (acc : nat) (stops : list sstop) : bres :=
  match stops with
  | [] => BOk acc
  | st :: r =>
    match act_pairs st with
    | None => BPanic PWindowsZero
    | Some prs => match sum_pairs P t st acc prs with KOk n => matched_breaks P t n r | KErr e => BErr e end
    end
  end.
Definition count_breaks (t : stour) : nat := length (filter (fun a => sa_kind a =? 12) (flat_map ss_acts (to_stops t))).
(* everything check_break_assignment does for one tour BEFORE it counts the expected breaks *)
Definition brk_tour_front (P : pproblem) (t : stour) : rres :=
  match get_vehicle_shift P t with
  | KErr e => RErr [e]
  | KOk _ =>
    match matched_breaks P t 0 (to_stops t) with
    | BPanic p => RPanic p
    | BErr e => RErr [e]
    | BOk n => if (n =? count_breaks t)%nat then ROk else RErr [EBreakMatched]
    end
  end.
(* the first tour that fails in its first part (the amount rule of an EARLIER tour may have stopped the real loop before) *)
Fixpoint breaks_front (P : pproblem) (l : list stour) : rres :=
  match l with
  | [] => ROk
  | t :: r => match brk_tour_front P t with ROk => breaks_front P r | x => x end
  end.

(* ------------------------------------------------------------------ CheckerContext::check *)
Record rule_results := mkRuleResults {
  rr_load : cres; rr_relations : cres; rr_breaks_front : rres; rr_assignment : cres; rr_routing : cres; rr_limits : cres }.
(* every group as the correspondence compares it (the real `check` evaluates them in this order; a panic of one group is a panic
   of the whole call) *)
Definition run_rules (rels : list prel) (P : pproblem) (S : ssolution) : rule_results :=
  mkRuleResults (check_vehicle_load P S) (check_relations rels P S) (breaks_front P (sl_tours S)) (check_assignment P S)
                (check_routing P S) (check_limits P S).

Definition cres_ok (c : cres) : bool := match c with COk => true | _ => false end.
(* the verdict of the modelled groups taken together *)
Definition modelled_accept (rels : list prel) (P : pproblem) (S : ssolution) : bool :=
  cres_ok (check_vehicle_load P S) && cres_ok (check_relations rels P S) && cres_ok (check_assignment P S)
  && cres_ok (check_routing P S) && cres_ok (check_limits P S).

(* what the correspondence evaluates: the six results as a tuple (printed without record syntax) *)
Definition run_rules_t (rels : list prel) (P : pproblem) (S : ssolution) :=
  (check_vehicle_load P S, check_relations rels P S, breaks_front P (sl_tours S), check_assignment P S, check_routing P S,
   check_limits P S).

(* ================================================================== fragments (boolean predicates on the documents) in which
   the recorded findings C12-F1 .. F18 do not apply; used as hypotheses of the theorems of Properties/C12.v *)
Fixpoint find_index {A} (f : A -> bool) (l : list A) : option nat :=
  match l with
  | [] => None
  | x :: r => if f x then Some 0%nat else match find_index f r with Some i => Some (S i) | None => None end
  end.
(* the position of the shift get_vehicle_shift finds *)
Definition shift_index_by_time (vt : pvtype) (t : stour) : option nat :=
  match to_stops t with
  | [] => None
  | f :: _ => find_index (fun sh => tw_intersects (sh_earliest sh, shift_end_time sh) (ss_arr f, ss_arr (last (to_stops t) f)))
                         (vt_shifts vt)
  end.
(* the vehicle type the checker finds by the vehicle id has the type id the tour names, and the shift it finds BY TIME is the
   shift the tour names by shiftIndex *)
Definition tour_ctx_ok (P : pproblem) (t : stour) : bool :=
  match find (fun vt => zmem (to_vehicle t) (vt_vehicles vt)) (pr_fleet P) with
  | Some vt => (vt_id vt =? to_type t)
               && match shift_index_by_time vt t with Some i => (i =? to_shift t)%nat | None => false end
  | None => false
  end.
Definition ctx_frag (P : pproblem) (S : ssolution) : bool := forallb (tour_ctx_ok P) (sl_tours S).

Definition all_stops (S : ssolution) : list sstop := flat_map to_stops (sl_tours S).
Definition all_sacts (S : ssolution) : list sact := flat_map ss_acts (all_stops S).
(* every stop holds exactly one activity: no job at the departure stop (F4, F12), a reload alone in its stop (F8, F11), no break
   followed by another activity in its stop (F14), no job in the arrival stop (F15) *)
Definition single_act_stops (S : ssolution) : bool := forallb (fun st => (length (ss_acts st) =? 1)%nat) (all_stops S).
(* every tour has a leg (F3) *)
Definition two_stops (S : ssolution) : bool := forallb (fun t => (2 <=? length (to_stops t))%nat) (sl_tours S).
(* no reload activities (F8, F9, F11: one load interval per tour) *)
Definition no_reloads (S : ssolution) : bool := forallb (fun a => negb (sa_kind a =? 13)) (all_sacts S).
(* jobs whose activities the checker attributes without tags: one task, or one pickup and one delivery (F5) *)
Definition simple_job (job : pjob) : bool :=
  let n := length (pj_tasks job) in
  (n <? 2)%nat || ((n =? 2)%nat && (count_kind job 0 =? 1)%nat && (count_kind job 1 =? 1)%nat).
Definition simple_jobs (P : pproblem) : bool := forallb simple_job (pr_jobs P).
(* one capacity dimension *)
Definition one_dim (P : pproblem) (S : ssolution) : bool :=
  forallb (fun vt => match vt_xcap vt with [] => true | _ => false end) (pr_fleet P)
  && forallb (fun job => match pj_xdem job with [] => true | _ => false end) (pr_jobs P)
  && forallb (fun t => match to_xload t with [] => true | _ => false end) (sl_tours S).
(* the stops are at locations of the problem *)
Definition locs_known (P : pproblem) (S : ssolution) : bool := forallb (fun st => loc_known P (ss_loc st)) (all_stops S).

(* ================================================================== the declarative reading of check_routing_rules, at the
   level the rule talks about (stops), with tolerance e (the code: e = 1; a document that valid_b accepts: e = 0).  What the
   rule does NOT look at is visible here: the distance of the first stop, the cost and the times.* of the statistics. *)
Definition RoutingLegs (e : Z) (P : pproblem) (skip : bool) (stops : list sstop) : Prop :=
  forall i a b, nth_error stops i = Some a -> nth_error stops (S i) = Some b ->
    Z.abs (ss_dep a + pmat (pr_n P) (pr_dur P) (ss_loc a) (ss_loc b) - ss_arr b) <= e
    /\ (skip = false ->
        Z.abs ((match i with O => 0 | S _ => ss_dist a end) + pmat (pr_n P) (pr_dist P) (ss_loc a) (ss_loc b) - ss_dist b) <= e).
(* the time the tour's duration is counted from: the end of the first activity of the first stop *)
Definition tour_offset (f : sstop) : Z :=
  match ss_acts f with
  | a :: _ => match sa_time a with Some iv => snd iv | None => ss_dep f end
  | [] => ss_dep f
  end.
Definition RoutingTour (e : Z) (P : pproblem) (skip : bool) (t : stour) : Prop :=
  exists f rest, to_stops t = f :: rest /\ ss_acts f <> [] /\ RoutingLegs e P skip (to_stops t)
    /\ (skip = false -> Z.abs ((match rest with [] => 0 | _ => ss_dist (last rest f) end) - st_dist (to_stat t)) <= e)
    /\ Z.abs (ss_dep (last rest f) - tour_offset f - st_dur (to_stat t)) <= e.
Definition stat_sum (S : ssolution) : sstat := fold_left stat_add (map to_stat (sl_tours S)) stat0.
Definition RoutingRule (e : Z) (P : pproblem) (S : ssolution) : Prop :=
  (forall t, In t (sl_tours S) -> (exists vt, get_vehicle P (to_vehicle t) = KOk vt) /\ RoutingTour e P (skip_distance_check S) t)
  /\ st_dur (stat_sum S) = st_dur (sl_stat S) /\ st_dist (stat_sum S) = st_dist (sl_stat S).

(* the declarative reading of check_shift_time for the tour's own shift: the first stop is left not before the shift starts, the
   last stop is reached not after it ends *)
Definition stops_in_shift (sh : pshift) (t : stour) : Prop :=
  match to_stops t with
  | [] => False
  | f :: _ => sh_earliest sh <= ss_dep f /\ ss_arr (last (to_stops t) f) <= shift_end_time sh
  end.
(* no stop of the tour starts with a reload: the tour is ONE load interval *)
Definition no_reload_stop (t : stour) : bool := forallb (fun st => negb (is_reload_stop st)) (to_stops t).

(* ---- further fragment predicates used by the capacity theorems *)
(* only job activities, departure and arrival (no reload, break, recharge or unknown activity) *)
Definition plain_acts (S : ssolution) : bool :=
  forallb (fun a => is_job_kind (sa_kind a) || (sa_kind a =? 10) || (sa_kind a =? 11)) (all_sacts S).
Definition caps_nonneg (P : pproblem) : bool := forallb (fun vt => 0 <=? vt_cap vt) (pr_fleet P).
(* plan job ids are positive (as rendered): none of them is one of the reserved ids *)
Definition pos_job_ids (P : pproblem) : bool := forallb (fun job => 0 <? pj_id job) (pr_jobs P).
(* every shipment picked up in a tour is delivered in it: the dynamic pickups and deliveries of each tour balance *)
Definition tour_sacts (t : stour) : list (sstop * sact) := flat_map (fun st => map (fun a => (st, a)) (ss_acts st)) (to_stops t).
Definition act_dyn (P : pproblem) (t : stour) (sa : sstop * sact) : Z :=
  match get_activity_type P t (fst sa) (snd sa) with
  | KOk ty => match get_demand (snd sa) ty with
              | KOk (DDynamicPickup, d) => hd 0 d
              | KOk (DDynamicDelivery, d) => - hd 0 d
              | _ => 0
              end
  | KErr _ => 0
  end.
Definition dyn_balanced (P : pproblem) (S : ssolution) : bool :=
  forallb (fun t => sumz (map (act_dyn P t) (tour_sacts t)) =? 0) (sl_tours S).

(* ---- fragment of the `any` relation rule *)
(* the rendering of the activity ids: a break / reload activity carries the reserved id of its kind *)
Definition kind_ids_ok (S : ssolution) : bool :=
  forallb (fun a => (negb (sa_kind a =? 12) || (sa_job a =? BREAK_JOB)) && (negb (sa_kind a =? 13) || (sa_job a =? RELOAD_JOB)))
          (all_sacts S).
(* the relation lists no reserved id (F17), no OTHER shift of its vehicle drives a tour (F18), and its own tour exists *)
Definition rel_frag (r : prel) (S : ssolution) : bool :=
  negb (existsb is_reserved (rl_jobs r))
  && forallb (fun o => negb (to_vehicle o =? rl_vehicle r) || (to_shift o =? rl_shift r)%nat) (sl_tours S)
  && existsb (is_rel_tour r) (sl_tours S).
(* no recharge / unknown activity (Valid: AExtraActivity) *)
Definition regular_kinds (S : ssolution) : bool := forallb (fun a => negb (extra_kind (sa_kind a))) (all_sacts S).
