(* Model of:
     vrp-core/src/construction/heuristics/insertions.rs :: impl Ord/Add/Sub for InsertionCost
     vrp-core/src/models/goal.rs :: Goal::total_order, GoalBuilder::add_single (comparator), Goal::fitness
     rosomaxa/src/evolution/objectives.rs :: dominance_order
     vrp-pragmatic/src/format/problem/goal_reader.rs :: eval_multi_objective_strategy (comparator)
   Floats are 64-bit patterns (Z); see Base/TotalCmp.v.  No proofs in this file. *)
From VRP Require Import Base.Tac Base.TotalCmp.

(* ---------- InsertionCost::cmp : (0..max len).try_fold with get(idx).unwrap_or_default() ---------- *)
Definition getd (x : list Z) (i : nat) : Z := nth i x 0.   (* Cost::default() = +0.0 = pattern 0 *)

Fixpoint cmp_from (x y : list Z) (i n : nat) : comparison :=
  match n with
  | O => Eq
  | S n' => match total_cmp (getd x i) (getd y i) with
            | Eq => cmp_from x y (S i) n'
            | c => c
            end
  end.

Definition icost_cmp (x y : list Z) : comparison :=
  cmp_from x y 0 (Nat.max (length x) (length y)).

(* ---------- InsertionCost + / - on the exact sub-domain: components are integer VALUES here ---------- *)
Fixpoint zip_pad (f : Z -> Z -> Z) (x y : list Z) : list Z :=
  match x, y with
  | [], [] => []
  | a :: x', [] => f a 0 :: zip_pad f x' []
  | [], b :: y' => f 0 b :: map (f 0) y'
  | a :: x', b :: y' => f a b :: zip_pad f x' y'
  end.
Definition icost_add := zip_pad Z.add.
Definition icost_sub := zip_pad Z.sub.
(* comparison of integer-valued cost vectors (values, not bit patterns) *)
Fixpoint vcmp_from (x y : list Z) (i n : nat) : comparison :=
  match n with
  | O => Eq
  | S n' => match Z.compare (getd x i) (getd y i) with Eq => vcmp_from x y (S i) n' | c => c end
  end.
Definition vcost_cmp (x y : list Z) := vcmp_from x y 0 (Nat.max (length x) (length y)).

(* ---------- dominance_order ---------- *)
Definition count_c (c : comparison) (os : list comparison) : nat :=
  length (filter (fun o => match o, c with Lt, Lt | Gt, Gt | Eq, Eq => true | _, _ => false end) os).

Definition dominance (os : list comparison) : comparison :=
  let l := count_c Lt os in let g := count_c Gt os in
  if (0 <? l)%nat && (g =? 0)%nat then Lt
  else if (0 <? g)%nat && (l =? 0)%nat then Gt
  else Eq.

(* ---------- Goal ---------- *)
Inductive layer := LSingle | LMulti (n : nat).

(* add_single comparator *)
Definition single_cmp (a b : Z) : comparison :=
  if is_zero a && is_zero b then Eq else total_cmp a b.

Fixpoint map2 {A B C} (f : A -> B -> C) (x : list A) (y : list B) : list C :=
  match x, y with a :: x', b :: y' => f a b :: map2 f x' y' | _, _ => [] end.

(* multi comparator installed by goal_reader: dominance over raw total_cmp *)
Definition multi_cmp (fa fb : list Z) : comparison := dominance (map2 total_cmp fa fb).

Definition layer_width (l : layer) : nat := match l with LSingle => 1 | LMulti n => n end.

Fixpoint goal_cmp (ls : list layer) (fa fb : list Z) : comparison :=
  match ls with
  | [] => Eq
  | l :: ls' =>
    let w := layer_width l in
    let c := match l with
             | LSingle => single_cmp (getd fa 0) (getd fb 0)
             | LMulti n => multi_cmp (firstn n fa) (firstn n fb)
             end in
    match c with Eq => goal_cmp ls' (skipn w fa) (skipn w fb) | _ => c end
  end.

(* reference: lexicographic comparison of fitness vectors with the two zeros merged *)
Definition zkey (b : Z) : Z := if is_zero b then 0 else key b.
Fixpoint lex_z (x y : list Z) : comparison :=
  match x, y with
  | a :: x', b :: y' => match Z.compare a b with Eq => lex_z x' y' | c => c end
  | _, _ => Eq
  end.

(* entry points used by the correspondence check *)
Definition ord_z (c : comparison) : Z := match c with Lt => -1 | Eq => 0 | Gt => 1 end.
Definition layer_of_z (z : Z) : layer := if z =? 1 then LSingle else LMulti (Z.abs_nat z).
Definition run_goal (ls : list Z) (fa fb : list Z) : list Z :=
  let l := map layer_of_z ls in [ord_z (goal_cmp l fa fb); ord_z (goal_cmp l fb fa); ord_z (goal_cmp l fa fa)].
Definition run_icost (a b : list Z) : list Z := [ord_z (icost_cmp a b)].
Definition run_icost_arith (a b : list Z) : list (list Z) :=
  [icost_add a b; icost_sub a b; icost_sub (icost_add a b) b; icost_add (icost_sub a b) b].
Definition run_dominance (os : list Z) : Z :=
  ord_z (dominance (map (fun z => if z <? 0 then Lt else if z =? 0 then Eq else Gt) os)).
