(* C07 — interrupting the solver: the loops that poll the computation quota / the termination criteria.
   Rust items modelled:
     vrp-core/src/construction/heuristics/insertions.rs :: InsertionHeuristic::process                       -> process (ploop)
                                                            apply_insertion_success / apply_insertion_failure  -> apply_success / apply_failure
                                                            prepare_insertion_ctx / finalize_insertion_ctx     -> prepare / finalize (incl. remove_empty_routes)
        (the bookkeeping of the four lists is Model/Homes.v `step`; the result of evaluate_all is an ORACLE `eres`;
         goal.notify_failure (tour_limits.rs) = `handled`: takes an unused route from the registry, pushes it EMPTY, returns true;
         it returns false when the registry is exhausted -> p_reg counts the unused registry routes)
     rosomaxa/src/utils/environment.rs                  :: Quota::is_reached                                  -> quota = nat -> bool, the
        n-th poll (0-based, ONE global counter as in the harness' CountingQuota) answers `q n`                 -> counting_quota
     rosomaxa/src/termination/max_generation.rs         :: MaxGeneration::is_termination (`generation >= limit`), estimate
     rosomaxa/src/termination/max_time.rs               :: MaxTime (wall clock)                               -> oracle o_time / o_init_quota
     rosomaxa/src/termination/mod.rs                    :: CompositeTermination::is_termination (`any`: short-circuit)  -> is_termination
     rosomaxa/src/evolution/config.rs                   :: get_termination (default 3000 generations + 300 s)  -> terminations
     rosomaxa/src/evolution/telemetry.rs                :: Telemetry::on_generation (next_generation, statistics.generation,
                                                            metrics.generations, metrics.evolution for OnlyMetrics { track_population = T }:
                                                            population not empty && generation % T == 0), on_result (one more entry
                                                            when statistics.generation % T != 0; T = 0 panics)  -> on_generation, on_result
     rosomaxa/src/evolution/simulator.rs                :: EvolutionSimulator::new (no initial operator => Err), run: initial.individuals
                                                            .take(max_size) through on_initial -> seed; (init_size..max_size).try_for_each:
                                                            is_termination AND estimate > initial.quota both evaluated, operator =
                                                            operators[idx] while idx < operators.len() else random.weighted(weights)
                                                            (oracle o_weighted), on_initial -> initial, init_operator
     rosomaxa/src/evolution/strategies/iterative.rs     :: Iterative::run -> iloop (termination AND quota are both evaluated, then `||`) +
                                                            generation (the loop body, in the order of the code):
        parents = ctx.selected(); diverse = if ctx.selection_phase() == Exploitation { [] } else { heuristic.diversify_many(ctx, parents) };
        search = heuristic.search_many(ctx, parents); offspring = search ++ diverse (NO special case for an empty list);
        estimate = termination.estimate(ctx); ctx.on_generation(offspring, estimate, timer)  - in EVERY iteration;
        after the loop: ctx.on_result() -> strategy_result; population.ranked().take(1) -> finish
     rosomaxa/src/lib.rs                                :: TelemetryHeuristicContext::on_initial (population.add), on_generation
                                                            (population.add_all; telemetry.on_generation; population.on_generation(statistics)),
                                                            on_result; vrp-core/src/solver/mod.rs RefinementContext delegates to it
     rosomaxa/src/hyper/mod.rs                          :: trait HyperHeuristic (search_many / diversify_many of a USER-SUPPLIED
        heuristic, EvolutionConfigBuilder::with_heuristic / VrpConfigBuilder::set_heuristic): ORACLES o_hyper / o_diverse = any list of
        offspring per generation (empty list, duplicates, copies of parents), o_inner = does it run the built-in search at all
     rosomaxa/src/termination/mod.rs                    :: trait Termination, a USER-SUPPLIED criterion that reads
        heuristic_ctx.statistics().generation (placed after the builder's criteria)                            -> TUser
     rosomaxa/src/population/mod.rs                     :: trait HeuristicPopulation::select / selection_phase of a user-supplied
        population: any list of parents, also none; any phase                                                  -> o_parents, o_exploit
     rosomaxa/src/population/greedy.rs                  :: Greedy::add / add_all / ranked                      -> greedy_add, greedy_add_all, greedy_best
     vrp-core/src/solver/mod.rs                         :: Solver::solve (`cannot find any solution` for an empty population)         -> evolve
     vrp-core/src/solver/search/decompose_search.rs     :: refine_decomposed, the `(0..repeat_count).try_for_each` loop               -> decompose_inner
     vrp-core/src/solver/search/utils/termination.rs    :: CompositeTimeQuota::is_reached, create_environment_with_custom_quota (crate-private:
                                                            by reading, no direct correspondence)              -> composite_poll, custom_quota, custom_poll
   The calls the two loops make on the pluggable pieces are recorded in order (`event`, s_log); s_iters counts the entries into the loop body.
   Oracles (theorems quantify over all of them): evaluation results, parent selection, selection phase, the offspring a user-supplied
   hyper-heuristic hands over, the operator random.weighted draws, ruin steps, polls made by other
   search steps (exchange_swap_star.rs, decompose_search.rs), wall clock, which individual the population ranks first.
   The population is modelled as the list of everything ever added (the real ones keep a subset of it; the real Greedy exactly: greedy_best).
   run_* entry points used by the correspondence: run_evolve / run_evolve_cfg, run_process (parent stream), run_loop, run_greedy
   (sub-stream c07_loop).  No proofs in this file. *)
From VRP Require Import Base.Tac Model.Homes.
Local Open Scope nat_scope.

(* ------------------------------------------------------------------ quota *)
Definition quota := nat -> bool.
(* harness CountingQuota: true from its k-th poll on (1-based poll number n+1 >= k), None: never *)
Definition counting_quota (k : option nat) : quota :=
  fun n => match k with Some k => k <=? S n | None => false end.

(* ------------------------------------------------------------------ (i) InsertionHeuristic::process *)
Inductive eres :=
| ESuccess (route : nat) (job : Z)                          (* InsertionResult::Success: job goes into routes[route] (>= len: a new route) *)
| EFailure (job : option Z) (all_unassignable handled : bool).

Record pstate := mkP { p_sol : hsol; p_reg : nat; p_polls : nat; p_ins : nat }.

Definition poll (st : pstate) : pstate := mkP (p_sol st) (p_reg st) (S (p_polls st)) (p_ins st).

Definition apply_success (st : pstate) (k : nat) (j : Z) : pstate :=
  mkP (step (p_sol st) (HInsert k j))
      (if length (h_routes (p_sol st)) <=? k then pred (p_reg st) else p_reg st)
      (p_polls st) (S (p_ins st)).

Definition apply_failure (st : pstate) (job : option Z) (all_un handled : bool) : pstate :=
  if handled && (0 <? p_reg st)
  then mkP (step (p_sol st) HPushEmpty) (pred (p_reg st)) (p_polls st) (p_ins st)      (* failure_handled: return *)
  else
    let s1 := match job with Some j => step (p_sol st) (HFail j) | None => p_sol st end in
    let no_routes_available := match job with None => true | Some _ => false end in
    let s2 := if all_un || no_routes_available then step s1 HFinalize else s1 in
    mkP s2 (p_reg st) (p_polls st) (p_ins st).

Definition iterate (r : eres) (st : pstate) : pstate :=
  match r with
  | ESuccess k j => apply_success st k j
  | EFailure j a h => apply_failure st j a h
  end.

(* while !required.is_empty() && !quota.is_reached() { ... }   (the quota is polled only when `required` is not empty);
   None = the fuel ran out (shown impossible for fuel >= measure) *)
Fixpoint ploop (fuel : nat) (ev : nat -> hsol -> eres) (q : quota) (i : nat) (st : pstate) : option pstate :=
  match h_required (p_sol st) with
  | [] => Some st
  | _ :: _ =>
    if q (p_polls st) then Some (poll st)
    else match fuel with
         | O => None
         | S f => ploop f ev q (S i) (iterate (ev i (p_sol st)) (poll st))
         end
  end.

Definition measure (st : pstate) : nat := length (h_required (p_sol st)) + p_reg st.
Definition prepare (st : pstate) : pstate := mkP (step (p_sol st) HPrepare) (p_reg st) (p_polls st) (p_ins st).
(* finalize_insertion_ctx: finalize_unassigned; accept_solution_state; solution.remove_empty_routes() *)
Definition finalize (st : pstate) : pstate :=
  mkP (step (step (p_sol st) HFinalize) HDropEmpty) (p_reg st) (p_polls st) (p_ins st).

Definition process (ev : nat -> hsol -> eres) (q : quota) (st : pstate) : option pstate :=
  let st0 := prepare st in
  match ploop (measure st0) ev q 0 st0 with
  | Some st1 => Some (finalize st1)
  | None => None
  end.

(* ------------------------------------------------------------------ termination criteria *)
(* TOther id: a criterion whose answer is an oracle: MinVariation (id 0), TargetProximity (id 1);
   TUser limit: a user-supplied Termination that is reached only through the statistics: `statistics().generation >= limit` *)
Inductive term := TMaxGen (limit : nat) | TMaxTime | TOther (id : nat) | TUser (limit : nat).

(* EvolutionConfigBuilder::get_termination: max_generations, max_time, min_cv = Some (is_sample, sample size / period), target
   proximity; the limit of MaxGeneration is the configured max_generations WHATEVER else is configured *)
Definition terminations (max_gen : option nat) (max_time : bool) (min_cv : option (bool * nat)) (target : bool) : list term :=
  match max_gen, max_time, min_cv, target with
  | None, false, None, false => [TMaxGen 3000; TMaxTime]
  | _, _, _, _ => (match max_gen with Some l => [TMaxGen l] | None => [] end) ++ (if max_time then [TMaxTime] else [])
                  ++ (match min_cv with Some _ => [TOther 0] | None => [] end) ++ (if target then [TOther 1] else [])
  end.

(* CompositeTermination::is_termination: `any` stops at the first criterion that is true; the wall clock is read once per
   evaluated MaxTime (tp counts those reads) *)
Fixpoint is_termination (ts : list term) (gen : nat) (tm : nat -> bool) (ot : nat -> nat -> bool) (tp : nat) : bool * nat :=
  match ts with
  | [] => (false, tp)
  | TMaxGen l :: r => if l <=? gen then (true, tp) else is_termination r gen tm ot tp
  | TMaxTime :: r => if tm tp then (true, S tp) else is_termination r gen tm ot (S tp)
  | TOther i :: r => if ot i tp then (true, S tp) else is_termination r gen tm ot (S tp)
  | TUser l :: r => if l <=? gen then (true, tp) else is_termination r gen tm ot tp
  end.

(* `termination.estimate(ctx) > initial.quota` (0.05): MaxGeneration gives (gen / limit).min(1) (limit 0: NaN/inf -> 1),
   MaxTime's share is the oracle `iq`; the user-supplied criterion delegates `estimate` to the criteria it wraps *)
Definition est_exceeds (ts : list term) (gen : nat) (iq : bool) : bool :=
  existsb (fun t => match t with TMaxGen l => (l =? 0) || (l <? 20 * gen) | TMaxTime => iq | TOther _ => false | TUser _ => false end) ts.

(* the first criterion of the list that is a limit on statistics.generation *)
Fixpoint gen_limit (ts : list term) : option nat :=
  match ts with [] => None | TMaxGen l :: _ => Some l | TUser l :: _ => Some l | _ :: r => gen_limit r end.

(* ------------------------------------------------------------------ telemetry *)
Record tele := mkT { t_next : option nat; t_stat_gen : nat; t_metric_gens : nat; t_evolution : list nat }.
Definition tele0 : tele := mkT None 0 0 [].

(* Telemetry::on_generation, mode OnlyMetrics { track_population = T }:
     generation = next_generation.unwrap_or(0); metrics.generations = generation; next_generation = Some(generation + 1);
     statistics.generation = generation;  population.ranked().next() = Some(_) && generation % T == 0 => metrics.evolution.push(number = generation) *)
Definition on_generation (T : nat) (t : tele) (population_nonempty : bool) : tele :=
  let g := match t_next t with Some g => g | None => 0 end in
  mkT (Some (S g)) g g (if population_nonempty && (g mod T =? 0) then t_evolution t ++ [g] else t_evolution t).

(* Telemetry::on_result, OnlyMetrics: generations = statistics.generation; `generations % T != 0` => on_population pushes one more
   entry (number = statistics.generation) WHATEVER the population holds; the counters stay as they are *)
Definition on_result (T : nat) (t : tele) : tele :=
  mkT (t_next t) (t_stat_gen t) (t_metric_gens t)
      (if t_stat_gen t mod T =? 0 then t_evolution t else t_evolution t ++ [t_stat_gen t]).

(* number of generations that were run = number of Telemetry::on_generation calls *)
Definition gens_run (t : tele) : nat := match t_next t with Some n => n | None => 0 end.

(* ------------------------------------------------------------------ rosomaxa/src/population/greedy.rs :: Greedy (add, add_all, ranked)
   `fit` = the objective's total order as a number (smaller is better); add keeps best_known unless
   total_order(best_known, individual) == Greater; add_all folds add and tells whether anything improved *)
Definition greedy_add {A} (fit : A -> nat) (best : option A) (x : A) : option A * bool :=
  match best with
  | Some b => if fit b <=? fit x then (Some b, false) else (Some x, true)
  | None => (Some x, true)
  end.
Definition greedy_add_all {A} (fit : A -> nat) (best : option A) (xs : list A) : option A * bool :=
  fold_left (fun acc x => let '(b, imp) := greedy_add fit (fst acc) x in (b, imp || snd acc)) xs (best, false).
(* index of the individual Greedy::ranked().next() yields when the population received `l` (in this order) *)
Fixpoint greedy_best_from {A} (fit : A -> nat) (l : list A) (i : nat) (bi : nat) (bf : nat) : nat :=
  match l with
  | [] => bi
  | x :: r => if bf <=? fit x then greedy_best_from fit r (S i) bi bf else greedy_best_from fit r (S i) i (fit x)
  end.
Definition greedy_best {A} (fit : A -> nat) (l : list A) : nat :=
  match l with [] => 0 | x :: r => greedy_best_from fit r 1 0 (fit x) end.

(* ------------------------------------------------------------------ (ii)/(iii) EvolutionSimulator::run, Iterative::run *)
Inductive rop := RJob (route : nat) (j : Z) | RRoute (route : nat) | RDropEmpty.
Definition rop_hop (r : rop) : hop :=
  match r with RJob k j => HRemoveJob k j | RRoute k => HRemoveRoute k | RDropEmpty => HDropEmpty end.

(* the calls the two loops make on the pluggable pieces (traits Termination, InitialOperator, HeuristicPopulation, HyperHeuristic),
   in the order the code makes them; `stat` = statistics().generation at that moment *)
Inductive event :=
| EvTerm (stat : nat) (answer : bool)            (* termination.is_termination(ctx) *)
| EvEstimate (stat : nat)                        (* termination.estimate(ctx) *)
| EvCreate (op : nat)                            (* initial.operators[op].create(ctx) *)
| EvAdd                                          (* ctx.on_initial -> population.add *)
| EvSelect (parents : nat)                       (* ctx.selected() -> population.select() *)
| EvDiversify (returned : nat)                   (* heuristic.diversify_many(ctx, parents) (not in the Exploitation phase) *)
| EvSearch (stat parents returned : nat)         (* heuristic.search_many(ctx, parents) *)
| EvAddAll (n : nat)                             (* ctx.on_generation -> population.add_all(offspring) *)
| EvPopGen (stat : nat).                         (* ctx.on_generation -> population.on_generation(statistics) *)

Record econfig := mkC {
  c_jobs : list Z;            (* the plan *)
  c_reg : nat;                (* actors of the fleet = routes of a fresh registry *)
  c_max_gen : option nat;
  c_max_time : bool;
  c_min_cv : option (bool * nat);   (* ("sample" ?, sample size / period) *)
  c_target : bool;                  (* target proximity configured *)
  c_user_term : option nat;         (* a user-supplied Termination wrapped around the builder's: `statistics().generation >= limit` *)
  c_init_ops : nat;           (* number of initial operators *)
  c_init_size : nat;          (* initial.max_size *)
  c_fuel : nat;               (* bound on loop iterations used ONLY when no generation limit is configured *)
  c_individuals : list hsol;  (* initial.individuals (with_init_solutions) *)
  c_track : nat;              (* TelemetryMode::OnlyMetrics { track_population } *)
  c_legacy_stop : bool        (* false = the code as it is; true = EvolutionSimulator::run BEFORE the repair of finding C07-F2 (/repo commit
                                 2c5dd99): the two stop tests of the initial phase were applied to an EMPTY population too *)
}.

Record oracles := mkO {
  o_time : nat -> bool;                              (* MaxTime::is_termination at its t-th evaluation *)
  o_other : nat -> nat -> bool;                      (* MinVariation (0) / TargetProximity (1) at the t-th oracle evaluation *)
  o_init_quota : nat -> bool;                        (* MaxTime's estimate > initial.quota at the check of initial slot idx *)
  o_weighted : nat -> nat;                           (* random.weighted(weights) for initial slot idx (>= number of operators) *)
  o_init_ev : nat -> nat -> nat -> hsol -> eres;     (* evaluator results inside operator op called for initial slot idx *)
  o_parents : nat -> list hsol -> list nat;          (* selected(): indices into the population, loop iteration g *)
  o_exploit : nat -> bool;                           (* selection_phase() == Exploitation in iteration g *)
  o_diverse : nat -> list hsol -> list hsol;         (* what diversify_many of a user-supplied HyperHeuristic returns in iteration g *)
  o_inner : nat -> bool;                             (* does the user-supplied search_many run the built-in search in iteration g *)
  o_ruin : nat -> nat -> hsol -> list rop;           (* ruin of the j-th parent of iteration g *)
  o_search_ev : nat -> nat -> nat -> hsol -> eres;   (* evaluator results inside its recreate *)
  o_skip : nat -> nat -> nat;                        (* quota polls by other steps before offspring j (j = #parents: after the last) *)
  o_best : list hsol -> nat;                         (* index of ranked().next() *)
  o_hyper : nat -> list hsol -> list hsol -> list hsol  (* what search_many of a user-supplied HyperHeuristic returns in iteration g, given
                                                          the population and the offspring of the built-in search: ANY list *)
}.

(* s_iters = iterations of Iterative::run that got past the termination / quota test (= search_many calls) *)
Record estate := mkS { s_pop : list hsol; s_tele : tele; s_polls : nat; s_tpolls : nat; s_iters : nat; s_log : list event }.

Definition cfg_terms (cfg : econfig) : list term :=
  terminations (c_max_gen cfg) (c_max_time cfg) (c_min_cv cfg) (c_target cfg)
  ++ match c_user_term cfg with Some l => [TUser l] | None => [] end.

Definition nonempty {A} (l : list A) : bool := match l with [] => false | _ => true end.

(* EvolutionSimulator::run, first fold: initial.individuals.take(max_size), each handed to ctx.on_initial *)
Definition seeded (cfg : econfig) : list hsol := firstn (c_init_size cfg) (c_individuals cfg).
Definition seed (cfg : econfig) (st : estate) : estate :=
  mkS (s_pop st ++ seeded cfg) (s_tele st) (s_polls st) (s_tpolls st) (s_iters st) (s_log st ++ map (fun _ => EvAdd) (seeded cfg)).

(* (init_size..max_size).try_for_each(|idx| ..): n = slots left, idx = the slot.  Per slot BOTH is_termination and
   estimate > initial.quota are evaluated; the operator is operators[idx] while idx < operators.len(), then random.weighted(weights) *)
Definition init_operator (cfg : econfig) (W : oracles) (idx : nat) : nat :=
  if idx <? c_init_ops cfg then idx else o_weighted W idx.

(* `let has_solution = heuristic_ctx.ranked().next().is_some();
    if has_solution && (is_initial_quota_reached || is_overall_termination) { return Err(()) }`:
   at least one solution is built; the stop tests apply only once the population holds one *)
Definition initial_stops (cfg : econfig) (pop : list hsol) (is_initial_quota_reached is_overall_termination : bool) : bool :=
  (c_legacy_stop cfg || nonempty pop) && (is_initial_quota_reached || is_overall_termination).

Fixpoint initial (n idx : nat) (cfg : econfig) (W : oracles) (q : quota) (st : estate) : option estate :=
  match n with
  | O => Some st
  | S n' =>
    let gen := t_stat_gen (s_tele st) in
    let '(is_overall_termination, tp) := is_termination (cfg_terms cfg) gen (o_time W) (o_other W) (s_tpolls st) in
    let is_initial_quota_reached := est_exceeds (cfg_terms cfg) gen (o_init_quota W idx) in
    let log1 := s_log st ++ [EvTerm gen is_overall_termination; EvEstimate gen] in
    if initial_stops cfg (s_pop st) is_initial_quota_reached is_overall_termination
    then Some (mkS (s_pop st) (s_tele st) (s_polls st) tp (s_iters st) log1)
    else
      let op := init_operator cfg W idx in
      match process (o_init_ev W idx op) q (mkP (init (c_jobs cfg)) (c_reg cfg) (s_polls st) 0) with
      | None => None
      | Some p => initial n' (S idx) cfg W q
                          (mkS (s_pop st ++ [p_sol p]) (s_tele st) (p_polls p) tp (s_iters st) (log1 ++ [EvCreate op; EvAdd]))
      end
  end.

(* the built-in search_many: one offspring per selected parent: ruin (removal steps) then recreate (process) *)
Fixpoint offspring (g j : nat) (parents : list nat) (cfg : econfig) (W : oracles) (q : quota) (pop : list hsol) (polls : nat)
  : option (list hsol * nat) :=
  match parents with
  | [] => Some ([], polls + o_skip W g j)
  | p :: r =>
    match nth_error pop p with
    | None => offspring g (S j) r cfg W q pop polls
    | Some s =>
      let ruined := run s (map rop_hop (o_ruin W g j s)) in
      match process (o_search_ev W g j) q (mkP ruined (c_reg cfg) (polls + o_skip W g j) 0) with
      | None => None
      | Some pst =>
        match offspring g (S j) r cfg W q pop (p_polls pst) with
        | None => None
        | Some (rest, polls') => Some (p_sol pst :: rest, polls')
        end
      end
    end
  end.

(* the body of Iterative::run's loop after the termination / quota test:
     parents = ctx.selected().collect();
     diverse_offspring = if ctx.selection_phase() == Exploitation { vec![] } else { heuristic.diversify_many(ctx, parents.clone()) };
     search_offspring = heuristic.search_many(ctx, parents);
     offspring = search_offspring ++ diverse_offspring;            -- may be EMPTY: no special case, the iteration goes on
     termination_estimate = termination.estimate(ctx);
     ctx.on_generation(offspring, termination_estimate, timer):  population.add_all(offspring);
                                                                  telemetry.on_generation(population, ..);
                                                                  population.on_generation(telemetry.statistics) *)
Definition generation (cfg : econfig) (W : oracles) (q : quota) (st : estate) : option estate :=
  let g := s_iters st in
  let pop := s_pop st in
  let stat := t_stat_gen (s_tele st) in
  let parents := o_parents W g pop in
  let diverse := if o_exploit W g then [] else o_diverse W g pop in
  let log1 := s_log st ++ [EvSelect (length parents)] ++ (if o_exploit W g then [] else [EvDiversify (length diverse)]) in
  match (if o_inner W g then offspring g 0 parents cfg W q pop (s_polls st) else Some ([], s_polls st + o_skip W g 0)) with
  | None => None
  | Some (offs, polls) =>
    let search := o_hyper W g pop offs in
    let handed := search ++ diverse in
    let pop' := pop ++ handed in
    let tele' := on_generation (c_track cfg) (s_tele st) (nonempty pop') in
    Some (mkS pop' tele' polls (s_tpolls st) (S g)
              (log1 ++ [EvSearch stat (length parents) (length search); EvEstimate stat;
                        EvAddAll (length handed); EvPopGen (t_stat_gen tele')]))
  end.

(* Iterative::run: loop { is_terminated = termination.is_termination(ctx); is_quota_reached = quota.is_reached();
                          if is_terminated || is_quota_reached { break }  <generation> } *)
Fixpoint iloop (fuel : nat) (cfg : econfig) (W : oracles) (q : quota) (st : estate) : option estate :=
  let stat := t_stat_gen (s_tele st) in
  let '(is_terminated, tp) := is_termination (cfg_terms cfg) stat (o_time W) (o_other W) (s_tpolls st) in
  let is_quota_reached := q (s_polls st) in
  let st1 := mkS (s_pop st) (s_tele st) (S (s_polls st)) tp (s_iters st) (s_log st ++ [EvTerm stat is_terminated]) in
  if is_terminated || is_quota_reached then Some st1
  else match fuel with
       | O => None
       | S f => match generation cfg W q st1 with None => None | Some st2 => iloop f cfg W q st2 end
       end.

Inductive eerr := ErrNoInitialMethods | ErrNoSolution.
(* EPanic: `generation % track_population` with track_population = 0 (telemetry.rs, OnlyMetrics) *)
Inductive eresult := EOk (best : hsol) (final : estate) | EErr (e : eerr) | EFuel | EPanic.

Definition loop_fuel (cfg : econfig) : nat :=
  match gen_limit (cfg_terms cfg) with Some l => S l | None => c_fuel cfg end.

Definition estate0 : estate := mkS [] tele0 0 0 0 [].

(* the end of Iterative::run: ctx.on_result() = telemetry.on_result(population) + take_metrics (whatever the population holds) *)
Definition strategy_result (cfg : econfig) (st : estate) : estate :=
  mkS (s_pop st) (on_result (c_track cfg) (s_tele st)) (s_polls st) (s_tpolls st) (s_iters st) (s_log st).

(* solutions = population.ranked().take(1); Solver::solve: the first one or Err("cannot find any solution") *)
Definition finish (cfg : econfig) (W : oracles) (st : estate) : eresult :=
  match s_pop st with
  | [] => EErr ErrNoSolution
  | h :: _ => EOk (nth (o_best W (s_pop st)) (s_pop st) h) st
  end.

(* EvolutionSimulator::run up to the end of Iterative::run: the state Solver::solve looks at (None: fuel) *)
Definition evolve_run (cfg : econfig) (W : oracles) (q : quota) : option estate :=
  let st0 := seed cfg estate0 in
  match initial (c_init_size cfg - length (seeded cfg)) (length (seeded cfg)) cfg W q st0 with
  | None => None
  | Some st1 => match iloop (loop_fuel cfg) cfg W q st1 with None => None | Some st2 => Some (strategy_result cfg st2) end
  end.

(* EvolutionSimulator::new (no initial operator => Err) + run + Solver::solve *)
Definition evolve (cfg : econfig) (W : oracles) (q : quota) : eresult :=
  if c_init_ops cfg =? 0 then EErr ErrNoInitialMethods
  else if c_track cfg =? 0 then EPanic
  else match evolve_run cfg W q with
       | None => EFuel
       | Some st2 => finish cfg W st2
       end.

(* ------------------------------------------------------------------ (iv) DecomposeSearch::refine_decomposed inner loop
   (0..repeat_count).try_for_each(|_| { search; poll; add_solution; if reached { Err } else { Ok } }): returns (searches, polls) *)
Fixpoint decompose_inner (repeat : nat) (q : quota) (polls : nat) (inner : nat -> nat) (done : nat) : nat * nat :=
  match repeat with
  | O => (done, polls)
  | S r =>
    let polls1 := polls + inner done in             (* polls made inside inner_search.search *)
    if q polls1 then (S done, S polls1) else decompose_inner r q (S polls1) inner (S done)
  end.

(* ------------------------------------------------------------------ (v) the quota a nested search step polls
   vrp-core/src/solver/search/utils/termination.rs :: CompositeTimeQuota::is_reached = `timer.elapsed_millis() > limit || inner.is_reached()`
   (short-circuit: the outer quota is not polled once the clock part is true; p = polls of the outer quota made so far),
   create_environment_with_custom_quota(limit, environment) used by decompose_search.rs and exchange_swap_star.rs:
     (Some, None) => TimeQuota, (None, Some(quota)) => quota, (Some, Some(inner)) => CompositeTimeQuota, (None, None) => None *)
Definition composite_poll (time_up : bool) (inner : quota) (p : nat) : bool * nat :=
  if time_up then (true, p) else (inner p, S p).
Inductive cquota := CNone | CTime | COuter | CComposite.
Definition custom_quota (limit outer : bool) : cquota :=
  match limit, outer with
  | true, false => CTime
  | false, true => COuter
  | true, true => CComposite
  | false, false => CNone
  end.
(* one poll `environment.quota.as_ref().is_some_and(|q| q.is_reached())` on the environment of the nested step *)
Definition custom_poll (c : cquota) (time_up : bool) (inner : quota) (p : nat) : bool * nat :=
  match c with
  | CNone => (false, p)
  | CTime => (time_up, p)
  | COuter => (inner p, S p)
  | CComposite => composite_poll time_up inner p
  end.

(* ------------------------------------------------------------------ correspondence entry points *)
(* loop-level observables of one solve with the deterministic layout: the plan is abstracted to [] (no insertion-loop poll),
   the polls observed inside the initial phase / inside generation g of the UNINTERRUPTED run are fed through o_skip.
   (the other criteria of the configuration never fire in this evaluation: the prediction is exact when they cannot fire and an
   upper bound on the generations otherwise)
   result: (code, generations run, metrics.generations, |metrics.evolution|, polls) with code 0 = solution, 1 = "cannot find any
   solution", 2 = no initial operator, 3 = fuel, 4 = panic *)
Definition skip_oracles (init_polls : nat) (gen_polls : list nat) : oracles :=
  mkO (fun _ => false) (fun _ _ => false) (fun _ => false) (fun _ => 0) (fun _ _ _ _ => EFailure None false false)
      (fun _ _ => []) (fun _ => true) (fun _ _ => []) (fun _ => true) (fun _ _ _ => []) (fun _ _ _ _ => EFailure None false false)
      (fun g _ => nth g gen_polls 0) (fun _ => 0) (fun _ _ offs => offs).

Definition run_evolve_cfg (max_gen : nat) (max_time : bool) (min_cv : option (bool * nat)) (target : bool)
           (init_polls : nat) (gen_polls : list nat) (k : option nat) : nat * nat * nat * nat * nat :=
  let cfg := mkC [] 1 (Some max_gen) max_time min_cv target None 4 4 0 [] 1 false in
  let q : quota := fun n => counting_quota k (n + init_polls) in
  match evolve cfg (skip_oracles init_polls gen_polls) q with
  | EOk _ st => (0, gens_run (s_tele st), t_metric_gens (s_tele st), length (t_evolution (s_tele st)), s_polls st + init_polls)
  | EErr ErrNoSolution => (1, 0, 0, 0, 0)
  | EErr ErrNoInitialMethods => (2, 0, 0, 0, 0)
  | EFuel => (3, 0, 0, 0, 0)
  | EPanic => (4, 0, 0, 0, 0)
  end.

Definition run_evolve (max_gen : nat) := run_evolve_cfg max_gen false None false.

(* sub-stream c07_loop: the two loops driven with USER-SUPPLIED pieces (scripted hyper-heuristic / population / termination /
   initial operators).  Per loop iteration g the run itself tells: parents g = how many parents the population selected,
   inner g = did the scripted heuristic run the built-in search, mult g = how often it hands over each offspring of the built-in
   search (0 = it drops them all), exploit g = selection phase Exploitation (no diversify_many call), diverse g = how many
   solutions diversify_many returned, gen_polls g = quota polls made inside the iteration; weighted = the operator chosen for the
   initial slots idx >= number of operators; time = the answers of MaxTime::is_termination in the order it was evaluated, iq = per
   initial slot whether MaxTime's estimate exceeded initial.quota.  The plan is abstracted to [] as in run_evolve.
   result: (code, (generations run, loop iterations, metrics.generations), metrics.evolution numbers, polls, individuals ever
   handed to the population, the calls on the pluggable pieces in order) *)
Definition loop_oracles (time iq : list bool) (weighted gen_polls parents : list nat) (inner : list bool) (mult : list nat)
           (exploit : list bool) (diverse : list nat) : oracles :=
  mkO (fun t => nth t time false) (fun _ _ => false) (fun idx => nth idx iq false) (fun idx => nth idx weighted 0)
      (fun _ _ _ _ => EFailure None false false)
      (fun g pop => repeat 0 (nth g parents 0))
      (fun g => nth g exploit true)
      (fun g pop => match pop with [] => [] | h :: _ => repeat h (nth g diverse 0) end)
      (fun g => nth g inner true)
      (fun _ _ _ => []) (fun _ _ _ _ => EFailure None false false)
      (fun g j => if j =? 0 then nth g gen_polls 0 else 0) (fun _ => 0)
      (fun g pop offs => flat_map (fun s => repeat s (nth g mult 1)) offs).

Definition ev_code (e : event) : nat * nat * nat * nat :=
  match e with
  | EvTerm s a => (0, s, if a then 1 else 0, 0)
  | EvEstimate s => (1, s, 0, 0)
  | EvCreate op => (2, op, 0, 0)
  | EvAdd => (3, 0, 0, 0)
  | EvSelect n => (4, n, 0, 0)
  | EvDiversify n => (5, n, 0, 0)
  | EvSearch s p r => (6, s, p, r)
  | EvAddAll n => (7, n, 0, 0)
  | EvPopGen s => (8, s, 0, 0)
  end.

Definition run_loop (max_gen user_term : option nat) (max_time : bool) (init_ops init_size individuals track fuel init_polls : nat)
           (time iq : list bool) (weighted gen_polls parents : list nat) (inner : list bool) (mult : list nat) (exploit : list bool)
           (diverse : list nat) (k : option nat)
  : nat * ((nat * nat * nat) * list nat * nat * nat * list (nat * nat * nat * nat)) :=
  let cfg := mkC [] 1 max_gen max_time None false user_term init_ops init_size fuel (repeat (init []) individuals) track false in
  let q : quota := fun n => counting_quota k (n + init_polls) in
  let W := loop_oracles time iq weighted gen_polls parents inner mult exploit diverse in
  let obs := fun st : estate => ((gens_run (s_tele st), s_iters st, t_metric_gens (s_tele st)), t_evolution (s_tele st),
                                 s_polls st + init_polls, length (s_pop st), map ev_code (s_log st)) in
  let obs_run := match evolve_run cfg W q with Some st => obs st | None => ((0, 0, 0), [], 0, 0, []) end in
  match evolve cfg W q with
  | EOk _ st => (0, obs st)
  | EErr ErrNoSolution => (1, obs_run)
  | EErr ErrNoInitialMethods => (2, obs_run)
  | EFuel => (3, obs_run)
  | EPanic => (4, obs_run)
  end.

(* the scalar domain with the real Greedy population: fits = the fitness of every individual handed to the population, in order;
   result = index of the one ranked().next() yields at the end *)
Definition run_greedy (fits : list nat) : nat := greedy_best (fun x => x) fits.

(* one run of the insertion loop on ids 0..n-1 where every evaluation succeeds into route 0: (inserted, unassigned, polls) *)
Definition run_process (njobs : nat) (k : option nat) : nat * nat * nat :=
  let jobs := map Z.of_nat (seq 0 njobs) in
  let ev := fun (_ : nat) (s : hsol) => match h_required s with j :: _ => ESuccess 0 j | [] => EFailure None false false end in
  match process ev (counting_quota k) (mkP (init jobs) 1 0 0) with
  | Some st => (p_ins st, length (h_unassigned (p_sol st)), p_polls st)
  | None => (0, 0, 0)
  end.
