(* C07 — interrupting the solver: the loops that poll the computation quota / the termination criteria.
   Rust items modelled:
     vrp-core/src/construction/heuristics/insertions.rs :: InsertionHeuristic::process                       -> process (ploop)
                                                            apply_insertion_success / apply_insertion_failure  -> apply_success / apply_failure
                                                            prepare_insertion_ctx / finalize_insertion_ctx     -> prepare / finalize (incl. remove_empty_routes)
        (the bookkeeping of the four lists is Model/Homes.v `step`; the result of evaluate_all is an ORACLE `eres`;
         goal.notify_failure (tour_limits.rs) = `handled`: takes an unused route from the registry, pushes it EMPTY, returns true;
         it returns false when the registry is exhausted -> p_reg counts the unused registry routes)
     rosomaxa/src/utils/environment.rs                  :: Quota::is_reached                                  -> quota = nat -> bool, the
        n-th poll (0-based, ONE global counter as in the harness' CountingQuota) answers `q n`                 -> counting_quota
     rosomaxa/src/termination/max_generation.rs         :: MaxGeneration::is_termination (`generation >= limit`), estimate
     rosomaxa/src/termination/max_time.rs               :: MaxTime (wall clock)                               -> oracle o_time / o_init_quota
     rosomaxa/src/termination/mod.rs                    :: CompositeTermination::is_termination (`any`: short-circuit)  -> is_termination
     rosomaxa/src/evolution/config.rs                   :: get_termination (default 3000 generations + 300 s)  -> terminations
     rosomaxa/src/evolution/telemetry.rs                :: Telemetry::on_generation (next_generation, statistics.generation,
                                                            metrics.generations, metrics.evolution with track_population = 1)  -> on_generation
     rosomaxa/src/evolution/simulator.rs                :: EvolutionSimulator::new (no initial operator => Err), run (initial phase)  -> initial
     rosomaxa/src/evolution/strategies/iterative.rs     :: Iterative::run (termination AND quota are both evaluated, then `||`)       -> iloop
        (parents = selected(); offspring = heuristic.search_many(parents) ++ heuristic.diversify_many(parents);
         heuristic_ctx.on_generation(offspring, ..) is called in EVERY iteration, whatever the offspring list is)
     rosomaxa/src/hyper/mod.rs                          :: trait HyperHeuristic (search_many / diversify_many of a USER-SUPPLIED
        heuristic, EvolutionConfigBuilder::with_heuristic / VrpConfigBuilder::set_heuristic): ORACLE o_hyper = any list of
        offspring per generation (empty list, duplicates, copies of parents), given what the built-in operators produced
     rosomaxa/src/termination/mod.rs                    :: trait Termination, a USER-SUPPLIED criterion that reads
        heuristic_ctx.statistics().generation (placed after the builder's criteria)                            -> TUser
     rosomaxa/src/population/mod.rs                     :: trait HeuristicPopulation::select of a user-supplied population: any
        list of parents, also none                                                                             -> o_parents
     rosomaxa/src/lib.rs                                :: TelemetryHeuristicContext::on_generation / on_result
     vrp-core/src/solver/mod.rs                         :: Solver::solve (`cannot find any solution` for an empty population)         -> evolve
     vrp-core/src/solver/search/decompose_search.rs     :: refine_decomposed, the `(0..repeat_count).try_for_each` loop               -> decompose_inner
   Oracles (theorems quantify over all of them): evaluation results, parent selection, the offspring a user-supplied
   hyper-heuristic hands over, ruin steps, polls made by other
   search steps (exchange_swap_star.rs, decompose_search.rs), wall clock, which individual the population ranks first.
   The population is modelled as the list of everything ever added (the real populations keep a subset of it).
   run_* entry points used by the correspondence: run_evolve, run_process, run_loop (sub-stream c07_loop).  No proofs in this file. *)
From VRP Require Import Base.Tac Model.Homes.
Local Open Scope nat_scope.

(* ------------------------------------------------------------------ quota *)
Definition quota := nat -> bool.
(* harness CountingQuota: true from its k-th poll on (1-based poll number n+1 >= k), None: never *)
Definition counting_quota (k : option nat) : quota :=
  fun n => match k with Some k => k <=? S n | None => false end.

(* ------------------------------------------------------------------ (i) InsertionHeuristic::process *)
Inductive eres :=
| ESuccess (route : nat) (job : Z)                          (* InsertionResult::Success: job goes into routes[route] (>= len: a new route) *)
| EFailure (job : option Z) (all_unassignable handled : bool).

Record pstate := mkP { p_sol : hsol; p_reg : nat; p_polls : nat; p_ins : nat }.

Definition poll (st : pstate) : pstate := mkP (p_sol st) (p_reg st) (S (p_polls st)) (p_ins st).

Definition apply_success (st : pstate) (k : nat) (j : Z) : pstate :=
  mkP (step (p_sol st) (HInsert k j))
      (if length (h_routes (p_sol st)) <=? k then pred (p_reg st) else p_reg st)
      (p_polls st) (S (p_ins st)).

Definition apply_failure (st : pstate) (job : option Z) (all_un handled : bool) : pstate :=
  if handled && (0 <? p_reg st)
  then mkP (step (p_sol st) HPushEmpty) (pred (p_reg st)) (p_polls st) (p_ins st)      (* failure_handled: return *)
  else
    let s1 := match job with Some j => step (p_sol st) (HFail j) | None => p_sol st end in
    let no_routes_available := match job with None => true | Some _ => false end in
    let s2 := if all_un || no_routes_available then step s1 HFinalize else s1 in
    mkP s2 (p_reg st) (p_polls st) (p_ins st).

Definition iterate (r : eres) (st : pstate) : pstate :=
  match r with
  | ESuccess k j => apply_success st k j
  | EFailure j a h => apply_failure st j a h
  end.

(* while !required.is_empty() && !quota.is_reached() { ... }   (the quota is polled only when `required` is not empty);
   None = the fuel ran out (shown impossible for fuel >= measure) *)
Fixpoint ploop (fuel : nat) (ev : nat -> hsol -> eres) (q : quota) (i : nat) (st : pstate) : option pstate :=
  match h_required (p_sol st) with
  | [] => Some st
  | _ :: _ =>
    if q (p_polls st) then Some (poll st)
    else match fuel with
         | O => None
         | S f => ploop f ev q (S i) (iterate (ev i (p_sol st)) (poll st))
         end
  end.

Definition measure (st : pstate) : nat := length (h_required (p_sol st)) + p_reg st.
Definition prepare (st : pstate) : pstate := mkP (step (p_sol st) HPrepare) (p_reg st) (p_polls st) (p_ins st).
(* finalize_insertion_ctx: finalize_unassigned; accept_solution_state; solution.remove_empty_routes() *)
Definition finalize (st : pstate) : pstate :=
  mkP (step (step (p_sol st) HFinalize) HDropEmpty) (p_reg st) (p_polls st) (p_ins st).

Definition process (ev : nat -> hsol -> eres) (q : quota) (st : pstate) : option pstate :=
  let st0 := prepare st in
  match ploop (measure st0) ev q 0 st0 with
  | Some st1 => Some (finalize st1)
  | None => None
  end.

(* ------------------------------------------------------------------ termination criteria *)
(* TOther id: a criterion whose answer is an oracle: MinVariation (id 0), TargetProximity (id 1);
   TUser limit: a user-supplied Termination that is reached only through the statistics: `statistics().generation >= limit` *)
Inductive term := TMaxGen (limit : nat) | TMaxTime | TOther (id : nat) | TUser (limit : nat).

(* EvolutionConfigBuilder::get_termination: max_generations, max_time, min_cv = Some (is_sample, sample size / period), target
   proximity; the limit of MaxGeneration is the configured max_generations WHATEVER else is configured *)
Definition terminations (max_gen : option nat) (max_time : bool) (min_cv : option (bool * nat)) (target : bool) : list term :=
  match max_gen, max_time, min_cv, target with
  | None, false, None, false => [TMaxGen 3000; TMaxTime]
  | _, _, _, _ => (match max_gen with Some l => [TMaxGen l] | None => [] end) ++ (if max_time then [TMaxTime] else [])
                  ++ (match min_cv with Some _ => [TOther 0] | None => [] end) ++ (if target then [TOther 1] else [])
  end.

(* CompositeTermination::is_termination: `any` stops at the first criterion that is true; the wall clock is read once per
   evaluated MaxTime (tp counts those reads) *)
Fixpoint is_termination (ts : list term) (gen : nat) (tm : nat -> bool) (ot : nat -> nat -> bool) (tp : nat) : bool * nat :=
  match ts with
  | [] => (false, tp)
  | TMaxGen l :: r => if l <=? gen then (true, tp) else is_termination r gen tm ot tp
  | TMaxTime :: r => if tm tp then (true, S tp) else is_termination r gen tm ot (S tp)
  | TOther i :: r => if ot i tp then (true, S tp) else is_termination r gen tm ot (S tp)
  | TUser l :: r => if l <=? gen then (true, tp) else is_termination r gen tm ot tp
  end.

(* `termination.estimate(ctx) > initial.quota` (0.05): MaxGeneration gives (gen / limit).min(1) (limit 0: NaN/inf -> 1),
   MaxTime's share is the oracle `iq`; the user-supplied criterion delegates `estimate` to the criteria it wraps *)
Definition est_exceeds (ts : list term) (gen : nat) (iq : bool) : bool :=
  existsb (fun t => match t with TMaxGen l => (l =? 0) || (l <? 20 * gen) | TMaxTime => iq | TOther _ => false | TUser _ => false end) ts.

(* the first criterion of the list that is a limit on statistics.generation *)
Fixpoint gen_limit (ts : list term) : option nat :=
  match ts with [] => None | TMaxGen l :: _ => Some l | TUser l :: _ => Some l | _ :: r => gen_limit r end.

(* ------------------------------------------------------------------ telemetry *)
Record tele := mkT { t_next : option nat; t_stat_gen : nat; t_metric_gens : nat; t_evolution : list nat }.
Definition tele0 : tele := mkT None 0 0 [].

Definition on_generation (t : tele) (population_nonempty : bool) : tele :=
  let g := match t_next t with Some g => g | None => 0 end in
  mkT (Some (S g)) g g (if population_nonempty then t_evolution t ++ [g] else t_evolution t).

(* number of generations that were run *)
Definition gens_run (t : tele) : nat := match t_next t with Some n => n | None => 0 end.

(* ------------------------------------------------------------------ (ii)/(iii) EvolutionSimulator::run, Iterative::run *)
Inductive rop := RJob (route : nat) (j : Z) | RRoute (route : nat) | RDropEmpty.
Definition rop_hop (r : rop) : hop :=
  match r with RJob k j => HRemoveJob k j | RRoute k => HRemoveRoute k | RDropEmpty => HDropEmpty end.

Record econfig := mkC {
  c_jobs : list Z;            (* the plan *)
  c_reg : nat;                (* actors of the fleet = routes of a fresh registry *)
  c_max_gen : option nat;
  c_max_time : bool;
  c_min_cv : option (bool * nat);   (* ("sample" ?, sample size / period) *)
  c_target : bool;                  (* target proximity configured *)
  c_user_term : option nat;         (* a user-supplied Termination wrapped around the builder's: `statistics().generation >= limit` *)
  c_init_ops : nat;           (* number of initial operators *)
  c_init_size : nat;          (* initial.max_size *)
  c_fuel : nat                (* bound on loop iterations used ONLY when no generation limit is configured *)
}.

Record oracles := mkO {
  o_time : nat -> bool;                              (* MaxTime::is_termination at its t-th evaluation *)
  o_other : nat -> nat -> bool;                      (* MinVariation (0) / TargetProximity (1) at the t-th oracle evaluation *)
  o_init_quota : nat -> bool;                        (* MaxTime's estimate > initial.quota at the idx-th initial check *)
  o_init_ev : nat -> nat -> hsol -> eres;            (* evaluator results inside the idx-th initial operator *)
  o_parents : nat -> list hsol -> list nat;          (* selected(): indices into the population, generation g *)
  o_ruin : nat -> nat -> hsol -> list rop;           (* ruin of the j-th parent of generation g *)
  o_search_ev : nat -> nat -> nat -> hsol -> eres;   (* evaluator results inside its recreate *)
  o_skip : nat -> nat -> nat;                        (* quota polls by other steps before offspring j (j = #parents: after the last) *)
  o_best : list hsol -> nat;                         (* index of ranked().next() *)
  o_hyper : nat -> list hsol -> list hsol -> list hsol  (* what a user-supplied HyperHeuristic hands over in generation g, given the
                                                          population and the offspring of the built-in search: ANY list *)
}.

Record estate := mkS { s_pop : list hsol; s_tele : tele; s_polls : nat; s_tpolls : nat }.

Definition cfg_terms (cfg : econfig) : list term :=
  terminations (c_max_gen cfg) (c_max_time cfg) (c_min_cv cfg) (c_target cfg)
  ++ match c_user_term cfg with Some l => [TUser l] | None => [] end.

Fixpoint initial (n idx : nat) (cfg : econfig) (W : oracles) (q : quota) (st : estate) : option estate :=
  match n with
  | O => Some st
  | S n' =>
    let gen := t_stat_gen (s_tele st) in
    let '(is_overall_termination, tp) := is_termination (cfg_terms cfg) gen (o_time W) (o_other W) (s_tpolls st) in
    let is_initial_quota_reached := est_exceeds (cfg_terms cfg) gen (o_init_quota W idx) in
    if is_initial_quota_reached || is_overall_termination
    then Some (mkS (s_pop st) (s_tele st) (s_polls st) tp)
    else match process (o_init_ev W idx) q (mkP (init (c_jobs cfg)) (c_reg cfg) (s_polls st) 0) with
         | None => None
         | Some p => initial n' (S idx) cfg W q (mkS (s_pop st ++ [p_sol p]) (s_tele st) (p_polls p) tp)
         end
  end.

(* search_many: one offspring per selected parent: ruin (removal steps) then recreate (process) *)
Fixpoint offspring (g j : nat) (parents : list nat) (cfg : econfig) (W : oracles) (q : quota) (pop : list hsol) (polls : nat)
  : option (list hsol * nat) :=
  match parents with
  | [] => Some ([], polls + o_skip W g j)
  | p :: r =>
    match nth_error pop p with
    | None => offspring g (S j) r cfg W q pop polls
    | Some s =>
      let ruined := run s (map rop_hop (o_ruin W g j s)) in
      match process (o_search_ev W g j) q (mkP ruined (c_reg cfg) (polls + o_skip W g j) 0) with
      | None => None
      | Some pst =>
        match offspring g (S j) r cfg W q pop (p_polls pst) with
        | None => None
        | Some (rest, polls') => Some (p_sol pst :: rest, polls')
        end
      end
    end
  end.

Definition generation (cfg : econfig) (W : oracles) (q : quota) (st : estate) : option estate :=
  let g := gens_run (s_tele st) in
  match offspring g 0 (o_parents W g (s_pop st)) cfg W q (s_pop st) (s_polls st) with
  | None => None
  | Some (offs, polls) =>
    (* heuristic_ctx.on_generation(offspring, ..): population.add_all(offspring); telemetry.on_generation(..) - in every iteration *)
    let pop := s_pop st ++ o_hyper W g (s_pop st) offs in
    Some (mkS pop (on_generation (s_tele st) (match pop with [] => false | _ => true end)) polls (s_tpolls st))
  end.

Fixpoint iloop (fuel : nat) (cfg : econfig) (W : oracles) (q : quota) (st : estate) : option estate :=
  let '(is_terminated, tp) := is_termination (cfg_terms cfg) (t_stat_gen (s_tele st)) (o_time W) (o_other W) (s_tpolls st) in
  let is_quota_reached := q (s_polls st) in
  let st1 := mkS (s_pop st) (s_tele st) (S (s_polls st)) tp in
  if is_terminated || is_quota_reached then Some st1
  else match fuel with
       | O => None
       | S f => match generation cfg W q st1 with None => None | Some st2 => iloop f cfg W q st2 end
       end.

Inductive eerr := ErrNoInitialMethods | ErrNoSolution.
Inductive eresult := EOk (best : hsol) (final : estate) | EErr (e : eerr) | EFuel.

Definition loop_fuel (cfg : econfig) : nat :=
  match gen_limit (cfg_terms cfg) with Some l => S l | None => c_fuel cfg end.

Definition estate0 : estate := mkS [] tele0 0 0.

Definition evolve (cfg : econfig) (W : oracles) (q : quota) : eresult :=
  if c_init_ops cfg =? 0 then EErr ErrNoInitialMethods
  else match initial (c_init_size cfg) 0 cfg W q estate0 with
       | None => EFuel
       | Some st1 =>
         match iloop (loop_fuel cfg) cfg W q st1 with
         | None => EFuel
         | Some st2 =>
           match s_pop st2 with
           | [] => EErr ErrNoSolution
           | h :: _ => EOk (nth (o_best W (s_pop st2)) (s_pop st2) h) st2
           end
         end
       end.

(* ------------------------------------------------------------------ (iv) DecomposeSearch::refine_decomposed inner loop
   (0..repeat_count).try_for_each(|_| { search; poll; add_solution; if reached { Err } else { Ok } }): returns (searches, polls) *)
Fixpoint decompose_inner (repeat : nat) (q : quota) (polls : nat) (inner : nat -> nat) (done : nat) : nat * nat :=
  match repeat with
  | O => (done, polls)
  | S r =>
    let polls1 := polls + inner done in             (* polls made inside inner_search.search *)
    if q polls1 then (S done, S polls1) else decompose_inner r q (S polls1) inner (S done)
  end.

(* ------------------------------------------------------------------ correspondence entry points *)
(* loop-level observables of one solve with the deterministic layout: the plan is abstracted to [] (no insertion-loop poll),
   the polls observed inside the initial phase / inside generation g of the UNINTERRUPTED run are fed through o_skip.
   (the other criteria of the configuration never fire in this evaluation: the prediction is exact when they cannot fire and an
   upper bound on the generations otherwise)
   result: (code, generations run, metrics.generations, |metrics.evolution|, polls) with code 0 = solution, 1 = "cannot find any
   solution", 2 = no initial operator, 3 = fuel *)
Definition skip_oracles (init_polls : nat) (gen_polls : list nat) : oracles :=
  mkO (fun _ => false) (fun _ _ => false) (fun _ => false) (fun _ _ _ => EFailure None false false)
      (fun _ _ => []) (fun _ _ _ => []) (fun _ _ _ _ => EFailure None false false)
      (fun g _ => nth g gen_polls 0) (fun _ => 0) (fun _ _ offs => offs).

Definition run_evolve_cfg (max_gen : nat) (max_time : bool) (min_cv : option (bool * nat)) (target : bool)
           (init_polls : nat) (gen_polls : list nat) (k : option nat) : nat * nat * nat * nat * nat :=
  let cfg := mkC [] 1 (Some max_gen) max_time min_cv target None 4 4 0 in
  let q : quota := fun n => counting_quota k (n + init_polls) in
  match evolve cfg (skip_oracles init_polls gen_polls) q with
  | EOk _ st => (0, gens_run (s_tele st), t_metric_gens (s_tele st), length (t_evolution (s_tele st)), s_polls st + init_polls)
  | EErr ErrNoSolution => (1, 0, 0, 0, 0)
  | EErr ErrNoInitialMethods => (2, 0, 0, 0, 0)
  | EFuel => (3, 0, 0, 0, 0)
  end.

Definition run_evolve (max_gen : nat) := run_evolve_cfg max_gen false None false.

(* sub-stream c07_loop: the loop driven with USER-SUPPLIED pieces (scripted hyper-heuristic / population / termination).
   Per generation g the run itself tells: parents g = how many parents the population selected, mult g = how often the scripted
   heuristic hands over each offspring of the built-in search (0 = it drops them all), diverse g = how many further solutions it
   adds (diversify_many), gen_polls g = quota polls made inside the generation.  The plan is abstracted to [] as in run_evolve.
   result: (code, generations run, metrics.generations, metrics.evolution numbers, polls, individuals ever handed to the population) *)
Definition loop_oracles (gen_polls parents mult diverse : list nat) : oracles :=
  mkO (fun _ => false) (fun _ _ => false) (fun _ => false) (fun _ _ _ => EFailure None false false)
      (fun g pop => seq 0 (Nat.min (nth g parents 0) (length pop)))
      (fun _ _ _ => []) (fun _ _ _ _ => EFailure None false false)
      (fun g j => if j =? 0 then nth g gen_polls 0 else 0) (fun _ => 0)
      (fun g pop offs => flat_map (fun s => repeat s (nth g mult 1)) offs
                         ++ match pop with [] => [] | h :: _ => repeat h (nth g diverse 0) end).

Definition run_loop (max_gen user_term : option nat) (init_ops init_size : nat) (fuel : nat)
           (init_polls : nat) (gen_polls parents mult diverse : list nat) (k : option nat)
  : nat * nat * nat * list nat * nat * nat :=
  let cfg := mkC [] 1 max_gen false None false user_term init_ops init_size fuel in
  let q : quota := fun n => counting_quota k (n + init_polls) in
  match evolve cfg (loop_oracles gen_polls parents mult diverse) q with
  | EOk _ st => (0, gens_run (s_tele st), t_metric_gens (s_tele st), t_evolution (s_tele st), s_polls st + init_polls, length (s_pop st))
  | EErr ErrNoSolution => (1, 0, 0, [], 0, 0)
  | EErr ErrNoInitialMethods => (2, 0, 0, [], 0, 0)
  | EFuel => (3, 0, 0, [], 0, 0)
  end.

(* one run of the insertion loop on ids 0..n-1 where every evaluation succeeds into route 0: (inserted, unassigned, polls) *)
Definition run_process (njobs : nat) (k : option nat) : nat * nat * nat :=
  let jobs := map Z.of_nat (seq 0 njobs) in
  let ev := fun (_ : nat) (s : hsol) => match h_required s with j :: _ => ESuccess 0 j | [] => EFailure None false false end in
  match process ev (counting_quota k) (mkP (init jobs) 1 0 0) with
  | Some st => (p_ins st, length (h_unassigned (p_sol st)), p_polls st)
  | None => (0, 0, 0)
  end.
