(* Model of:
     vrp-core/src/solver/search/lkh_search.rs :: optimize_route, route_to_path, rearrange_route, get_activity_range,
                                                 CostMatrix::new, <CostMatrix as AdjacencySpec>::{cost, neighbours}
   i.e. how the solver's LKH operator turns a tour into an LKH path and the optimised path back into a tour.
   A tour is the list of its activities' locations (start first; the last activity is the vehicle's end or, in an open tour, the last job).
   get_activity_range: 0..total, minus the last activity when it is at the start's location.
   CostMatrix: node = activity index; cost((i, j)) = distance_approx(loc[min i j], loc[max i j]) (symmetrised by INDEX order);
   neighbours(i) = all other nodes sorted (stable, total_cmp) by distance_approx(loc[i], loc[j]) in THIS direction.
   optimize_route: nothing for total <= 3; path = identity; lkh_optimize(..).last(); rearranged only if different from the identity.
   rearrange_route: for i in range.rev(): swap activities path[i] <-> i, then swap path entries i <-> position(i) (an in-place
   application of the permutation; `swap` out of bounds would panic: not modelled, excluded by `Permutation path (seq 0 n)`).
   Generic in the cost arithmetic like Model/LkhG.v; run_lkh_route = instance at binary64 for the correspondence.  No proofs here. *)
From Coq Require Import Floats.
From VRP Require Import Base.Tac Model.Lkh Model.LkhG.
Local Open Scope nat_scope.

Fixpoint set_nth {A} (i : nat) (x : A) (l : list A) : list A :=
  match l, i with
  | [], _ => []
  | _ :: r, O => x :: r
  | y :: r, S k => y :: set_nth k x r
  end.

(* slice::swap(i, j) *)
Definition swap_at {A} (d : A) (i j : nat) (l : list A) : list A := set_nth i (nth j l d) (set_nth j (nth i l d) l).

(* one iteration of `for i in range.rev()` of rearrange_route *)
Definition rearr_step {A} (d : A) (st : list A * list nat) (i : nat) : list A * list nat :=
  let c := nth i (snd st) 0 in
  if c =? i then st else
  let acts' := swap_at d c i (fst st) in
  match index_of i (snd st) with               (* path.iter().position(|&p| p == i) *)
  | Some ipos => (acts', swap_at 0 i ipos (snd st))
  | None => (acts', snd st)
  end.

Definition rearrange {A} (d : A) (n : nat) (acts : list A) (path : list nat) : list A :=
  fst (fold_left (rearr_step d) (rev (seq 0 n)) (acts, path)).

(* get_activity_range(tour).len() for the tour whose activities are at `locs` *)
Definition route_range (locs : list nat) : nat :=
  match locs with
  | [] => 0
  | s :: _ => length locs - (if last locs s =? s then 1 else 0)
  end.

Section Route.
  Variable C : Type.
  Variable K : cops C.
  Variable dist : nat -> nat -> C.        (* transport.distance_approx(profile, from, to) *)
  Variable locs : list nat.               (* CostMatrix::locations: the locations of the activities in the range *)

  Definition route_cost (i j : nat) : C :=
    if j <? i then dist (nth j locs 0) (nth i locs 0) else dist (nth i locs 0) (nth j locs 0).

  (* stable ascending sort by total_cmp of the key *)
  Fixpoint asins (x : nat * C) (s : list (nat * C)) : list (nat * C) :=
    match s with
    | [] => [x]
    | y :: r => if c_tgt K (snd x) (snd y) then y :: asins x r else x :: s
    end.
  Definition asort (l : list (nat * C)) : list (nat * C) := fold_right asins [] l.

  Definition route_nb : list (list nat) :=
    let size := length locs in
    map (fun i => map fst (asort (map (fun j => (j, dist (nth i locs 0) (nth j locs 0)))
                                      (filter (fun j => negb (j =? i)) (seq 0 size)))))
        (seq 0 size).
End Route.

(* optimize_route on the tour `locs_all`; `last_path` = lkh_optimize(adjacency, identity).last() (None: it did not come back);
   result: the new tour as indices into the old one *)
Definition route_apply (locs_all : list nat) (last_path : list nat) : list nat :=
  let n := route_range locs_all in
  let ident := seq 0 (length locs_all) in
  if list_eqb last_path (seq 0 n) then ident else rearrange 0 n ident last_path.

(* binary64 instance.  (code, new order): code 0 ok, 1 fuel, 2 order-dependent tie, 4 the search cycles, 5 = tour too small *)
Definition run_lkh_route (repaired : bool) (dm : list (list float)) (locs_all : list nat) : nat * list nat :=
  if length locs_all <=? 3 then (5, seq 0 (length locs_all)) else
  let n := route_range locs_all in
  let locs := firstn n locs_all in
  let cost := route_cost float (fcost dm) locs in
  let nb := route_nb float FOps (fcost dm) locs in
  if repaired then
    match goptimize_hist float FOps cost nb (gstrict_ho float FOps) 400 (seq 0 n) [] with
    | HFound ps => (0, route_apply locs_all (last ps []))
    | HFuel => (1, [])
    | HAbort => (2, [])
    end
  else
    match goptimize_seen float FOps cost nb (gstrict_ho float FOps) rej_known 400 [] (seq 0 n) with
    | (0, q, _) => (0, route_apply locs_all q)
    | (code, _, _) => (code, [])
    end.
