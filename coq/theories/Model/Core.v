(* Shared core model: activities, tours, schedules, cached tour state, the two shipped O(1) insertion tests
   (time windows / capacity), the cost estimate, and the insertion scan.
   Rust items modelled (vrp-core/src):
     construction/enablers/schedule_update.rs :: update_schedules, update_states, update_statistics
     construction/features/transport.rs       :: TransportConstraint::{evaluate_job, evaluate_activity},
                                                 CostObjective::{estimate_route, estimate_activity, analyze_route_leg},
                                                 estimate_leg (Distance/Duration objectives)
     construction/features/capacity.rs        :: CapacitatedMultiTrip::{recalculate_states (single interval), evaluate_job,
                                                 evaluate_activity}, has_demand_violation      (SingleDimLoad)
     construction/heuristics/evaluators.rs    :: eval_single, analyze_insertion_in_route, analyze_insertion_in_route_leg,
                                                 get_insertion_index (LegSelection::Exhaustive, BestResultSelector)
     models/problem/costs.rs                  :: SimpleActivityCost, ActivityCost::cost, TransportCost::cost
     models/solution/tour.rs                  :: legs, insert_at
   Conventions: all quantities are Z (integer-valued data: every f64 operation the code performs on it is exact);
   an unbounded window / shift end (Float::MAX) is the constant INF; time-independent routing `dur`/`dist`.
   No proofs in this file. *)
From VRP Require Import Base.Tac.

Definition INF : Z := 1152921504606846976.  (* 2^60; stands for Float::MAX *)

(* ---------------- data ---------------- *)
Record demand := mkDemand { d_ps : Z; d_pd : Z; d_ds : Z; d_dd : Z }.   (* pickup (static,dynamic), delivery (static,dynamic) *)
Definition dzero := mkDemand 0 0 0 0.
Definition d_change (d : demand) : Z := d_ps d + d_pd d - d_ds d - d_dd d.

Record act := mkAct {
  a_job : Z;            (* -1 for tour start / end (job: None), otherwise the job id *)
  a_loc : Z;
  a_svc : Z;            (* place.duration *)
  a_tws : Z; a_twe : Z; (* place.time *)
  a_dem : demand;       (* dzero when the activity has no demand *)
  a_arr : Z; a_dep : Z  (* schedule *)
}.

Record vehicle := mkVeh {
  v_shift_end : Z;      (* actor.detail.time.end  (INF when no end or no latest) *)
  v_cap : Z;            (* SingleDimLoad capacity *)
  v_fixed : Z; v_pdist : Z; v_ptime : Z; v_pwait : Z; v_psvc : Z   (* vehicle costs; driver costs are zero *)
}.

Section WithRouting.
Variable dur dist : Z -> Z -> Z.

(* ---------------- schedules: update_schedules ---------------- *)
Definition est_departure (a : act) (arr : Z) : Z := Z.max arr (a_tws a) + a_svc a.          (* SimpleActivityCost *)
Definition est_arrival (a : act) (dep : Z) : Z := Z.min (a_twe a) (dep - a_svc a).

Definition set_sched (a : act) (arr dep : Z) : act :=
  mkAct (a_job a) (a_loc a) (a_svc a) (a_tws a) (a_twe a) (a_dem a) arr dep.

(* activities after the start, given the location / departure of the predecessor *)
Fixpoint resched_from (loc dep : Z) (acts : list act) : list act :=
  match acts with
  | [] => []
  | a :: r => let arr := dep + dur loc (a_loc a) in
              let d := est_departure a arr in
              set_sched a arr d :: resched_from (a_loc a) d r
  end.

(* whole tour: the start keeps its schedule (departure is an input) *)
Definition reschedule (t : list act) : list act :=
  match t with [] => [] | s :: r => s :: resched_from (a_loc s) (a_dep s) r end.

(* ---------------- update_states: latest arrival / future waiting (backward fold) ---------------- *)
(* latest feasible arrival at the head of a non-empty suffix of the tour; the last element is either the end
   activity (its window end is the shift end) or, for an open tour, the last job *)
Fixpoint latest_of (acts : list act) : Z :=
  match acts with
  | [] => INF
  | [a] => a_twe a
  | a :: ((b :: _) as r) => est_arrival a (latest_of r - dur (a_loc a) (a_loc b))
  end.

Fixpoint waiting_of (acts : list act) : Z :=      (* future waiting from this activity to the end, jobs only *)
  match acts with
  | [] => 0
  | a :: r => (if a_job a <? 0 then 0 else Z.max 0 (a_tws a - a_arr a)) + waiting_of r
  end.

(* the state vectors as the code stores them: entry 0 for the start; the end activity's entry is popped *)
Fixpoint suffixes {A} (l : list A) : list (list A) :=
  match l with [] => [] | _ :: r => l :: suffixes r end.
Definition is_terminal (a : act) : bool := a_job a <? 0.
Definition latest_states (t : list act) : list Z :=
  map (fun s => match s with a :: _ => if is_terminal a then 0 else latest_of s | [] => 0 end)
      (filter (fun s => match s with [a] => negb (is_terminal a) | a :: _ => true | [] => false end) (suffixes t)).

Definition waiting_states (t : list act) : list Z :=
  map (fun s => match s with a :: _ => if is_terminal a then 0 else waiting_of s | [] => 0 end)
      (filter (fun s => match s with [a] => negb (is_terminal a) | a :: _ => true | [] => false end) (suffixes t)).

(* ---------------- update_statistics ---------------- *)
Fixpoint dist_from (loc : Z) (acts : list act) : Z :=
  match acts with [] => 0 | a :: r => dist loc (a_loc a) + dist_from (a_loc a) r end.
Definition total_distance (t : list act) : Z := match t with [] => 0 | s :: r => dist_from (a_loc s) r end.
Definition total_duration (t : list act) : Z :=
  match t with [] => 0 | s :: _ => a_dep (last t s) - a_dep s end.

(* ---------------- capacity states: recalculate_states, single interval ---------------- *)
Definition start_delivery (t : list act) : Z := fold_left (fun acc a => acc + d_ds (a_dem a)) t 0.
Fixpoint currents (cur : Z) (t : list act) : list Z :=
  match t with [] => [] | a :: r => let c := cur + d_change (a_dem a) in c :: currents c r end.
Definition cur_states (t : list act) : list Z := currents (start_delivery t) t.
Fixpoint run_max (m : Z) (l : list Z) : list Z :=
  match l with [] => [] | c :: r => let m' := Z.max m c in m' :: run_max m' r end.
Definition past_states (t : list act) : list Z := run_max 0 (cur_states t).
(* max future: (start..=end).rev().fold(current_at_end, max) *)
Definition fut_states (t : list act) : list Z :=
  let cs := cur_states t in rev (run_max (last cs 0) (rev cs)).

(* ---------------- TransportConstraint::evaluate_activity ---------------- *)
(* verdict: None = success; Some stopped *)
Definition verdict := option bool.

(* prev, target, the activities after the insertion point (head = next, if any) *)
Definition eval_time (v : vehicle) (prev target : act) (nexts : list act) : verdict :=
  let departure := a_dep prev in
  let se := v_shift_end v in
  if (se <? a_tws prev) || (se <? a_tws target) || (match nexts with n :: _ => se <? a_tws n | [] => false end)
  then Some true else
  let '(next_loc, latest_next) := match nexts with
                                  | n :: _ => (a_loc n, latest_of nexts)
                                  | [] => (a_loc target, Z.min (a_twe target) se)
                                  end in
  let arr_next := departure + dur (a_loc prev) next_loc in
  if latest_next <? arr_next then Some true else
  if latest_next <? a_tws target then Some false else
  let arr_target := departure + dur (a_loc prev) (a_loc target) in
  let latest_dep_target := latest_next - dur (a_loc target) next_loc in
  let latest_arr_target := Z.min (a_twe target) (est_arrival target latest_dep_target) in
  if latest_arr_target <? arr_target then Some false else
  match nexts with
  | [] => None
  | _ :: _ =>
    let end_target := est_departure target arr_target in
    let arr_next2 := end_target + dur (a_loc target) next_loc in
    if latest_next <? arr_next2 then Some false else None
  end.

(* ---------------- has_demand_violation (capacity always defined) ---------------- *)
Definition nthz (l : list Z) (i : nat) : Z := nth i l 0.
Definition demand_violation (v : vehicle) (t : list act) (pivot : nat) (d : demand) (stopped : bool) : verdict :=
  let cap := v_cap v in
  if negb (d_ds d =? 0) && (cap <? nthz (past_states t) pivot + d_ds d) then Some stopped else
  if negb (d_ps d =? 0) && (cap <? nthz (fut_states t) pivot + d_ps d) then Some false else
  let c := d_change d in
  if negb (c =? 0) && ((cap <? nthz (fut_states t) pivot + c) || (cap <? nthz (cur_states t) pivot + c)) then Some false
  else None.

(* evaluate_activity of the capacity feature for a job that is not part of a multi job, no reload markers *)
Definition eval_cap (v : vehicle) (t : list act) (idx : nat) (target : act) : verdict :=
  demand_violation v t idx (a_dem target) true.

(* GoalContext::evaluate on activity level: constraints in feature order [transport; capacity]; first violation wins.
   codes: 1 = time window, 2 = capacity *)
Definition eval_activity (v : vehicle) (t : list act) (idx : nat) (target : act) : option (Z * bool) :=
  let prev := nth idx t target in
  let nexts := skipn (S idx) t in
  match eval_time v prev target nexts with
  | Some s => Some (1, s)
  | None => match eval_cap v t idx target with Some s => Some (2, s) | None => None end
  end.

(* ---------------- route level: evaluate_job of both features ---------------- *)
Record place := mkPlace { p_loc : option Z; p_svc : Z; p_tws : list (Z * Z) }.
Record single := mkSingle { s_id : Z; s_places : list place; s_dem : demand }.

Definition tw_intersects (a b : Z * Z) : bool := (fst a <=? snd b) && (fst b <=? snd a).
Definition eval_route_time (shift : Z * Z) (j : single) : bool :=
  existsb (fun p => existsb (fun w => tw_intersects w shift) (p_tws p)) (s_places j).
Definition eval_route_cap (v : vehicle) (t : list act) (j : single) : bool :=
  match demand_violation v t 0 (s_dem j) true with None => true | Some _ =>
  match demand_violation v t (length t - 1) (s_dem j) true with None => true | Some _ => false end end.

(* ---------------- CostObjective ---------------- *)
Definition tp_cost (v : vehicle) (from to : Z) : Z := dist from to * v_pdist v + dur from to * v_ptime v.
Definition act_cost (v : vehicle) (a : act) (arr : Z) : Z :=
  (if arr <? a_tws a then a_tws a - arr else 0) * v_pwait v + a_svc a * v_psvc v.
(* analyze_route_leg: (transport cost, activity cost, departure) *)
Definition route_leg (v : vehicle) (s e : act) (time : Z) : Z * Z * Z :=
  let arrival := time + dur (a_loc s) (a_loc e) in
  (tp_cost v (a_loc s) (a_loc e), act_cost v e arrival, est_departure e arrival).

Definition has_jobs (t : list act) : bool := existsb (fun a => negb (is_terminal a)) t.

Definition cost_estimate_activity (v : vehicle) (t : list act) (idx : nat) (target : act) : Z :=
  let prev := nth idx t target in
  let nexts := skipn (S idx) t in
  let '(tpl, acl, depl) := route_leg v prev target (a_dep prev) in
  let '(tpr, acr, depr) := match nexts with n :: _ => route_leg v target n depl | [] => (0, 0, 0) end in
  let new_costs := tpl + tpr + acl + acr in
  if negb (has_jobs t) then new_costs else
  match nexts with
  | [] => new_costs
  | n :: _ =>
    let waiting := waiting_of nexts in    (* get_waiting_time_at(idx + 1); absent (end activity) => 0 *)
    let waiting := if is_terminal n then 0 else waiting in
    let '(tpo, aco, depo) := route_leg v prev n (a_dep prev) in
    let waiting_cost := Z.min waiting (Z.max 0 (depr - depo)) * v_pwait v in
    new_costs - (tpo + aco + waiting_cost)
  end.

Definition cost_estimate_route (v : vehicle) (t : list act) : Z := if has_jobs t then 0 else v_fixed v.

(* estimate_leg with a generic leg measure (distance / duration objectives) *)
Definition leg_estimate (m : Z -> Z -> Z) (t : list act) (idx : nat) (target : act) : Z :=
  let prev := nth idx t target in
  let nexts := skipn (S idx) t in
  let pt := m (a_loc prev) (a_loc target) in
  let tn := match nexts with n :: _ => m (a_loc target) (a_loc n) | [] => 0 end in
  if negb (has_jobs t) then pt + tn else
  match nexts with [] => pt + tn | n :: _ => pt + tn - m (a_loc prev) (a_loc n) end.

(* ---------------- the scan: analyze_insertion_in_route(_leg) with Exhaustive legs, Best selector ---------------- *)
Record sctx := mkSctx {
  sc_viol : option (Z * bool);
  sc_index : nat;
  sc_cost : option Z;                       (* single-layer goal: the cost objective *)
  sc_place : option (nat * Z * Z * Z * Z)   (* place idx, location, duration, tw start, tw end *)
}.

Definition mk_target (j : single) (prev : act) (p : place) (w : Z * Z) : act :=
  mkAct (s_id j) (match p_loc p with Some l => l | None => a_loc prev end) (p_svc p) (fst w) (snd w) (s_dem j) 0 0.

(* legs of a tour: index i has prev = t[i]; closed or single-activity tours have length-1 legs (windows(2) — for a single
   activity windows(1)); an open tour with jobs has the extra last leg *)
Definition leg_count (closed : bool) (t : list act) : nat :=
  match t with
  | [] => 0
  | [_] => 1
  | _ => if closed then length t - 1 else length t
  end.

(* windows of one place; returns (ctx, stop) *)
(* `est` is the activity-level estimate of the (single) objective layer: cost_estimate_activity or leg_estimate dist/dur *)
Fixpoint scan_windows (est : list act -> nat -> act -> Z) (v : vehicle) (t : list act) (idx : nat) (j : single) (pi : nat) (p : place) (route_cost : Z)
         (ws : list (Z * Z)) (c : sctx) : sctx * bool :=
  match ws with
  | [] => (c, false)
  | w :: ws' =>
    let prev := nth idx t (mkAct (-1) 0 0 0 0 dzero 0 0) in
    let target := mk_target j prev p w in
    match eval_activity v t idx target with
    | Some (code, stopped) =>
      let c' := mkSctx (Some (code, stopped)) (sc_index c) (sc_cost c) (sc_place c) in
      if stopped then (c', true) else scan_windows est v t idx j pi p route_cost ws' c'
    | None =>
      let costs := est t idx target + route_cost in
      let better := match sc_cost c with Some o => costs <? o | None => true end in   (* vs InsertionCost::max_value *)
      let c' := if better
                then mkSctx None idx (Some costs) (Some (pi, a_loc target, a_svc target, a_tws target, a_twe target))
                else c in
      scan_windows est v t idx j pi p route_cost ws' c'
    end
  end.

Fixpoint scan_places (est : list act -> nat -> act -> Z) (v : vehicle) (t : list act) (idx : nat) (j : single) (pi : nat) (route_cost : Z)
         (ps : list place) (c : sctx) : sctx * bool :=
  match ps with
  | [] => (c, false)
  | p :: ps' =>
    let '(c', stop) := scan_windows est v t idx j pi p route_cost (p_tws p) c in
    if stop then (c', true) else scan_places est v t idx j (S pi) route_cost ps' c'
  end.

Definition scan_leg (est : list act -> nat -> act -> Z) (v : vehicle) (t : list act) (idx : nat) (j : single) (route_cost : Z) (c : sctx) : sctx * bool :=
  scan_places est v t idx j 0 route_cost (s_places j) c.

(* try_fold over legs idx, idx+1, ... (n legs left) *)
Fixpoint scan_legs (est : list act -> nat -> act -> Z) (v : vehicle) (t : list act) (j : single) (route_cost : Z) (idx n : nat) (c : sctx) : sctx :=
  match n with
  | O => c
  | S n' => let '(c', stop) := scan_leg est v t idx j route_cost c in
            if stop then c' else scan_legs est v t j route_cost (S idx) n' c'
  end.

Inductive position := PAny | PConcrete (i : nat) | PLast.

Definition analyze (est : list act -> nat -> act -> Z) (v : vehicle) (closed : bool) (t : list act) (j : single) (pos : position) (route_cost : Z) : sctx :=
  let init := mkSctx None 0 None None in
  let n := leg_count closed t in
  match pos with
  | PAny => scan_legs est v t j route_cost 0 n init
  | PConcrete i => if (i <? n)%nat then fst (scan_leg est v t i j route_cost init) else init
  | PLast => let i := (Nat.max n 1 - 1)%nat in if (i <? n)%nat then fst (scan_leg est v t i j route_cost init) else init
  end.

Inductive eval_result :=
| ESuccess (index : nat) (place : nat * Z * Z * Z * Z) (cost : Z)
| EFailure (code : Z) (stopped : bool).

(* eval_job_insertion_in_route for a single job, alternative = plain failure, job not in `unassigned` *)
Definition eval_single_gen (est : list act -> nat -> act -> Z) (rc : Z) (v : vehicle) (shift_start : Z) (closed : bool)
  (t : list act) (j : single) (pos : position) : eval_result :=
  if negb (eval_route_time (shift_start, v_shift_end v) j) then EFailure 1 true else
  if negb (eval_route_cap v t j) then EFailure 2 true else
  let r := analyze est v closed t j pos rc in
  match sc_place r with
  | Some p => ESuccess (sc_index r) p (match sc_cost r with Some c => c | None => 0 end)
  | None => match sc_viol r with Some (code, st) => EFailure code st | None => EFailure (-1) false end
  end.

(* goal = [minimize cost] *)
Definition eval_single_job (v : vehicle) (shift_start : Z) (closed : bool) (t : list act) (j : single) (pos : position)
  : eval_result :=
  eval_single_gen (cost_estimate_activity v) (cost_estimate_route v t) v shift_start closed t j pos.
(* last layer = minimize distance (route-level estimate 0) *)
Definition eval_single_job_dist (v : vehicle) (shift_start : Z) (closed : bool) (t : list act) (j : single) (pos : position)
  : eval_result :=
  eval_single_gen (leg_estimate dist) 0 v shift_start closed t j pos.

(* tour.insert_at(activity, index + 1) followed by accept_route_state (schedules recomputed) *)
Definition insert_after (t : list act) (idx : nat) (a : act) : list act := firstn (S idx) t ++ a :: skipn (S idx) t.

End WithRouting.
