(* Model of:
     vrp-core/src/models/solution/tour.rs :: Tour::{new, insert_at, insert_last, remove, remove_activity_at, legs, index, index_last, job_activities, contains,
                                                   jobs, start, end, job_activity_count, total, job_count, has_jobs, deep_copy}
     vrp-core/src/models/solution/route.rs :: Activity::{has_same_job, retrieve_job} (as the job id of an activity), Route::deep_copy
     vrp-core/src/models/solution/registry.rs :: Registry::{new, use_actor, free_actor, available, all, next, deep_copy, deep_slice}
     vrp-core/src/construction/heuristics/context.rs :: RouteContext::{new, deep_copy, state}, RegistryContext::{new, get_route,
                                                   use_route, free_route, next_route, deep_copy, deep_slice}
     vrp-core/src/models/problem/fleet.rs :: Fleet::new (grouping of actors), Actor identity (pointer) as a number
     vrp-core/src/models/problem/jobs.rs :: Job identity (pointer) as a number; sub-jobs of a Multi map to the Multi's number
   Rust panics (assert!, expect, Vec::insert out of bounds) are `None`.  HashSet/HashMap are duplicate-free lists / association
   lists; iteration order is not modelled (the correspondence sorts).  Entry points used by the correspondence: run_tour, run_reg.
   No proofs in this file. *)
From VRP Require Import Base.Tac.
#[local] Open Scope nat_scope.

(* ------------------------------------------------------------------ sets and maps *)
Definition set_mem (x : nat) (s : list nat) : bool := existsb (Nat.eqb x) s.
Definition set_add (x : nat) (s : list nat) : list nat := if set_mem x s then s else x :: s.        (* HashSet::insert *)
Definition set_remove (x : nat) (s : list nat) : list nat := filter (fun y => negb (Nat.eqb y x)) s. (* HashSet::remove *)

Fixpoint lookup {V} (k : nat) (m : list (nat * V)) : option V :=
  match m with
  | [] => None
  | (k', v) :: r => if Nat.eqb k' k then Some v else lookup k r
  end.
Fixpoint upd {V} (k : nat) (v : V) (m : list (nat * V)) : list (nat * V) :=      (* write through HashMap::get_mut *)
  match m with
  | [] => []
  | (k', v') :: r => if Nat.eqb k' k then (k', v) :: r else (k', v') :: upd k v r
  end.

(* ------------------------------------------------------------------ tour *)
Record act := mkAct { a_job : option nat;   (* retrieve_job(): None for the depot ends *)
                      a_tag : nat }.         (* identifies the activity (place.location in the harness) *)
Record tour := mkTour { t_acts : list act; t_jobs : list nat; t_closed : bool }.

Definition START_TAG := 0.
Definition END_TAG := 1.
Definition start_act := mkAct None START_TAG.
Definition end_act := mkAct None END_TAG.

(* Tour::new(actor): set_start, then set_end when the actor has an end place *)
Definition tour_new (closed : bool) : tour :=
  mkTour (start_act :: (if closed then [end_act] else [])) [] closed.

Definition has_same_job (a : act) (j : nat) : bool :=
  match a_job a with Some k => Nat.eqb k j | None => false end.

Definition job_activity_count (t : tour) : nat :=
  match t_acts t with
  | [] => 0
  | _ => length (t_acts t) - (if t_closed t then 2 else 1)
  end.
Definition total (t : tour) : nat := length (t_acts t).
Definition job_count (t : tour) : nat := length (t_jobs t).
Definition has_jobs (t : tour) : bool := negb (Nat.eqb (length (t_jobs t)) 0).

Definition insert_nth {A} (i : nat) (x : A) (l : list A) : list A := firstn i l ++ x :: skipn i l.   (* Vec::insert, i <= len *)

Definition insert_at (t : tour) (a : act) (i : nat) : option tour :=
  match a_job a with
  | None => None                                            (* assert!(activity.job.is_some()) *)
  | Some j =>
      match t_acts t with
      | [] => None                                          (* assert!(!self.activities.is_empty()) *)
      | _ => if Nat.leb i (length (t_acts t))               (* Vec::insert panics when index > len *)
             then Some (mkTour (insert_nth i a (t_acts t)) (set_add j (t_jobs t)) (t_closed t))
             else None
      end
  end.

Definition insert_last (t : tour) (a : act) : option tour := insert_at t a (job_activity_count t + 1).

Definition remove (t : tour) (j : nat) : tour * bool :=
  (mkTour (filter (fun a => negb (has_same_job a j)) (t_acts t)) (set_remove j (t_jobs t)) (t_closed t),
   set_mem j (t_jobs t)).

Definition remove_activity_at (t : tour) (idx : nat) : option (tour * nat) :=
  match nth_error (t_acts t) idx with
  | Some a => match a_job a with
              | Some j => Some (fst (remove t j), j)
              | None => None                                 (* expect("Attempt to remove activity without job…") *)
              end
  | None => None
  end.

(* legs(): windows(1|2).zip(0..) chained with the open-end leg *)
Fixpoint windows2 (l : list act) : list (list act) :=
  match l with
  | a :: ((b :: _) as tl) => [a; b] :: windows2 tl
  | _ => []
  end.
Definition windows1 (l : list act) : list (list act) := map (fun a => [a]) l.
Fixpoint zip_idx {A} (i : nat) (l : list A) : list (A * nat) :=
  match l with
  | [] => []
  | x :: r => (x, i) :: zip_idx (S i) r
  end.
Definition legs (t : tour) : list (list act * nat) :=
  let n := length (t_acts t) in
  let last_index := n - 1 in
  let ws := if Nat.eqb n 1 then windows1 (t_acts t) else windows2 (t_acts t) in
  let ls := zip_idx 0 ws in
  if negb (t_closed t) && Nat.ltb 0 last_index
  then ls ++ [(skipn last_index (t_acts t), last_index)]
  else ls.

(* operations of a history on one tour *)
Inductive top :=
| TInsertAt (a : act) (idx : nat)
| TInsertLast (a : act)
| TRemove (j : nat)
| TRemoveAt (idx : nat).

(* result value: insert -> 0, remove -> 1/0 (was present), remove_activity_at -> job id *)
Definition tstep (t : tour) (o : top) : option (tour * nat) :=
  match o with
  | TInsertAt a i => match insert_at t a i with Some t' => Some (t', 0) | None => None end
  | TInsertLast a => match insert_last t a with Some t' => Some (t', 0) | None => None end
  | TRemove j => let '(t', b) := remove t j in Some (t', if b then 1 else 0)
  | TRemoveAt i => remove_activity_at t i
  end.

Fixpoint trun (t : tour) (ops : list top) : option tour :=
  match ops with
  | [] => Some t
  | o :: r => match tstep t o with Some (t', _) => trun t' r | None => None end
  end.

(* read-only accessors built on has_same_job / the job set *)
Fixpoint find_idx (f : act -> bool) (i : nat) (l : list act) : option nat :=
  match l with
  | [] => None
  | a :: r => if f a then Some i else find_idx f (S i) r
  end.
Fixpoint find_last (f : act -> bool) (i : nat) (l : list act) (acc : option nat) : option nat :=
  match l with
  | [] => acc
  | a :: r => find_last f (S i) r (if f a then Some i else acc)
  end.
Definition tindex (t : tour) (j : nat) : option nat := find_idx (fun a => has_same_job a j) 0 (t_acts t).
Definition tindex_last (t : tour) (j : nat) : option nat := find_last (fun a => has_same_job a j) 0 (t_acts t) None.
Definition job_activities (t : tour) (j : nat) : list act := filter (fun a => has_same_job a j) (t_acts t).
Definition contains (t : tour) (j : nat) : bool := set_mem j (t_jobs t).
Definition enc_opt (o : option nat) : nat := match o with None => 0 | Some i => S i end.
Definition tquery (t : tour) (what j : nat) : nat :=
  match what with
  | 0 => enc_opt (tindex t j)
  | 1 => enc_opt (tindex_last t j)
  | 2 => length (job_activities t j)
  | _ => if contains t j then 1 else 0
  end.

(* ---- slots: several route contexts (tour + one tour-state value), deep copies push a new slot *)
Record slot := mkSlot { s_tour : tour; s_state : option nat }.
Inductive sop :=
| STour (k : nat) (o : top)
| SCopy (k : nat) (mode : nat)       (* 0: Tour::deep_copy, 1: Route::deep_copy (both: fresh RouteState), 2: RouteContext::deep_copy *)
| SSetState (k : nat) (v : nat)
| SQuery (k : nat) (what : nat) (j : nat).   (* 0: index(job), 1: index_last(job), 2: job_activities(job).count(), 3: contains(job) *)

Fixpoint set_nth {A} (k : nat) (x : A) (l : list A) : list A :=
  match l, k with
  | [], _ => []
  | _ :: r, O => x :: r
  | y :: r, S k' => y :: set_nth k' x r
  end.

(* returns new slots, the result value and the index of the slot whose dump is reported *)
Definition sstep (ss : list slot) (o : sop) : option (list slot * nat * nat) :=
  match o with
  | STour k o' =>
      match nth_error ss k with
      | Some s => match tstep (s_tour s) o' with
                  | Some (t', r) => Some (set_nth k (mkSlot t' (s_state s)) ss, r, k)
                  | None => None
                  end
      | None => None
      end
  | SCopy k mode =>
      match nth_error ss k with
      | Some s => Some (ss ++ [mkSlot (s_tour s) (if Nat.eqb mode 2 then s_state s else None)], length ss, length ss)
      | None => None
      end
  | SSetState k v =>
      match nth_error ss k with
      | Some s => Some (set_nth k (mkSlot (s_tour s) (Some v)) ss, 0, k)
      | None => None
      end
  | SQuery k what j =>
      match nth_error ss k with
      | Some s => Some (ss, tquery (s_tour s) what j, k)
      | None => None
      end
  end.

(* ---- observable dump *)
Definition enc_job (o : option nat) : nat := match o with None => 0 | Some j => S j end.
Definition enc_act (a : act) : list nat := [enc_job (a_job a); a_tag a].
Definition enc_leg (l : list act * nat) : list nat := snd l :: map a_tag (fst l).
Definition dump := (list (list nat) * list nat * list (list nat) * list nat)%type.
Definition dump_slot (s : slot) : dump :=
  let t := s_tour s in
  (map enc_act (t_acts t), t_jobs t, map enc_leg (legs t),
   [total t; job_activity_count t; job_count t; (if has_jobs t then 1 else 0); enc_job (s_state s)]).
Definition dump_nth (ss : list slot) (k : nat) : dump :=
  match nth_error ss k with Some s => dump_slot s | None => ([], [], [], []) end.

Fixpoint srun (ss : list slot) (ops : list sop) (acc : list (nat * dump)) : list (nat * dump) * bool * list dump :=
  match ops with
  | [] => (rev acc, false, map dump_slot ss)
  | o :: r => match sstep ss o with
              | Some (ss', ret, k) => srun ss' r ((ret, dump_nth ss' k) :: acc)
              | None => (rev acc, true, map dump_slot ss)           (* panic: history stops here *)
              end
  end.

(* entry point: (per-step (result, dump of the touched slot), panicked?, final dump of every slot) *)
Definition run_tour (closed : bool) (ops : list sop) := srun [mkSlot (tour_new closed) None] ops [].

(* ------------------------------------------------------------------ registry *)
Record reg := mkReg { r_avail : list (nat * list nat);     (* group -> available actors *)
                      r_index : list (nat * nat);          (* actor -> group *)
                      r_all : list nat }.

(* Fleet::new: groups = fold over actors: entry(key).or_default().insert(actor) *)
Definition group_add (g a : nat) (m : list (nat * list nat)) : list (nat * list nat) :=
  match lookup g m with
  | Some s => upd g (set_add a s) m
  | None => m ++ [(g, [a])]
  end.
Fixpoint fleet_groups (a : nat) (gs : list nat) (m : list (nat * list nat)) : list (nat * list nat) :=
  match gs with
  | [] => m
  | g :: r => fleet_groups (S a) r (group_add g a m)
  end.
(* Registry::new(fleet): actors are 0..n-1, gs gives the group key of each *)
Definition reg_new (gs : list nat) : reg :=
  let groups := fleet_groups 0 gs [] in
  mkReg groups (flat_map (fun gs' => map (fun a => (a, fst gs')) (snd gs')) groups) (seq 0 (length gs)).

Definition use_actor (r : reg) (a : nat) : reg * bool :=
  match lookup a (r_index r) with
  | None => (r, false)
  | Some g => match lookup g (r_avail r) with
              | None => (r, false)
              | Some s => if set_mem a s
                          then (mkReg (upd g (set_remove a s) (r_avail r)) (r_index r) (r_all r), true)
                          else (r, false)
              end
  end.

Definition free_actor (r : reg) (a : nat) : reg * bool :=
  match lookup a (r_index r) with
  | None => (r, false)
  | Some g => match lookup g (r_avail r) with
              | None => (r, false)
              | Some s => if set_mem a s
                          then (r, false)
                          else (mkReg (upd g (a :: s) (r_avail r)) (r_index r) (r_all r), true)
              end
  end.

Definition available (r : reg) : list nat := flat_map snd (r_avail r).

Definition deep_slice (r : reg) (keep : nat -> bool) : reg :=
  mkReg (map (fun gs => (fst gs, filter keep (snd gs))) (r_avail r))
        (filter (fun ag => keep (fst ag)) (r_index r))
        (filter keep (r_all r)).

(* next(): one actor per group; a draw uniform_int(0, len-1) is consumed only for groups with >= 2 available actors;
   the iteration order inside a set is unknown, so the list order stands for it and the theorem quantifies over draws *)
Fixpoint next_with (picks : list nat) (m : list (nat * list nat)) : list nat :=
  match m with
  | [] => []
  | (_, s) :: r =>
      if Nat.ltb (length s) 2 then firstn 1 s ++ next_with picks r
      else match picks with
           | p :: ps => firstn 1 (skipn p s) ++ next_with ps r
           | [] => firstn 1 s ++ next_with [] r
           end
  end.

(* RegistryContext = registry + index of route prototypes (its domain) *)
Record rctx := mkRctx { c_reg : reg; c_idx : list nat }.
Definition rctx_new (gs : list nat) : rctx := let r := reg_new gs in mkRctx r (r_all r).
Definition get_route (c : rctx) (a : nat) : rctx * bool :=
  let '(r', b) := use_actor (c_reg c) a in (mkRctx r' (c_idx c), b && set_mem a (c_idx c)).
Definition ctx_slice (c : rctx) (keep : nat -> bool) : rctx :=
  mkRctx (deep_slice (c_reg c) keep) (filter keep (c_idx c)).

Inductive rop :=
| RUse (a : nat)          (* Registry::use_actor / RegistryContext::use_route *)
| RFree (a : nat)         (* Registry::free_actor / RegistryContext::free_route *)
| RGet (a : nat)          (* RegistryContext::get_route *)
| RNext.                  (* next()/next_route(): no state change; result checked against the dump *)

Definition rstep (c : rctx) (o : rop) : rctx * bool :=
  match o with
  | RUse a => let '(r', b) := use_actor (c_reg c) a in (mkRctx r' (c_idx c), b)
  | RFree a => let '(r', b) := free_actor (c_reg c) a in (mkRctx r' (c_idx c), b)
  | RGet a => get_route c a
  | RNext => (c, false)
  end.

Inductive rsop :=
| RSOp (k : nat) (o : rop)
| RSCopy (k : nat)                      (* deep_copy: push *)
| RSSlice (k : nat) (keep : list nat).  (* deep_slice(|a| keep contains a): push *)

Definition rsstep (cs : list rctx) (o : rsop) : option (list rctx * nat * nat) :=
  match o with
  | RSOp k o' => match nth_error cs k with
                 | Some c => let '(c', b) := rstep c o' in Some (set_nth k c' cs, if b then 1 else 0, k)
                 | None => None
                 end
  | RSCopy k => match nth_error cs k with
                | Some c => Some (cs ++ [c], length cs, length cs)
                | None => None
                end
  | RSSlice k keep => match nth_error cs k with
                      | Some c => Some (cs ++ [ctx_slice c (fun a => set_mem a keep)], length cs, length cs)
                      | None => None
                      end
  end.

Definition rdump := (list (list nat) * list nat * list nat)%type.      (* groups as g :: members, all, prototype index *)
Definition dump_rctx (c : rctx) : rdump :=
  (map (fun gs => fst gs :: snd gs) (r_avail (c_reg c)), r_all (c_reg c), c_idx c).
Definition rdump_nth (cs : list rctx) (k : nat) : rdump :=
  match nth_error cs k with Some c => dump_rctx c | None => ([], [], []) end.

Fixpoint rsrun (cs : list rctx) (ops : list rsop) (acc : list (nat * rdump)) : list (nat * rdump) * bool * list rdump :=
  match ops with
  | [] => (rev acc, false, map dump_rctx cs)
  | o :: r => match rsstep cs o with
              | Some (cs', ret, k) => rsrun cs' r ((ret, rdump_nth cs' k) :: acc)
              | None => (rev acc, true, map dump_rctx cs)
              end
  end.

Definition run_reg (gs : list nat) (ops : list rsop) := rsrun [rctx_new gs] ops [].
