(* Model of:
     vrp-core/src/models/solution/tour.rs :: Tour::{new, insert_at, insert_last, remove, remove_activity_at, legs, index, index_last, job_activities, contains,
                                                   jobs, start, end, job_activity_count, total, job_count, has_jobs, deep_copy}
     vrp-core/src/models/solution/route.rs :: Activity::{has_same_job, retrieve_job} (as the job id of an activity), Route::deep_copy
     vrp-core/src/models/solution/registry.rs :: Registry::{new, use_actor, free_actor, available, all, next, deep_copy, deep_slice}
     vrp-core/src/construction/heuristics/context.rs :: RouteContext::{new, deep_copy, state}, RegistryContext::{new, get_route,
                                                   use_route, free_route, next_route, deep_copy, deep_slice}
     vrp-core/src/models/problem/fleet.rs :: Fleet::new (grouping of actors), Actor identity (pointer) as a number
     vrp-core/src/models/problem/jobs.rs :: Job identity (pointer) as a number; sub-jobs of a Multi map to the Multi's number
     vrp-core/src/construction/heuristics/factories.rs :: create_insertion_context_from_solution, create_empty_insertion_context,
                                                   create_insertion_context (registry + routes built from the locks; lock conditions
                                                   that select one actor; Single jobs)
     vrp-core/src/construction/heuristics/context.rs :: InsertionContext::{new, new_empty, new_from_solution, restore, deep_copy},
                                                   SolutionContext::{keep_routes, remove_empty_routes, deep_copy},
                                                   From<InsertionContext> for Solution (registry and routes)
   Rust panics (assert!, expect, Vec::insert out of bounds) are `None`.  HashSet/HashMap are duplicate-free lists / association
   lists; iteration order is not modelled (the correspondence sorts).  Entry points used by the correspondence: run_tour, run_reg, run_ho.
   No proofs in this file. *)
From VRP Require Import Base.Tac.
#[local] Open Scope nat_scope.

(* ------------------------------------------------------------------ sets and maps *)
Definition set_mem (x : nat) (s : list nat) : bool := existsb (Nat.eqb x) s.
Definition set_add (x : nat) (s : list nat) : list nat := if set_mem x s then s else x :: s.        (* HashSet::insert *)
Definition set_remove (x : nat) (s : list nat) : list nat := filter (fun y => negb (Nat.eqb y x)) s. (* HashSet::remove *)

Fixpoint lookup {V} (k : nat) (m : list (nat * V)) : option V :=
  match m with
  | [] => None
  | (k', v) :: r => if Nat.eqb k' k then Some v else lookup k r
  end.
Fixpoint upd {V} (k : nat) (v : V) (m : list (nat * V)) : list (nat * V) :=      (* write through HashMap::get_mut *)
  match m with
  | [] => []
  | (k', v') :: r => if Nat.eqb k' k then (k', v) :: r else (k', v') :: upd k v r
  end.

(* ------------------------------------------------------------------ tour *)
Record act := mkAct { a_job : option nat;   (* retrieve_job(): None for the depot ends *)
                      a_tag : nat }.         (* identifies the activity (place.location in the harness) *)
Record tour := mkTour { t_acts : list act; t_jobs : list nat; t_closed : bool }.

Definition START_TAG := 0.
Definition END_TAG := 1.
Definition start_act := mkAct None START_TAG.
Definition end_act := mkAct None END_TAG.

(* Tour::new(actor): set_start, then set_end when the actor has an end place *)
Definition tour_new (closed : bool) : tour :=
  mkTour (start_act :: (if closed then [end_act] else [])) [] closed.

Definition has_same_job (a : act) (j : nat) : bool :=
  match a_job a with Some k => Nat.eqb k j | None => false end.

Definition job_activity_count (t : tour) : nat :=
  match t_acts t with
  | [] => 0
  | _ => length (t_acts t) - (if t_closed t then 2 else 1)
  end.
Definition total (t : tour) : nat := length (t_acts t).
Definition job_count (t : tour) : nat := length (t_jobs t).
Definition has_jobs (t : tour) : bool := negb (Nat.eqb (length (t_jobs t)) 0).

Definition insert_nth {A} (i : nat) (x : A) (l : list A) : list A := firstn i l ++ x :: skipn i l.   (* Vec::insert, i <= len *)

Definition insert_at (t : tour) (a : act) (i : nat) : option tour :=
  match a_job a with
  | None => None                                            (* assert!(activity.job.is_some()) *)
  | Some j =>
      match t_acts t with
      | [] => None                                          (* assert!(!self.activities.is_empty()) *)
      | _ => if Nat.leb i (length (t_acts t))               (* Vec::insert panics when index > len *)
             then Some (mkTour (insert_nth i a (t_acts t)) (set_add j (t_jobs t)) (t_closed t))
             else None
      end
  end.

Definition insert_last (t : tour) (a : act) : option tour := insert_at t a (job_activity_count t + 1).

Definition remove (t : tour) (j : nat) : tour * bool :=
  (mkTour (filter (fun a => negb (has_same_job a j)) (t_acts t)) (set_remove j (t_jobs t)) (t_closed t),
   set_mem j (t_jobs t)).

Definition remove_activity_at (t : tour) (idx : nat) : option (tour * nat) :=
  match nth_error (t_acts t) idx with
  | Some a => match a_job a with
              | Some j => Some (fst (remove t j), j)
              | None => None                                 (* expect("Attempt to remove activity without job…") *)
              end
  | None => None
  end.

(* legs(): windows(1|2).zip(0..) chained with the open-end leg *)
Fixpoint windows2 (l : list act) : list (list act) :=
  match l with
  | a :: ((b :: _) as tl) => [a; b] :: windows2 tl
  | _ => []
  end.
Definition windows1 (l : list act) : list (list act) := map (fun a => [a]) l.
Fixpoint zip_idx {A} (i : nat) (l : list A) : list (A * nat) :=
  match l with
  | [] => []
  | x :: r => (x, i) :: zip_idx (S i) r
  end.
Definition legs (t : tour) : list (list act * nat) :=
  let n := length (t_acts t) in
  let last_index := n - 1 in
  let ws := if Nat.eqb n 1 then windows1 (t_acts t) else windows2 (t_acts t) in
  let ls := zip_idx 0 ws in
  if negb (t_closed t) && Nat.ltb 0 last_index
  then ls ++ [(skipn last_index (t_acts t), last_index)]
  else ls.

(* operations of a history on one tour *)
Inductive top :=
| TInsertAt (a : act) (idx : nat)
| TInsertLast (a : act)
| TRemove (j : nat)
| TRemoveAt (idx : nat).

(* result value: insert -> 0, remove -> 1/0 (was present), remove_activity_at -> job id *)
Definition tstep (t : tour) (o : top) : option (tour * nat) :=
  match o with
  | TInsertAt a i => match insert_at t a i with Some t' => Some (t', 0) | None => None end
  | TInsertLast a => match insert_last t a with Some t' => Some (t', 0) | None => None end
  | TRemove j => let '(t', b) := remove t j in Some (t', if b then 1 else 0)
  | TRemoveAt i => remove_activity_at t i
  end.

Fixpoint trun (t : tour) (ops : list top) : option tour :=
  match ops with
  | [] => Some t
  | o :: r => match tstep t o with Some (t', _) => trun t' r | None => None end
  end.

(* read-only accessors built on has_same_job / the job set *)
Fixpoint find_idx (f : act -> bool) (i : nat) (l : list act) : option nat :=
  match l with
  | [] => None
  | a :: r => if f a then Some i else find_idx f (S i) r
  end.
Fixpoint find_last (f : act -> bool) (i : nat) (l : list act) (acc : option nat) : option nat :=
  match l with
  | [] => acc
  | a :: r => find_last f (S i) r (if f a then Some i else acc)
  end.
Definition tindex (t : tour) (j : nat) : option nat := find_idx (fun a => has_same_job a j) 0 (t_acts t).
Definition tindex_last (t : tour) (j : nat) : option nat := find_last (fun a => has_same_job a j) 0 (t_acts t) None.
Definition job_activities (t : tour) (j : nat) : list act := filter (fun a => has_same_job a j) (t_acts t).
Definition contains (t : tour) (j : nat) : bool := set_mem j (t_jobs t).
Definition enc_opt (o : option nat) : nat := match o with None => 0 | Some i => S i end.
Definition tquery (t : tour) (what j : nat) : nat :=
  match what with
  | 0 => enc_opt (tindex t j)
  | 1 => enc_opt (tindex_last t j)
  | 2 => length (job_activities t j)
  | _ => if contains t j then 1 else 0
  end.

(* ---- slots: several route contexts (tour + one tour-state value), deep copies push a new slot *)
Record slot := mkSlot { s_tour : tour; s_state : option nat }.
Inductive sop :=
| STour (k : nat) (o : top)
| SCopy (k : nat) (mode : nat)       (* 0: Tour::deep_copy, 1: Route::deep_copy (both: fresh RouteState), 2: RouteContext::deep_copy *)
| SSetState (k : nat) (v : nat)
| SQuery (k : nat) (what : nat) (j : nat).   (* 0: index(job), 1: index_last(job), 2: job_activities(job).count(), 3: contains(job) *)

Fixpoint set_nth {A} (k : nat) (x : A) (l : list A) : list A :=
  match l, k with
  | [], _ => []
  | _ :: r, O => x :: r
  | y :: r, S k' => y :: set_nth k' x r
  end.

(* returns new slots, the result value and the index of the slot whose dump is reported *)
Definition sstep (ss : list slot) (o : sop) : option (list slot * nat * nat) :=
  match o with
  | STour k o' =>
      match nth_error ss k with
      | Some s => match tstep (s_tour s) o' with
                  | Some (t', r) => Some (set_nth k (mkSlot t' (s_state s)) ss, r, k)
                  | None => None
                  end
      | None => None
      end
  | SCopy k mode =>
      match nth_error ss k with
      | Some s => Some (ss ++ [mkSlot (s_tour s) (if Nat.eqb mode 2 then s_state s else None)], length ss, length ss)
      | None => None
      end
  | SSetState k v =>
      match nth_error ss k with
      | Some s => Some (set_nth k (mkSlot (s_tour s) (Some v)) ss, 0, k)
      | None => None
      end
  | SQuery k what j =>
      match nth_error ss k with
      | Some s => Some (ss, tquery (s_tour s) what j, k)
      | None => None
      end
  end.

(* ---- observable dump *)
Definition enc_job (o : option nat) : nat := match o with None => 0 | Some j => S j end.
Definition enc_act (a : act) : list nat := [enc_job (a_job a); a_tag a].
Definition enc_leg (l : list act * nat) : list nat := snd l :: map a_tag (fst l).
Definition dump := (list (list nat) * list nat * list (list nat) * list nat)%type.
Definition dump_slot (s : slot) : dump :=
  let t := s_tour s in
  (map enc_act (t_acts t), t_jobs t, map enc_leg (legs t),
   [total t; job_activity_count t; job_count t; (if has_jobs t then 1 else 0); enc_job (s_state s)]).
Definition dump_nth (ss : list slot) (k : nat) : dump :=
  match nth_error ss k with Some s => dump_slot s | None => ([], [], [], []) end.

Fixpoint srun (ss : list slot) (ops : list sop) (acc : list (nat * dump)) : list (nat * dump) * bool * list dump :=
  match ops with
  | [] => (rev acc, false, map dump_slot ss)
  | o :: r => match sstep ss o with
              | Some (ss', ret, k) => srun ss' r ((ret, dump_nth ss' k) :: acc)
              | None => (rev acc, true, map dump_slot ss)           (* panic: history stops here *)
              end
  end.

(* entry point: (per-step (result, dump of the touched slot), panicked?, final dump of every slot) *)
Definition run_tour (closed : bool) (ops : list sop) := srun [mkSlot (tour_new closed) None] ops [].

(* ------------------------------------------------------------------ registry *)
Record reg := mkReg { r_avail : list (nat * list nat);     (* group -> available actors *)
                      r_index : list (nat * nat);          (* actor -> group *)
                      r_all : list nat }.

(* Fleet::new: groups = fold over actors: entry(key).or_default().insert(actor) *)
Definition group_add (g a : nat) (m : list (nat * list nat)) : list (nat * list nat) :=
  match lookup g m with
  | Some s => upd g (set_add a s) m
  | None => m ++ [(g, [a])]
  end.
Fixpoint fleet_groups (a : nat) (gs : list nat) (m : list (nat * list nat)) : list (nat * list nat) :=
  match gs with
  | [] => m
  | g :: r => fleet_groups (S a) r (group_add g a m)
  end.
(* Registry::new(fleet): actors are 0..n-1, gs gives the group key of each *)
Definition reg_new (gs : list nat) : reg :=
  let groups := fleet_groups 0 gs [] in
  mkReg groups (flat_map (fun gs' => map (fun a => (a, fst gs')) (snd gs')) groups) (seq 0 (length gs)).

Definition use_actor (r : reg) (a : nat) : reg * bool :=
  match lookup a (r_index r) with
  | None => (r, false)
  | Some g => match lookup g (r_avail r) with
              | None => (r, false)
              | Some s => if set_mem a s
                          then (mkReg (upd g (set_remove a s) (r_avail r)) (r_index r) (r_all r), true)
                          else (r, false)
              end
  end.

Definition free_actor (r : reg) (a : nat) : reg * bool :=
  match lookup a (r_index r) with
  | None => (r, false)
  | Some g => match lookup g (r_avail r) with
              | None => (r, false)
              | Some s => if set_mem a s
                          then (r, false)
                          else (mkReg (upd g (a :: s) (r_avail r)) (r_index r) (r_all r), true)
              end
  end.

Definition available (r : reg) : list nat := flat_map snd (r_avail r).

Definition deep_slice (r : reg) (keep : nat -> bool) : reg :=
  mkReg (map (fun gs => (fst gs, filter keep (snd gs))) (r_avail r))
        (filter (fun ag => keep (fst ag)) (r_index r))
        (filter keep (r_all r)).

(* next(): one actor per group; a draw uniform_int(0, len-1) is consumed only for groups with >= 2 available actors;
   the iteration order inside a set is unknown, so the list order stands for it and the theorem quantifies over draws *)
Fixpoint next_with (picks : list nat) (m : list (nat * list nat)) : list nat :=
  match m with
  | [] => []
  | (_, s) :: r =>
      if Nat.ltb (length s) 2 then firstn 1 s ++ next_with picks r
      else match picks with
           | p :: ps => firstn 1 (skipn p s) ++ next_with ps r
           | [] => firstn 1 s ++ next_with [] r
           end
  end.

(* RegistryContext = registry + index of route prototypes (its domain) *)
Record rctx := mkRctx { c_reg : reg; c_idx : list nat }.
Definition rctx_new (gs : list nat) : rctx := let r := reg_new gs in mkRctx r (r_all r).
Definition get_route (c : rctx) (a : nat) : rctx * bool :=
  let '(r', b) := use_actor (c_reg c) a in (mkRctx r' (c_idx c), b && set_mem a (c_idx c)).
Definition ctx_slice (c : rctx) (keep : nat -> bool) : rctx :=
  mkRctx (deep_slice (c_reg c) keep) (filter keep (c_idx c)).

Inductive rop :=
| RUse (a : nat)          (* Registry::use_actor / RegistryContext::use_route *)
| RFree (a : nat)         (* Registry::free_actor / RegistryContext::free_route *)
| RGet (a : nat)          (* RegistryContext::get_route *)
| RNext.                  (* next()/next_route(): no state change; result checked against the dump *)

Definition rstep (c : rctx) (o : rop) : rctx * bool :=
  match o with
  | RUse a => let '(r', b) := use_actor (c_reg c) a in (mkRctx r' (c_idx c), b)
  | RFree a => let '(r', b) := free_actor (c_reg c) a in (mkRctx r' (c_idx c), b)
  | RGet a => get_route c a
  | RNext => (c, false)
  end.

Inductive rsop :=
| RSOp (k : nat) (o : rop)
| RSCopy (k : nat)                      (* deep_copy: push *)
| RSSlice (k : nat) (keep : list nat).  (* deep_slice(|a| keep contains a): push *)

Definition rsstep (cs : list rctx) (o : rsop) : option (list rctx * nat * nat) :=
  match o with
  | RSOp k o' => match nth_error cs k with
                 | Some c => let '(c', b) := rstep c o' in Some (set_nth k c' cs, if b then 1 else 0, k)
                 | None => None
                 end
  | RSCopy k => match nth_error cs k with
                | Some c => Some (cs ++ [c], length cs, length cs)
                | None => None
                end
  | RSSlice k keep => match nth_error cs k with
                      | Some c => Some (cs ++ [ctx_slice c (fun a => set_mem a keep)], length cs, length cs)
                      | None => None
                      end
  end.

Definition rdump := (list (list nat) * list nat * list nat)%type.      (* groups as g :: members, all, prototype index *)
Definition dump_rctx (c : rctx) : rdump :=
  (map (fun gs => fst gs :: snd gs) (r_avail (c_reg c)), r_all (c_reg c), c_idx c).
Definition rdump_nth (cs : list rctx) (k : nat) : rdump :=
  match nth_error cs k with Some c => dump_rctx c | None => ([], [], []) end.

Fixpoint rsrun (cs : list rctx) (ops : list rsop) (acc : list (nat * rdump)) : list (nat * rdump) * bool * list rdump :=
  match ops with
  | [] => (rev acc, false, map dump_rctx cs)
  | o :: r => match rsstep cs o with
              | Some (cs', ret, k) => rsrun cs' r ((ret, rdump_nth cs' k) :: acc)
              | None => (rev acc, true, map dump_rctx cs)
              end
  end.

Definition run_reg (gs : list nat) (ops : list rsop) := rsrun [rctx_new gs] ops [].

(* ------------------------------------------------------------------ hand-over Solution <-> InsertionContext
   Only the parts of Solution / SolutionContext that the registry clause talks about: the registry and the routes.
   GoalContext::accept_solution_state / accept_route_state are taken to leave routes and registry alone (true for the goal
   the harness uses; a feature is free to do otherwise). *)
Definition mroute := (nat * tour)%type.                                 (* Route { actor, tour } *)
Definition rctx_of (r : reg) : rctx := mkRctx r (r_all r).              (* RegistryContext::new(goal, registry): index over registry.all() *)

(* create_insertion_context_from_solution: registry = solution.registry.deep_copy(); routes.iter().for_each(|route|
   if has_jobs { routes.push(deep copy); registry.use_actor(actor) } else { registry.free_actor(actor) }) — results ignored *)
Fixpoint handover (r : reg) (rs : list mroute) : reg * list mroute :=
  match rs with
  | [] => (r, [])
  | rt :: rest =>
      if has_jobs (snd rt)
      then let '(r', kept) := handover (fst (use_actor r (fst rt))) rest in (r', rt :: kept)
      else handover (fst (free_actor r (fst rt))) rest
  end.
Definition from_solution_raw (r : reg) (rs : list mroute) : rctx * list mroute :=
  let '(r', kept) := handover r rs in (rctx_of r', kept).

(* SolutionContext::keep_routes: partition(predicate); every removed route: assert!(registry.free_route(route)) *)
Fixpoint free_routes (c : rctx) (rs : list mroute) : option rctx :=
  match rs with
  | [] => Some c
  | rt :: rest => let '(r', b) := free_actor (c_reg c) (fst rt) in
                  if b then free_routes (mkRctx r' (c_idx c)) rest else None
  end.
Definition keep_routes (c : rctx) (rs : list mroute) (pred : mroute -> bool) : option (rctx * list mroute) :=
  match free_routes c (filter (fun rt => negb (pred rt)) rs) with
  | Some c' => Some (c', filter pred rs)
  | None => None
  end.
Definition route_has_jobs (rt : mroute) : bool := has_jobs (snd rt).
(* InsertionContext::restore: accept_solution_state; remove_empty_routes = keep_routes(has_jobs) *)
Definition restore (c : rctx) (rs : list mroute) : option (rctx * list mroute) := keep_routes c rs route_has_jobs.
(* InsertionContext::new_from_solution = create_insertion_context_from_solution + restore *)
Definition new_from_solution (r : reg) (rs : list mroute) : option (rctx * list mroute) :=
  let '(c, kept) := from_solution_raw r rs in restore c kept.
(* From<InsertionContext> for Solution: registry = registry.resources().deep_copy(), routes = deep copies in order *)
Definition into_solution (c : rctx) (rs : list mroute) : reg * list mroute := (c_reg c, rs).

(* create_insertion_context: Registry::new; per lock (condition selecting the single actor l_actor): lazy -> nothing;
   registry.available().find(cond) = Some -> use_actor, RouteContext::new(actor) + insert_last of every locked job, push;
   None -> jobs become unassigned.  create_empty_insertion_context = no locks. *)
Record mlock := mkLock { l_actor : nat; l_lazy : bool; l_acts : list act }.
Fixpoint fill (t : tour) (acts : list act) : option tour :=
  match acts with
  | [] => Some t
  | a :: r => match insert_last t a with Some t' => fill t' r | None => None end
  end.
Fixpoint ctx_locks (closed : bool) (r : reg) (rs : list mroute) (ls : list mlock) : option (reg * list mroute) :=
  match ls with
  | [] => Some (r, rs)
  | l :: rest =>
      if l_lazy l then ctx_locks closed r rs rest
      else if set_mem (l_actor l) (available r)
           then match fill (tour_new closed) (l_acts l) with
                | Some t => ctx_locks closed (fst (use_actor r (l_actor l))) (rs ++ [(l_actor l, t)]) rest
                | None => None
                end
           else ctx_locks closed r rs rest
  end.
Definition create_context (gs : list nat) (closed : bool) (ls : list mlock) : option (rctx * list mroute) :=
  match ctx_locks closed (reg_new gs) [] ls with
  | Some (r, rs) => Some (rctx_of r, rs)
  | None => None
  end.

(* operations on one insertion context (registry context + routes) *)
Inductive cop :=
| CGetPush (a : nat)            (* registry.get_route(actor) and, when Some, routes.push(route) *)
| CReg (o : rop)                (* use_route / free_route / get_route / next_route on the registry alone *)
| CTour (i : nat) (o : top)     (* tour operation on route i *)
| CKeep (keep : list nat)       (* keep_routes(|rc| keep contains rc.actor) *)
| CRestore.                     (* InsertionContext::restore *)

Definition cstep (closed : bool) (c : rctx) (rs : list mroute) (o : cop) : option (rctx * list mroute * nat) :=
  match o with
  | CGetPush a => let '(c', b) := get_route c a in
                  if b then Some (c', rs ++ [(a, tour_new closed)], 1) else Some (c', rs, 0)
  | CReg o' => let '(c', b) := rstep c o' in Some (c', rs, if b then 1 else 0)
  | CTour i o' => match nth_error rs i with
                  | Some rt => match tstep (snd rt) o' with
                               | Some (t', r) => Some (c, set_nth i (fst rt, t') rs, r)
                               | None => None
                               end
                  | None => None
                  end
  | CKeep keep => match keep_routes c rs (fun rt => set_mem (fst rt) keep) with
                  | Some (c', rs') => Some (c', rs', 0)
                  | None => None
                  end
  | CRestore => match restore c rs with Some (c', rs') => Some (c', rs', 0) | None => None end
  end.

(* slots: insertion contexts and solutions *)
Inductive hslot :=
| HCtx (c : rctx) (rs : list mroute)
| HSol (r : reg) (rs : list mroute).

Inductive hsop :=
| HCtxOp (k : nat) (o : cop)
| HSolReg (k : nat) (o : rop)                 (* solution.registry.use_actor / free_actor *)
| HSolAdd (k : nat) (a : nat)                 (* solution.routes.push(Route { actor, Tour::new(actor) }) — registry untouched *)
| HSolTour (k : nat) (i : nat) (o : top)      (* tour operation on route i of the solution *)
| HFromSol (k : nat)                          (* InsertionContext::new_from_solution(copy of the solution): push *)
| HInto (k : nat)                             (* Solution::from(ctx.deep_copy()): push *)
| HCopy (k : nat).                            (* InsertionContext::deep_copy / copy of a solution: push *)

Definition hsstep (closed : bool) (ss : list hslot) (o : hsop) : option (list hslot * nat * nat) :=
  match o with
  | HCtxOp k o' => match nth_error ss k with
                   | Some (HCtx c rs) => match cstep closed c rs o' with
                                         | Some (c', rs', r) => Some (set_nth k (HCtx c' rs') ss, r, k)
                                         | None => None
                                         end
                   | _ => None
                   end
  | HSolReg k o' => match nth_error ss k with
                    | Some (HSol r rs) => let '(c', b) := rstep (rctx_of r) o' in
                                          Some (set_nth k (HSol (c_reg c') rs) ss, if b then 1 else 0, k)
                    | _ => None
                    end
  | HSolAdd k a => match nth_error ss k with
                   | Some (HSol r rs) => Some (set_nth k (HSol r (rs ++ [(a, tour_new closed)])) ss, 0, k)
                   | _ => None
                   end
  | HSolTour k i o' => match nth_error ss k with
                       | Some (HSol r rs) =>
                           match nth_error rs i with
                           | Some rt => match tstep (snd rt) o' with
                                        | Some (t', ret) => Some (set_nth k (HSol r (set_nth i (fst rt, t') rs)) ss, ret, k)
                                        | None => None
                                        end
                           | None => None
                           end
                       | _ => None
                       end
  | HFromSol k => match nth_error ss k with
                  | Some (HSol r rs) => match new_from_solution r rs with
                                        | Some (c, rs') => Some (ss ++ [HCtx c rs'], length ss, length ss)
                                        | None => None
                                        end
                  | _ => None
                  end
  | HInto k => match nth_error ss k with
               | Some (HCtx c rs) => let '(r, rs') := into_solution c rs in Some (ss ++ [HSol r rs'], length ss, length ss)
               | _ => None
               end
  | HCopy k => match nth_error ss k with
               | Some s => Some (ss ++ [s], length ss, length ss)
               | None => None
               end
  end.

(* observable dump of a slot: kind (0 context / 1 solution), registry dump, routes as actor :: has_jobs :: activities,
   and for a context the actors for which get_route (on a copy of the registry) returns a route; probes = actors asked *)
Definition enc_route (rt : mroute) : list nat :=
  fst rt :: (if has_jobs (snd rt) then 1 else 0) :: flat_map enc_act (t_acts (snd rt)).
Definition hdump := (nat * rdump * list (list nat) * list nat)%type.
Definition dump_hslot (probes : list nat) (s : hslot) : hdump :=
  match s with
  | HCtx c rs => (0, dump_rctx c, map enc_route rs, filter (fun a => snd (get_route c a)) probes)
  | HSol r rs => (1, dump_rctx (rctx_of r), map enc_route rs, [])
  end.
Definition hdump_nth (probes : list nat) (ss : list hslot) (k : nat) : hdump :=
  match nth_error ss k with Some s => dump_hslot probes s | None => (2, ([], [], []), [], []) end.

Fixpoint hsrun (closed : bool) (probes : list nat) (ss : list hslot) (ops : list hsop) (acc : list (nat * hdump))
  : list (nat * hdump) * bool * list hdump :=
  match ops with
  | [] => (rev acc, false, map (dump_hslot probes) ss)
  | o :: r => match hsstep closed ss o with
              | Some (ss', ret, k) => hsrun closed probes ss' r ((ret, hdump_nth probes ss' k) :: acc)
              | None => (rev acc, true, map (dump_hslot probes) ss)
              end
  end.

(* entry point: init = None -> a solution with Registry::new and no routes; Some locks -> InsertionContext::new on a problem
   with these locks (Some [] = also InsertionContext::new_empty).  Result: (dump of the initial slot, steps, panicked?, finals);
   a panic inside the factory gives no slots *)
Definition run_ho (gs : list nat) (closed : bool) (init : option (list mlock)) (ops : list hsop) :=
  let probes := seq 0 (length gs + 3) in
  let ss := match init with
            | None => [HSol (reg_new gs) []]
            | Some ls => match create_context gs closed ls with Some (c, rs) => [HCtx c rs] | None => [] end
            end in
  (hdump_nth probes ss 0, hsrun closed probes ss ops []).
