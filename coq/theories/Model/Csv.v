(* C11 (c) — model of the CSV import, on already tokenised and typed rows (the `csv` crate's tokenizer and the
   std number parsers are not modelled).  No proofs here (Proofs/CsvP.v).

   Rust items modelled  (vrp-cli/src/extensions/import/csv.rs):
     CsvJob, CsvVehicle            -> JobRow, VehRow (same field types: i32 / usize as bounded integers, f64 as fl)
     parse_tw                      -> parse_tw
     read_jobs :: get_task         -> task_of_row      (demand.abs(): i32::MIN would overflow; since repair 1cad789 such a
                                                        table never gets there: csv_rejects)
     read_jobs (row check)         -> csv_rejects      (`entries.iter().find(|job| job.demand.checked_abs().is_none())` ->
                                                        Err "demand of job .. is out of range" -> FormatError E0000
                                                        "cannot read jobs"; repair 1cad789 of finding C11-F2).
                                      csv_panics_prefix = the overflow condition of the code BEFORE that repair (a panic in a
                                      build with overflow checks, which is what the harness runs) — witness theorem only
     read_jobs :: get_tasks        -> tasks_of
     read_jobs (HashMap grouping)  -> read_jobs_ord ord rows: the job order is the iteration order of a std HashMap,
                                      i.e. arbitrary; `ord` is that order (any arrangement of the distinct ids) and the
                                      theorems quantify over it.  read_jobs uses first-occurrence order.
     read_vehicles                 -> veh_of_row / read_vehicles  (vehicle ids = "<ID>_<seq>", seq = 1..=AMOUNT; since the
                                      repair 9df6aa4 — before it the PROFILE name was used, finding C11-F1)
     read_csv_problem              -> read_csv_ord / read_csv (profiles: HashSet order, again arbitrary -> first occurrence)
   read_csv_problem is the whole import (rejection or problem); run_csv is the entry point of the correspondence:
   enc_Problem of the imported problem, or CsvRejected. *)
From Coq Require Import DecimalString Decimal.
From VRP Require Import Base.Tac Base.Json Model.SerdeSem Generated.ProblemCodec.
Open Scope string_scope.

Record JobRow := mk_JobRow {
  jr_id : string; jr_lat : fl; jr_lng : fl; jr_demand : i32; jr_duration : usize;
  jr_tw_start : option string; jr_tw_end : option string }.
Record VehRow := mk_VehRow {
  vr_id : string; vr_lat : fl; vr_lng : fl; vr_capacity : i32; vr_tw_start : string; vr_tw_end : string;
  vr_amount : usize; vr_profile : string }.

Definition parse_tw (s e : option string) : option (list string) :=
  match s, e with Some s, Some e => Some [s; e] | _, _ => None end.

(* i32::abs; None = overflow (i32::MIN) *)
Definition abs_i32 (d : i32) : option i32 := to_i32 (Z.abs (i32v d)).

Definition place_of_row (r : JobRow) : JobPlace :=
  mk_JobPlace (Location_Coordinate (jr_lat r) (jr_lng r)) (fl_of_Z (usizev (jr_duration r)))
              (option_map (fun tw => [tw]) (parse_tw (jr_tw_start r) (jr_tw_end r))) None.

Definition task_of_row (r : JobRow) : JobTask :=
  mk_JobTask [place_of_row r]
             (if Z.eqb (i32v (jr_demand r)) 0 then None
              else Some [match abs_i32 (jr_demand r) with Some a => a | None => jr_demand r end])
             None.

Definition rows_of (id : string) (rows : list JobRow) : list JobRow :=
  filter (fun r => String.eqb (jr_id r) id) rows.

Definition tasks_of (sel : Z -> bool) (rows : list JobRow) : option (list JobTask) :=
  match map task_of_row (filter (fun r => sel (i32v (jr_demand r))) rows) with
  | [] => None
  | ts => Some ts
  end.

Definition is_pickup (d : Z) : bool := Z.ltb 0 d.
Definition is_delivery (d : Z) : bool := Z.ltb d 0.
Definition is_service (d : Z) : bool := Z.eqb d 0.

Definition job_of (rows : list JobRow) (id : string) : Job :=
  let rs := rows_of id rows in
  mk_Job id (tasks_of is_pickup rs) (tasks_of is_delivery rs) None (tasks_of is_service rs) None None None None.

(* distinct values in first-occurrence order *)
Fixpoint dedup (l : list string) : list string :=
  match l with
  | [] => []
  | a :: r => a :: filter (fun b => negb (String.eqb b a)) (dedup r)
  end.

Definition job_ids (rows : list JobRow) : list string := dedup (map jr_id rows).
Definition read_jobs_ord (ord : list string) (rows : list JobRow) : list Job := map (job_of rows) ord.
Definition read_jobs (rows : list JobRow) : list Job := read_jobs_ord (job_ids rows) rows.

Definition dec_string_of_nat (n : nat) : string := NilEmpty.string_of_uint (Nat.to_uint n).
Definition vehicle_id (type_id : string) (k : nat) : string := type_id ++ "_" ++ dec_string_of_nat k.
Definition vehicle_ids_of (r : VehRow) : list string :=
  map (vehicle_id (vr_id r)) (seq 1 (Z.to_nat (usizev (vr_amount r)))).

(* f64 literals of the source: 25., 0.0002, 0.005 *)
Definition csv_costs : VehicleCosts :=
  mk_VehicleCosts (Some (Mk_fl 25 0)) (Mk_fl 7378697629483821 65) (Mk_fl 5764607523034235 60).

Definition veh_of_row (r : VehRow) : VehicleType :=
  let depot := Location_Coordinate (vr_lat r) (vr_lng r) in
  mk_VehicleType (vr_id r) (vehicle_ids_of r) (mk_VehicleProfile (vr_profile r) None) csv_costs
    [mk_VehicleShift (mk_ShiftStart (vr_tw_start r) None depot)
                     (Some (mk_ShiftEnd None (vr_tw_end r) depot)) None None None]
    [vr_capacity r] None None.

Definition read_vehicles (rows : list VehRow) : list VehicleType := map veh_of_row rows.

Definition profile_names (vrows : list VehRow) : list string := dedup (map vr_profile vrows).

Definition read_csv_ord (ord pord : list string) (rows : list JobRow) (vrows : list VehRow) : Problem :=
  mk_Problem (mk_Plan (read_jobs_ord ord rows) None None)
             (mk_Fleet (read_vehicles vrows) (map (fun n => mk_MatrixProfile n None) pord) None)
             None.
Definition read_csv (rows : list JobRow) (vrows : list VehRow) : Problem :=
  read_csv_ord (job_ids rows) (profile_names vrows) rows vrows.

(* the row check of read_jobs: some DEMAND whose magnitude is not an i32 (checked_abs() is None) *)
Definition csv_rejects (rows : list JobRow) : bool :=
  existsb (fun r => match abs_i32 (jr_demand r) with None => true | Some _ => false end) rows.

Inductive csv_res := CsvErr | CsvOk (p : Problem).
Definition read_csv_problem (rows : list JobRow) (vrows : list VehRow) : csv_res :=
  if csv_rejects rows then CsvErr else CsvOk (read_csv rows vrows).

(* BEFORE repair 1cad789: `job.demand.abs()` on i32::MIN = arithmetic overflow (no row check) *)
Definition csv_panics_prefix (rows : list JobRow) : bool :=
  existsb (fun r => match abs_i32 (jr_demand r) with None => negb (Z.eqb (i32v (jr_demand r)) 0) | Some _ => false end) rows.

Definition all_vehicle_ids (p : Problem) : list string :=
  flat_map VehicleType_vehicle_ids (Fleet_vehicles (Problem_fleet p)).

(* ---- correspondence entry point: rows as tuples of raw values; None = a value outside its Rust type (never generated) *)
Definition mk_job_row (t : string * (Z * nat) * (Z * nat) * Z * Z * option string * option string) : option JobRow :=
  let '(id, (lm, le), (gm, ge), d, du, s, e) := t in
  bind (to_i32 d) (fun d' => bind (to_usize du) (fun du' =>
    Some (mk_JobRow id (Mk_fl lm le) (Mk_fl gm ge) d' du' s e))).
Definition mk_veh_row (t : string * (Z * nat) * (Z * nat) * Z * string * string * Z * string) : option VehRow :=
  let '(id, (lm, le), (gm, ge), c, s, e, a, p) := t in
  bind (to_i32 c) (fun c' => bind (to_usize a) (fun a' =>
    Some (mk_VehRow id (Mk_fl lm le) (Mk_fl gm ge) c' s e a' p))).

Fixpoint dec_all_opt {A B} (f : A -> option B) (l : list A) : option (list B) :=
  match l with
  | [] => Some []
  | a :: r => bind (f a) (fun b => bind (dec_all_opt f r) (fun bs => Some (b :: bs)))
  end.

Inductive csv_out := CsvBadInput | CsvRejected | CsvProblem (j : json).
Definition run_csv (jt : list (string * (Z * nat) * (Z * nat) * Z * Z * option string * option string))
                   (vt : list (string * (Z * nat) * (Z * nat) * Z * string * string * Z * string)) : csv_out :=
  match dec_all_opt mk_job_row jt, dec_all_opt mk_veh_row vt with
  | Some rows, Some vrows => match read_csv_problem rows vrows with
                             | CsvErr => CsvRejected
                             | CsvOk p => CsvProblem (enc_Problem p)
                             end
  | _, _ => CsvBadInput
  end.
