(* Model of the SAME Rust items as Model/Lkh.v
     vrp-core/src/algorithms/lkh/kopt.rs :: KOpt::optimize, improve, find_closest, choose_x, choose_y, is_known_path
     (Tour::* and make_edge* are cost independent and are taken from Model/Lkh.v unchanged)
   but over an ARBITRARY cost type C with its own, possibly NON-EXACT, arithmetic (record `cops`): the code computes on f64,
   where `a - b`, `a + b` round.  Model/Lkh.v is the instance C = Z (exact); `FOps` is the instance C = Coq primitive floats
   (IEEE-754 binary64, round to nearest even: the arithmetic of Rust's f64), the one the float correspondence stream runs.
   Structure, names and evaluation order are those of Model/Lkh.v (the instance at Z is convertible to it: Proofs/LkhGP.v).
   What the search does with a rebuilt tour is the parameter `reject new current` (`is_known_path`):
     rej_known      = KOpt::solutions holds exactly the current path (optimize clears it before every push): only the
                      identical path is rejected                                                   (the code as it is)
     rej_seen seen  = KOpt::solutions keeps every tour the search went through (`self.solutions.clear()` removed): a tour
                      that was already visited is rejected; optimize returns all of them in the order of discovery
                      (proposed repair notes/patches/C17-lkh-termination.diff; `goptimize_hist`)
     rej_cheaper    = an alternative repair that was NOT chosen (it changes the outcome of a repository test that expects one
                      of two tours of equal length): identical path rejected, and any path whose recomputed closed-tour cost
                      (`tour_cost`) is not strictly below the current one's
   Entry points for the correspondence: run_lkhf / run_lkhf_repaired (floats), run_lkh_repaired (Z).  No proofs here. *)
From Coq Require Import Floats.
From VRP Require Import Base.Tac Model.Lkh.
Local Open Scope nat_scope.

Record cops (C : Type) : Type := mkCops {
  c_zero : C;
  c_add : C -> C -> C;
  c_sub : C -> C -> C;
  c_le0 : C -> bool;          (* `x <= 0.` *)
  c_gt0 : C -> bool;          (* `x > 0.`  *)
  c_gt : C -> C -> bool;      (* `a > b`   *)
  c_lt : C -> C -> bool;      (* `a < b`   *)
  c_tgt : C -> C -> bool;     (* `a.total_cmp(&b) == Greater` (the stable sort by diff) *)
  c_eqb : C -> C -> bool      (* `a == b`  (only used by the strict hash-order oracle) *)
}.
Arguments c_zero {C}. Arguments c_add {C}. Arguments c_sub {C}. Arguments c_le0 {C}. Arguments c_gt0 {C}.
Arguments c_gt {C}. Arguments c_lt {C}. Arguments c_tgt {C}. Arguments c_eqb {C}.

Section Generic.
  Variable C : Type.
  Variable K : cops C.

  Definition gentry := (nat * (C * C))%type.   (* node, (diff, gi) *)

  Fixpoint gupsert (node : nat) (diff gi : C) (m : list gentry) : list gentry :=
    match m with
    | [] => [(node, (diff, gi))]
    | (k, (d, g)) :: r => if k =? node then (k, (diff, g)) :: r
                          else (k, (d, g)) :: gupsert node diff gi r
    end.

  (* stable sort, descending diff, by total_cmp *)
  Fixpoint gsins (x : gentry) (s : list gentry) : list gentry :=
    match s with
    | [] => [x]
    | y :: r => if c_tgt K (fst (snd y)) (fst (snd x)) then y :: gsins x r else x :: s
    end.
  Definition gsort_desc (l : list gentry) : list gentry := fold_right gsins [] l.

  Fixpoint ghas_tie (l : list gentry) : bool :=
    match l with
    | [] => false
    | x :: r => existsb (fun y => c_eqb K (fst (snd y)) (fst (snd x))) r || ghas_tie r
    end.
  Definition gstrict_ho (l : list gentry) : option (list gentry) := if ghas_tie l then None else Some l.

  Variable cost : nat -> nat -> C.               (* AdjacencySpec::cost(&(i, j)) *)
  Variable nb : list (list nat).                 (* AdjacencySpec::neighbours *)
  Variable ho : list gentry -> option (list gentry).   (* HashMap iteration order *)
  Variable reject : list nat -> list nat -> bool.      (* reject new_path current_path *)

  Definition gneighbours (i : nat) : list nat := nth i nb [].

  (* closed-tour cost as the repaired code recomputes it: zip(path, path.cycle().skip(1)).fold(0., |acc, c| acc + c) *)
  Definition tour_cost (p : list nat) : C :=
    fold_left (fun acc e => c_add K acc (cost (fst e) (snd e))) (windows2 p ++ closing p) (c_zero K).

  Section Improve.
    Variable t : tour.

    Definition gclosest_step (t2i : nat) (gain : C) (broken joined : eset) (m : list gentry) (node : nat) : list gentry :=
      let yi := mk_edge t2i node in
      let gi := c_sub K gain (cost t2i node) in
      if c_le0 K gi || emem yi broken || emem yi (tedges t) then m
      else fold_left (fun m succ =>
                        let xi := mk_edge node succ in
                        if negb (emem xi broken) && negb (emem xi joined)
                        then gupsert node (c_sub K (cost node succ) (cost t2i node)) gi m else m)
                     (around t node) m.

    Definition gfind_closest (t2i : nat) (gain : C) (broken joined : eset) : option (list gentry) :=
      option_map gsort_desc (ho (fold_left (gclosest_step t2i gain broken joined) (gneighbours t2i) [])).

    Fixpoint gfirst_found (f : gentry -> res) (l : list gentry) : res :=
      match l with
      | [] => NotFound
      | x :: r => match f x with NotFound => gfirst_found f r | other => other end
      end.

    Definition gchoose_y (cx : nat -> nat -> C -> eset -> eset -> res)
               (t1 t2i : nat) (gain : C) (broken joined : eset) : res :=
      match gfind_closest t2i gain broken joined with
      | None => Abort
      | Some closest =>
        let max_tries := if length broken =? 2 then 5 else 1 in
        gfirst_found (fun e => cx t1 (fst e) (snd (snd e)) broken (eins (mk_edge t2i (fst e)) joined))
                     (firstn max_tries closest)
      end.

    Fixpoint gcx_loop (rec : nat -> nat -> C -> eset -> eset -> res)
             (t1 last : nat) (gain : C) (broken joined : eset) (cands : list nat) : res :=
      match cands with
      | [] => NotFound
      | t2i :: rest =>
        let xi := mk_edge last t2i in
        if emem xi joined || emem xi broken then NotFound else
        let yi := mk_edge t2i t1 in
        let added := eins yi joined in
        let removed := eins xi broken in
        let gi := c_add K gain (cost last t2i) in
        let relink := c_sub K gi (cost t2i t1) in
        if c_gt0 K relink then
          match try_path t removed added with
          | Some p => if reject p (tpath t) then NotFound else Found p
          | None => if 2 <? length added then gcx_loop rec t1 last gain broken joined rest
                    else gchoose_y rec t1 t2i gi removed joined
          end
        else gchoose_y rec t1 t2i gi removed joined
      end.

    Definition gcx_cands (last : nat) (broken : eset) : list nat :=
      if length broken =? 4 then
        match around t last with
        | [pred; succ] => if c_gt K (cost pred last) (cost succ last) then [pred] else [succ]
        | _ => []
        end
      else around t last.

    Fixpoint gchoose_x (fuel : nat) (t1 last : nat) (gain : C) (broken joined : eset) {struct fuel} : res :=
      match fuel with
      | O => Fuel
      | S f => gcx_loop (gchoose_x f) t1 last gain broken joined (gcx_cands last broken)
      end.

    Fixpoint gt3_loop (fuel : nat) (t1 t2 : nat) (aset : list nat) (broken : eset) (tries : nat) (l : list gentry) : res :=
      match l with
      | [] => NotFound
      | e :: r =>
        if nmem (fst e) aset then gt3_loop fuel t1 t2 aset broken tries r
        else match gchoose_x fuel t1 (fst e) (snd (snd e)) broken [mk_edge t2 (fst e)] with
             | NotFound => match tries with
                           | S (S k) => gt3_loop fuel t1 t2 aset broken (S k) r
                           | _ => NotFound
                           end
             | other => other
             end
      end.

    Fixpoint gt2_loop (fuel : nat) (t1 : nat) (aset : list nat) (l : list nat) : res :=
      match l with
      | [] => NotFound
      | t2 :: r =>
        let broken := [mk_edge t1 t2] in
        match gfind_closest t2 (cost t1 t2) broken [] with
        | None => Abort
        | Some closest =>
          match gt3_loop fuel t1 t2 aset broken 5 closest with
          | NotFound => gt2_loop fuel t1 aset r
          | other => other
          end
        end
      end.

    Fixpoint gt1_loop (fuel : nat) (l : list nat) : res :=
      match l with
      | [] => NotFound
      | t1 :: r =>
        let aset := nset_of (around t t1) in
        match gt2_loop fuel t1 aset aset with
        | NotFound => gt1_loop fuel r
        | other => other
        end
      end.
  End Improve.

  Definition gimprove (p : list nat) : res :=
    let t := tour_new p in gt1_loop t (length p + 2) (tpath t).

  Fixpoint goptimize (ofuel : nat) (p : list nat) : res :=
    match ofuel with
    | O => Fuel
    | S f => match gimprove p with
             | Found p' => goptimize f p'
             | NotFound => Found p
             | other => other
             end
    end.

  (* the tours KOpt::optimize goes through: `improve` applied k times (None as soon as the search stops or aborts) *)
  Fixpoint giter (k : nat) (p : list nat) : option (list nat) :=
    match k with
    | O => Some p
    | S k' => match gimprove p with Found p' => giter k' p' | _ => None end
    end.

  (* optimize with a memory of every tour it went through: stops with code 4 at the first tour that comes back
     (from then on the loop of KOpt::optimize repeats for ever: improve is a function of the current tour only) *)
  Fixpoint goptimize_seen (ofuel : nat) (seen : list (list nat)) (p : list nat) : nat * list nat * nat :=
    match ofuel with
    | O => (1, [], length seen)
    | S f => match gimprove p with
             | Found p' => if existsb (list_eqb p') (p :: seen) then (4, p', length seen) else goptimize_seen f (p :: seen) p'
             | NotFound => (0, p, length seen)
             | Fuel => (1, [], length seen)
             | Abort => (2, [], length seen)
             end
    end.
End Generic.

Arguments gentry C : clear implicits.

(* `is_known_path`: KOpt::solutions holds exactly the current path *)
Definition rej_known (new cur : list nat) : bool := list_eqb new cur.
(* proposed repair: additionally the recomputed closed-tour cost must be strictly below the current tour's *)
Definition rej_cheaper {C} (K : cops C) (cost : nat -> nat -> C) (new cur : list nat) : bool :=
  list_eqb new cur || negb (c_lt K (tour_cost C K cost new) (tour_cost C K cost cur)).

(* proposed repair: `is_known_path` over ALL discovered solutions (the current one is the last of them) *)
Definition rej_seen (seen : list (list nat)) (new cur : list nat) : bool := existsb (fun s => list_eqb s new) seen.

Inductive hres := HFound (ps : list (list nat)) | HFuel | HAbort.

(* KOpt::optimize without `self.solutions.clear()`: `cur` = solutions.last(), `older` = the solutions before it, newest first *)
Fixpoint goptimize_hist (C : Type) (K : cops C) (cost : nat -> nat -> C) (nb : list (list nat))
         (ho : list (gentry C) -> option (list (gentry C))) (ofuel : nat) (cur : list nat) (older : list (list nat)) : hres :=
  match ofuel with
  | O => HFuel
  | S f => match gimprove C K cost nb ho (rej_seen (cur :: older)) cur with
           | Found p' => goptimize_hist C K cost nb ho f p' (cur :: older)
           | NotFound => HFound (rev (cur :: older))
           | Fuel => HFuel
           | Abort => HAbort
           end
  end.

(* ---------------------------------------------------------------- instance: exact integers (= Model/Lkh.v) *)
Definition ZOps : cops Z :=
  mkCops Z 0%Z Z.add Z.sub (fun x => (x <=? 0)%Z) (fun x => (x >? 0)%Z) Z.gtb Z.ltb Z.gtb Z.eqb.

(* result code for the correspondence: (0, all discovered paths, input first) | (1, []) fuel | (2, []) order-dependent tie *)
Definition hres_code (r : hres) : nat * list (list nat) :=
  match r with
  | HFound ps => (0, ps)
  | HFuel => (1, [])
  | HAbort => (2, [])
  end.

Definition run_lkh_repaired (cm : list (list Z)) (nb : list (list nat)) (p : list nat) : nat * list (list nat) :=
  hres_code (goptimize_hist Z ZOps (Lkh.cost cm) nb strict_ho 400 p []).

(* ---------------------------------------------------------------- instance: IEEE-754 binary64 *)
(* f64::total_cmp == Greater on the values that occur (a NaN is treated as the positive NaN, the largest value) *)
Definition f_total_gt (a b : float) : bool :=
  match PrimFloat.compare a b with
  | FGt => true
  | FLt => false
  | FEq => PrimFloat.is_zero a && PrimFloat.is_zero b && negb (PrimFloat.get_sign a) && PrimFloat.get_sign b
  | FNotComparable => PrimFloat.is_nan a && negb (PrimFloat.is_nan b)
  end.

Definition FOps : cops float :=
  mkCops float 0%float PrimFloat.add PrimFloat.sub (fun x => PrimFloat.leb x 0%float) (fun x => PrimFloat.ltb 0%float x)
         (fun a b => PrimFloat.ltb b a) PrimFloat.ltb f_total_gt PrimFloat.eqb.

Definition fcost (cm : list (list float)) (i j : nat) : float := nth j (nth i cm []) 0%float.

(* Euclidean costs of integer points, as the harness / scientific readers compute them: sqrt of the (exact) squared distance *)
Definition euclid (pts : list (Z * Z)) : list (list float) :=
  map (fun a => map (fun b =>
         let dx := (fst a - fst b)%Z in let dy := (snd a - snd b)%Z in
         PrimFloat.sqrt (PrimFloat.of_uint63 (Uint63.of_Z (dx * dx + dy * dy)%Z))) pts) pts.

(* the squared edge lengths of the closed tour p over integer points (its exact length is the sum of their square roots) *)
Definition sq_lengths (pts : list (Z * Z)) (p : list nat) : list nat :=
  map (fun e => let a := nth (fst e) pts (0, 0)%Z in let b := nth (snd e) pts (0, 0)%Z in
                Z.to_nat ((fst a - fst b) * (fst a - fst b) + (snd a - snd b) * (snd a - snd b))%Z)
      (windows2 p ++ closing p).

(* result: (code, path, number of improvements made); code 0 = final path, 1 = fuel, 2 = order-dependent tie,
   4 = the search returned to a tour it had already left (path = that tour): KOpt::optimize never ends *)
Definition run_lkhf (cm : list (list float)) (nb : list (list nat)) (p : list nat) : nat * list nat * nat :=
  goptimize_seen float FOps (fcost cm) nb (gstrict_ho float FOps) rej_known 400 [] p.
Definition run_lkhf_repaired (cm : list (list float)) (nb : list (list nat)) (p : list nat) : nat * list (list nat) :=
  hres_code (goptimize_hist float FOps (fcost cm) nb (gstrict_ho float FOps) 400 p []).
