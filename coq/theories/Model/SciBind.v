(* C13 — "capacity and time windows bind exactly as the file says": the problem the scientific readers produce, seen
   through the step-by-step feasibility simulation of Spec/Feasible.v (the notion C06 / C01 are stated against), and the
   textbook route feasibility of the three benchmark families stated directly on the abstract instance.
   No proofs in this file (Proofs/SciBindP.v).

   From problem to tour (what vrp-core builds from the parsed Problem; vrp-core/src/models/solution/{tour.rs,route.rs},
   construction/heuristics/context.rs :: RouteContext::new, create_start_activity / create_end_activity):
     start activity: depot location, window [shift start, +inf), departure = shift start
     job activity  : place location / duration / time window of the Single, its demand
     end activity  : depot location, window [0, shift end]
     travel time   : the routing matrix of CoordIndex::create_transport (rounded Euclidean distance), unit speed
     vehicle       : capacity of the file, shift end = due date of the depot
   Textbook side: Solomon VRPTW (sum of demands <= Q; arrival = departure + distance, arrival <= due date, service starts
   at max(arrival, ready time), back at the depot by its due date), Li & Lim PDPTW (running load with signed demands
   <= Q, same timing; the pairing / precedence of a request is a separate structural predicate `lil_paired`), CVRP
   (sum of demands <= Q).

   run_* entry point of the correspondence: run_bind. *)
From VRP Require Import Base.Tac Model.Core Spec.Feasible.
From VRP Require Import Model.Scientific Model.SciText.
From Coq Require Import String Ascii.

(* ---------- the parsed problem as a tour of the core model ---------- *)
Definition zext (o : option Z) : Z := match o with Some z => z | None => INF end.
Definition core_demand (d : option Scientific.demand) : Core.demand :=
  match d with Some (a, b, c, e) => mkDemand a b c e | None => dzero end.
Definition act_of_single (s : Scientific.single) : act :=
  mkAct (match Scientific.s_id s with Some i => i | None => 0 end) (s_loc s) (s_dur s) (s_tws s) (zext (s_twe s))
        (core_demand (Scientific.s_dem s)) 0 0.
Definition start_act (f : fleet) : act := mkAct (-1) (f_loc f) 0 (f_start f) INF dzero (f_start f) (f_start f).
Definition end_act (f : fleet) : act := mkAct (-1) (f_loc f) 0 0 (zext (f_end f)) dzero 0 0.
Definition tour_of (P : problem) (ss : list Scientific.single) : list act :=
  start_act (p_fleet P) :: map act_of_single ss ++ [end_act (p_fleet P)].
Definition entry (m : list (list Z)) (i j : Z) : Z := nth (Z.to_nat j) (nth (Z.to_nat i) m []) 0.
(* rounded distances are the travel times (the unrounded matrix of the model holds SQUARED distances, see Model/Scientific.v) *)
Definition dur_of (P : problem) : Z -> Z -> Z := entry (matrix true (p_coords P)).
Definition veh_of (P : problem) : vehicle := mkVeh (zext (f_end (p_fleet P))) (f_cap (p_fleet P)) 0 1 0 0 0.
Definition problem_time_ok (P : problem) (ss : list Scientific.single) : bool := time_feasible (dur_of P) (tour_of P ss).
Definition problem_load_ok (P : problem) (ss : list Scientific.single) : bool := load_feasible (v_cap (veh_of P)) (tour_of P ss).
Definition problem_feasible (P : problem) (ss : list Scientific.single) : bool :=
  feasible (dur_of P) (veh_of P) (tour_of P ss).

(* ---------- textbook feasibility on the instance ---------- *)
Definition tt : coord -> coord -> Z := dist true.

(* Solomon: customers in visiting order *)
Fixpoint sol_times (depot : custline) (pos : coord) (t : Z) (r : list custline) : bool :=
  match r with
  | [] => t + tt pos (cxy depot) <=? c_end depot
  | c :: r' => let arr := t + tt pos (cxy c) in
               (arr <=? c_end c) && sol_times depot (cxy c) (Z.max arr (c_start c) + c_service c) r'
  end.
Definition sum_dem (r : list custline) : Z := fold_right (fun c acc => c_dem c + acc) 0 r.
Definition sol_route_ok (I : sol_inst) (r : list custline) : bool :=
  (sum_dem r <=? si_capacity I) && sol_times (si_depot I) (cxy (si_depot I)) (c_start (si_depot I)) r.
(* the job the reader makes of customer c *)
Definition sol_single (I : sol_inst) (c : custline) : Scientific.single :=
  let final := all_coords (cxy (si_depot I) :: map cxy (si_custs I)) in
  Scientific.mkSingle (Some (c_id c)) (Some (0, 0, c_dem c, 0)) (loc_of final (cxy c)) (c_service c) (c_start c) (Some (c_end c)).

(* Li & Lim: pickup / delivery events in visiting order *)
Inductive ev := EvP (r : request) | EvD (r : request).
Definition ev_node (e : ev) : node := match e with EvP r => rq_p r | EvD r => rq_d r end.
Definition ev_delta (e : ev) : Z := match e with EvP r => rq_q r | EvD r => - rq_q r end.
Definition ev_req (e : ev) : request := match e with EvP r => r | EvD r => r end.
Fixpoint lil_times (depot : node) (pos : coord) (t : Z) (r : list ev) : bool :=
  match r with
  | [] => t + tt pos (nxy depot) <=? n_end depot
  | e :: r' => let n := ev_node e in
               let arr := t + tt pos (nxy n) in
               (arr <=? n_end n) && lil_times depot (nxy n) (Z.max arr (n_start n) + n_service n) r'
  end.
Fixpoint lil_loads (Q load : Z) (r : list ev) : bool :=
  match r with
  | [] => true
  | e :: r' => let l := load + ev_delta e in (l <=? Q) && lil_loads Q l r'
  end.
Definition lil_route_ok (I : lil_inst) (r : list ev) : bool :=
  lil_loads (li_capacity I) 0 r && lil_times (li_depot I) (nxy (li_depot I)) (n_start (li_depot I)) r.
Definition lil_final (I : lil_inst) : list coord :=
  all_coords (nxy (li_depot I) :: flat_map (fun r => [nxy (rq_p r); nxy (rq_d r)]) (li_reqs I)).
Definition lil_ev_single (I : lil_inst) (e : ev) : Scientific.single :=
  match e with
  | EvP r => lil_single (lil_final I) (rq_p r) (0, rq_q r, 0, 0)
  | EvD r => lil_single (lil_final I) (rq_d r) (0, 0, 0, rq_q r)
  end.

(* CVRP *)
Definition sum_tdem (r : list tnode) : Z := fold_right (fun n acc => t_dem n + acc) 0 r.
Definition tsp_route_ok (I : tsp_inst) (r : list tnode) : bool := sum_tdem r <=? ti_capacity I.
Definition tsp_final (pn : list tnode) (I : tsp_inst) : list coord :=
  all_coords (map txy (filter (fun n => negb (t_id n =? ti_depot I)) pn) ++ [depot_xy I]).
Definition tsp_single (pn : list tnode) (I : tsp_inst) (n : tnode) : Scientific.single :=
  Scientific.mkSingle (Some (t_id n - 1)) (Some (0, 0, t_dem n, 0)) (loc_of (tsp_final pn I) (txy n)) 0 0 None.

(* ---------- correspondence entry point ---------- *)
Definition all_singles (P : problem) : list Scientific.single :=
  flat_map (fun j => match j with JSingle s => [s] | JMulti _ subs => subs end) (p_jobs P).
Definition find_single (P : problem) (id : Z) : option Scientific.single :=
  find (fun s => match Scientific.s_id s with Some i => i =? id | None => false end) (all_singles P).
Fixpoint find_all (P : problem) (ids : list Z) : option (list Scientific.single) :=
  match ids with
  | [] => Some []
  | i :: r => match find_single P i, find_all P r with
              | Some s, Some ss => Some (s :: ss)
              | _, _ => None
              end
  end.
Definition b2z (b : bool) : Z := if b then 1 else 0.
(* per route: [found; time ok; load ok] *)
Definition route_verdict (P : problem) (ids : list Z) : list Z :=
  match find_all P ids with
  | Some ss => [1; b2z (problem_time_ok P ss); b2z (problem_load_ok P ss)]
  | None => [0; 0; 0]
  end.
(* fmt: 0 Solomon, 1 Li & Lim, 2 TSPLIB; the text is read at character level; status as in flat_problem *)
Definition run_bind (fmt : Z) (text : string) (routes : list (list Z)) : Z * list (list Z) :=
  let cs := str text in
  if negb (all_ascii cs) then (3, []) else
  let r := if fmt =? 0 then read_solomon_text cs
           else if fmt =? 1 then read_lilim_text cs
           else let ls := lex_tsplib (lines cs) in read_tsplib_defs (tsp_file_order ls) ls in
  match r with
  | Ok P => (0, map (route_verdict P) routes)
  | Err => (1, [])
  | Panic => (2, [])
  end.
