(* C10 — executable model of the pragmatic problem validation on the EXTENDED document: relations, objectives, job values, task
   orders, index / coordinate locations with supplied or approximated routing matrices, vicinity clustering profile.
   NO PROOFS in this file.

   Rust items modelled here (as written, quirks included); the job / vehicle groups are Model/Validation.v on the base document:
     vrp-pragmatic/src/validation/relations.rs  :: check_e1200_job_existence .. check_e1207_no_incomplete_relation, validate_relations
                                                   (vehicle_map and job_index are HashMaps collected from iterators: the LAST entry
                                                   of a duplicated key wins; E1203 is applied to relations of every type; E1204 is the
                                                   stateful `entry(job).or_insert(vehicle)` walk; E1207 does not filter reserved ids)
     vrp-pragmatic/src/validation/objectives.rs :: check_e1600 .. check_e1607, get_objectives_flattened (ONE level), validate_objectives
                                                   (nothing is checked, E1605 included, when `objectives` is absent; E1601 compares
                                                   std::mem::discriminant, E1603/1604/1606/1607 look at the top level only)
     vrp-pragmatic/src/validation/routing.rs    :: check_e1500 .. check_e1505 in every mode (coordinates / indices / mixed, matrices
                                                   supplied or approximated), E1505 with the vicinity clustering profile
     vrp-pragmatic/src/validation/mod.rs        :: ValidationContext::new (job_index), validate (group order jobs, vehicles, objectives,
                                                   routing, relations), is_reserved_job_id
     vrp-pragmatic/src/format/coord_index.rs    :: CoordIndex::new / add (direct_index, reverse_index WITH overwriting on equal values,
                                                   flags), unique, max_matrix_index, has_coordinates, has_indices
     vrp-pragmatic/src/format/problem/problem_reader.rs :: map_to_problem_with_approx / _with_matrices (which matrices validation sees)
     vrp-pragmatic/src/format/problem/fleet_reader.rs   :: create_approx_matrices (one matrix per profile over get_unique_locations)

   The extended document keeps the base document (Model/Validation.v :: doc) inside: every job / vehicle carries its base record plus
   the extra fields.  Locations are the sequence of `location` fields in CoordIndex::new order (x_locs); a coordinate is identified
   by an integer (two coordinates are the same location iff the integers are equal), custom locations are not modelled.
   `job.value` travels in thousandths (value > 0. <-> milli > 0, value < 1. <-> milli < 1000, value != 0. <-> milli <> 0);
   `task.order` is an i32.  An objective is its serde tag (position in OBJECTIVE_TAGS below); an objective inside a
   `multi-objective` that is itself a `multi-objective` is INested (its content is never looked at by validation).

   run_* entry points used by the correspondence: run_xvalidate (below), Model/Reader.v :: run_xread. *)
From VRP Require Import Base.Tac Model.Validation.
From Coq Require Import String.

(* ---------- the extended document ---------- *)
Inductive loc := LCoord (k : Z) | LIndex (i : nat).
Inductive rtype := RAny | RSequence | RStrict.
Record relation := mkRel { r_type : rtype; r_jobs : list string; r_vehicle : string; r_shift : option nat }.

(* serde tags of Objective, in this order:
   0 minimize-cost  1 minimize-distance  2 minimize-duration  3 minimize-tours  4 maximize-tours  5 maximize-value
   6 minimize-unassigned  7 minimize-arrival-time  8 balance-max-load  9 balance-activities  10 balance-distance
   11 balance-duration  12 compact-tour  13 tour-order  14 fast-service  15 hierarchical-areas  (16 = multi-objective) *)
Inductive strategy := SSum | SWeighted (nweights : nat).
Inductive inner := IObj (tag : nat) (arg : Z) | INested.
Inductive objective := OObj (tag : nat) (arg : Z) | OMulti (st : strategy) (inner : list inner).
Definition T_MULTI : nat := 16.
Definition T_VALUE : nat := 5.
Definition T_ORDER : nat := 13.
Definition is_cost_tag (t : nat) : bool := (t <? 3)%nat.

(* one recharge station: its `times`; a shift's `recharges`: the stations *)
Definition stations := list (option (list twraw)).
Record xjob := mkXJob { xj_job : job; xj_value : option Z; xj_orders : list Z }.
Record xvehicle := mkXVehicle { xv_vehicle : vehicle;
                                xv_recharges : list (option stations);     (* per shift, by position; missing = None *)
                                xv_tour_size : option Z; xv_max_distance : option Z; xv_max_duration : option Z }.
Record xmatrix := mkXMatrix { xm_matrix : matrix; xm_timestamp : option tm }.
Record xdoc := mkXDoc { x_jobs : list xjob; x_vehicles : list xvehicle; x_profiles : list string;
                        x_speeds : list Z;                          (* the `speed` values given explicitly on profiles *)
                        x_resources : option (list string);
                        x_resource_dims : list nat;                 (* length of every resource's capacity vector *)
                        x_locs : list loc;
                        x_relations : option (list relation);
                        x_objectives : option (list objective);
                        x_clustering : option string;               (* plan.clustering: Vicinity { profile.matrix } *)
                        x_matrices : option (list xmatrix) }.       (* None: read without routing matrices *)

Definition xbase (d : xdoc) : doc :=
  mkDoc (map xj_job (x_jobs d)) (map xv_vehicle (x_vehicles d)) (x_profiles d) (x_resources d).

(* ---------- HashMap lookups: the last entry of a key wins ---------- *)
Fixpoint lookup_last {A} (has : A -> bool) (l : list A) : option A :=
  match l with
  | [] => None
  | x :: r => match lookup_last has r with Some y => Some y | None => if has x then Some x else None end
  end.
(* ctx.job_index.get(id) *)
Definition job_lookup (d : xdoc) (id : string) : option job :=
  lookup_last (fun j => String.eqb id (j_id j)) (map xj_job (x_jobs d)).
(* vehicle_map.get(id): (vehicle id -> vehicle type) for every id of every type *)
Definition vehicle_lookup (d : xdoc) (id : string) : option vehicle :=
  lookup_last (fun v => mem id (v_ids v)) (map xv_vehicle (x_vehicles d)).

(* ---------- relations.rs ---------- *)
Definition rel_shift (r : relation) : nat := match r_shift r with Some i => i | None => 0%nat end.

Definition check_e1200 (d : xdoc) (rels : list relation) : bool :=
  existsb (fun r => existsb (fun id => negb (reserved id) && is_none (job_lookup d id)) (r_jobs r)) rels.

Definition check_e1201 (d : xdoc) (rels : list relation) : bool :=
  existsb (fun r => is_none (vehicle_lookup d (r_vehicle r))) rels.

Definition check_e1202 (rels : list relation) : bool :=
  existsb (fun r => negb (existsb (fun id => negb (reserved id)) (r_jobs r))) rels.

Definition task_multi (t : task) : bool :=
  (1 <? List.length (tk_places t))%nat
  || existsb (fun p => match pl_times p with Some tws => (1 <? List.length tws)%nat | None => false end) (tk_places t).
Definition check_e1203 (d : xdoc) (rels : list relation) : bool :=
  existsb (fun r => existsb (fun id => negb (reserved id)
                                        && match job_lookup d id with
                                           | Some j => existsb task_multi (all_tasks j)
                                           | None => false
                                           end) (r_jobs r)) rels.

(* job_vehicle_map.entry(job).or_insert_with(|| relation.vehicle_id) != relation.vehicle_id, relation by relation, id by id *)
Fixpoint assoc (k : string) (m : list (string * string)) : option string :=
  match m with [] => None | (k', v) :: r => if String.eqb k k' then Some v else assoc k r end.
Definition e1204_step (vid : string) (st : list (string * string) * bool) (id : string) : list (string * string) * bool :=
  if reserved id then st
  else match assoc id (fst st) with
       | Some v => (fst st, snd st || negb (String.eqb v vid))
       | None => ((id, vid) :: fst st, snd st)
       end.
Definition e1204_rel (st : list (string * string) * bool) (r : relation) : list (string * string) * bool :=
  fold_left (e1204_step (r_vehicle r)) (r_jobs r) st.
Definition check_e1204 (rels : list relation) : bool := snd (fold_left e1204_rel rels ([], false)).

Definition check_e1205 (d : xdoc) (rels : list relation) : bool :=
  existsb (fun r => match vehicle_lookup d (r_vehicle r) with
                    | Some v => is_none (nth_error (v_shifts v) (rel_shift r))
                    | None => false
                    end) rels.

Definition missing_property (s : shift) (id : string) : bool :=
  if String.eqb id "break" then is_none (sh_breaks s)
  else if String.eqb id "reload" then is_none (sh_reloads s)
  else if String.eqb id "arrival" then is_none (sh_end s)
  else false.
Definition check_e1206 (d : xdoc) (rels : list relation) : bool :=
  existsb (fun r => match vehicle_lookup d (r_vehicle r) with
                    | Some v => match nth_error (v_shifts v) (rel_shift r) with
                                | Some s => existsb (fun id => reserved id && missing_property s id) (r_jobs r)
                                | None => false
                                end
                    | None => false
                    end) rels.

Fixpoint count_str (x : string) (l : list string) : nat :=
  match l with [] => 0%nat | y :: r => if String.eqb x y then S (count_str x r) else count_str x r end.
Definition check_e1207 (d : xdoc) (rels : list relation) : bool :=
  existsb (fun r => existsb (fun id => match job_lookup d id with
                                       | Some j => negb (count_str id (r_jobs r) =? List.length (all_tasks j))%nat   (* job.id = id *)
                                       | None => false
                                       end) (r_jobs r)) rels.

(* ---------- objectives.rs ---------- *)
Definition inner_tag (i : inner) : nat := match i with IObj t _ => t | INested => T_MULTI end.
(* get_objectives_flattened mapped to discriminants *)
Definition flat_tags (objs : list objective) : list nat :=
  flat_map (fun o => match o with OObj t _ => [t] | OMulti _ ins => map inner_tag ins end) objs.
Definition top_has (t : nat) (objs : list objective) : bool :=
  existsb (fun o => match o with OObj t' _ => (t' =? t)%nat | OMulti _ _ => false end) objs.
Fixpoint nat_dedup_count (seen l : list nat) : nat :=       (* HashSet::len *)
  match l with
  | [] => List.length seen
  | x :: r => if existsb (Nat.eqb x) seen then nat_dedup_count seen r else nat_dedup_count (x :: seen) r
  end.
Definition job_value_positive (d : xdoc) : bool :=
  existsb (fun j => match xj_value j with Some v => 0 <? v | None => false end) (x_jobs d).
Definition job_order_positive (d : xdoc) : bool :=
  existsb (fun j => existsb (fun o => 0 <? o) (xj_orders j)) (x_jobs d).

Definition check_e1600 (objs : list objective) : bool := is_nil objs.
Definition check_e1601 (objs : list objective) : bool :=
  negb (nat_dedup_count [] (flat_tags objs) =? List.length (flat_tags objs))%nat.
Definition check_e1602 (objs : list objective) : bool := negb (existsb is_cost_tag (flat_tags objs)).
Definition check_e1603 (d : xdoc) (objs : list objective) : bool := top_has T_VALUE objs && negb (job_value_positive d).
Definition check_e1604 (d : xdoc) (objs : list objective) : bool := top_has T_ORDER objs && negb (job_order_positive d).
Definition check_e1605 (d : xdoc) : bool :=
  existsb (fun j => existsb (fun o => o <? 1) (xj_orders j)
                    || match xj_value j with Some v => v <? 1000 | None => false end) (x_jobs d).
Definition check_e1606 (objs : list objective) : bool :=
  (1 <? List.length (filter (fun o => match o with OObj t _ => is_cost_tag t | OMulti _ _ => false end) objs))%nat.
Definition check_e1607 (d : xdoc) (objs : list objective) : bool :=
  if is_nil objs then false else negb (top_has T_VALUE objs) && job_value_positive d.

(* ---------- coord_index.rs ---------- *)
Definition loc_eqb (a b : loc) : bool :=
  match a, b with
  | LCoord x, LCoord y => x =? y
  | LIndex i, LIndex j => (i =? j)%nat
  | _, _ => false
  end.
Definition mem_loc (l : loc) (ls : list loc) : bool := existsb (loc_eqb l) ls.
Definition is_coord (l : loc) : bool := match l with LCoord _ => true | LIndex _ => false end.
Definition is_index (l : loc) : bool := match l with LIndex _ => true | LCoord _ => false end.

(* direct_index: the distinct locations in insertion order (value of a coordinate = its position, of a reference = its index);
   reverse_index: value -> location, a later insert with the same value REPLACES the earlier one *)
Record cindex := mkCI { ci_direct : list loc; ci_reverse : list (nat * loc) }.
Definition loc_value (pos : nat) (l : loc) : nat := match l with LCoord _ => pos | LIndex i => i end.
Definition rev_insert (k : nat) (l : loc) (m : list (nat * loc)) : list (nat * loc) :=
  (k, l) :: filter (fun e => negb (fst e =? k)%nat) m.
Definition ci_add (ci : cindex) (l : loc) : cindex :=
  if mem_loc l (ci_direct ci) then ci
  else mkCI (ci_direct ci ++ [l]) (rev_insert (loc_value (List.length (ci_direct ci)) l) l (ci_reverse ci)).
Definition coord_index (ls : list loc) : cindex := fold_left ci_add ls (mkCI [] []).
Definition max_matrix_index (ci : cindex) : nat := Nat.max (List.length (ci_direct ci)) 1 - 1.
Definition has_coordinates (d : xdoc) : bool := existsb is_coord (x_locs d).
Definition has_indices (d : xdoc) : bool := existsb is_index (x_locs d).
(* coord_index.unique() has a Reference whose index is not below the matrix size *)
Definition has_index_outside (size : nat) (ci : cindex) : bool :=
  existsb (fun e => match snd e with LIndex i => (size <=? i)%nat | LCoord _ => false end) (ci_reverse ci).

(* ---------- which matrices validation and the reader see ---------- *)
(* create_approx_matrices: none without profiles, otherwise one n*n matrix per profile, n = get_unique_locations().len()
   (the approximated durations / distances themselves are never looked at by validation or by the reader's checks) *)
Definition approx_matrices (d : xdoc) : list xmatrix :=
  let n := List.length (ci_reverse (coord_index (x_locs d))) in
  if approx_skipped (x_profiles d) (x_speeds d) then []        (* no profile, or (X14 repair) an explicit speed that is not positive *)
  else map (fun p => mkXMatrix (mkMatrix (Some p) (repeat 0 (n * n)%nat) (repeat 0 (n * n)%nat) None) None) (x_profiles d).
(* map_to_problem_with_matrices: the supplied ones; map_to_problem_with_approx: none with an index location, else approximated *)
Definition seen_matrices (d : xdoc) : list xmatrix :=
  match x_matrices d with
  | Some ms => ms
  | None => if has_indices d then [] else approx_matrices d
  end.
(* matrices.first().map(|m| m.distances.len()) *)
Definition first_matrix_len (d : xdoc) : option nat :=
  match seen_matrices d with m :: _ => Some (List.length (m_dist (xm_matrix m))) | [] => None end.
(* ctx.matrices.is_none_or(|m| m.is_empty()) *)
Definition no_matrices (d : xdoc) : bool := is_nil (seen_matrices d).

(* ---------- routing.rs ---------- *)
Definition xcheck_e1500 (d : xdoc) : bool := has_dup (x_profiles d).
Definition xcheck_e1501 (d : xdoc) : bool := is_nil (x_profiles d).
Definition xcheck_e1502 (d : xdoc) : bool := has_coordinates d && has_indices d.
Definition xcheck_e1503 (d : xdoc) : bool := has_indices d && no_matrices d.
Definition xcheck_e1504 (d : xdoc) : bool :=
  match first_matrix_len d with
  | None => false                                                   (* map_or((0, true), ..) *)
  | Some len => let size := round_sqrt len in
                let ci := coord_index (x_locs d) in
                negb ((max_matrix_index ci + 1 =? size)%nat && negb (has_index_outside size ci))
  end.
Definition xcheck_e1505 (d : xdoc) : bool :=
  existsb (fun p => negb (mem p (x_profiles d)))
          (map (fun v => v_profile (xv_vehicle v)) (x_vehicles d) ++ match x_clustering d with Some p => [p] | None => [] end).

(* ---------- validate: five groups in call order, every rule of every group evaluated ---------- *)
Definition lift (cs : list (Z * (doc -> option bool))) : list (Z * (xdoc -> option bool)) :=
  map (fun cf => (fst cf, fun d => snd cf (xbase d))) cs.
Definition on_objectives (f : xdoc -> list objective -> bool) (d : xdoc) : option bool :=
  Some (match x_objectives d with Some objs => f d objs | None => false end).
Definition on_relations (f : xdoc -> list relation -> bool) (d : xdoc) : option bool :=
  Some (match x_relations d with Some rels => f d rels | None => false end).
Definition objectives_checks : list (Z * (xdoc -> option bool)) :=
  [(1600, on_objectives (fun _ => check_e1600)); (1601, on_objectives (fun _ => check_e1601));
   (1602, on_objectives (fun _ => check_e1602)); (1603, on_objectives check_e1603);
   (1604, on_objectives check_e1604); (1605, on_objectives (fun d _ => check_e1605 d));
   (1606, on_objectives (fun _ => check_e1606)); (1607, on_objectives check_e1607)].
Definition xrouting_checks : list (Z * (xdoc -> option bool)) :=
  [(1500, fun d => Some (xcheck_e1500 d)); (1501, fun d => Some (xcheck_e1501 d)); (1502, fun d => Some (xcheck_e1502 d));
   (1503, fun d => Some (xcheck_e1503 d)); (1504, fun d => Some (xcheck_e1504 d)); (1505, fun d => Some (xcheck_e1505 d))].
Definition relations_checks : list (Z * (xdoc -> option bool)) :=
  [(1200, on_relations check_e1200); (1201, on_relations check_e1201); (1202, on_relations (fun _ => check_e1202));
   (1203, on_relations check_e1203); (1204, on_relations (fun _ => check_e1204)); (1205, on_relations check_e1205);
   (1206, on_relations check_e1206); (1207, on_relations check_e1207)].
Definition xall_checks : list (Z * (xdoc -> option bool)) :=
  lift jobs_checks ++ lift vehicles_checks ++ objectives_checks ++ xrouting_checks ++ relations_checks.

Definition xvalidate (d : xdoc) : vres :=
  let rs := map (fun cf => (fst cf, snd cf d)) xall_checks in
  if existsb (fun r => is_none (snd r)) rs then VPanic
  else match map fst (filter (fun r => match snd r with Some true => true | _ => false end) rs) with
       | [] => VOk
       | cs => VErr cs
       end.

(* map_to_problem_with_approx: approximated matrices are built BEFORE validation when no matrix is supplied *)
Definition xpre_panics (d : xdoc) : bool :=
  match x_matrices d with
  | Some _ => false
  | None => pre_validation_panics (has_indices d) (x_profiles d) (x_speeds d)
  end.
Definition xvalidate_pre (d : xdoc) : vres := if xpre_panics d then VPanic else xvalidate d.

(* (kind, codes): kind 0 = Ok, 1 = Err codes, 2 = Panic *)
Definition run_xvalidate (d : xdoc) : Z * list Z :=
  match xvalidate_pre d with VOk => (0, []) | VErr cs => (1, cs) | VPanic => (2, []) end.
