(* Model of the evolution configuration builder and of how a run consumes the built configuration (property C08, last clause).
     rosomaxa/src/evolution/config.rs    :: EvolutionConfigBuilder::{default, with_max_generations, with_max_time, with_min_cv,
                                            with_target_proximity, with_initial, with_processing, with_init_solutions, with_objective,
                                            with_context, with_termination, with_heuristic, with_strategy, with_search_operators,
                                            with_diversify_operators, get_termination, build}, InitialConfig, EvolutionConfig
     rosomaxa/src/evolution/simulator.rs :: EvolutionSimulator::{new, run}  (context pre-processing, initial individuals through
                                            on_initial, operator-created individuals with the index rule `idx < operators.len()`,
                                            quota / termination test before every creation once the population holds a solution (2c5dd99), strategy run, solution post-processing)
     rosomaxa/src/termination/max_generation.rs :: MaxGeneration::{is_termination, estimate} at statistics.generation = 0
     rosomaxa/src/termination/mod.rs     :: CompositeTermination::{is_termination (any), estimate (max)}
     rosomaxa/src/lib.rs                 :: get_default_population (Greedy for selection_size = 1, Rosomaxa with default configuration
                                            otherwise; `expect` on the Rosomaxa::new error = None)
     vrp-core/src/solver/heuristic.rs    :: VrpConfigBuilder::prebuild                 (as the setter sequence it issues: prebuild_calls)
     vrp-cli/src/extensions/solve/config.rs :: create_builder_from_config, configure_from_evolution, configure_from_hyper,
                                            configure_from_termination               (as the setter sequence they issue: cli_config_calls)
   The builder is an operation-sequence state machine: a value of `builder` and one `setter` per public `with_*` method, applied in ANY
   order any number of times (`apply_all`).  The heuristic context is represented by what matters for the property: a tag and the
   population it owns (`pop ind` of Model/Population.v).  Heuristics, strategies, operators sets, objectives, hooks are opaque tags;
   a custom strategy (with_strategy) is arbitrary user code and its outcome is `OCustom` (not modelled).
   Oracle arguments of a run: `clock` (per creation attempt: did a non-generation criterion terminate, and the largest of their estimates,
   in 1/1000), `created` (what the initial operators returned, in order), `gens` (per generation: selection oracles, offspring, statistics —
   the number of generations is the length of this list), interpretation of the hooks (`pre`, `post`).
   Quota and estimates are in units of 1/1000 (0.05 = 50).
   Entry points used by the correspondence: run_builder (concrete individuals `zi`).
   No proofs in this file. *)
From VRP Require Import Base.Tac Model.Population.

Section EvoConfig.
Context {ind : Type}.

(* InitialOperators: (operator tag, weight) *)
Definition operators := list (Z * nat).

Record initial_config := { i_ops : operators; i_max : nat; i_quota : Z; i_inds : list ind }.

(* a heuristic context: tag + the population it owns *)
Definition context := (Z * pop ind)%type.

Record builder := {
  b_max_generations : option nat;
  b_max_time : option nat;
  b_min_cv : option Z;              (* interval type: 0 = "sample", 1 = "period", anything else is unknown to build() *)
  b_target_proximity : option Z;
  b_heuristic : option Z;
  b_context : option context;
  b_termination : option Z;         (* stored by with_termination, never read by build() *)
  b_strategy : option Z;
  b_search : option Z;
  b_diversify : option Z;
  b_objective : option Z;           (* stored by with_objective, never read by build() *)
  b_initial : initial_config;
  b_processing : list Z * list Z    (* context pre-processing hooks, solution post-processing hooks *)
}.

(* impl Default for EvolutionConfigBuilder *)
Definition default_builder : builder :=
  {| b_max_generations := None; b_max_time := None; b_min_cv := None; b_target_proximity := None; b_heuristic := None;
     b_context := None; b_termination := None; b_strategy := None; b_search := None; b_diversify := None; b_objective := None;
     b_initial := {| i_ops := []; i_max := 4; i_quota := 50; i_inds := [] |};
     b_processing := ([], []) |}.

Inductive setter :=
| WithMaxGenerations (limit : option nat)
| WithMaxTime (limit : option nat)
| WithMinCv (interval : option Z)
| WithTargetProximity (target : option Z)
| WithInitial (max_size : nat) (quota : Z) (ops : operators)
| WithProcessing (ctx_hooks sol_hooks : list Z)
| WithInitSolutions (solutions : list ind) (max_init_size : option nat)
| WithObjective (t : Z)
| WithContext (c : context)
| WithTermination (t : Z)
| WithHeuristic (t : Z)
| WithStrategy (t : Z)
| WithSearchOperators (t : Z)
| WithDiversifyOperators (t : Z).

Definition set_initial (b : builder) (i : initial_config) : builder :=
  {| b_max_generations := b_max_generations b; b_max_time := b_max_time b; b_min_cv := b_min_cv b;
     b_target_proximity := b_target_proximity b; b_heuristic := b_heuristic b; b_context := b_context b;
     b_termination := b_termination b; b_strategy := b_strategy b; b_search := b_search b; b_diversify := b_diversify b;
     b_objective := b_objective b; b_initial := i; b_processing := b_processing b |}.

Definition apply_setter (b : builder) (s : setter) : builder :=
  match s with
  | WithMaxGenerations l =>
      {| b_max_generations := l; b_max_time := b_max_time b; b_min_cv := b_min_cv b;
         b_target_proximity := b_target_proximity b; b_heuristic := b_heuristic b; b_context := b_context b;
         b_termination := b_termination b; b_strategy := b_strategy b; b_search := b_search b; b_diversify := b_diversify b;
         b_objective := b_objective b; b_initial := b_initial b; b_processing := b_processing b |}
  | WithMaxTime l =>
      {| b_max_generations := b_max_generations b; b_max_time := l; b_min_cv := b_min_cv b;
         b_target_proximity := b_target_proximity b; b_heuristic := b_heuristic b; b_context := b_context b;
         b_termination := b_termination b; b_strategy := b_strategy b; b_search := b_search b; b_diversify := b_diversify b;
         b_objective := b_objective b; b_initial := b_initial b; b_processing := b_processing b |}
  | WithMinCv v =>
      {| b_max_generations := b_max_generations b; b_max_time := b_max_time b; b_min_cv := v;
         b_target_proximity := b_target_proximity b; b_heuristic := b_heuristic b; b_context := b_context b;
         b_termination := b_termination b; b_strategy := b_strategy b; b_search := b_search b; b_diversify := b_diversify b;
         b_objective := b_objective b; b_initial := b_initial b; b_processing := b_processing b |}
  | WithTargetProximity v =>
      {| b_max_generations := b_max_generations b; b_max_time := b_max_time b; b_min_cv := b_min_cv b;
         b_target_proximity := v; b_heuristic := b_heuristic b; b_context := b_context b;
         b_termination := b_termination b; b_strategy := b_strategy b; b_search := b_search b; b_diversify := b_diversify b;
         b_objective := b_objective b; b_initial := b_initial b; b_processing := b_processing b |}
  (* self.initial.max_size = max_size; self.initial.quota = quota; self.initial.operators = operators  (individuals untouched) *)
  | WithInitial max quota ops =>
      set_initial b {| i_ops := ops; i_max := max; i_quota := quota; i_inds := i_inds (b_initial b) |}
  | WithProcessing ch sh =>
      {| b_max_generations := b_max_generations b; b_max_time := b_max_time b; b_min_cv := b_min_cv b;
         b_target_proximity := b_target_proximity b; b_heuristic := b_heuristic b; b_context := b_context b;
         b_termination := b_termination b; b_strategy := b_strategy b; b_search := b_search b; b_diversify := b_diversify b;
         b_objective := b_objective b; b_initial := b_initial b; b_processing := (ch, sh) |}
  (* if let Some(max_size) = max_init_size { self.initial.max_size = max_size }; self.initial.individuals = solutions *)
  | WithInitSolutions sols max_init =>
      set_initial b {| i_ops := i_ops (b_initial b);
                       i_max := match max_init with Some m => m | None => i_max (b_initial b) end;
                       i_quota := i_quota (b_initial b); i_inds := sols |}
  | WithObjective t =>
      {| b_max_generations := b_max_generations b; b_max_time := b_max_time b; b_min_cv := b_min_cv b;
         b_target_proximity := b_target_proximity b; b_heuristic := b_heuristic b; b_context := b_context b;
         b_termination := b_termination b; b_strategy := b_strategy b; b_search := b_search b; b_diversify := b_diversify b;
         b_objective := Some t; b_initial := b_initial b; b_processing := b_processing b |}
  | WithContext c =>
      {| b_max_generations := b_max_generations b; b_max_time := b_max_time b; b_min_cv := b_min_cv b;
         b_target_proximity := b_target_proximity b; b_heuristic := b_heuristic b; b_context := Some c;
         b_termination := b_termination b; b_strategy := b_strategy b; b_search := b_search b; b_diversify := b_diversify b;
         b_objective := b_objective b; b_initial := b_initial b; b_processing := b_processing b |}
  | WithTermination t =>
      {| b_max_generations := b_max_generations b; b_max_time := b_max_time b; b_min_cv := b_min_cv b;
         b_target_proximity := b_target_proximity b; b_heuristic := b_heuristic b; b_context := b_context b;
         b_termination := Some t; b_strategy := b_strategy b; b_search := b_search b; b_diversify := b_diversify b;
         b_objective := b_objective b; b_initial := b_initial b; b_processing := b_processing b |}
  | WithHeuristic t =>
      {| b_max_generations := b_max_generations b; b_max_time := b_max_time b; b_min_cv := b_min_cv b;
         b_target_proximity := b_target_proximity b; b_heuristic := Some t; b_context := b_context b;
         b_termination := b_termination b; b_strategy := b_strategy b; b_search := b_search b; b_diversify := b_diversify b;
         b_objective := b_objective b; b_initial := b_initial b; b_processing := b_processing b |}
  | WithStrategy t =>
      {| b_max_generations := b_max_generations b; b_max_time := b_max_time b; b_min_cv := b_min_cv b;
         b_target_proximity := b_target_proximity b; b_heuristic := b_heuristic b; b_context := b_context b;
         b_termination := b_termination b; b_strategy := Some t; b_search := b_search b; b_diversify := b_diversify b;
         b_objective := b_objective b; b_initial := b_initial b; b_processing := b_processing b |}
  | WithSearchOperators t =>
      {| b_max_generations := b_max_generations b; b_max_time := b_max_time b; b_min_cv := b_min_cv b;
         b_target_proximity := b_target_proximity b; b_heuristic := b_heuristic b; b_context := b_context b;
         b_termination := b_termination b; b_strategy := b_strategy b; b_search := Some t; b_diversify := b_diversify b;
         b_objective := b_objective b; b_initial := b_initial b; b_processing := b_processing b |}
  | WithDiversifyOperators t =>
      {| b_max_generations := b_max_generations b; b_max_time := b_max_time b; b_min_cv := b_min_cv b;
         b_target_proximity := b_target_proximity b; b_heuristic := b_heuristic b; b_context := b_context b;
         b_termination := b_termination b; b_strategy := b_strategy b; b_search := b_search b; b_diversify := Some t;
         b_objective := b_objective b; b_initial := b_initial b; b_processing := b_processing b |}
  end.

Definition apply_all (calls : list setter) (b : builder) : builder := fold_left apply_setter calls b.

(* ---------- build ---------- *)
Inductive term := TMaxGeneration (limit : nat) | TMaxTime (limit : nat) | TMinCvSample | TMinCvPeriod | TTargetProximity (t : Z).
Inductive heuristic_kind := HGiven (t : Z) | HDynamic (search diversify : Z).
Inductive strategy_kind := SCustom (t : Z) | SIterative (h : heuristic_kind).     (* Iterative::new(heuristic, 1) *)
Inductive build_error := EMissingContext | EUnknownInterval | EMissingSearch | EMissingDiversify.

Record config := {
  cfg_initial : initial_config;
  cfg_processing : list Z * list Z;
  cfg_context : context;
  cfg_strategy : strategy_kind;
  cfg_termination : list term
}.

Definition opt_list {A B} (o : option A) (f : A -> B) : list B := match o with Some a => [f a] | None => [] end.

(* get_termination: defaults only when nothing at all was configured; Err on an unknown variation interval type *)
Definition get_termination (b : builder) : option (list term) :=
  match b_max_generations b, b_max_time b, b_min_cv b, b_target_proximity b with
  | None, None, None, None => Some [TMaxGeneration 3000; TMaxTime 300]
  | g, t, cv, tp =>
      match (match cv with
             | None => Some []
             | Some k => if k =? 0 then Some [TMinCvSample] else if k =? 1 then Some [TMinCvPeriod] else None
             end) with
      | None => None
      | Some cvs => Some (opt_list g TMaxGeneration ++ opt_list t TMaxTime ++ cvs ++ opt_list tp TTargetProximity)
      end
  end.

Definition build (b : builder) : config + build_error :=
  match b_context b with
  | None => inr EMissingContext
  | Some c =>
      match get_termination b with
      | None => inr EUnknownInterval
      | Some ts =>
          let mk s := inl {| cfg_initial := b_initial b; cfg_processing := b_processing b; cfg_context := c;
                             cfg_strategy := s; cfg_termination := ts |} in
          match b_strategy b with
          | Some s => mk (SCustom s)
          | None =>
              match b_heuristic b with
              | Some h => mk (SIterative (HGiven h))
              | None =>
                  match b_search b with
                  | None => inr EMissingSearch
                  | Some so => match b_diversify b with
                               | None => inr EMissingDiversify
                               | Some d => mk (SIterative (HDynamic so d))
                               end
                  end
              end
          end
      end
  end.

(* EvolutionSimulator::new: "at least one initial method has to be specified" *)
Definition sim_new (c : config) : option config :=
  match i_ops (cfg_initial c) with [] => None | _ => Some c end.

(* ---------- EvolutionSimulator::run, the initial stage ---------- *)
(* the individuals handed to on_initial before anything else: individuals.into_iter().take(max_size) *)
Definition seeds_offered (c : config) : list ind := firstn (i_max (cfg_initial c)) (i_inds (cfg_initial c)).

Definition is_maxgen (t : term) : bool := match t with TMaxGeneration _ => true | _ => false end.
(* MaxGeneration at generation 0: is_termination = (0 >= limit); estimate = (0 / limit).min(1) — NaN.min(1) = 1 for limit 0 *)
Definition maxgen_terminated0 (ts : list term) : bool :=
  existsb (fun t => match t with TMaxGeneration n => (n =? 0)%nat | _ => false end) ts.
Definition maxgen_estimate0 (ts : list term) : Z :=
  if maxgen_terminated0 ts then 1000 else 0.
Definition has_other_criteria (ts : list term) : bool := existsb (fun t => negb (is_maxgen t)) ts.

Variable cmp : ind -> ind -> comparison.
Variable dedup : ind -> ind -> bool.
Variable pre : Z -> context -> context.     (* HeuristicContextProcessing::pre_process of hook h *)
Variable post : Z -> ind -> ind.            (* HeuristicSolutionProcessing::post_process of hook h *)

Definition pre_process (c : config) : context := fold_left (fun ctx h => pre h ctx) (fst (cfg_processing c)) (cfg_context c).

(* is_overall_termination || estimate > quota, at creation attempt number i *)
Definition stop_at (c : config) (clock : list (bool * Z)) (i : nat) : bool :=
  let ts := cfg_termination c in
  let o := if has_other_criteria ts then nth i clock (false, 0) else (false, 0) in
  maxgen_terminated0 ts || fst o || (i_quota (cfg_initial c) <? Z.max (maxgen_estimate0 ts) (snd o)).

(* (init_size..max_size).try_for_each, stopped by `has_solution && (quota reached || terminated)`: which operator creates the individual of slot idx —
   Some idx when idx < operators.len(), None = random.weighted(weights) *)
(* /repo commit 2c5dd99: `has_solution = heuristic_ctx.ranked().next().is_some()` — the two stop tests apply only once the population
   holds a solution, so an empty population always gets one operator-built individual.  At creation attempt i the population has been
   offered the seeds and i created individuals; a population is non-empty exactly when it was non-empty before or something was
   offered (theorem C08_nonempty_iff_offered; Proofs/EvoConfigP.v has_solution_faithful ties this definition to `ranked <> []`) *)
Definition has_solution (c : config) (i : nat) : bool :=
  negb (match ranked (snd (pre_process c)) with [] => true | _ => false end) || (0 <? length (seeds_offered c) + i)%nat.

Fixpoint created_slots (c : config) (clock : list (bool * Z)) (i n idx : nat) : list (option nat) :=
  match n with
  | O => []
  | S n' => if has_solution c i && stop_at c clock i then []
            else (if (idx <? length (i_ops (cfg_initial c)))%nat then Some idx else None)
                 :: created_slots c clock (S i) n' (S idx)
  end.
Definition init_slots (c : config) (clock : list (bool * Z)) : list (option nat) :=
  let k := length (seeds_offered c) in
  created_slots c clock 0 (i_max (cfg_initial c) - k) k.

(* everything that reaches the population through on_initial, in order *)
Definition init_offered (c : config) (clock : list (bool * Z)) (created : list ind) : list ind :=
  seeds_offered c ++ firstn (length (init_slots c clock)) created.

(* ---------- the whole run ---------- *)
Inductive outcome := OPanic | OCustom | OResult (sols : list ind).

Definition post_process (c : config) (s : ind) : ind := fold_left (fun s h => post h s) (snd (cfg_processing c)) s.

(* the operations the population of the (pre-processed) context sees, in order *)
Definition evolve_ops (c : config) (clock : list (bool * Z)) (created : list ind) (gens : list (@generation ind)) : list (op ind) :=
  solve_ops (init_offered c clock created) gens.

(* Iterative::run: ranked().take(1), every solution through the post-processing hooks *)
Definition evolve (c : config) (clock : list (bool * Z)) (created : list ind) (gens : list (@generation ind)) : outcome :=
  match cfg_strategy c with
  | SCustom _ => OCustom
  | SIterative _ =>
      match run cmp dedup (evolve_ops c clock created gens) (snd (pre_process c)) with
      | None => OPanic
      | Some p => OResult (map (post_process c) (firstn 1 (ranked p)))
      end
  end.

(* builder -> build -> EvolutionSimulator::new -> run; None = one of the two constructors returned Err *)
Definition solve_with (calls : list setter) (clock : list (bool * Z)) (created : list ind) (gens : list (@generation ind))
  : option outcome :=
  match build (apply_all calls default_builder) with
  | inr _ => None
  | inl c => match sim_new c with None => None | Some c' => Some (evolve c' clock created gens) end
  end.

(* ---------- what a setter does to the seeds ---------- *)
Definition is_init_solutions (s : setter) : bool := match s with WithInitSolutions _ _ => true | _ => false end.
Definition sets_max (s : setter) : option nat :=
  match s with WithInitial m _ _ => Some m | WithInitSolutions _ (Some m) => Some m | _ => None end.
Definition is_with_initial (s : setter) : bool := match s with WithInitial _ _ _ => true | _ => false end.
Definition is_with_context (s : setter) : bool := match s with WithContext _ => true | _ => false end.

(* ---------- get_default_population ---------- *)
(* RosomaxaConfig::new_with_defaults(selection_size): initial 16, elite 2, exploration ratio 0.9 (as c_er/64 it is not dyadic: the
   ratio only matters for the phase machine, which the theorems quantify over; 58/64 is used by the correspondence-free term) *)
Definition default_rconfig (sel : nat) : rconfig := {| c_initial := 16; c_sel := sel; c_elite := 2; c_er := 58 |}.
Definition default_population (sel : nat) : option (pop ind) :=
  if (sel =? 1)%nat then Some (greedy_new 1 None) else rosomaxa_new (default_rconfig sel).

(* ---------- the setter sequences issued by the VRP front ends ---------- *)
(* VrpConfigBuilder::prebuild: default().with_heuristic(h).with_context(ctx).with_processing(p).with_initial(4, 0.05, default operators) *)
Definition prebuild_calls (h : Z) (ctx : context) (ch sh : list Z) (ops : operators) : list setter :=
  [WithHeuristic h; WithContext ctx; WithProcessing ch sh; WithInitial 4 50 ops].

(* create_builder_from_config: prebuild()?.with_init_solutions(solutions, None), then configure_from_evolution (with_initial when the
   config has evolution.initial, with_context when it has evolution.population), configure_from_hyper (with_heuristic),
   configure_from_termination (with_max_time, with_max_generations, with_min_cv) *)
Definition cli_config_calls (h : Z) (ctx : context) (ch sh : list Z) (ops : operators) (solutions : list ind)
    (evo_initial : option (nat * Z * operators)) (evo_population : option context) (hyper : option Z)
    (termination : option (option nat * option nat * option Z)) : list setter :=
  prebuild_calls h ctx ch sh ops ++ [WithInitSolutions solutions None] ++
  opt_list evo_initial (fun i => match i with (m, q, o) => WithInitial m q o end) ++
  opt_list evo_population WithContext ++
  opt_list hyper WithHeuristic ++
  match termination with
  | Some (t, g, cv) => [WithMaxTime t; WithMaxGenerations g; WithMinCv cv]
  | None => []
  end.

(* vrp-cli command line path (commands/solve.rs from_cli_parameters): prebuild()?.with_init_solutions(init_solutions, init_size)
   .with_max_generations(..).with_max_time(..).with_min_cv(..).with_context(ctx') *)
Definition cli_args_calls (h : Z) (ctx : context) (ch sh : list Z) (ops : operators) (solutions : list ind) (init_size : option nat)
    (g t : option nat) (cv : option Z) (ctx' : context) : list setter :=
  prebuild_calls h ctx ch sh ops ++
  [WithInitSolutions solutions init_size; WithMaxGenerations g; WithMaxTime t; WithMinCv cv; WithContext ctx'].

End EvoConfig.

Arguments builder : clear implicits.
Arguments setter : clear implicits.
Arguments config : clear implicits.
Arguments initial_config : clear implicits.
Arguments context : clear implicits.
Arguments outcome : clear implicits.

(* ================= concrete entry for the correspondence ================= *)
(* the population a context owns, as the case files describe it *)
Inductive zpop :=
| ZPGreedy (sel : Z)
| ZPElitism (max sel : Z)                       (* Elitism::new: default dedup (mode 4) *)
| ZPRosomaxa (initial sel elite er : Z)
| ZPDefault (sel : Z).                          (* get_default_population(.., sel) *)

Definition zpop_make (z : zpop) : option (pop zi) :=
  match z with
  | ZPGreedy sel => Some (greedy_new (Z.to_nat sel) None)
  | ZPElitism max sel => elitism_new (Z.to_nat max) (Z.to_nat sel)
  | ZPRosomaxa initial sel elite er =>
      rosomaxa_new {| c_initial := Z.to_nat initial; c_sel := Z.to_nat sel; c_elite := Z.to_nat elite; c_er := er |}
  | ZPDefault sel => default_population (Z.to_nat sel)
  end.
Definition zpop_mode (z : zpop) : Z := match z with ZPElitism _ _ => 4 | _ => 5 end.

Inductive zsetter :=
| ZMaxGen (o : option Z) | ZMaxTime (o : option Z) | ZMinCv (o : option Z) | ZTarget (o : option Z)
| ZInitial (max quota : Z) (ops : list (Z * Z))
| ZProcessing (ch sh : list Z)
| ZInitSolutions (sols : list zi) (max : option Z)
| ZObjective (t : Z) | ZContext (tag : Z) (p : zpop) | ZTermination (t : Z) | ZHeuristic (t : Z) | ZStrategy (t : Z)
| ZSearch (t : Z) | ZDiversify (t : Z).

Definition to_setter (s : zsetter) : setter zi :=
  match s with
  | ZMaxGen o => WithMaxGenerations (option_map Z.to_nat o)
  | ZMaxTime o => WithMaxTime (option_map Z.to_nat o)
  | ZMinCv o => WithMinCv o
  | ZTarget o => WithTargetProximity o
  | ZInitial m q ops => WithInitial (Z.to_nat m) q (map (fun tw => (fst tw, Z.to_nat (snd tw))) ops)
  | ZProcessing ch sh => WithProcessing ch sh
  | ZInitSolutions sols m => WithInitSolutions sols (option_map Z.to_nat m)
  | ZObjective t => WithObjective t
  | ZContext tag p => WithContext (tag, match zpop_make p with Some pp => pp | None => greedy_new 0 None end)
  | ZTermination t => WithTermination t
  | ZHeuristic t => WithHeuristic t
  | ZStrategy t => WithStrategy t
  | ZSearch t => WithSearchOperators t
  | ZDiversify t => WithDiversifyOperators t
  end.

(* dedup mode of the population owned by the context set last *)
Definition last_mode (calls : list zsetter) : Z :=
  fold_left (fun m s => match s with ZContext _ p => zpop_mode p | _ => m end) calls 5.

Definition term_code (t : term) : Z * Z :=
  match t with
  | TMaxGeneration n => (0, Z.of_nat n) | TMaxTime n => (1, Z.of_nat n) | TMinCvSample => (2, 0) | TMinCvPeriod => (2, 1)
  | TTargetProximity t => (3, t)
  end.
Definition strategy_code (s : strategy_kind) : Z * Z :=
  match s with SCustom t => (0, t) | SIterative (HGiven t) => (1, t) | SIterative (HDynamic s _) => (2, s) end.
Definition error_code (e : build_error) : Z :=
  match e with EMissingContext => 1 | EUnknownInterval => 2 | EMissingSearch => 3 | EMissingDiversify => 4 end.
Definition op_code (o : op zi) : Z * list Z :=
  match o with
  | OAdd x => (0, [zid x]) | OAddAll xs => (1, map zid xs) | OGen _ _ => (2, []) | OSelect _ _ _ => (3, []) | ORanked => (4, [])
  end.
Definition zgen (off : list zi) : @generation zi := ([], [], [], off, SpUnknown, 0).

(* (status, context tag, termination criteria, strategy, max_size, hooks, seed ids offered first, operator slots (-1 = weighted pick),
    population operations in order, result ids, panicked,
    (selection phase, size, selected ids) of the population right after the initial stage — the first generation's parents; for Elitism
    the ids after the first depend on random draws);  status: 0 ok, 1-4 build error, 5 EvolutionSimulator::new error *)
Definition builder_obs :=
  (Z * Z * list (Z * Z) * (Z * Z) * Z * (list Z * list Z) * list Z * list Z * list (Z * list Z) * list Z * bool *
   (Z * Z * list Z))%type.
Definition failed_obs (code : Z) : builder_obs := (code, 0, [], (0, 0), 0, ([], []), [], [], [], [], false, (0, 0, [])).

Definition run_builder (calls : list zsetter) (clock : list (Z * Z)) (created : list zi) (offs : list (list zi)) : builder_obs :=
  let mode := last_mode calls in
  let clk := map (fun p => (negb (fst p =? 0), snd p)) clock in
  match build (apply_all (map to_setter calls) default_builder) with
  | inr e => failed_obs (error_code e)
  | inl c0 =>
      match sim_new c0 with
      | None => failed_obs 5
      | Some c =>
          let gens := map zgen offs in
          let o := evolve zcmp (zdedup mode false) (fun _ x => x) (fun _ x => x) c clk created gens in
          (0, fst (cfg_context c), map term_code (cfg_termination c), strategy_code (cfg_strategy c),
           Z.of_nat (i_max (cfg_initial c)), cfg_processing c,
           map zid (seeds_offered c),
           map (fun s => match s with Some i => Z.of_nat i | None => -1 end) (init_slots (fun _ x => x) c clk),
           match cfg_strategy c with SCustom _ => map op_code (map OAdd (init_offered (fun _ x => x) c clk created))
                                   | _ => map op_code (evolve_ops (fun _ x => x) c clk created gens) end,
           match o with OResult r => map zid r | _ => [] end,
           match o with OPanic => true | _ => false end,
           match run zcmp (zdedup mode false) (map OAdd (init_offered (fun _ x => x) c clk created)) (snd (cfg_context c)) with
           | Some p => (Z.of_nat (phase_rank p), Z.of_nat (size p), map zid (select p [] [] []))
           | None => (0, 0, [])
           end)
      end
  end.
