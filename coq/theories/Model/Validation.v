(* C10 — executable model of the pragmatic problem validation and of the parts of the reader that can
   panic after validation.  NO PROOFS in this file.

   Rust items modelled (as written, including their quirks):
     vrp-pragmatic/src/validation/common.rs   :: check_raw_time_windows, check_time_windows (sort + !is_empty && windows(2).all),
                                                 get_time_window, get_time_window_from_vec, get_time_windows, get_duplicates
     vrp-pragmatic/src/validation/jobs.rs     :: check_e1100 .. check_e1107, validate_jobs
     vrp-pragmatic/src/validation/vehicles.rs :: check_e1300 .. check_e1304, check_e1306 .. check_e1308, get_invalid_type_ids
                                                 (short-circuiting `all` over shifts; check_e1303 with parse_time_safe;
                                                 check_e1302 also parses start.latest (d67b161); check_e1303 treats an optional
                                                 offset break whose list is not a pair as an invalid window (7653bff)),
                                                 check_shift_time_windows,
                                                 get_shift_time_window, validate_vehicles
     vrp-pragmatic/src/validation/routing.rs  :: check_e1500, check_e1501, check_e1504 (approximated-matrix mode), check_e1505,
                                                 (check_e1502/1503 cannot fire on coordinate-only documents), validate_routing
     vrp-pragmatic/src/validation/mod.rs      :: ValidationContext::validate (group order), ValidationContext::tasks
     vrp-core/src/models/common/load.rs       :: MultiDimLoad::new (assert len <= 8), Add/Sub/Sum, PartialEq via partial_cmp
     vrp-pragmatic/src/format/problem/fleet_reader.rs :: read_fleet (parse_time unwraps, capacity.first().unwrap(), MultiDimLoad::new)
     vrp-pragmatic/src/format/problem/job_reader.rs   :: read_required_jobs (MultiDimLoad::new, parse_times/parse_time_window),
                                                 read_optional_breaks (arity panics, parse_time_window), read_reloads
     vrp-pragmatic/src/format/problem/problem_reader.rs :: map_to_problem_with_approx (approximated matrices first; since 11fbd19
                                                 create_approx_matrices returns no matrix for an empty profile list), map_to_problem
                                                 (validate before mapping), read_reserved_times_index (parse_time)
     vrp-core/src/models/problem/fleet.rs     :: Fleet::new (assert!(!vehicles.is_empty()))
     vrp-core/src/construction/enablers/reserved_time.rs :: create_reserved_times_fn as reached from DynamicTransportCost::new (required
                                                 breaks of one shift of both kinds, or whose spans - duration NOT added - intersect: E0002)
     fleet_reader.rs :: create_transport_costs (with the f7d2f27 check "not enough error codes" and the 7d3c5fe check "same length"), get_profile_index_map;
                                                 vrp-core costs.rs :: create_matrix_transport_cost(_with_fallback) (with the 17fc8e9 check
                                                 "square matrices of the same size"), TimeAgnosticMatrixTransportCost::new
                                                 (the E0002 conditions; run_transport)

   The document type is the reduction of format/problem/model.rs to the fields these functions look at; documents of this type
   have no relations, no objectives, no clustering, no recharges and only coordinate locations (every place its own coordinate),
   and are read through `String::read_pragmatic` (approximated routing matrices).  Relations / objectives / index locations are
   covered by the python reference in tools/props/c10_full.py only.
   RFC 3339 parsing is an oracle: a time string travels as its text plus the result of parsing it (tm_val), supplied by the generator.
   Numbers are integers (the generator only emits integer-valued durations, costs and offsets).

   run_* entry points used by the correspondence: run_validate, run_read (below), Spec.Rules.run_spec, run_known. *)
From VRP Require Import Base.Tac.
From Coq Require Import String.

Record tm := mkTm { tm_txt : string; tm_val : option Z }.
Definition twraw := list tm.                      (* one raw time window: Vec<String> of any arity *)
Definition tw := (Z * Z)%type.                    (* TimeWindow { start, end } *)

Record place := mkPlace { pl_duration : Z; pl_times : option (list twraw) }.
Record task := mkTask { tk_places : list place; tk_demand : option (list Z) }.
Record job := mkJob { j_id : string;
                      j_pickups : option (list task); j_deliveries : option (list task);
                      j_replacements : option (list task); j_services : option (list task) }.

Inductive brk :=
| BOptTW (w : twraw)                  (* Optional { time: TimeWindow(Vec<String>) } *)
| BOptOff (offs : list Z)             (* Optional { time: TimeOffset(Vec<Float>) } *)
| BReqOff (e l dur : Z)               (* Required { time: OffsetTime{earliest,latest}, duration } *)
| BReqExact (e l : tm) (dur : Z).     (* Required { time: ExactTime{earliest,latest}, duration } *)

Record reload := mkReload { rl_times : option (list twraw); rl_resource : option string }.
Record shift := mkShift { sh_earliest : tm; sh_latest : option tm; sh_end : option tm;   (* end = end.latest *)
                          sh_breaks : option (list brk); sh_reloads : option (list reload) }.
Record vehicle := mkVehicle { v_type : string; v_ids : list string; v_profile : string;
                              v_cost_distance : Z; v_cost_time : Z; v_capacity : list Z; v_shifts : list shift }.
Record doc := mkDoc { d_jobs : list job; d_vehicles : list vehicle; d_profiles : list string;
                      d_resources : option (list string) }.

Inductive vres := VOk | VErr (cs : list Z) | VPanic.

(* ---------- common.rs ---------- *)
Definition is_none {A} (o : option A) : bool := match o with None => true | Some _ => false end.
Definition is_some {A} (o : option A) : bool := negb (is_none o).
Definition olist {A} (o : option (list A)) : list A := match o with Some l => l | None => [] end.

Definition get_time_window (a b : tm) : option tw :=
  match tm_val a, tm_val b with Some s, Some e => Some (s, e) | _, _ => None end.

Definition get_time_window_from_vec (w : twraw) : option tw :=
  match w with [a; b] => get_time_window a b | _ => None end.

Definition get_time_windows (tws : list twraw) : list (option tw) := map get_time_window_from_vec tws.

Definition intersects (a b : tw) : bool := (fst a <=? snd b) && (fst b <=? snd a).

(* stable insertion sort by start: slice::sort_by(|a, b| a.start.total_cmp(&b.start)) *)
Fixpoint insert_by_start (x : tw) (l : list tw) : list tw :=
  match l with
  | [] => [x]
  | y :: r => if fst x <=? fst y then x :: y :: r else y :: insert_by_start x r
  end.
Fixpoint sort_by_start (l : list tw) : list tw :=
  match l with [] => [] | x :: r => insert_by_start x (sort_by_start r) end.

(* slice.windows(2).all(f) *)
Fixpoint windows2_all (f : tw -> tw -> bool) (l : list tw) : bool :=
  match l with
  | a :: ((b :: _) as r) => f a b && windows2_all f r
  | _ => true
  end.
Definition is_nil {A} (l : list A) : bool := match l with [] => true | _ => false end.

Fixpoint unwrap_all (l : list (option tw)) : list tw :=
  match l with [] => [] | Some w :: r => w :: unwrap_all r | None :: r => unwrap_all r end.

Definition pair_ok (skip : bool) (a b : tw) : bool :=
  (fst a <=? snd a) && (fst b <=? snd b) && (skip || negb (intersects a b)).

Definition check_time_windows (tws : list (option tw)) (skip : bool) : bool :=
  if existsb is_none tws then false
  else match unwrap_all tws with
       | [a] => fst a <=? snd a
       | ws => let sorted := sort_by_start ws in
               negb (is_nil sorted) && windows2_all (pair_ok skip) sorted      (* !tws.is_empty() && tws.windows(2).all(..) *)
       end.

Definition check_raw_time_windows (tws : list twraw) (skip : bool) : bool :=
  check_time_windows (get_time_windows tws) skip.

Definition mem (x : string) (l : list string) : bool := existsb (String.eqb x) l.

(* get_duplicates(..).is_some() *)
Fixpoint has_dup_from (seen : list string) (l : list string) : bool :=
  match l with
  | [] => false
  | x :: r => if mem x seen then true else has_dup_from (x :: seen) r
  end.
Definition has_dup (l : list string) : bool := has_dup_from [] l.

(* ---------- MultiDimLoad (length of the list = `size`, missing entries are 0) ---------- *)
Fixpoint vzip (f : Z -> Z -> Z) (a b : list Z) : list Z :=
  match a with
  | [] => map (f 0) b
  | x :: a' => match b with
               | [] => f x 0 :: vzip f a' []
               | y :: b' => f x y :: vzip f a' b'
               end
  end.
Definition vadd := vzip Z.add.
Definition vsub := vzip Z.sub.
Definition demand_vec (t : task) : list Z := match tk_demand t with Some v => v | None => [] end.
(* tasks.iter().map(..).sum() : fold(default, |acc, item| item + acc) *)
Definition get_demand (o : option (list task)) : list Z :=
  fold_left (fun acc t => vadd (demand_vec t) acc) (olist o) [].
(* since the K8 repair: `(pickups - deliveries).load.iter().any(|value| *value != 0)` on the zero-padded array *)
Definition load_ne_default (v : list Z) : bool := existsb (fun x => negb (x =? 0)) v.
Definition over8 (v : list Z) : bool := (8 <? List.length v)%nat.
Definition task_over8 (t : task) : bool := match tk_demand t with Some v => over8 v | None => false end.

(* ---------- jobs.rs ---------- *)
Definition reserved (id : string) : bool :=
  (String.eqb id "departure" || String.eqb id "arrival" || String.eqb id "break" || String.eqb id "reload")%string.

(* ValidationContext::tasks : pickups, deliveries, replacements, services *)
Definition all_tasks (j : job) : list task :=
  olist (j_pickups j) ++ olist (j_deliveries j) ++ olist (j_replacements j) ++ olist (j_services j).

Definition has_tasks (o : option (list task)) : bool := match o with Some (_ :: _) => true | _ => false end.

Definition check_e1100 (d : doc) : option bool := Some (has_dup (map j_id (d_jobs d))).

Definition check_e1101 (d : doc) : option bool :=
  Some (existsb (fun j =>
    existsb (fun t => is_none (tk_demand t)) (olist (j_pickups j) ++ olist (j_deliveries j) ++ olist (j_replacements j))
    || existsb (fun t => is_some (tk_demand t)) (olist (j_services j))) (d_jobs d)).

Definition e1102_job (j : job) : bool :=
  has_tasks (j_pickups j) && has_tasks (j_deliveries j)
  && load_ne_default (vsub (get_demand (j_pickups j)) (get_demand (j_deliveries j))).
Definition e1102_job_panics (j : job) : bool :=
  has_tasks (j_pickups j) && has_tasks (j_deliveries j)
  && existsb task_over8 (olist (j_pickups j) ++ olist (j_deliveries j)).
Definition check_e1102 (d : doc) : option bool :=
  if existsb e1102_job_panics (d_jobs d) then None else Some (existsb e1102_job (d_jobs d)).

Definition has_invalid_tws (o : option (list task)) : bool :=
  existsb (fun t => existsb (fun p => match pl_times p with
                                     | Some tws => negb (check_raw_time_windows tws false)
                                     | None => false end) (tk_places t)) (olist o).
Definition check_e1103 (d : doc) : option bool :=
  Some (existsb (fun j => has_invalid_tws (j_pickups j) || has_invalid_tws (j_deliveries j)
                          || has_invalid_tws (j_replacements j) || has_invalid_tws (j_services j)) (d_jobs d)).

Definition check_e1104 (d : doc) : option bool := Some (existsb (fun j => reserved (j_id j)) (d_jobs d)).

Definition check_e1105 (d : doc) : option bool :=
  Some (existsb (fun j => match all_tasks j with [] => true | _ => false end) (d_jobs d)).

Definition check_e1106 (d : doc) : option bool :=
  Some (existsb (fun j => existsb (fun t => existsb (fun p => pl_duration p <? 0) (tk_places t)) (all_tasks j)) (d_jobs d)).

Definition check_e1107 (d : doc) : option bool :=
  Some (existsb (fun j => existsb (fun t => match tk_demand t with
                                            | Some v => existsb (fun x => x <? 0) v
                                            | None => false end) (all_tasks j)) (d_jobs d)).

(* ---------- vehicles.rs ---------- *)
Definition far_future : Z := 7274016000.     (* "2200-07-04T00:00:00Z" *)

Definition get_shift_time_window (s : shift) : option tw :=
  match tm_val (sh_earliest s), match sh_end s with Some e => tm_val e | None => Some far_future end with
  | Some a, Some b => Some (a, b)
  | _, _ => None
  end.

Definition shift_raw_window (s : shift) : twraw :=
  [sh_earliest s; match sh_end s with Some e => e | None => sh_earliest s end].

Definition check_e1300 (d : doc) : option bool := Some (has_dup (map v_type (d_vehicles d))).
Definition check_e1301 (d : doc) : option bool := Some (has_dup (flat_map v_ids (d_vehicles d))).
(* has_valid_latest: every present start.latest parses (parse_time_safe(latest).is_ok()) *)
Definition latest_valid (s : shift) : bool := match sh_latest s with Some l => is_some (tm_val l) | None => true end.
Definition check_e1302 (d : doc) : option bool :=
  Some (existsb (fun v => negb (check_raw_time_windows (map shift_raw_window (v_shifts v)) false
                                && forallb latest_valid (v_shifts v))) (d_vehicles d)).

(* `vehicle.shifts.iter().all(f)`: stops at the first false; None = f panicked before that *)
Fixpoint all_shifts (f : shift -> option bool) (ss : list shift) : option bool :=
  match ss with
  | [] => Some true
  | s :: r => match f s with
              | None => None
              | Some false => Some false
              | Some true => all_shifts f r
              end
  end.
(* get_invalid_type_ids(..) is non-empty; every vehicle is evaluated *)
Fixpoint any_vehicle_invalid (f : shift -> option bool) (vs : list vehicle) : option bool :=
  match vs with
  | [] => Some false
  | v :: r => match all_shifts f (v_shifts v), any_vehicle_invalid f r with
              | None, _ | _, None => None
              | Some ok, Some rest => Some (negb ok || rest)
              end
  end.

Definition check_shift_time_windows (st : option tw) (tws : list (option tw)) (skip : bool) : bool :=
  match tws with
  | [] => true
  | _ => check_time_windows tws skip
         && match st with
            | None => true
            | Some w => forallb (fun o => match o with Some x => intersects x w | None => false end) tws
            end
  end.

(* filter_map over the breaks: None = the break contributes no window (optional offset break with exactly two offsets);
   an optional offset break of any other arity contributes the invalid window Some(None) *)
Definition break_tw (s : shift) (b : brk) : option (option tw) :=
  match b with
  | BOptTW w => Some (get_time_window_from_vec w)
  | BOptOff o => if (List.length o =? 2)%nat then None else Some None
  | BReqOff e l dur => Some (match tm_val (sh_earliest s) with          (* parse_time_safe(&shift.start.earliest).ok().map(..) *)
                             | Some dep => Some (dep + e, dep + l + dur)
                             | None => None
                             end)
  | BReqExact e l dur => Some (match tm_val e, tm_val l with Some a, Some b => Some (a, b + dur) | _, _ => None end)
  end.
Fixpoint break_tws (s : shift) (bs : list brk) : list (option tw) :=
  match bs with
  | [] => []
  | b :: r => match break_tw s b with Some w => w :: break_tws s r | None => break_tws s r end
  end.
Definition e1303_shift (s : shift) : option bool :=
  match sh_breaks s with
  | None => Some true
  | Some bs => Some (check_shift_time_windows (get_shift_time_window s) (break_tws s bs) false)
  end.
Definition check_e1303 (d : doc) : option bool := any_vehicle_invalid e1303_shift (d_vehicles d).

Definition reload_tws (rs : list reload) : list (option tw) :=
  flat_map (fun r => match rl_times r with Some t => get_time_windows t | None => [] end) rs.
Definition e1304_shift (s : shift) : option bool :=
  match sh_reloads s with
  | None => Some true
  | Some rs => Some (check_shift_time_windows (get_shift_time_window s) (reload_tws rs) true)
  end.
Definition check_e1304 (d : doc) : option bool := any_vehicle_invalid e1304_shift (d_vehicles d).

Definition check_e1306 (d : doc) : option bool :=
  Some (existsb (fun v => (v_cost_time v =? 0) && (v_cost_distance v =? 0)) (d_vehicles d)).

Definition is_offset_break (b : brk) : bool :=
  match b with BReqOff _ _ _ | BOptOff _ => true | _ => false end.
Definition e1307_shift (s : shift) : option bool :=
  match sh_breaks s with
  | None => Some true
  | Some bs =>
      let has_time_offset := existsb is_offset_break bs in
      let has_rescheduling := match sh_latest s with
                              | None => true
                              | Some l => negb (String.eqb (tm_txt l) (tm_txt (sh_earliest s)))
                              end in
      Some (negb (has_time_offset && has_rescheduling))
  end.
Definition check_e1307 (d : doc) : option bool := any_vehicle_invalid e1307_shift (d_vehicles d).

Definition e1308_shift (ids : list string) (s : shift) : option bool :=
  Some (forallb (fun r => match rl_resource r with Some x => mem x ids | None => true end) (olist (sh_reloads s))).
Definition check_e1308 (d : doc) : option bool :=
  let ids := olist (d_resources d) in
  if has_dup ids then Some true                (* len != unique len: early return *)
  else any_vehicle_invalid (e1308_shift ids) (d_vehicles d).

(* ---------- routing.rs on coordinate-only documents read with approximated matrices ---------- *)
Definition has_location (d : doc) : bool :=
  existsb (fun j => existsb (fun t => match tk_places t with [] => false | _ => true end) (all_tasks j)) (d_jobs d)
  || existsb (fun v => match v_shifts v with [] => false | _ => true end) (d_vehicles d).
Definition check_e1500 (d : doc) : option bool := Some (has_dup (d_profiles d)).
Definition check_e1501 (d : doc) : option bool := Some (match d_profiles d with [] => true | _ => false end).
(* matrices.first() exists iff there is a profile; its size is the number of locations n; max_index + 1 = max(n,1) *)
Definition check_e1504 (d : doc) : option bool :=
  Some (match d_profiles d with [] => false | _ => negb (has_location d) end).
Definition check_e1505 (d : doc) : option bool :=
  Some (existsb (fun v => negb (mem (v_profile v) (d_profiles d))) (d_vehicles d)).

(* ---------- validate: groups in call order; every check of every group is evaluated ---------- *)
Definition jobs_checks : list (Z * (doc -> option bool)) :=
  [(1100, check_e1100); (1101, check_e1101); (1102, check_e1102); (1103, check_e1103);
   (1104, check_e1104); (1105, check_e1105); (1106, check_e1106); (1107, check_e1107)].
Definition vehicles_checks : list (Z * (doc -> option bool)) :=
  [(1300, check_e1300); (1301, check_e1301); (1302, check_e1302); (1303, check_e1303);
   (1304, check_e1304); (1306, check_e1306); (1307, check_e1307); (1308, check_e1308)].
Definition routing_checks : list (Z * (doc -> option bool)) :=
  [(1500, check_e1500); (1501, check_e1501); (1504, check_e1504); (1505, check_e1505)].
(* objectives and relations are absent from the reduced document: both groups return Ok(()) *)
Definition all_checks := jobs_checks ++ vehicles_checks ++ routing_checks.

Definition validate (d : doc) : vres :=
  let rs := map (fun cf => (fst cf, snd cf d)) all_checks in
  if existsb (fun r => is_none (snd r)) rs then VPanic
  else match map fst (filter (fun r => match snd r with Some true => true | _ => false end) rs) with
       | [] => VOk
       | cs => VErr cs
       end.

(* ---------- the reader after a successful validation: can it panic? ---------- *)
Definition tm_bad (t : tm) : bool := is_none (tm_val t).
(* parse_time_window: assert_eq!(len, 2) + two parse_time unwraps *)
Definition tw_panics (w : twraw) : bool := match w with [a; b] => tm_bad a || tm_bad b | _ => true end.
(* parse_times *)
Definition times_panic (o : option (list twraw)) : bool := existsb tw_panics (olist o).

Definition all_tasks_iter (j : job) : list task :=
  olist (j_pickups j) ++ olist (j_deliveries j) ++ olist (j_services j) ++ olist (j_replacements j).
Definition has_multi_dimen_capacity (d : doc) : bool :=
  existsb (fun v => (1 <? List.length (v_capacity v))%nat) (d_vehicles d)
  || existsb (fun j => existsb (fun t => match tk_demand t with Some v => (1 <? List.length v)%nat | None => false end)
                               (all_tasks_iter j)) (d_jobs d).

Definition fleet_panics (d : doc) : bool :=
  let multi := has_multi_dimen_capacity d in
  existsb (fun v => negb (mem (v_profile v) (d_profiles d))) (d_vehicles d)   (* profile_indices.get(..).unwrap() *)
  || existsb (fun v => existsb (fun s =>
      tm_bad (sh_earliest s)
      || match sh_latest s with Some l => tm_bad l | None => false end
      || match sh_end s with Some e => tm_bad e | None => false end
      || (match v_ids v with [] => false | _ => true end
          && (if multi then over8 (v_capacity v) else false)))                (* since the K6 repair: capacity.first().copied().unwrap_or_default() *)
    (v_shifts v)) (d_vehicles d)
  (* CoreFleet::new: assert!(!vehicles.is_empty()) — one core vehicle per (shift, vehicle id) *)
  || forallb (fun v => match v_shifts v, v_ids v with _ :: _, _ :: _ => false | _, _ => true end) (d_vehicles d).

Definition reserved_times_panic (d : doc) : bool :=
  existsb (fun v => existsb (fun s => existsb (fun b => match b with
                                                      | BReqExact e l _ => tm_bad e || tm_bad l
                                                      | _ => false end) (olist (sh_breaks s))) (v_shifts v)) (d_vehicles d).

Definition jobs_panic (d : doc) : bool :=
  existsb (fun j => existsb (fun t => task_over8 t || existsb (fun p => times_panic (pl_times p)) (tk_places t))
                            (all_tasks j)) (d_jobs d).

Definition conditional_panic (d : doc) : bool :=
  existsb (fun v => match v_ids v with
                    | [] => false
                    | _ => existsb (fun s =>
                             existsb (fun b => match b with
                                               | BOptTW w => tw_panics w
                                               | BOptOff o => negb (List.length o =? 2)%nat
                                               | _ => false end) (olist (sh_breaks s))
                             || existsb (fun r => times_panic (rl_times r)) (olist (sh_reloads s))) (v_shifts v)
                    end) (d_vehicles d).

Definition reader_panics (d : doc) : bool :=
  fleet_panics d || reserved_times_panic d || jobs_panic d || conditional_panic d.

(* map_to_problem_with_approx, the step before validation for any document read without matrices:
   `if coord_index.has_indices() { vec![] } else { create_approx_matrices(..) }`; create_approx_matrices returns no matrix when there
   is no profile (11fbd19; validation then reports E1501), otherwise get_approx_transportation asserts speed > 0 for every speed
   (speed = profile.speed.unwrap_or(10); `speeds` = the speeds given explicitly).  With an index location nothing is approximated. *)
Definition pre_validation_panics (has_indices : bool) (profiles : list string) (speeds : list Z) : bool := false.
(* since the X14 repair create_approx_matrices also returns no matrix when an explicit speed is not positive: *)
Definition approx_skipped (profiles : list string) (speeds : list Z) : bool := is_nil profiles || existsb (fun s => s <=? 0) speeds.
(* reduced documents carry no explicit speed *)
Definition approx_panics (d : doc) : bool := pre_validation_panics false (d_profiles d) [].
Definition validate_approx (d : doc) : vres := if approx_panics d then VPanic else validate d.

(* ---------- vrp-core reserved_time.rs :: create_reserved_times_fn, reached from DynamicTransportCost::new in get_problem_blocks ----------
   (between read_reserved_times_index and read_jobs_with_extra_locks; an Err is reported as E0002 "check fleet definition") *)
(* the ReservedTimeSpan of a required break: (is offset, (earliest, latest)); the duration is kept aside and never compared *)
Definition req_span (b : brk) : option (bool * tw) :=
  match b with
  | BReqOff e l _ => Some (true, (e, l))
  | BReqExact e l _ => match tm_val e, tm_val l with Some a, Some b => Some (false, (a, b)) | _, _ => None end
  | _ => None
  end.
Fixpoint req_spans (bs : list brk) : list (bool * tw) :=
  match bs with [] => [] | b :: r => match req_span b with Some s => s :: req_spans r | None => req_spans r end end.
Fixpoint windows2_any {A} (f : A -> A -> bool) (l : list A) : bool :=
  match l with
  | a :: ((b :: _) as r) => f a b || windows2_any f r
  | _ => false
  end.
Definition spans_fail (spans : list (bool * tw)) : bool :=
  windows2_any (fun a b => negb (Bool.eqb (fst a) (fst b))) spans                       (* different time span types *)
  || windows2_any intersects (sort_by_start (map snd spans)).                            (* reserved times have intersections *)
(* one actor per (vehicle id, shift): a vehicle type without ids has no actor *)
Definition reserved_fails (d : doc) : bool :=
  existsb (fun v => match v_ids v with
                    | [] => false
                    | _ => existsb (fun s => spans_fail (req_spans (olist (sh_breaks s)))) (v_shifts v)
                    end) (d_vehicles d).

Inductive rres := ROk | RErr (cs : list Z) | RPanic.
(* get_problem_blocks in order: read_fleet, read_reserved_times_index (panics), [create_transport_costs: approximated matrices always
   fit, theorem C10_x_approx_matrices_always_fit], DynamicTransportCost::new (E0002), read_jobs_with_extra_locks (panics) *)
Definition read (d : doc) : rres :=
  match validate_approx d with
  | VPanic => RPanic
  | VErr cs => RErr cs
  | VOk => if fleet_panics d || reserved_times_panic d then RPanic
           else if reserved_fails d then RErr [2]
           else if jobs_panic d || conditional_panic d then RPanic
           else ROk
  end.

(* ---------- fleet_reader.rs :: create_transport_costs on supplied routing matrices (+ vrp-core create_matrix_transport_cost) ----------
   Every failure of this step is Err(E0002); as written it has no panicking access: `.get(i).ok_or_else(..)?`.
   Timestamps and custom locations are not modelled (no timestamps: time agnostic costs; since a510a8a an unparsable timestamp
   is one more Err of this step, checked by the reference of the `full` stream). *)
Record matrix := mkMatrix { m_profile : option string; m_travel : list Z; m_dist : list Z; m_errors : option (list Z) }.

(* for (i, error) in error_codes.iter().enumerate(): error > 0 pushes -1/-1, otherwise travel_times.get(i)? / distances.get(i)? *)
Fixpoint error_loop (i : nat) (ec tt dd : list Z) : option (list Z * list Z) :=
  match ec with
  | [] => Some ([], [])
  | e :: r =>
      let cell := if 0 <? e then Some (-1, -1)
                  else match nth_error tt i, nth_error dd i with Some a, Some b => Some (a, b) | _, _ => None end in
      match cell, error_loop (S i) r tt dd with
      | Some (a, b), Some (x, y) => Some (a :: x, b :: y)
      | _, _ => None
      end
  end.
(* (durations, distances) of one matrix; None = Err("not enough error codes specified") (fewer codes than distances, f7d2f27),
   Err("error codes, travel times and distances must have the same length") (7d3c5fe) or Err("invalid matrix index: i")
   (the last one cannot happen any more once the three lengths agree: theorem C10_matrix_step_spec) *)
Definition matrix_data (m : matrix) : option (list Z * list Z) :=
  match m_errors m with
  | Some ec => if (List.length ec <? List.length (m_dist m))%nat then None
               else if negb (List.length ec =? List.length (m_dist m))%nat
                       || negb (List.length (m_travel m) =? List.length (m_dist m))%nat then None
               else error_loop 0 ec (m_travel m) (m_dist m)
  | None => Some (m_travel m, m_dist m)
  end.
(* (len as Float).sqrt().round() as usize *)
Definition round_sqrt (n : nat) : nat := let s := Nat.sqrt n in if (s <? n - s * s)%nat then S s else s.
(* get_profile_index_map: distinct profile names in order of first occurrence *)
Fixpoint dedup_from (seen l : list string) : list string :=
  match l with
  | [] => []
  | x :: r => if mem x seen then dedup_from seen r else x :: dedup_from (x :: seen) r
  end.
Fixpoint index_of (x : string) (l : list string) : option nat :=
  match l with
  | [] => None
  | y :: r => if String.eqb x y then Some 0%nat else option_map S (index_of x r)
  end.
Fixpoint sequence {A} (l : list (option A)) : option (list A) :=
  match l with
  | [] => Some []
  | None :: _ => None
  | Some x :: r => option_map (cons x) (sequence r)
  end.
Fixpoint count_distinct (l : list nat) : nat :=
  match l with
  | [] => 0%nat
  | x :: r => if existsb (Nat.eqb x) r then count_distinct r else S (count_distinct r)
  end.
Fixpoint ninsert (x : nat) (l : list nat) : list nat :=
  match l with [] => [x] | y :: r => if (x <=? y)%nat then x :: y :: r else y :: ninsert x r end.
Fixpoint nsort (l : list nat) : list nat := match l with [] => [] | x :: r => ninsert x (nsort r) end.
Fixpoint nat_list_eqb (a b : list nat) : bool :=
  match a, b with
  | [], [] => true
  | x :: a', y :: b' => (x =? y)%nat && nat_list_eqb a' b'
  | _, _ => false
  end.

Inductive tres := TOk (size : nat) (lens : list nat) | TErr.
Definition create_transport_costs (profiles : list string) (ms : list matrix) : tres :=
  let all_named := forallb (fun m => is_some (m_profile m)) ms in
  let none_named := forallb (fun m => is_none (m_profile m)) ms in
  if negb all_named && negb none_named then TErr                                   (* "all matrices should have profile set or none" *)
  else
    let names := dedup_from [] profiles in
    if (List.length ms <? List.length names)%nat then TErr                         (* "not enough routing matrices" *)
    else match sequence (map matrix_data ms) with
         | None => TErr                                                            (* "invalid matrix index" *)
         | Some datas =>
             let idxs := map (fun im : nat * matrix =>
                                match m_profile (snd im) with
                                | Some p => match index_of p names with Some k => k | None => fst im end
                                | None => fst im
                                end) (combine (seq 0 (List.length ms)) ms) in
             if negb (count_distinct idxs =? List.length names)%nat then TErr      (* "amount of fleet profiles does not match" *)
             else match datas with
                  | [] => TErr                                                     (* "no matrix data found" *)
                  | d0 :: _ =>
                      let size := round_sqrt (List.length (fst d0)) in
                      if existsb (fun d : list Z * list Z => negb (List.length (snd d) =? List.length (fst d))%nat) datas then TErr
                      else if existsb (fun d : list Z * list Z => negb (round_sqrt (List.length (snd d)) =? size)%nat) datas then TErr
                      else if existsb (fun d : list Z * list Z => negb (round_sqrt (List.length (fst d)) =? size)%nat) datas then TErr
                      else if existsb (fun d : list Z * list Z => negb (List.length (snd d) =? size * size)%nat
                                                               || negb (List.length (fst d) =? size * size)%nat) datas then TErr
                                                                                   (* "square matrices of the same size" (17fc8e9) *)
                      else if negb (nat_list_eqb (nsort idxs) (seq 0 (List.length idxs))) then TErr   (* "duplicate profiles.." *)
                      else TOk size (map (fun d : list Z * list Z => List.length (fst d)) datas)
                  end
         end.

(* ---------- entry points for the correspondence (results as plain data) ---------- *)
(* [1] = Err(E0002); 0 :: size :: lengths of the cost vectors = Ok *)
Definition run_transport (profiles : list string) (ms : list matrix) : list Z :=
  match create_transport_costs profiles ms with
  | TErr => [1]
  | TOk size lens => 0 :: Z.of_nat size :: map Z.of_nat lens
  end.
(* (kind, codes): kind 0 = Ok, 1 = Err codes, 2 = Panic *)
Definition run_validate (d : doc) : Z * list Z :=
  match validate_approx d with VOk => (0, []) | VErr cs => (1, cs) | VPanic => (2, []) end.
Definition run_read (d : doc) : Z * list Z :=
  match read d with ROk => (0, []) | RErr cs => (1, cs) | RPanic => (2, []) end.
