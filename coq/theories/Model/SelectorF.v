(* C18 — binary64 twin of the reward estimation of DynamicSelective and the float instance of the selector state machine
   (Model/Selector.v) with the primitive-float slot machines of Model/SlotF.v inside.  Same statements, same operation order as
   rosomaxa/src/hyper/dynamic_selective.rs:
     get_relative_distance            -> frel_dist      (`a != b` = negb (a =? b); `.max` = f64::max, NaN-ignoring: fmaxr;
                                                         `(total - idx) as Float` = f_of_nat)
     estimate_distance_reward         -> fdistance_reward (`x.total_cmp(&0.) == Greater` is `0 < x` for every x that is not a NaN with
                                                         a clear sign bit; for finite fitness no NaN arises: RewardFloatP.frel_dist_range)
     estimate_reward_perf_multiplier  -> fperf_multiplier (f64::clamp = two comparisons; `duration as Float / median as Float`)
     SearchAction::take               -> f_take (reward = base * multiplier, to-state from compare_to_best(new))
     SearchAgent / DynamicSelective   -> fsel_run = Selector.sel_run over fslot / fslot_update
   0.05, 0.15 are the hex literals of the nearest doubles.
   Entry point used by the correspondence: run_selectorF (objective = the lexicographic order of the harness, flex).
   No proofs in this file. *)
From Coq Require Import Floats Uint63.
From VRP Require Import Base.Tac Base.TotalCmp Model.SlotF Model.Reward Model.Selector.
Local Open Scope Z_scope.

Definition fneb (a b : float) : bool := negb (PrimFloat.eqb a b).

Fixpoint ffirst_diff (fa fb : list float) (i : nat) : option nat :=
  match fa, fb with
  | a :: fa', b :: fb' => if fneb a b then Some i else ffirst_diff fa' fb' (S i)
  | _, _ => None
  end.

(* f64::max / f64::min (IEEE maxNum / minNum: a NaN operand is ignored) *)
Definition fmaxr (x y : float) : float :=
  if PrimFloat.is_nan x then y else if PrimFloat.is_nan y then x else if PrimFloat.ltb x y then y else x.
Definition fminr (x y : float) : float :=
  if PrimFloat.is_nan x then y else if PrimFloat.is_nan y then x else if PrimFloat.ltb y x then y else x.

Definition f_of_Z (z : Z) : float := PrimFloat.of_uint63 (Uint63.of_Z z).

Local Open Scope float_scope.

Definition frelv (a b : float) : float := abs (a - b) / fmaxr (abs a) (abs b).

Definition frel_dist (ord : comparison) (fa fb : list float) : float :=
  match ord with
  | Eq => 0
  | _ =>
    let sign := match ord with Lt => 1 | _ => -1 end in
    match ffirst_diff fa fb 0 with
    | None => 0
    | Some idx =>
        let amplifier := f_of_nat (length fa - idx) in
        let value := frelv (nth idx fa 0) (nth idx fb 0) in
        value * sign * amplifier
    end
  end.

Definition fgt0 (x : float) : bool := 0 <? x.

Definition c005f : float := 0x1.999999999999ap-5.
Definition c015f : float := 0x1.3333333333333p-3.

Definition fdistance_reward (best : option (list float)) (o_ni o_nb : comparison) (fnew finit : list float) : float :=
  match best with
  | None => 0
  | Some fbest =>
      let di := frel_dist o_ni fnew finit in
      let db := frel_dist o_nb fnew fbest in
      if fgt0 di then
        (if fgt0 db then (di + 1) + (db + 1) * 2 else (di + 1) * c005f)
      else 0
  end.

Definition fclamp (lo hi x : float) : float :=
  let x1 := if x <? lo then lo else x in
  if hi <? x1 then hi else x1.

Definition fmedian_ratio (median : option Z) (duration : Z) : float :=
  match median with
  | None => 1
  | Some m => if (m =? 0)%Z then 1 else f_of_Z duration / f_of_Z m
  end.

Definition fperf_multiplier (improvement_ratio : float) (median : option Z) (duration : Z) (has_improvement : bool) : float :=
  let r := fclamp 0.5 2 (fmedian_ratio median duration) in
  let mr := if r <? 0.75 then 1.5 else if r <? 1 then 1.25 else if 1.5 <? r then 0.75 else 1 in
  let ir := if has_improvement then
              (if improvement_ratio <? c005f then 2 else if c015f <? improvement_ratio then 0.75 else 1)
            else 1 in
  mr * ir.

Close Scope float_scope.

Section FInstance.
  Variable ord : list float -> list float -> comparison.     (* HeuristicObjective::total_order on fitness vectors *)

  Record fenv := mkFenv { fe_best : option (list float); fe_ratio : float }.
  Record foutcome := mkFout { fo_init : list float; fo_new : list float; fo_duration : Z }.

  Definition f_from_of (e : fenv) (o : foutcome) : sstate := from_of_order (cmp_to_best ord (fe_best e) (fo_init o)).

  Definition f_reward (e : fenv) (median : option Z) (o : foutcome) : float :=
    let o_nb := cmp_to_best ord (fe_best e) (fo_new o) in
    let is_new_best := match o_nb with Lt => true | _ => false end in
    PrimFloat.mul (fdistance_reward (fe_best e) (ord (fo_new o) (fo_init o)) o_nb (fo_new o) (fo_init o))
                  (fperf_multiplier (fe_ratio e) median (fo_duration o) is_new_best).

  Definition f_take (e : fenv) (median : option Z) (from : sstate) (idx : nat) (o : foutcome) : feedback float :=
    mkFb from (to_of_order (cmp_to_best ord (fe_best e) (fo_new o))) idx (f_reward e median o) (fo_duration o).

  Definition fsel_new (nops : nat) : sel fslot := sel_new (fslot_new 1%float) nops.
  Definition fsel_run (nops : nat) (rounds : list (fenv * list (foutcome * pick))) : option (sel fslot * list (feedback float)) :=
    sel_run fslot_update f_from_of f_take (fsel_new nops) rounds.
End FInstance.

(* ---------------- correspondence entry point ---------------- *)
(* the objective of the harness: lexicographic on the fitness vector through partial_cmp (None and Equal: next component) *)
Fixpoint flex (fa fb : list float) : comparison :=
  match fa, fb with
  | a :: fa', b :: fb' => if PrimFloat.ltb a b then Lt else if PrimFloat.ltb b a then Gt else flex fa' fb'
  | _, _ => Eq
  end.

Definition sstate_code (s : sstate) : Z := match s with BestKnown => 0 | Diverse => 1 end.

(* one job as it travels: (init bits, new bits, duration ms, gamma draws (bits) one per slot, sampler outputs (bits) one per slot, tie bits) *)
Definition jobF := (list Z * list Z * Z * list Z * list Z * list bool)%type.
(* one round: ([] | [best bits], improvement_1000_ratio bits, jobs) *)
Definition roundF := (list (list Z) * Z * list jobF)%type.

Definition job_outcome (j : jobF) : foutcome :=
  match j with (i, n, d, _, _, _) => mkFout (map f_of_bits i) (map f_of_bits n) d end.
Definition job_pick (j : jobF) : pick :=
  match j with (_, _, _, _, xs, ties) => mkPick (map key xs) ties end.
Definition job_gammas (j : jobF) : list float := match j with (_, _, _, gs, _, _) => map f_of_bits gs end.
Definition round_env (r : roundF) : fenv :=
  match r with (b, ratio, _) => mkFenv (match b with [] => None | f :: _ => Some (map f_of_bits f) end) (f_of_bits ratio) end.
Definition round_jobs (r : roundF) : list jobF := match r with (_, _, js) => js end.

(* numbers travel back as primitive integers (printing a 64-bit pattern as a Z numeral dominates the evaluation time):
   a float is two integers: its low 63 bits and 0 (sign clear) / 1 (sign set) / 2 (NaN) *)
Definition fcode (f : float) : list Uint63.int :=
  let b := bits_of_f f in
  if b <? 0 then [0%uint63; 2%uint63]
  else if two63z <=? b then [Uint63.of_Z (b - two63z); 1%uint63] else [Uint63.of_Z b; 0%uint63].
Definition fcodes (l : list float) : list Uint63.int := flat_map fcode l.
Definition icode (z : Z) : Uint63.int := Uint63.of_Z z.

(* arguments of the sampler calls of every slot of the row SearchAgent::search samples (slot order), for the draws gs:
   per slot shape, scale, mean, std_dev *)
Fixpoint row_args (row : list fslot) (gs : list float) : list Uint63.int :=
  match row with
  | [] => []
  | sl :: rest => fcodes (fsample_args sl (hd 0%float gs)) ++ row_args rest (tl gs)
  end.

(* from, to (0 = best, 1 = diverse), slot index, duration, reward *)
Definition fb_out (fb : feedback float) : list Uint63.int :=
  [icode (sstate_code (fb_from fb)); icode (sstate_code (fb_to fb)); icode (Z.of_nat (fb_idx fb)); icode (fb_duration fb)]
  ++ fcode (fb_reward fb).

(* alpha, beta, mu, v, n *)
Definition fslot_code (s : fslot) : list Uint63.int :=
  fcodes [f_alpha s; f_beta s; f_mu s; f_v s] ++ [icode (Z.of_nat (f_n s))].

(* per round: the median approximation the searches of the round see (0 = None, m + 1 = Some m), per job the sampler arguments,
   and the feedbacks; None = the code panics *)
Fixpoint run_roundsF (s : sel fslot) (rounds : list roundF)
  : option (list (Uint63.int * list (list Uint63.int) * list (list Uint63.int)) * sel fslot) :=
  match rounds with
  | [] => Some ([], s)
  | r :: rest =>
      let e := round_env r in
      let jobs := round_jobs r in
      let args := map (fun j => row_args (sel_row (f_from_of flex e (job_outcome j)) s) (job_gammas j)) jobs in
      let med := match rem_median (sel_med s) with Some m => icode (m + 1) | None => 0%uint63 end in
      match sel_round fslot_update (f_from_of flex) (f_take flex) s e (map (fun j => (job_outcome j, job_pick j)) jobs) with
      | None => None
      | Some (s', fbs) =>
          match run_roundsF s' rest with
          | None => None
          | Some (out, s'') => Some ((med, args, map fb_out fbs) :: out, s'')
          end
      end
  end.

Definition run_selectorF (nops : nat) (rounds : list roundF)
  : option (list (Uint63.int * list (list Uint63.int) * list (list Uint63.int)) * (list (list Uint63.int) * list (list Uint63.int))) :=
  match run_roundsF (fsel_new nops) rounds with
  | None => None
  | Some (out, s) => Some (out, (map fslot_code (sel_best s), map fslot_code (sel_div s)))
  end.

(* the remedian alone: approx_median after every observation (-1 = None) *)
Fixpoint run_remedian_go (r : remedian) (vs : list Z) : list Uint63.int :=
  match vs with
  | [] => []
  | v :: rest =>
      let r' := rem_add r v in
      (match rem_median r' with Some m => icode (m + 1) | None => 0%uint63 end) :: run_remedian_go r' rest
  end.
(* 0 = None, m + 1 = Some m *)
Definition run_remedian (base exponent : nat) (vs : list Z) : list Uint63.int := run_remedian_go (rem_new base exponent) vs.
