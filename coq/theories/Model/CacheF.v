(* C05, the remaining caching features: cached fields whose handler READS OTHER CACHED FIELDS (so the position of a feature in
   the goal matters), per-solution aggregates (SolutionState entries), and the concrete handlers of every caching feature of
   vrp-core that Model/Cache.v / Model/CacheX.v do not have.
   Rust items modelled (vrp-core/src):
     construction/enablers/feature_combinator.rs :: accept_insertion_with_states, accept_route_state_with_states,
                                                  accept_solution_state_with_states (single round: no conditional-job promotion,
                                                  that loop is in Model/CacheX.v) - handlers run in GOAL ORDER on the cache as it is
     construction/heuristics/context.rs        :: InsertionContext::restore, insertions.rs :: finalize_insertion_ctx = restore_d true
                                                  (since /repo 38e261f: remove_empty_routes, accept_solution_state,
                                                  remove_empty_routes; before - finding C05-F5, `restore_d false` - the first
                                                  clean-up was missing)
     construction/enablers/schedule_update.rs  :: update_route_schedule = update_schedules; update_states; update_statistics
                                                  (TransportState: insertion always / route yes / solution: stale tours)
     construction/enablers/route_intervals.rs  :: get_route_intervals (marker_intervals), RouteIntervals::get_marker_intervals /
                                                  resolve_marker_intervals (read from the route state)
     construction/enablers/multi_trip.rs       :: MultiTripState::{accept_insertion, accept_route_state (intervals, then
                                                  recalculate_states), accept_solution_state (stale tours)}
     construction/features/capacity.rs         :: CapacitatedMultiTrip::recalculate_states over the CACHED reload intervals
                                                  (SingleDimLoad), MaxVehicleLoad
     construction/features/reloads.rs          :: ReloadFeatureFactory::build_simple (reload intervals state; the shared flavour is in CacheX.v)
     construction/features/recharge.rs         :: RechargeableMultiTrip::recalculate_states (distance counters per recharge interval,
                                                  nothing for an actor without a distance limit), RechargeIntervals state
     construction/features/tour_limits.rs      :: TravelLimitState (limit duration: route-level handler only; a function of the actor)
     construction/features/tour_order.rs       :: TourOrderState (per-solution violation count), get_violations, compare_order_results
     construction/features/work_balance.rs     :: WorkBalanceState<K> (per-route value: insertion always / route yes / solution: stale
                                                  tours since /repo 5d6f1d2 - NEVER before, finding C05-F3, kept as `SolNever` in
                                                  f_balance_gen / goal_table_gen for the witness theorem;
                                                  per-solution aggregate: the route estimate of every tour read from the LIVE route
                                                  state), the four route estimates (max load over the cached reload intervals and
                                                  max-future loads, activities, cached total distance, cached total duration)
     construction/features/fast_service.rs     :: FastServiceState (multi-job ranges: insertion always / route yes / solution: stale
                                                  tours), FastServiceObjective::fitness (reads schedules, reload intervals, ranges)
     construction/features/compatibility.rs, groups.rs :: as in Model/Cache.v, on concrete tours
     breaks.rs, tour_compactness.rs (aggregate only validated), known_edge.rs, total_value.rs, minimize_unassigned.rs,
     fleet_usage.rs, hierarchical_areas.rs: see notes/C05.md (no per-route cache / not in the modelled goals)
   Modelling notes: the activity schedules live inside the tour in the code; here they are the cached field K_SCHED (no handler
   other than TransportState's own steps reads a schedule while a route state is being rebuilt).  One handler that writes several
   state keys is a run of consecutive descriptors with the same triggers.  The work balance aggregate is kept as the VECTOR of
   route estimates (the coefficient of variation of it is a float function applied outside Coq).
   Part 1 is the protocol over abstract tours; part 2 the concrete table `goal_table` of a goal configuration, in the order the
   harness (and vrp-pragmatic) lists the features: [tour order (soft); objectives before the cost objective; transport;
   objectives after it; capacity / reload; compatibility; groups; tour limits; recharge].
   Entry point for the correspondence (tools/props/c05_feat.py): run_feat.
   No proofs in this file. *)
From VRP Require Import Base.Tac Model.Core Model.Cache.

(* ================= part 1: the protocol with dependent fields and aggregates ================= *)
Section ProtocolD.
Variable tour : Type.
Variable job : Type.
Variable value : Type.
Variable svalue : Type.
Notation rctx := (rctx tour value).
Definition cache := nat -> option value.

(* one cached field of a tour; its handler computes it from the tour AND the route state as it is at that moment *)
Record dfeature := mkD {
  d_key : nat;
  d_deps : list nat;                          (* the state keys the handler reads *)
  d_read : tour -> cache -> option value;
  d_on_insertion : job -> bool;
  d_on_route : bool;
  d_on_solution : on_solution
}.

(* one entry of the solution state; its handler reads ALL route contexts (tours + route states) *)
Record afeature := mkA {
  a_key : nat;
  a_deps : list nat;                          (* the route-state keys it reads *)
  a_read : list rctx -> option svalue
}.

Inductive entry := ERoute (f : dfeature) | EAgg (a : afeature).

Definition d_refresh (f : dfeature) (r : rctx) : rctx :=
  mkRctx (rc_tour r) (set_key value (rc_state r) (d_key f) (d_read f (rc_tour r) (rc_state r))) true.

(* accept_route_state_with_states *)
Definition route_step (e : entry) (r : rctx) : rctx :=
  match e with ERoute f => if d_on_route f then d_refresh f r else r | EAgg _ => r end.
Definition run_route (es : list entry) (r : rctx) : rctx := fold_left (fun acc e => route_step e acc) es r.
Definition accept_route_state_d (es : list entry) (r : rctx) : rctx :=
  if rc_stale r then
    let r' := run_route es (mkRctx (rc_tour r) (fun _ => None) true) in mkRctx (rc_tour r') (rc_state r') false
  else r.

(* apply_insertion_success on the route that receives job j: the tour changes through route_mut, then accept_insertion *)
Definition ins_step (j : job) (e : entry) (r : rctx) : rctx :=
  match e with ERoute f => if d_on_insertion f j then d_refresh f r else r | EAgg _ => r end.
Definition run_ins (j : job) (es : list entry) (r : rctx) : rctx := fold_left (fun acc e => ins_step j e acc) es r.
Definition apply_insertion_d (es : list entry) (ins : job -> tour -> tour) (j : job) (r : rctx) : rctx :=
  run_ins j es (route_mut tour value (ins j) r).

(* accept_solution_state_with_states, one round, then "unset all" *)
Definition d_sol_handler (f : dfeature) (r : rctx) : rctx :=
  match d_on_solution f with
  | SolNever => r
  | SolStale => if rc_stale r then d_refresh f r else r
  | SolAlways => d_refresh f r
  end.
Record sctx := mkS { s_routes : list rctx; s_aggs : nat -> option svalue }.
Definition sol_step (e : entry) (s : sctx) : sctx :=
  match e with
  | ERoute f => mkS (map (d_sol_handler f) (s_routes s)) (s_aggs s)
  | EAgg a => mkS (s_routes s) (set_key svalue (s_aggs s) (a_key a) (a_read a (s_routes s)))
  end.
Definition run_sol (es : list entry) (s : sctx) : sctx := fold_left (fun acc e => sol_step e acc) es s.
Definition unset_d (r : rctx) : rctx := mkRctx (rc_tour r) (rc_state r) false.
Definition accept_solution_state_d (es : list entry) (s : sctx) : sctx :=
  let s' := run_sol es s in mkS (map unset_d (s_routes s')) (s_aggs s').

(* InsertionContext::restore / finalize_insertion_ctx.  `early` = the code since /repo 38e261f: remove_empty_routes, the
   solution-level handlers, remove_empty_routes again.  `early = false` = the code before (finding C05-F5, regression mutant
   C05-18): the handlers ran while the tours without jobs were still in the solution *)
Definition drop_empty (is_empty : tour -> bool) (rs : list rctx) : list rctx :=
  filter (fun r => negb (is_empty (rc_tour r))) rs.
Definition restore_d (early : bool) (is_empty : tour -> bool) (es : list entry) (s : sctx) : sctx :=
  let s0 := if early then mkS (drop_empty is_empty (s_routes s)) (s_aggs s) else s in
  let s' := accept_solution_state_d es s0 in
  mkS (drop_empty is_empty (s_routes s')) (s_aggs s').

(* ---- which fields a pass makes right: a field is GOOD when its handler fires in the pass (`ok`) and every key it reads is
   good before it in handler order; `avail` = the keys known to be right when the pass starts ---- *)
Definition memn (k : nat) (l : list nat) : bool := existsb (Nat.eqb k) l.
Definition deps_in (avail deps : list nat) : bool := forallb (fun k => memn k avail) deps.
Fixpoint good_from (ok : dfeature -> bool) (avail : list nat) (es : list entry) : list nat :=
  match es with
  | [] => avail
  | ERoute f :: r => if ok f && deps_in avail (d_deps f) then good_from ok (d_key f :: avail) r else good_from ok avail r
  | EAgg _ :: r => good_from ok avail r
  end.
Fixpoint good_aggs (ok : dfeature -> bool) (avail : list nat) (es : list entry) : list nat :=
  match es with
  | [] => []
  | ERoute f :: r => if ok f && deps_in avail (d_deps f) then good_aggs ok (d_key f :: avail) r else good_aggs ok avail r
  | EAgg a :: r => if deps_in avail (a_deps a) then a_key a :: good_aggs ok avail r else good_aggs ok avail r
  end.

(* the handler the protocol calls last refreshes the field of a stale tour (a fresh tour is right by the invariant) *)
Definition refreshes_d (f : dfeature) : bool :=
  match d_on_solution f with SolNever => false | SolStale => d_on_route f | SolAlways => true end.

Definition route_keys (es : list entry) : list nat :=
  flat_map (fun e => match e with ERoute f => [d_key f] | EAgg _ => [] end) es.
Definition agg_keys (es : list entry) : list nat :=
  flat_map (fun e => match e with ERoute _ => [] | EAgg a => [a_key a] end) es.
Definition route_features (es : list entry) : list dfeature :=
  flat_map (fun e => match e with ERoute f => [f] | EAgg _ => [] end) es.

(* every descriptor comes after the descriptors of the keys it reads *)
Fixpoint ordered_b (seen : list nat) (fs : list dfeature) : bool :=
  match fs with [] => true | f :: r => deps_in seen (d_deps f) && ordered_b (d_key f :: seen) r end.

(* "discard the caches and recompute": every read function applied, in a dependency-respecting order, to an empty cache *)
Definition run_all (fs : list dfeature) (t : tour) : cache :=
  fold_left (fun c f => set_key value c (d_key f) (d_read f t c)) fs (fun _ => None).
End ProtocolD.

Arguments mkD {tour job value}.
Arguments d_key {tour job value}.
Arguments d_deps {tour job value}.
Arguments d_read {tour job value}.
Arguments d_on_insertion {tour job value}.
Arguments d_on_route {tour job value}.
Arguments d_on_solution {tour job value}.
Arguments mkA {tour value svalue}.
Arguments a_key {tour value svalue}.
Arguments a_deps {tour value svalue}.
Arguments a_read {tour value svalue}.
Arguments ERoute {tour job value svalue}.
Arguments EAgg {tour job value svalue}.
Arguments mkS {tour value svalue}.
Arguments s_routes {tour value svalue}.
Arguments s_aggs {tour value svalue}.

(* ================= part 2: the concrete features ================= *)
Record fveh := mkFV { fv_cap : Z; fv_dur_limit : option Z; fv_recharge_limit : option Z }.
(* an activity: the core activity (job id -1 = vehicle start / end; the schedule fields are what the dump holds), is_reload_single /
   is_recharge_single of its single, the tour-order value of its single (None = OrderResult::Default), its job is a Multi,
   compatibility and group tag of its job (0 = none) *)
Record fact := mkFA { fa_act : act; fa_reload : bool; fa_recharge : bool; fa_order : option Z; fa_multi : bool;
                      fa_compat : Z; fa_group : Z }.
Record ftour := mkFT { ft_veh : fveh; ft_acts : list fact }.

Inductive fval :=
  | VZ (x : Z) | VQ (n d : Z) | VList (l : list Z) | VIvs (l : list (nat * nat)) | VSched (l : list (Z * Z))
  | VSet (l : list Z) | VRanges (l : list (Z * (nat * nat))).
Inductive sval := SCount (n : Z) | SVec (l : list fval).

Inductive okind := OMaxLoad | OActivities | ODistance | ODuration | OFast.
Record gcfg := mkCfg { c_reload : bool; c_recharge : bool; c_limits : bool; c_compat : bool; c_groups : bool; c_order : bool;
                       c_before : list okind; c_after : list okind }.

Definition K_SCHED : nat := 0.   Definition K_LATEST : nat := 1.  Definition K_WAIT : nat := 2.
Definition K_DIST : nat := 3.    Definition K_DUR : nat := 4.     Definition K_RELOAD : nat := 5.
Definition K_CUR : nat := 6.     Definition K_PAST : nat := 7.    Definition K_FUT : nat := 8.
Definition K_MAXLOAD : nat := 9. Definition K_COMPAT : nat := 10. Definition K_GROUPS : nat := 11.
Definition K_LIMIT : nat := 12.  Definition K_RIVS : nat := 13.   Definition K_RDIST : nat := 14.
Definition K_BAL (o : okind) : nat :=
  match o with OMaxLoad => 15 | OActivities => 16 | ODistance => 17 | ODuration => 18 | OFast => 19 end%nat.
Definition K_RANGES : nat := 19.
Definition A_ORDER : nat := 0.

Section Concrete.
Variable dur dist : Z -> Z -> Z.
Notation fcache := (cache fval).
Notation frctx := (rctx ftour fval).

Definition cores (t : ftour) : list act := map fa_act (ft_acts t).

(* the tour with the CACHED schedule (K_SCHED); without one, the schedule fields the tour came with *)
Fixpoint set_scheds (t : list act) (s : list (Z * Z)) : list act :=
  match t, s with
  | a :: r, (x, y) :: s' => set_sched a x y :: set_scheds r s'
  | _, _ => t
  end.
Definition scheduled (t : ftour) (c : fcache) : list act :=
  match c K_SCHED with Some (VSched s) => set_scheds (cores t) s | _ => cores t end.
Definition sched_pairs (t : list act) : list (Z * Z) := map (fun a => (a_arr a, a_dep a)) t.

(* get_route_intervals: idx = index of the head of `acts`, start = end of the last pushed interval + 1 *)
Fixpoint ivs_from (m : fact -> bool) (idx last_idx : nat) (acts : list fact) (start : nat) : list (nat * nat) :=
  match acts with
  | [] => []
  | a :: rest =>
    let mk := negb (is_terminal (fa_act a)) && m a in
    let is_last := (idx =? last_idx)%nat in
    if mk || is_last then
      let e := if is_last then last_idx else (idx - 1)%nat in
      if mk && is_last then (start, (e - 1)%nat) :: (e, e) :: ivs_from m (S idx) last_idx rest (S e)
      else (start, e) :: ivs_from m (S idx) last_idx rest (S e)
    else ivs_from m (S idx) last_idx rest start
  end.
Definition marker_intervals (m : fact -> bool) (t : ftour) : list (nat * nat) :=
  ivs_from m 0 (length (ft_acts t) - 1) (ft_acts t) 0.
Definition whole (t : ftour) : list (nat * nat) := [(0%nat, (length (ft_acts t) - 1)%nat)].

(* ---- CapacitatedMultiTrip::recalculate_states over given intervals (SingleDimLoad) ---- *)
Definition slice {A} (s e : nat) (l : list A) : list A := firstn (S e - s) (skipn s l).
Definition write_at (i : nat) (vals arr : list Z) : list Z := firstn i arr ++ vals ++ skipn (i + length vals) arr.
Definition dem_of (a : fact) : demand := if is_terminal (fa_act a) then dzero else a_dem (fa_act a).
(* one interval: (acc, max, current / past / future vectors) *)
Definition load_step (acts : list fact) (st : Z * Z * (list Z * list Z * list Z)) (iv : nat * nat)
  : Z * Z * (list Z * list Z * list Z) :=
  let '(acc, mx, (cur, past, fut)) := st in
  let sl := slice (fst iv) (snd iv) acts in
  let start_delivery := fold_left (fun x a => x + d_ds (dem_of a)) sl acc in
  let end_pickup := fold_left (fun x a => x + d_ps (dem_of a)) sl 0 in
  let cs := currents start_delivery (map (fun a => mkAct 0 0 0 0 0 (dem_of a) 0 0) sl) in
  let current := last cs start_delivery in
  let ps := run_max 0 cs in
  let fs := rev (run_max current (rev cs)) in
  let current_max := hd current fs in
  (current - end_pickup, Z.max current_max mx,
   (write_at (fst iv) cs cur, write_at (fst iv) ps past, write_at (fst iv) fs fut)).
Definition load_states (acts : list fact) (ivs : list (nat * nat)) : Z * (list Z * list Z * list Z) :=
  let z := repeat 0 (length acts) in
  let '(_, mx, v) := fold_left (load_step acts) ivs (0, 0, (z, z, z)) in (mx, v).

Definition cached_ivs (k : nat) (dflt : list (nat * nat)) (c : fcache) : list (nat * nat) :=
  match c k with Some (VIvs l) => l | _ => dflt end.
Definition cached_list (k : nat) (c : fcache) : option (list Z) := match c k with Some (VList l) => Some l | _ => None end.
Definition cached_z (k : nat) (c : fcache) : option Z := match c k with Some (VZ x) => Some x | _ => None end.

(* ---- RechargeableMultiTrip::recalculate_states ---- *)
Fixpoint leg_counters (loc : Z) (acc : Z) (l : list fact) : list Z :=
  match l with
  | [] => []
  | a :: r => let c := acc + dist loc (a_loc (fa_act a)) in c :: leg_counters (a_loc (fa_act a)) c r
  end.
Definition recharge_step (acts : list fact) (last_idx : nat) (out : list Z) (iv : nat * nat) : list Z :=
  let e2 := if (snd iv =? last_idx)%nat then snd iv else S (snd iv) in
  match slice (fst iv) e2 acts with
  | [] => out
  | a :: r => write_at (S (fst iv)) (leg_counters (a_loc (fa_act a)) 0 r) out
  end.
Definition recharge_counters (acts : list fact) (ivs : list (nat * nat)) : list Z :=
  fold_left (recharge_step acts (length acts - 1)) ivs (repeat 0 (length acts)).

(* ---- tour order: get_violations of one tour ---- *)
Inductive oresult := OValue (x : Z) | ODefault.
Definition order_greater (a b : oresult) : bool :=
  match a, b with
  | OValue x, OValue y => y <? x
  | ODefault, OValue _ => true
  | _, _ => false
  end.
Fixpoint count_greater (l : list oresult) : Z :=
  match l with
  | a :: ((b :: _) as r) => (if order_greater a b then 1 else 0) + count_greater r
  | _ => 0
  end.
Definition tour_violations (t : ftour) : Z :=
  count_greater (map (fun a => match fa_order a with Some x => OValue x | None => ODefault end)
                     (filter (fun a => negb (is_terminal (fa_act a))) (ft_acts t))).

(* ---- fast service ---- *)
Fixpoint index_of (j : Z) (i : nat) (l : list fact) : option nat :=
  match l with [] => None | a :: r => if a_job (fa_act a) =? j then Some i else index_of j (S i) r end.
Fixpoint last_index_of (j : Z) (i : nat) (l : list fact) (found : option nat) : option nat :=
  match l with [] => found | a :: r => last_index_of j (S i) r (if a_job (fa_act a) =? j then Some i else found) end.
Definition job_ids (t : ftour) : list Z :=
  nodup Z.eq_dec (map (fun a => a_job (fa_act a)) (filter (fun a => negb (is_terminal (fa_act a))) (ft_acts t))).
Definition multi_ids (t : ftour) : list Z :=
  nodup Z.eq_dec (map (fun a => a_job (fa_act a)) (filter (fun a => negb (is_terminal (fa_act a)) && fa_multi a) (ft_acts t))).
(* FastServiceState::accept_route_state (a HashMap; listed by first occurrence of the job) *)
Definition multi_ranges (t : ftour) : list (Z * (nat * nat)) :=
  flat_map (fun j => match index_of j 0 (ft_acts t), last_index_of j 0 (ft_acts t) None with
                     | Some a, Some b => [(j, (a, b))] | _, _ => [] end) (multi_ids t).
(* get_route_interval: the cached reload interval with start <= idx < end, else the whole tour *)
Definition fast_interval (t : ftour) (c : fcache) (idx : nat) : nat * nat :=
  match c K_RELOAD with
  | Some (VIvs l) => match find (fun se => (fst se <=? idx)%nat && (idx <? snd se)%nat) l with
                     | Some se => se | None => (0%nat, (length (ft_acts t) - 1)%nat) end
  | _ => (0%nat, (length (ft_acts t) - 1)%nat)
  end.
Definition dep_at (s : list act) (i : nat) : Z := match nth_error s i with Some a => a_dep a | None => 0 end.
Definition arr_at (s : list act) (i : nat) : Z := match nth_error s i with Some a => a_arr a | None => 0 end.
(* FastServiceObjective::fitness, one tour: reload markers filtered; Multi: the cached range; Single: by demand type *)
Definition fast_job (t : ftour) (c : fcache) (j : Z) : Z :=
  let s := scheduled t c in
  let start_time i := dep_at s (fst (fast_interval t c i)) in
  let end_time i := arr_at s (snd (fast_interval t c i)) in
  match index_of j 0 (ft_acts t) with
  | None => 0
  | Some i =>
    match nth_error (ft_acts t) i with
    | None => 0
    | Some a =>
      if fa_reload a then 0
      else if fa_multi a then
        match c K_RANGES with
        | Some (VRanges rs) => match find (fun p => fst p =? j) rs with
                               | Some (_, (si, ei)) => end_time ei - start_time si | None => 0 end
        | _ => 0
        end
      else
        let d := dem_of a in
        let del := negb (d_ds d =? 0) in let pick := negb (d_ps d =? 0) in
        if fa_recharge a || (del && negb pick) then dep_at s i - start_time i     (* no demand / static delivery: FromStart *)
        else if pick && negb del then end_time i - dep_at s i                        (* static pickup: ToEnd *)
        else end_time i - start_time i                                               (* FromStartToEnd *)
    end
  end.
Definition fast_tour (t : ftour) (c : fcache) : Z := fold_left (fun acc j => acc + fast_job t c j) (job_ids t) 0.

(* ---- work balance: the route estimates, read from the route state ---- *)
Definition job_activity_count (t : ftour) : Z :=
  let n := Z.of_nat (length (ft_acts t)) in
  if (n =? 0) then 0
  else match rev (ft_acts t) with
       | e :: _ :: _ => if is_terminal (fa_act e) then n - 2 else n - 1
       | _ => n - 1
       end.
Definition max_load_estimate (reload : bool) (t : ftour) (c : fcache) : fval :=
  let ivs := if reload then cached_ivs K_RELOAD [(0%nat, 0%nat)] c else [(0%nat, 0%nat)] in
  let fut := match cached_list K_FUT c with Some l => l | None => [] end in
  VQ (fold_left (fun m se => Z.max m (nth (fst se) fut 0)) ivs 0) (fv_cap (ft_veh t)).
Definition route_estimate (reload : bool) (o : okind) (t : ftour) (c : fcache) : fval :=
  match o with
  | OMaxLoad => max_load_estimate reload t c
  | OActivities => VZ (job_activity_count t)
  | ODistance => VZ (match cached_z K_DIST c with Some x => x | None => 0 end)
  | ODuration => VZ (match cached_z K_DUR c with Some x => x | None => 0 end)
  | OFast => VZ 0
  end.
Definition estimate_deps (reload : bool) (o : okind) : list nat :=
  match o with
  | OMaxLoad => if reload then [K_RELOAD; K_FUT] else [K_FUT]
  | OActivities => []
  | ODistance => [K_DIST]
  | ODuration => [K_DUR]
  | OFast => []
  end.

(* ---- the descriptors ---- *)
Notation feat := (dfeature ftour fact fval).
Definition always : fact -> bool := fun _ => true.
Definition never : fact -> bool := fun _ => false.

(* TransportState: update_schedules; update_states; update_statistics *)
Definition f_sched : feat :=
  mkD K_SCHED [] (fun t _ => Some (VSched (sched_pairs (reschedule dur (cores t))))) always true SolStale.
Definition f_latest : feat :=
  mkD K_LATEST [] (fun t _ => Some (VList (latest_states dur (cores t)))) always true SolStale.
Definition f_wait : feat :=
  mkD K_WAIT [K_SCHED] (fun t c => Some (VList (Core.waiting_states (scheduled t c)))) always true SolStale.
Definition f_dist : feat :=
  mkD K_DIST [] (fun t _ => Some (VZ (total_distance dist (cores t)))) always true SolStale.
Definition f_dur : feat :=
  mkD K_DUR [K_SCHED] (fun t c => Some (VZ (total_duration (scheduled t c)))) always true SolStale.
Definition transport_fs : list feat := [f_sched; f_latest; f_wait; f_dist; f_dur].

(* MultiTripState over CapacitatedMultiTrip: the reload intervals (reload flavour only), then recalculate_states over the
   intervals READ BACK from the route state *)
Definition f_reload : feat :=
  mkD K_RELOAD [] (fun t _ => Some (VIvs (marker_intervals fa_reload t))) always true SolStale.
Definition load_ivs (reload : bool) (t : ftour) (c : fcache) : list (nat * nat) :=
  if reload then cached_ivs K_RELOAD (whole t) c else whole t.
Definition load_deps (reload : bool) : list nat := if reload then [K_RELOAD] else [].
Definition f_cur (reload : bool) : feat :=
  mkD K_CUR (load_deps reload) (fun t c => Some (VList (fst (fst (snd (load_states (ft_acts t) (load_ivs reload t c)))))))
      always true SolStale.
Definition f_past (reload : bool) : feat :=
  mkD K_PAST (load_deps reload) (fun t c => Some (VList (snd (fst (snd (load_states (ft_acts t) (load_ivs reload t c)))))))
      always true SolStale.
Definition f_fut (reload : bool) : feat :=
  mkD K_FUT (load_deps reload) (fun t c => Some (VList (snd (snd (load_states (ft_acts t) (load_ivs reload t c))))))
      always true SolStale.
Definition f_maxload (reload : bool) : feat :=
  mkD K_MAXLOAD (load_deps reload)
      (fun t c => Some (VQ (fst (load_states (ft_acts t) (load_ivs reload t c))) (fv_cap (ft_veh t)))) always true SolStale.
Definition capacity_fs (reload : bool) : list feat :=
  (if reload then [f_reload] else []) ++ [f_cur reload; f_past reload; f_fut reload; f_maxload reload].

(* CompatibilityState / GroupState *)
Definition tags (g : fact -> Z) (t : ftour) : list Z :=
  filter (fun x => negb (x =? 0)) (map g (filter (fun a => negb (is_terminal (fa_act a))) (ft_acts t))).
Definition f_compat : feat :=
  mkD K_COMPAT [] (fun t _ => match tags fa_compat t with x :: _ => Some (VZ x) | [] => None end)
      (fun j => negb (fa_compat j =? 0)) true SolStale.
Definition f_groups : feat :=
  mkD K_GROUPS [] (fun t _ => Some (VSet (nodup Z.eq_dec (tags fa_group t)))) (fun j => negb (fa_group j =? 0)) false SolAlways.

(* TravelLimitState: the route-level handler only *)
Definition f_limit : feat :=
  mkD K_LIMIT [] (fun t _ => option_map VZ (fv_dur_limit (ft_veh t))) never true SolNever.

(* MultiTripState over RechargeableMultiTrip *)
Definition f_rivs : feat :=
  mkD K_RIVS [] (fun t _ => Some (VIvs (marker_intervals fa_recharge t))) always true SolStale.
Definition f_rdist : feat :=
  mkD K_RDIST [K_RIVS]
      (fun t c => match fv_recharge_limit (ft_veh t) with
                  | None => None
                  | Some _ => Some (VList (recharge_counters (ft_acts t) (cached_ivs K_RIVS (whole t) c)))
                  end) always true SolStale.

(* WorkBalanceState<K>: the per-route value; `sol` = what accept_solution_state does for it: SolStale since /repo 5d6f1d2
   (stale tours refreshed before the aggregate is computed), SolNever before (finding C05-F3, regression mutant C05-17) *)
Definition f_balance_gen (sol : on_solution) (reload : bool) (o : okind) : feat :=
  mkD (K_BAL o) (estimate_deps reload o) (fun t c => Some (route_estimate reload o t c)) always true sol.
Definition f_balance : bool -> okind -> feat := f_balance_gen SolStale.
(* FastServiceState *)
Definition f_ranges : feat :=
  mkD K_RANGES [] (fun t _ => Some (VRanges (multi_ranges t))) always true SolStale.

Notation fentry := (entry ftour fact fval sval).
(* the per-solution entries *)
Definition a_order : afeature ftour fval sval :=
  mkA A_ORDER [] (fun rs => Some (SCount (fold_left (fun acc r => acc + tour_violations (rc_tour r)) rs 0))).
Definition a_balance (reload : bool) (o : okind) : afeature ftour fval sval :=
  mkA (K_BAL o) (estimate_deps reload o)
      (fun rs => Some (SVec (map (fun r => route_estimate reload o (rc_tour r) (rc_state r)) rs))).

Definition objective_entries (bsol : on_solution) (reload : bool) (o : okind) : list fentry :=
  match o with
  | OFast => [ERoute f_ranges]
  | _ => [ERoute (f_balance_gen bsol reload o); EAgg (a_balance reload o)]
  end.

(* the goal, in handler order; bsol = the solution-level trigger of the work balance route values *)
Definition goal_table_gen (bsol : on_solution) (g : gcfg) : list fentry :=
  (if c_order g then [EAgg a_order] else [])
  ++ flat_map (objective_entries bsol (c_reload g)) (c_before g)
  ++ map ERoute transport_fs
  ++ flat_map (objective_entries bsol (c_reload g)) (c_after g)
  ++ map ERoute (capacity_fs (c_reload g))
  ++ (if c_compat g then [ERoute f_compat] else [])
  ++ (if c_groups g then [ERoute f_groups] else [])
  ++ (if c_limits g then [ERoute f_limit] else [])
  ++ (if c_recharge g then [ERoute f_rivs; ERoute f_rdist] else []).
(* the code as it is *)
Definition goal_table : gcfg -> list fentry := goal_table_gen SolStale.
(* the code before /repo 5d6f1d2 *)
Definition goal_table_before_5d6f1d2 : gcfg -> list fentry := goal_table_gen SolNever.

(* the same descriptors in an order in which every handler comes after the handlers of the keys it reads *)
Definition objective_features (reload : bool) (o : okind) : list feat :=
  match o with OFast => [f_ranges] | _ => [f_balance reload o] end.
Definition ideal (g : gcfg) : list feat :=
  transport_fs ++ capacity_fs (c_reload g)
  ++ (if c_compat g then [f_compat] else []) ++ (if c_groups g then [f_groups] else [])
  ++ (if c_limits g then [f_limit] else []) ++ (if c_recharge g then [f_rivs; f_rdist] else [])
  ++ flat_map (objective_features (c_reload g)) (c_before g ++ c_after g).

(* every cached field of a tour as a function of the tour alone *)
Definition spec_cache (g : gcfg) (t : ftour) : fcache := run_all ftour fact fval (ideal g) t.
Definition fresh_rctx (g : gcfg) (t : ftour) : frctx := mkRctx t (spec_cache g t) false.
(* every per-solution entry as the fold over the tours alone *)
Definition spec_aggs (g : gcfg) (ts : list ftour) : nat -> option sval :=
  fun k => match find (fun a => Nat.eqb (a_key a) k)
                      (flat_map (fun e => match e with EAgg a => [a] | ERoute _ => [] end) (goal_table g)) with
           | Some a => a_read a (map (fresh_rctx g) ts)
           | None => None
           end.
(* the fast-service objective value of a solution from the tours alone *)
Definition fast_spec (g : gcfg) (ts : list ftour) : Z := fold_left (fun acc t => acc + fast_tour t (spec_cache g t)) ts 0.

(* the boolean side conditions of the theorems, evaluated for every goal configuration the correspondence meets *)
Definition keys_ok (g : gcfg) : bool :=
  (if list_eq_dec Nat.eq_dec (nodup Nat.eq_dec (route_keys _ _ _ _ (goal_table g))) (route_keys _ _ _ _ (goal_table g)) then true else false)
  && (if list_eq_dec Nat.eq_dec (nodup Nat.eq_dec (agg_keys _ _ _ _ (goal_table g))) (agg_keys _ _ _ _ (goal_table g)) then true else false)
  && (if list_eq_dec Nat.eq_dec (nodup Nat.eq_dec (map d_key (ideal g))) (map d_key (ideal g)) then true else false).
Definition ideal_ok (g : gcfg) : bool := ordered_b ftour fact fval [] (ideal g).

(* the keys a pass makes right, for this goal *)
Definition good_route (g : gcfg) : list nat := good_from _ _ _ _ (fun f => d_on_route f) [] (goal_table g).
Definition good_handover (g : gcfg) : list nat := good_from _ _ _ _ (refreshes_d _ _ _) [] (goal_table g).
Definition good_handover_aggs (g : gcfg) : list nat := good_aggs _ _ _ _ (refreshes_d _ _ _) [] (goal_table g).
Definition good_insertion (g : gcfg) (j : fact) : list nat := good_from _ _ _ _ (fun f => d_on_insertion f j) [] (goal_table g).

(* ---- correspondence ---- *)
Definition keys_of (g : gcfg) : list nat := route_keys _ _ _ _ (goal_table g).
Definition dump_cache (g : gcfg) (c : fcache) : list (nat * option fval) := map (fun k => (k, c k)) (keys_of g).
(* what a context rebuilt from the bare tour holds (harness `rebuild_full`): empty cache, GoalContext::accept_route_state, the
   stale flag set again (state_mut), then the solution-level handlers: every one of them refreshes the tour in its first round *)
Definition rebuilt_route (g : gcfg) (t : ftour) : frctx :=
  state_mut ftour fval (accept_route_state_d _ _ _ _ (goal_table g) (mkRctx t (fun _ => None) true)).
Definition rebuilt_solution (g : gcfg) (ts : list ftour) : sctx ftour fval sval :=
  accept_solution_state_d _ _ _ _ (goal_table g) (mkS (map (rebuilt_route g) ts) (fun _ => None)).
Definition agg_keys_of (g : gcfg) : list nat := agg_keys _ _ _ _ (goal_table g).

Definition run_state (g : gcfg) (ts : list ftour) :=
  let rb := rebuilt_solution g ts in
  (map (fun t => dump_cache g (spec_cache g t)) ts,
   map (fun r => dump_cache g (rc_state r)) (s_routes rb),
   map (fun k => (k, spec_aggs g ts k)) (agg_keys_of g),
   map (fun k => (k, s_aggs rb k)) (agg_keys_of g),
   fast_spec g ts).
Definition run_feat (g : gcfg) (states : list (list ftour)) :=
  ((keys_ok g, ideal_ok g), (good_route g, good_handover g, good_handover_aggs g), map (run_state g) states).
End Concrete.

(* ---- named goal configurations and witness data for the theorems of Properties/C05.v ---- *)
(* every modelled feature in the goal, the objectives listed after the cost objective (max-load balance cannot be: the capacity
   feature always follows the objectives) *)
Definition cfg_full : gcfg := mkCfg true true true true true true [] [OActivities; ODistance; ODuration; OFast].
(* the same without the two features whose insertion handler looks at the job's tags *)
Definition cfg_untagged : gcfg := mkCfg true true true false false true [] [OActivities; ODistance; ODuration; OFast].
Definition cfg_activities : gcfg := mkCfg false false false false false false [] [OActivities].
Definition cfg_distance_first : gcfg := mkCfg false false false false false false [ODistance] [].
Definition cfg_max_load : gcfg := mkCfg false false false false false false [] [OMaxLoad].

Definition udur (a b : Z) : Z := Z.abs (a - b).
Definition udist (a b : Z) : Z := 2 * Z.abs (a - b).
Definition wact (j loc ds : Z) : fact := mkFA (mkAct j loc 0 0 INF (mkDemand 0 0 ds 0) 0 0) false false None false 0 0.
Definition wveh : fveh := mkFV 10 None None.
Definition wtour0 : ftour := mkFT wveh [wact (-1) 0 0; wact (-1) 0 0].
Definition wtour1 : ftour := mkFT wveh [wact (-1) 0 0; wact 1 3 2; wact (-1) 0 0].
Definition wtour2 : ftour := mkFT wveh [wact (-1) 0 0; wact 1 3 2; wact 2 5 3; wact (-1) 0 0].
Definition drop_job (j : Z) (t : ftour) : ftour :=
  mkFT (ft_veh t) (filter (fun a => negb (a_job (fa_act a) =? j)) (ft_acts t)).
Definition ins_act (k : nat) (a : fact) (t : ftour) : ftour := mkFT (ft_veh t) (firstn k (ft_acts t) ++ a :: skipn k (ft_acts t)).
Definition no_jobs (t : ftour) : bool := forallb (fun a => is_terminal (fa_act a)) (ft_acts t).
(* a context as accept_route_state leaves it *)
Definition wfresh (g : gcfg) (t : ftour) : rctx ftour fval :=
  accept_route_state_d ftour fact fval sval (goal_table udur udist g) (mkRctx t (fun _ => None) true).
(* the same with the table before /repo 5d6f1d2 (the route-level handlers are the same: so is the context) *)
Definition wfresh_before (g : gcfg) (t : ftour) : rctx ftour fval :=
  accept_route_state_d ftour fact fval sval (goal_table_before_5d6f1d2 udur udist g) (mkRctx t (fun _ => None) true).

(* ---- the table as data, for the tie with the Rust source (tools/props/c05_table.py compares it on every run with what it
   extracts from the `impl FeatureState for X` blocks): per descriptor (key, route-level handler writes it, solution-level
   handler: 0 never / 1 stale tours / 2 every tour, insertion handler for a job without tags, ... for a job with both tags);
   the keys of the per-solution entries ---- *)
Definition cfg_table : gcfg := mkCfg true true true true true true [OMaxLoad] [OActivities; ODistance; ODuration; OFast].
Definition tagged_job : fact := mkFA (mkAct 1 0 0 0 INF dzero 0 0) false false None false 1 1.
Definition table_rows : list (nat * bool * nat * bool * bool) * list nat :=
  (map (fun f : dfeature ftour fact fval =>
          (d_key f, d_on_route f, match d_on_solution f with SolNever => 0 | SolStale => 1 | SolAlways => 2 end,
           d_on_insertion f (wact 1 0 0), d_on_insertion f tagged_job)%nat)
       (route_features ftour fact fval sval (goal_table udur udist cfg_table)),
   agg_keys ftour fact fval sval (goal_table udur udist cfg_table)).

(* ---- finding C05-F6 (the part of C05-F5 that /repo 38e261f does not cover): a tour is emptied BY A STATE HANDLER during
   accept_solution_state (route_intervals.rs remove_trivial_markers takes the last activity - an obsolete reload marker - out of a tour
   and pushes it to `ignored`; the changed pending list restarts the round): the restarted round computes the aggregates while that
   tour, now without jobs, is still in the solution; restore drops it afterwards.  `edit` = what the abandoned round did to the tours.
   `again` = the code since /repo 70e48c1 (the repair of C05-F6): when the final
   remove_empty_routes removed a tour, accept_solution_state runs once more; `again = false` = the code before (regression mutant C05-19) *)
Definition restore_with_restart (again : bool) (edit : list (rctx ftour fval) -> list (rctx ftour fval))
           (es : list (entry ftour fact fval sval)) (s : sctx ftour fval sval) : sctx ftour fval sval :=
  let s0 := mkS (drop_empty ftour fval no_jobs (s_routes s)) (s_aggs s) in
  let s1 := run_sol ftour fact fval sval es s0 in                                   (* the abandoned round *)
  let s2 := accept_solution_state_d ftour fact fval sval es (mkS (edit (s_routes s1)) (s_aggs s1)) in   (* the round that completes *)
  let s3 := mkS (drop_empty ftour fval no_jobs (s_routes s2)) (s_aggs s2) in
  if again && negb (Nat.eqb (length (s_routes s3)) (length (s_routes s2)))
  then accept_solution_state_d ftour fact fval sval es s3 else s3.
Definition wmarker : fact := mkFA (mkAct 100 0 0 0 INF dzero 0 0) true false None false 0 0.
(* a tour whose only job is a reload marker *)
Definition wtourm : ftour := mkFT wveh [wact (-1) 0 0; wmarker; wact (-1) 0 0].
Definition drop_markers (rs : list (rctx ftour fval)) : list (rctx ftour fval) :=
  map (fun r => if existsb (fun a => fa_reload a) (ft_acts (rc_tour r)) then route_mut ftour fval (drop_job 100) r else r) rs.
