(* C11 — semantics of the serde-derive (de)serialisers over JSON value trees, as combinators used by the
   generated codecs (Generated/ProblemCodec.v, Generated/SolutionCodec.v written by tools/serde2coq.py).
   No proofs here (Proofs/SerdeP.v).

   Rust items modelled (behaviour of the code `#[derive(Serialize, Deserialize)]` expands to, for the
   attribute set used in vrp-pragmatic/src/format/{problem,solution}/model.rs, format/mod.rs :: Location,
   solution/geo_serializer.rs :: FeatureCollection):
     serde_derive :: ser.rs :: serialize_struct / serialize_*_variant
         struct  -> object, fields in declaration order, `skip_serializing_if = "Option::is_none"` omits,
                    Option::None otherwise -> null, `tag` on a struct -> leading tag field
         enum    -> externally tagged unit variant -> string; internally tagged -> object with tag first;
                    untagged -> the variant's content
     serde_derive :: de/struct_.rs :: visit_map   (keys in document order; a second occurrence of a field
                    (by name or alias) is the `duplicate field` error whatever its value; unknown keys
                    ignored; missing field: Option -> None, `default` -> default value, else error)
                 :: visit_seq   (positional; missing element -> `default` or invalid-length error;
                    surplus elements -> error)
     serde :: private/de.rs :: TaggedContentVisitor (internally tagged: tag is a string naming a variant or an
                    unsigned variant index when the enum is read from buffered content, may appear anywhere, twice = error; unit variants ignore all other keys)
                 :: ContentRefDeserializer (untagged: variants tried in declaration order, first success)
     serde_json :: de.rs :: number classification (integer literal fitting u64/i64 -> integer, else float),
                    integer fields reject float literals, range checks of i32/i64/usize,
                    f64 fields accept integer literals, Option: null -> None.
   NOT modelled: the text layer (tokenizer, string escapes, decimal <-> f64 conversion: validated
   differentially, see tools/props/c11.py op "flt"), serde_json's recursion limit (128), internally tagged
   enums given as arrays, BTreeMap key sorting / duplicate collapsing (Feature.properties: generated
   documents carry unique keys and objects are compared as unordered maps).

   run_* entry points for the correspondence are in the generated files (run_problem, run_matrix,
   run_solution = option_map enc (dec doc)). *)
From VRP Require Import Base.Tac Base.Json.
Open Scope string_scope.

Definition bind {A B} (m : option A) (f : A -> option B) : option B :=
  match m with Some a => f a | None => None end.

(* first success, in order (untagged enums) *)
Definition orelse {A} (m : option A) (k : option A) : option A :=
  match m with Some a => Some a | None => k end.

(* ---- object field lookup with serde's duplicate rule ---- *)
Inductive look := Absent | Once (v : json) | Dup.

Fixpoint get (ns : list string) (kv : list (string * json)) : look :=
  match kv with
  | [] => Absent
  | (k, v) :: r =>
      if smem k ns then (match get ns r with Absent => Once v | _ => Dup end) else get ns r
  end.

Definition lmerge (a b : look) : look :=
  match a with
  | Absent => b
  | Once v => match b with Absent => Once v | _ => Dup end
  | Dup => Dup
  end.

(* field list of a serialised struct: required field, or Option field with `skip_serializing_if = "Option::is_none"` *)
Inductive fitem := FReq (k : string) (v : json) | FOpt (k : string) (ov : option json).
Definition olook (ov : option json) : look := match ov with Some v => Once v | None => Absent end.
Definition fkey (f : fitem) : string := match f with FReq k _ => k | FOpt k _ => k end.
Definition flook (f : fitem) : look := match f with FReq _ v => Once v | FOpt _ ov => olook ov end.
Fixpoint kv_of (fs : list fitem) : list (string * json) :=
  match fs with
  | [] => []
  | FReq k v :: r => (k, v) :: kv_of r
  | FOpt k ov :: r => match ov with Some v => (k, v) :: kv_of r | None => kv_of r end
  end.
(* lookup on the symbolic field list (used by the proofs only) *)
Fixpoint getf (ns : list string) (fs : list fitem) : look :=
  match fs with [] => Absent | f :: r => if smem (fkey f) ns then flook f else getf ns r end.
Fixpoint countf (ns : list string) (fs : list fitem) : nat :=
  match fs with [] => 0%nat | f :: r => ((if smem (fkey f) ns then 1 else 0) + countf ns r)%nat end.

(* field readers of visit_map *)
Definition req {A} (dec : json -> option A) (r : look) : option A :=
  match r with Once v => dec v | _ => None end.
Definition opt {A} (dec : json -> option A) (r : look) : option (option A) :=
  match r with
  | Absent => Some None
  | Once v => if is_null v then Some None else option_map Some (dec v)
  | Dup => None
  end.
Definition dflt {A} (d : A) (dec : json -> option A) (r : look) : option A :=
  match r with Absent => Some d | Once v => dec v | Dup => None end.

(* positional readers of visit_seq *)
Definition preq {A} (dec : json -> option A) (l : list json) (i : nat) : option A :=
  match nth_error l i with Some v => dec v | None => None end.
Definition pdflt {A} (d : A) (dec : json -> option A) (l : list json) (i : nat) : option A :=
  match nth_error l i with Some v => dec v | None => Some d end.
Definition plen {A} (n : nat) (l : list json) (r : option A) : option A :=
  if (List.length l <=? n)%nat then r else None.

(* ---- scalars ---- *)
Definition enc_string (s : string) : json := JStr s.
Definition dec_string (j : json) : option string := match j with JStr s => Some s | _ => None end.
Definition enc_bool (b : bool) : json := JBool b.
Definition dec_bool (j : json) : option bool := match j with JBool b => Some b | _ => None end.
Definition enc_i64 (x : i64) : json := JInt (i64v x).
Definition dec_i64 (j : json) : option i64 := match j with JInt z => to_i64 z | _ => None end.
Definition enc_usize (x : usize) : json := JInt (usizev x).
Definition dec_usize (j : json) : option usize := match j with JInt z => to_usize z | _ => None end.
Definition enc_i32 (x : i32) : json := JInt (i32v x).
Definition dec_i32 (j : json) : option i32 := match j with JInt z => to_i32 z | _ => None end.
Definition enc_f64 (x : fl) : json := JFlt (flm x) (fle x).
Definition dec_f64 (j : json) : option fl :=
  match j with JFlt m e => Some (Mk_fl m e) | JInt z => Some (fl_of_Z z) | _ => None end.

(* ---- containers ---- *)
Fixpoint dec_all {A} (dec : json -> option A) (l : list json) : option (list A) :=
  match l with
  | [] => Some []
  | a :: r => bind (dec a) (fun x => bind (dec_all dec r) (fun xs => Some (x :: xs)))
  end.
Definition enc_list {A} (e : A -> json) (l : list A) : json := JArr (map e l).
Definition dec_list {A} (dec : json -> option A) (j : json) : option (list A) :=
  match j with JArr l => dec_all dec l | _ => None end.

Definition enc_opt {A} (e : A -> json) (o : option A) : json :=
  match o with Some a => e a | None => JNull end.
Definition dec_opt {A} (dec : json -> option A) (j : json) : option (option A) :=
  if is_null j then Some None else option_map Some (dec j).

Definition enc_pair {A B} (ea : A -> json) (eb : B -> json) (p : A * B) : json :=
  JArr [ea (fst p); eb (snd p)].
Definition dec_pair {A B} (da : json -> option A) (db : json -> option B) (j : json) : option (A * B) :=
  match j with
  | JArr [a; b] => bind (da a) (fun x => bind (db b) (fun y => Some (x, y)))
  | _ => None
  end.

(* BTreeMap<String,String> as an association list in serialisation order (see header: sorting not modelled) *)
Definition enc_smap (m : list (string * string)) : json := JObj (map (fun kv => (fst kv, JStr (snd kv))) m).
Fixpoint dec_smap_all (l : list (string * json)) : option (list (string * string)) :=
  match l with
  | [] => Some []
  | (k, v) :: r => bind (dec_string v) (fun s => bind (dec_smap_all r) (fun xs => Some ((k, s) :: xs)))
  end.
Definition dec_smap (j : json) : option (list (string * string)) :=
  match j with JObj l => dec_smap_all l | _ => None end.

(* ---- enums ---- *)
(* externally tagged unit variant: "name" or {"name": null} *)
Definition unit_variant_name (j : json) : option string :=
  match j with
  | JStr s => Some s
  | JObj [(k, JNull)] => Some k
  | _ => None
  end.
(* index of the variant a name (or alias) denotes *)
Fixpoint vindex (s : string) (nss : list (list string)) : option nat :=
  match nss with
  | [] => None
  | ns :: r => if smem s ns then Some 0%nat else option_map S (vindex s r)
  end.
(* internally tagged: the tag of an object.  The tag value goes to the variant-identifier visitor.  Read directly from
   the JSON text (serde_json `deserialize_identifier`) it must be a string; read from buffered content (`b = true`: the enum
   sits inside another internally tagged or untagged enum, whose fields serde buffers as `Content`) an unsigned integer is
   accepted as well and taken as the variant index (`visit_u64`).  The index is turned into the variant's name here so
   that the decoders dispatch on names only. *)
Definition tag_of (b : bool) (t : string) (nss : list (list string)) (j : json) : option (string * list (string * json)) :=
  match j with
  | JObj kv =>
      match get [t] kv with
      | Once (JStr s) => Some (s, kv)
      | Once (JInt z) =>
          if b && Z.leb 0 z then
            match nth_error nss (Z.to_nat z) with Some (n :: _) => Some (n, kv) | _ => None end
          else None
      | _ => None
      end
  | _ => None
  end.
