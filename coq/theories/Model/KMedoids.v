(* Model of:
     vrp-core/src/algorithms/clustering/kmedoids.rs :: create_kmedoids, create_hierarchical_kmedoids,
        KMedoids::{initialize_medoids, assign_points_to_medoids, update_medoids, calculate}
     rosomaxa/src/utils/parallel.rs :: fold_reduce / map_reduce (rayon fold + reduce; the chunking is the oracle `chunks`)
   Points are nat, distances Z (integer-valued f64; `sum / len` averages compare like the sums on this domain).
   HashMap<P, Vec<P>> = association list keyed by medoid (first-insertion order, overwrite on insert);
   the hash iteration order of `clusters.iter()` in update_medoids is the oracle `ord` (any function).
   `medoid.expect("should be set")` is the result HPanic (unreachable since repair 8db29ea: the root cluster's only
   point is its medoid).  k above the number of distinct points: the selection of medoids stops (repair ba4acde).
   `*_prefix` = the functions before these two repairs (for the witness theorems only).
   Entry points for the correspondence: run_kmedoids, run_hkmedoids.  Checker: check_kmedoids.  No proofs here. *)
From VRP Require Import Base.Tac.
From VRP Require Import Model.Lkh.   (* only for the multiset-equality test permb *)
Local Open Scope nat_scope.

Definition kmem (x : nat) (l : list nat) : bool := existsb (Nat.eqb x) l.
Definition cmap := list (nat * list nat).    (* medoid -> cluster *)

Fixpoint cm_push (k p : nat) (m : cmap) : cmap :=      (* clusters.entry(k).or_default().push(p) *)
  match m with
  | [] => [(k, [p])]
  | (k', c) :: r => if k' =? k then (k', c ++ [p]) :: r else (k', c) :: cm_push k p r
  end.
Fixpoint cm_put (k : nat) (c : list nat) (m : cmap) : cmap :=   (* insert: overwrite *)
  match m with
  | [] => [(k, c)]
  | (k', c') :: r => if k' =? k then (k', c) :: r else (k', c') :: cm_put k c r
  end.

Section KM.
  Variable d : nat -> nat -> Z.                          (* distance_fn *)
  Variable chunks : list nat -> list (list nat).         (* how rayon splits the data for fold_reduce *)
  Variable ord : list nat -> list nat.                   (* hash order of the updated medoids *)

  Definition sumd (a : nat) (data : list nat) : Z := fold_left (fun s p => (s + d a p)%Z) data 0%Z.

  (* Iterator::min_by : first minimum *)
  Fixpoint min_by (key : nat -> Z) (best : nat) (l : list nat) : nat :=
    match l with
    | [] => best
    | x :: r => if (key x <? key best)%Z then min_by key x r else min_by key best r
    end.
  Definition argmin (key : nat -> Z) (l : list nat) : option nat :=
    match l with [] => None | x :: r => Some (min_by key x r) end.

  Definition min_dist (p : nat) (medoids : list nat) : Z :=       (* medoids non-empty when used *)
    match medoids with
    | [] => 0%Z
    | m :: r => fold_left (fun b m' => if (d p m' <? b)%Z then d p m' else b) r (d p m)
    end.

  (* fold closure of the "next medoid" search: NOTE it REPLACES the accumulator by every non-medoid point *)
  Definition nm_fold (medoids : list nat) (acc : option (Z * nat)) (p : nat) : option (Z * nat) :=
    if kmem p medoids then acc else Some (min_dist p medoids, p).
  (* reduce closure: `if left.0 > right.0 { left } else { right }`, identity (NEG_INFINITY, None) = None *)
  Definition nm_reduce (l r : option (Z * nat)) : option (Z * nat) :=
    match l, r with
    | Some (dl, _), Some (dr, _) => if (dl >? dr)%Z then l else r
    | Some _, None => l
    | None, _ => r
    end.
  Definition next_medoid (data medoids : list nat) : option nat :=
    option_map snd
      (fold_left nm_reduce (map (fun ch => fold_left (nm_fold medoids) ch None) (chunks data)) None).

  Fixpoint more_medoids (fuel : nat) (k : nat) (data medoids : list nat) : option (list nat) :=
    match fuel with
    | O => Some medoids
    | S f => if length medoids <? k then
               match next_medoid data medoids with
               | None => Some medoids                      (* `else { break }` since repair ba4acde (finding C17-F3) *)
               | Some m => more_medoids f k data (medoids ++ [m])
               end
             else Some medoids
    end.

  Definition initialize_medoids (k : nat) (data : list nat) : option (list nat) :=
    match argmin (fun a => sumd a data) data with
    | None => None
    | Some first => more_medoids k k data [first]     (* at most k-1 additions are ever needed *)
    end.

  Definition nearest (p : nat) (medoids : list nat) : option nat := argmin (fun m => d p m) medoids.

  (* `.expect("cannot find nearest medoid")` : medoids is never empty here; a point without medoid is dropped in the model *)
  Definition assign (data medoids : list nat) : cmap :=
    fold_left (fun m p => match nearest p medoids with Some k => cm_push k p m | None => m end) data [].

  (* sum of d(point, p) over the cluster: note the argument order of distance_fn *)
  Definition sumd_to (p : nat) (c : list nat) : Z := fold_left (fun s q => (s + d q p)%Z) c 0%Z.
  Definition update_medoids (m : cmap) : list nat :=
    ord (flat_map (fun kc => match argmin (fun p => sumd_to p (snd kc)) (snd kc) with Some x => [x] | None => [] end) m).

  Fixpoint list_eqb (a b : list nat) : bool :=
    match a, b with
    | [], [] => true
    | x :: a', y :: b' => (x =? y) && list_eqb a' b'
    | _, _ => false
    end.

  (* the medoid vector after the iteration loop (max_iterations = iters) *)
  Fixpoint iterate (iters : nat) (data medoids : list nat) : list nat :=
    match iters with
    | O => medoids
    | S n => let nm := update_medoids (assign data medoids) in
             if list_eqb nm medoids then medoids else iterate n data nm
    end.

  Definition calculate (k : nat) (data : list nat) : cmap :=
    match initialize_medoids k data with
    | None => []
    | Some medoids => assign data (iterate 200 data medoids)
    end.

  Definition create_kmedoids (data : list nat) (k : nat) : cmap :=
    match data with [] => [] | _ => calculate k data end.

  (* ---------------------------------------------------------------- hierarchical *)
  Inductive hres := HOk (tiers : list cmap) | HPanic.

  (* one closure call of the scan: (tier map, next clusters) or panic *)
  Fixpoint tier_step (cur : list (option nat * list nat)) (tier : cmap) (next : list (option nat * list nat))
    : option (cmap * list (option nat * list nat)) :=
    match cur with
    | [] => Some (tier, next)
    | (medoid, cdata) :: r =>
      if length cdata <? 2 then
        (* since repair 8db29ea (finding C17-F2): medoid.or_else(|| cluster_data.first().cloned()) *)
        let medoid := match medoid with Some m => Some m | None => hd_error cdata end in
        match medoid with
        | None => None                                           (* expect("should be set") *)
        | Some m => tier_step r (cm_put m cdata tier) (next ++ [(medoid, cdata)])
        end
      else
        let nc := create_kmedoids cdata 2 in
        tier_step r (fold_left (fun t kc => cm_put (fst kc) (snd kc) t) nc tier)
                  (next ++ map (fun kc => (Some (fst kc), snd kc)) nc)
    end.

  Fixpoint htiers (max_tiers : nat) (cur : list (option nat * list nat)) (acc : list cmap) : hres :=
    match max_tiers with
    | O => HOk (rev acc)
    | S n =>
      match tier_step cur [] [] with
      | None => HPanic
      | Some (tier, next) =>
        match tier with
        | [] => HOk (rev acc)                                            (* scan closure returned None *)
        | _ => if existsb (fun kc => 2 <? length (snd kc)) tier          (* take_while *)
               then htiers n next (tier :: acc) else HOk (rev acc)
        end
      end
    end.

  Definition create_hierarchical_kmedoids (data : list nat) (max_tiers : nat) : hres :=
    match data with
    | [] => HOk []
    | _ => htiers max_tiers [(None, data)] []
    end.

  (* ---------------------------------------------------------------- the functions as they were BEFORE the repairs
     ba4acde (C17-F3: initialize_medoids gave up with None when no unused point was left -> empty map) and
     8db29ea (C17-F2: the root cluster of a single point has no medoid -> expect panics); kept only for the witness
     theorems about the pre-fix code *)
  Fixpoint more_medoids_prefix (fuel : nat) (k : nat) (data medoids : list nat) : option (list nat) :=
    match fuel with
    | O => Some medoids
    | S f => if length medoids <? k then
               match next_medoid data medoids with
               | None => None
               | Some m => more_medoids_prefix f k data (medoids ++ [m])
               end
             else Some medoids
    end.
  Definition create_kmedoids_prefix (data : list nat) (k : nat) : cmap :=
    match data with
    | [] => []
    | _ => match argmin (fun a => sumd a data) data with
           | None => []
           | Some first => match more_medoids_prefix k k data [first] with
                           | None => []
                           | Some medoids => assign data (iterate 200 data medoids)
                           end
           end
    end.
  Fixpoint tier_step_prefix (cur : list (option nat * list nat)) (tier : cmap) (next : list (option nat * list nat))
    : option (cmap * list (option nat * list nat)) :=
    match cur with
    | [] => Some (tier, next)
    | (medoid, cdata) :: r =>
      if length cdata <? 2 then
        match medoid with
        | None => None                                           (* expect("should be set") *)
        | Some m => tier_step_prefix r (cm_put m cdata tier) (next ++ [(medoid, cdata)])
        end
      else
        let nc := create_kmedoids_prefix cdata 2 in
        tier_step_prefix r (fold_left (fun t kc => cm_put (fst kc) (snd kc) t) nc tier)
                         (next ++ map (fun kc => (Some (fst kc), snd kc)) nc)
    end.
  Fixpoint htiers_prefix (max_tiers : nat) (cur : list (option nat * list nat)) (acc : list cmap) : hres :=
    match max_tiers with
    | O => HOk (rev acc)
    | S n =>
      match tier_step_prefix cur [] [] with
      | None => HPanic
      | Some (tier, next) =>
        match tier with
        | [] => HOk (rev acc)
        | _ => if existsb (fun kc => 2 <? length (snd kc)) tier
               then htiers_prefix n next (tier :: acc) else HOk (rev acc)
        end
      end
    end.
  Definition create_hierarchical_kmedoids_prefix (data : list nat) (max_tiers : nat) : hres :=
    match data with
    | [] => HOk []
    | _ => htiers_prefix max_tiers [(None, data)] []
    end.

  (* an assignment tie between two medoids makes the output depend on the hash order *)
  Definition assign_tie (data medoids : list nat) : bool :=
    existsb (fun p => let best := min_dist p medoids in
                      1 <? length (filter (fun m => (d p m =? best)%Z) medoids)) data.
End KM.

(* rayon with a 1-thread pool: one split in the middle (len/2), no split for a single element *)
Definition halves (l : list nat) : list (list nat) :=
  match l with
  | [] => []
  | [_] => [l]
  | _ => [firstn (length l / 2) l; skipn (length l / 2) l]
  end.

Fixpoint ins_sorted (x : nat) (l : list nat) : list nat :=
  match l with [] => [x] | y :: r => if x <=? y then x :: l else y :: ins_sorted x r end.
Definition sort_nat (l : list nat) : list nat := fold_right ins_sorted [] l.
Fixpoint ins_key (kc : nat * list nat) (l : cmap) : cmap :=
  match l with [] => [kc] | y :: r => if fst kc <=? fst y then kc :: l else y :: ins_key kc r end.
Definition canon (m : cmap) : cmap := fold_right ins_key [] (map (fun kc => (fst kc, sort_nat (snd kc))) m).

Definition dmat (dm : list (list Z)) (a b : nat) : Z := nth b (nth a dm []) 0%Z.

(* every medoid vector the iteration visits (for tie detection) *)
Fixpoint trace (d : nat -> nat -> Z) (ord : list nat -> list nat) (iters : nat) (data medoids : list nat) : list (list nat) :=
  match iters with
  | O => [medoids]
  | S n => let nm := update_medoids d ord (assign d data medoids) in
           if list_eqb nm medoids then [medoids] else medoids :: trace d ord n data nm
  end.

(* (tie flag, canonical clusters) *)
Definition run_kmedoids (dm : list (list Z)) (data : list nat) (k : nat) : bool * cmap :=
  let d := dmat dm in
  (match data with
   | [] => false
   | _ => match initialize_medoids d halves k data with
          | None => false
          | Some ms => existsb (assign_tie d data) (trace d sort_nat 200 data ms)
          end
   end,
   canon (create_kmedoids d halves sort_nat data k)).

Definition run_hkmedoids (dm : list (list Z)) (data : list nat) (tiers : nat) : option (list cmap) :=
  match create_hierarchical_kmedoids (dmat dm) halves sort_nat data tiers with
  | HOk ts => Some (map canon ts)
  | HPanic => None
  end.

(* ---------------------------------------------------------------- executable contract checker
   clauses: 1 = the clusters are a partition of the points (as multisets), 2 = some point is closer to another
   cluster's medoid than to its own *)
Definition nearest_ok (d : nat -> nat -> Z) (m : cmap) : bool :=
  forallb (fun kc => forallb (fun p => forallb (fun kc' => (d p (fst kc) <=? d p (fst kc'))%Z) m) (snd kc)) m.

Definition check_kmedoids (dm : list (list Z)) (data : list nat) (m : cmap) : list nat :=
  (if permb (flat_map snd m) data then [] else [1]) ++ (if nearest_ok (dmat dm) m then [] else [2]).
