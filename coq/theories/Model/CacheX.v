(* C05, cross-tour cached quantities: per-SOLUTION aggregates that are written INTO per-route state.
   Rust items modelled (vrp-core/src):
     construction/features/reloads.rs   :: SharedResourceState::{accept_insertion, accept_route_state, accept_solution_state,
                                           update_resource_consumption (first pass: total demand per shared resource over the reload
                                           intervals of ALL tours; second pass: "capacity - total demand" stored on EVERY tour, stale
                                           or not), prevent_resource_consumption, get_total_demand}, get_activity_by_idx (expect ->
                                           explicit panic value), the is_partial_solution_fn guard
     construction/enablers/route_intervals.rs :: get_route_intervals (the marker intervals a tour is cut into; the accumulator's
                                           `acc.last().map_or(0, |item| item.1 + 1)` is threaded as the argument `start`)
     construction/enablers/multi_trip.rs :: MultiTripState::{accept_route_state (intervals stored in the route state),
                                           accept_solution_state (stale tours refreshed; update_solution_intervals may REMOVE a
                                           marker from a tour through route_mut and push it to `ignored`)}
     construction/enablers/feature_combinator.rs :: accept_solution_state_with_states WITH its re-run loop: a round in which the
                                           pending lists changed is abandoned and restarted; the last round runs every handler on
                                           the final tours; then "unset all".  (Model/Cache.v has the single-round version.)
   Part 1 extends the protocol of Model/Cache.v by `xfeature`s: a field of one tour whose value is read from ALL route contexts
   (`xf_read`), with the scope of the second pass as a parameter (`XAll` = the code; `XStaleOnly` = "skip not modified tours",
   the class of seeded change C05-5).  Handlers of per-tour features run before the cross-tour ones in every round (in the code
   MultiTripState precedes SharedResourceState inside one CombinedFeatureState; other features may follow - their handlers are
   idempotent refreshes of other keys, so the order against them is not observable).
   Part 1 also has GoalContext::accept_route_state over a goal that holds a CombinedFeatureState
     (feature_combinator.rs :: CombinedFeatureState::accept_route_state): since /repo 05d96ed the parts' handlers run inside the
     caller's clear / unset bracket; before (finding C05-F2) it was a nested accept_route_state_with_states (`nested = true`).
   Part 2 is the concrete shared-resource feature over tours of simple activities; the cached vector `available_resources`
   (None everywhere except at the first activity of a reload interval) is represented by its entries at the interval starts,
   in interval order - exactly what SharedResourceConstraint::evaluate_activity can read.
   Entry point for the correspondence (tools/props/c05_shared.py): run_shared.
   No proofs in this file. *)
From VRP Require Import Base.Tac Model.Cache.

(* ================= part 1: the protocol with cross-tour fields ================= *)
Section ProtocolX.
Variable tour : Type.
Variable job : Type.
Variable value : Type.
Notation feature := (feature tour job value).
Notation rctx := (rctx tour value).

(* which route contexts the second pass of the solution-level update writes *)
Inductive xscope := XAll | XStaleOnly.

Record xfeature := mkXF {
  xf_key : nat;
  xf_prevent : tour -> option value;               (* accept_route_state: the value a changed tour gets (no cross-tour knowledge) *)
  xf_read : list rctx -> rctx -> option value;     (* update: the value of one route, read from ALL route contexts (tours + caches) *)
  xf_spec : list tour -> tour -> option value;     (* the field as a function of the bare tours *)
  xf_scope : xscope
}.

(* state_mut().set_...: writes the field, marks the context stale *)
Definition x_write (xf : xfeature) (v : option value) (r : rctx) : rctx :=
  mkRctx (rc_tour r) (set_key value (rc_state r) (xf_key xf) v) true.

Definition x_prevent (xf : xfeature) (r : rctx) : rctx := x_write xf (xf_prevent xf (rc_tour r)) r.

(* update_resource_consumption: nothing at all in a partial solution; otherwise the value of every route is computed from the
   contexts as they are BEFORE the second pass and written to the routes in scope *)
Definition x_update (partial : bool) (xf : xfeature) (rs : list rctx) : list rctx :=
  if partial then rs
  else map (fun r => match xf_scope xf with
                     | XAll => x_write xf (xf_read xf rs r) r
                     | XStaleOnly => if rc_stale r then x_write xf (xf_read xf rs r) r else r
                     end) rs.

Definition x_updates (partial : bool) (xfs : list xfeature) (rs : list rctx) : list rctx :=
  fold_left (fun acc xf => x_update partial xf acc) xfs rs.

(* accept_route_state_with_states with the cross-tour features' route-level handler (prevent) *)
Definition accept_route_state_x (fs : list feature) (xfs : list xfeature) (r : rctx) : rctx :=
  if rc_stale r then
    let cleared := mkRctx (rc_tour r) (fun _ => None) true in
    let r1 := fold_left (fun acc f => if f_on_route f then refresh tour job value f acc else acc) fs cleared in
    let r2 := fold_left (fun acc xf => x_prevent xf acc) xfs r1 in
    mkRctx (rc_tour r2) (rc_state r2) false
  else r.

Fixpoint update_nth {A} (i : nat) (g : A -> A) (l : list A) {struct l} : list A :=
  match l, i with
  | [], _ => []
  | a :: r, O => g a :: r
  | a :: r, S k => a :: update_nth k g r
  end.

(* accept_insertion_with_states after job j went into route i: the per-tour handlers of that route, then for every cross-tour
   feature: prevent on that route, update over the whole solution *)
Definition accept_insertion_x (fs : list feature) (xfs : list xfeature) (partial : bool)
           (ins : job -> tour -> tour) (j : job) (i : nat) (rs : list rctx) : list rctx :=
  let rs1 := update_nth i (apply_insertion tour job value fs ins j) rs in
  fold_left (fun acc xf => x_update partial xf (update_nth i (x_prevent xf) acc)) xfs rs1.

(* one round of per-tour solution-level handlers *)
Definition sol_round (fs : list feature) (rs : list rctx) : list rctx :=
  map (fun r => fold_left (fun acc f => sol_handler tour job value f acc) fs r) rs.

Definition unset (r : rctx) : rctx := mkRctx (rc_tour r) (rc_state r) false.

(* accept_solution_state_with_states: `edits` is what the solution-level clean-up does to the tours in one round
   (remove_trivial_markers: a marker taken out of a tour through route_mut and pushed to `ignored`): Some = the pending lists
   changed, the round is abandoned (the cross-tour handler has not run) and everything restarts; None = nothing to clean up,
   the round completes, the flags are unset.  fuel = the code's `assert_ne!(counter, 100)`; None = that assertion fails. *)
Fixpoint accept_solution_loop (fs : list feature) (xfs : list xfeature) (edits : list rctx -> option (list rctx))
         (partial : bool) (fuel : nat) (rs : list rctx) : option (list rctx) :=
  match fuel with
  | O => None
  | S k =>
    let rs1 := sol_round fs rs in
    match edits rs1 with
    | Some rs2 => accept_solution_loop fs xfs edits partial k rs2
    | None => Some (map unset (x_updates partial xfs rs1))
    end
  end.

(* ---- the goal's list of feature states: a plain state, or a CombinedFeatureState over several states ---- *)
Inductive entry := EOne (f : feature) | ECombined (gs : list feature) (xs : list xfeature).

(* CombinedFeatureState::accept_route_state since /repo 05d96ed: the route-level handlers of its own states, inside the
   caller's clear / unset bracket *)
Definition combined_route (gs : list feature) (xs : list xfeature) (r : rctx) : rctx :=
  fold_left (fun acc xf => x_prevent xf acc) xs
            (fold_left (fun acc f => if f_on_route f then refresh tour job value f acc else acc) gs r).

(* `nested` = the code BEFORE 05d96ed (finding C05-F2, regression mutant C05-10): CombinedFeatureState::accept_route_state WAS
   accept_route_state_with_states(&self.states, route_ctx): the nested call tests the stale flag (set: the outer call has just
   cleared the state through state_mut), clears the WHOLE route state again, runs its own handlers and unsets the flag *)
Definition entry_route (nested : bool) (e : entry) (r : rctx) : rctx :=
  match e with
  | EOne f => if f_on_route f then refresh tour job value f r else r
  | ECombined gs xs => if nested then accept_route_state_x gs xs r else combined_route gs xs r
  end.

(* GoalContext::accept_route_state over such a list *)
Definition goal_accept_route_state (nested : bool) (es : list entry) (r : rctx) : rctx :=
  if rc_stale r then
    unset (fold_left (fun acc e => entry_route nested e acc) es (mkRctx (rc_tour r) (fun _ => None) true))
  else r.

(* the per-tour features of a goal, in handler order *)
Definition flat_fs (es : list entry) : list feature :=
  flat_map (fun e => match e with EOne f => [f] | ECombined gs _ => gs end) es.
(* the keys the handlers of a goal write, in handler order *)
Definition entry_keys (es : list entry) : list nat :=
  flat_map (fun e => match e with EOne f => [f_key f] | ECombined gs xs => map f_key gs ++ map xf_key xs end) es.
End ProtocolX.

Arguments mkXF {tour value}.
Arguments xf_key {tour value}.
Arguments xf_prevent {tour value}.
Arguments xf_read {tour value}.
Arguments xf_spec {tour value}.
Arguments xf_scope {tour value}.
Arguments EOne {tour job value}.
Arguments ECombined {tour job value}.

(* ================= part 2: the shared reload resource ================= *)
(* an activity: job id (-1 = vehicle start / end: no job), is_reload_single of its job, resource_capacity_fn of the activity
   (capacity, resource id), resource_demand_fn of its job *)
Record sact := mkSA { sa_job : Z; sa_marker : bool; sa_res : option (Z * Z); sa_dem : option Z }.
Definition has_job (a : sact) : bool := 0 <=? sa_job a.
Definition is_marker (a : sact) : bool := has_job a && sa_marker a.

(* get_route_intervals: idx = index of the head of `acts`, start = end of the last pushed interval + 1 (0 at the beginning) *)
Fixpoint ivs_from (idx last_idx : nat) (acts : list sact) (start : nat) : list (nat * nat) :=
  match acts with
  | [] => []
  | a :: rest =>
    let m := is_marker a in
    let is_last := (idx =? last_idx)%nat in
    if m || is_last then
      let e := if is_last then last_idx else (idx - 1)%nat in
      if m && is_last then (start, (e - 1)%nat) :: (e, e) :: ivs_from (S idx) last_idx rest (S e)
      else (start, e) :: ivs_from (S idx) last_idx rest (S e)
    else ivs_from (S idx) last_idx rest start
  end.
Definition intervals_of (t : list sact) : list (nat * nat) := ivs_from 0 (length t - 1) t 0.

Inductive xval := XIntervals (ivs : list (nat * nat)) | XAvail (entries : list (nat * option Z)) | XPanic
               | XTotal (n : Z).      (* a per-tour total: stand-in for the fields of a feature listed before the combined one *)

(* get_total_demand over start..=end: indices outside the tour and activities without a job are skipped *)
Definition dem_of (a : sact) : Z := if has_job a then match sa_dem a with Some d => d | None => 0 end else 0.
Definition interval_demand (t : list sact) (s e : nat) : Z :=
  fold_left (fun acc a => acc + dem_of a) (firstn (S e - s) (skipn s t)) 0.

(* HashMap<SharedResourceId, T>: entry(id).or_default() += demand *)
Fixpoint add_entry (id d : Z) (m : list (Z * Z)) : list (Z * Z) :=
  match m with
  | [] => [(id, 0 + d)]
  | (k, v) :: r => if k =? id then (k, v + d) :: r else (k, v) :: add_entry id d r
  end.
Fixpoint lookup (id : Z) (m : list (Z * Z)) : option Z :=
  match m with [] => None | (k, v) :: r => if k =? id then Some v else lookup id r end.
Definition totals (cs : list (Z * Z)) : list (Z * Z) := fold_left (fun m p => add_entry (fst p) (snd p) m) cs [].

(* first pass over one route: (resource id, demand of the interval) of every cached interval that starts at an activity with a
   resource; None = get_activity_by_idx panics *)
Fixpoint route_contribs (t : list sact) (ivs : list (nat * nat)) : option (list (Z * Z)) :=
  match ivs with
  | [] => Some []
  | (s, e) :: r =>
    match nth_error t s, route_contribs t r with
    | Some a, Some l => Some (match sa_res a with Some (_, id) => (id, interval_demand t s e) :: l | None => l end)
    | _, _ => None
    end
  end.

(* second pass over one route: the entry of every cached interval *)
Fixpoint avail_entries (total : list (Z * Z)) (t : list sact) (ivs : list (nat * nat)) : option (list (nat * option Z)) :=
  match ivs with
  | [] => Some []
  | (s, _) :: r =>
    match nth_error t s, avail_entries total t r with
    | Some a, Some l =>
      Some ((s, match sa_res a with Some (cap, id) => option_map (fun d => cap - d) (lookup id total) | None => None end) :: l)
    | _, _ => None
    end
  end.

Definition K_INTERVALS : nat := 4.
Definition K_SHARED : nat := 5.
Notation srctx := (rctx (list sact) xval).

(* route_ctx.state().get_reload_intervals(): absent = no interval *)
Definition cached_intervals (r : srctx) : list (nat * nat) :=
  match rc_state r K_INTERVALS with Some (XIntervals l) => l | _ => [] end.

Fixpoint all_contribs (rs : list srctx) : option (list (Z * Z)) :=
  match rs with
  | [] => Some []
  | r :: rest =>
    match route_contribs (rc_tour r) (cached_intervals r), all_contribs rest with
    | Some a, Some b => Some (a ++ b)
    | _, _ => None
    end
  end.

(* update_resource_consumption for one route, from the route contexts as they are *)
Definition shared_read (rs : list srctx) (r : srctx) : option xval :=
  match all_contribs rs with
  | None => Some XPanic
  | Some cs =>
    match avail_entries (totals cs) (rc_tour r) (cached_intervals r) with
    | None => Some XPanic
    | Some l => Some (XAvail l)
    end
  end.

(* ---- the same quantity from the bare tours alone ---- *)
Definition contrib1 (t : list sact) (se : nat * nat) : list (Z * Z) :=
  match nth_error t (fst se) with
  | Some a => match sa_res a with Some (_, id) => [(id, interval_demand t (fst se) (snd se))] | None => [] end
  | None => []
  end.
Definition contribs_spec (t : list sact) : list (Z * Z) := flat_map (contrib1 t) (intervals_of t).
Definition sum_for (id : Z) (cs : list (Z * Z)) : Z :=
  fold_right (fun p acc => if fst p =? id then snd p + acc else acc) 0 cs.
(* what all reload intervals of all tours draw from resource id; None = no interval uses it *)
Definition resource_total (ts : list (list sact)) (id : Z) : option Z :=
  let cs := flat_map contribs_spec ts in
  if existsb (fun p => fst p =? id) cs then Some (sum_for id cs) else None.
Definition entry1 (total : Z -> option Z) (t : list sact) (se : nat * nat) : nat * option Z :=
  (fst se, match nth_error t (fst se) with
           | Some a => match sa_res a with Some (cap, id) => option_map (fun d => cap - d) (total id) | None => None end
           | None => None
           end).
Definition avail_spec_entries (ts : list (list sact)) (t : list sact) : list (nat * option Z) :=
  map (entry1 (resource_total ts) t) (intervals_of t).
Definition avail_spec (ts : list (list sact)) (t : list sact) : option xval := Some (XAvail (avail_spec_entries ts t)).

(* prevent_resource_consumption: zero for every interval that starts at a resource and holds a job with a resource demand
   (the intervals were refreshed by MultiTripState::accept_route_state just before: same accept_route_state pass) *)
Definition prevent_entries (t : list sact) : list (nat * option Z) :=
  map (fun se => (fst se, match nth_error t (fst se) with
                          | Some a => match sa_res a with
                                      | Some _ => if existsb (fun b => has_job b && match sa_dem b with Some _ => true | None => false end)
                                                             (firstn (S (snd se) - fst se) (skipn (fst se) t))
                                                  then Some 0 else None
                                      | None => None
                                      end
                          | None => None
                          end)) (intervals_of t).

(* the table: the reload intervals (MultiTripState: insertion always / route yes / solution: stale tours) and the shared
   resource availability (cross-tour; second pass over `scope`) *)
Definition intervals_feature : feature (list sact) Z xval :=
  mkFeature K_INTERVALS (fun t => Some (XIntervals (intervals_of t))) (fun _ => true) true SolStale.
Definition shared_feature (scope : xscope) : xfeature (list sact) xval :=
  mkXF K_SHARED (fun t => Some (XAvail (prevent_entries t))) shared_read avail_spec scope.
Definition shared_table : list (feature (list sact) Z xval) := [intervals_feature].
(* the code as it is: every tour is written *)
Definition shared_shipped : list (xfeature (list sact) xval) := [shared_feature XAll].
(* "skip not modified tours" (seeded change C05-5) *)
Definition shared_stale_only : list (xfeature (list sact) xval) := [shared_feature XStaleOnly].

Definition no_edits : list srctx -> option (list srctx) := fun _ => None.

(* a per-tour feature listed BEFORE the combined reload feature in the goal (as TransportState is in vrp-pragmatic's goals) *)
Definition K_TOTAL : nat := 0.
Definition total_feature : feature (list sact) Z xval :=
  mkFeature K_TOTAL (fun t => Some (XTotal (Z.of_nat (length t)))) (fun _ => true) true SolStale.
(* goal = [transport-like; CombinedFeatureState [MultiTripState; SharedResourceState]] *)
Definition shared_goal : list (entry (list sact) Z xval) := [EOne total_feature; ECombined shared_table shared_shipped].

(* ---- correspondence: every dumped state is a list of tours; per tour the intervals and the availability entries ---- *)
Definition run_shared (states : list (list (list sact))) : list (list (list (nat * nat) * list (nat * option Z))) :=
  map (fun ts => map (fun t => (intervals_of t, avail_spec_entries ts t)) ts) states.
