(* C18 — bit-exact twin of the slot machine over Coq primitive floats (IEEE-754 binary64, round-to-nearest-even,
   the arithmetic of Rust's f64 for + - * / sqrt).  Same statements, same operation order as
   rosomaxa/src/algorithms/rl/slot_machine.rs :: SlotMachine::{new, update, sample, get_params};
   `(x).powi(2)` is x*x (compiler-rt __powidf2 for exponent 2 performs exactly one multiplication a*a, then 1*a^2).
   `self.n as Float` is exact for n < 2^53.  0.001 is written as the hex literal of the nearest double.
   Entry points used by the correspondence: run_slotF, run_sampleF (floats travel as u64 bit patterns in Z; NaN -> -1).
   No proofs in this file. *)
From Coq Require Import Floats.
From VRP Require Import Base.Tac.

Definition two52 : Z := 4503599627370496.
Definition two63z : Z := 9223372036854775808.

Definition sf_of_bits (b : Z) : spec_float :=
  let s := (two63z <=? b) in
  let r := if s then b - two63z else b in
  let e := r / two52 in
  let m := r mod two52 in
  if e =? 2047 then (if m =? 0 then S754_infinity s else S754_nan)
  else if e =? 0 then (if m =? 0 then S754_zero s else S754_finite s (Z.to_pos m) (-1074))
  else S754_finite s (Z.to_pos (m + two52)) (e - 1075).

Definition f_of_bits (b : Z) : float := SF2Prim (sf_of_bits b).

(* bit patterns written as primitive-integer literals (fast to parse): bp i = i, bn i = i + 2^63 (sign bit set) *)
Definition bp (i : Uint63.int) : Z := Uint63.to_Z i.
Definition bn (i : Uint63.int) : Z := Uint63.to_Z i + two63z.

Definition bits_of_sf (x : spec_float) : Z :=
  let sg (s : bool) := if s then two63z else 0 in
  match x with
  | S754_zero s => sg s
  | S754_infinity s => sg s + 2047 * two52
  | S754_nan => -1
  | S754_finite s m e =>
      let m := Zpos m in
      if m <? two52 then sg s + m else sg s + (e + 1075) * two52 + (m - two52)
  end.

Definition bits_of_f (f : float) : Z := bits_of_sf (Prim2SF f).

Definition f_of_nat (n : nat) : float := PrimFloat.of_uint63 (Uint63.of_Z (Z.of_nat n)).

Record fslot := mkF { f_n : nat; f_alpha : float; f_beta : float; f_mu : float; f_v : float }.

Open Scope float_scope.

Definition fslot_new (prior : float) : fslot :=
  let alpha := 1 in
  let beta := 10 in
  mkF 0 alpha beta prior (beta / (alpha + 1)).

Definition fslot_update (s : fslot) (reward : float) : fslot :=
  let n := 1 in
  let v := f_of_nat (f_n s) in
  let alpha' := f_alpha s + n / 2 in
  let d := reward - f_mu s in
  let beta' := f_beta s + (n * v / (v + n)) * (d * d) / 2 in
  let v' := beta' / (alpha' + 1) in
  let n' := S (f_n s) in
  let mu' := f_mu s + (reward - f_mu s) / f_of_nat n' in
  mkF n' alpha' beta' mu' v'.

Definition fslot_run (prior : float) (rs : list float) : fslot := fold_left fslot_update rs (fslot_new prior).

(* arguments of the two sampler calls of SlotMachine::sample, g = value returned by the gamma call *)
Definition fsample_args (s : fslot) (g : float) : list float :=
  let scale := 1 / f_beta s in
  let precision := if (g =? 0) || Nat.eqb (f_n s) 0 then 0x1.0624dd2f1a9fcp-10 else g in
  let variance := 1 / precision in
  [f_alpha s; scale; f_mu s; PrimFloat.sqrt variance].

Close Scope float_scope.

Definition fslot_out (s : fslot) : list Z :=
  [bits_of_f (f_alpha s); bits_of_f (f_beta s); bits_of_f (f_mu s); bits_of_f (f_v s); Z.of_nat (f_n s)].

(* states after every `stride`-th update and after the last one *)
Fixpoint ftrace (s : fslot) (rs : list float) (k stride : nat) : list (list Z) :=
  match rs with
  | [] => [fslot_out s]
  | r :: rs' =>
      (if Nat.eqb (Nat.modulo k stride) 0 then [fslot_out s] else []) ++ ftrace (fslot_update s r) rs' (S k) stride
  end.

Definition run_slotF (prior : Z) (rs : list Z) (stride : nat) : list (list Z) :=
  ftrace (fslot_new (f_of_bits prior)) (map f_of_bits rs) 0 stride.

Definition run_sampleF (prior : Z) (rs : list Z) (g : Z) : list Z :=
  map bits_of_f (fsample_args (fslot_run (f_of_bits prior) (map f_of_bits rs)) (f_of_bits g)).

(* sample() after k updates, for several (k, gamma draw) pairs *)
Definition run_samplesF (prior : Z) (rs : list Z) (ks : list (nat * Z)) : list (list Z) :=
  map (fun kg => run_sampleF prior (firstn (fst kg) rs) (snd kg)) ks.

(* the quotient inside get_relative_distance (rosomaxa/src/hyper/dynamic_selective.rs): (a - b).abs() / a.abs().max(b.abs()),
   for finite non-NaN operands (f64::max = the larger one) *)
Definition fmax (x y : float) : float := if PrimFloat.ltb x y then y else x.
Definition frel_value (a b : float) : float :=
  PrimFloat.div (PrimFloat.abs (PrimFloat.sub a b)) (fmax (PrimFloat.abs a) (PrimFloat.abs b)).
Definition run_relvalueF (a b : Z) : Z := bits_of_f (frel_value (f_of_bits a) (f_of_bits b)).
