(* C15, third model: the outer fold of eval_multi over the allowed permutations of a multi job, as a function of best_known_cost.
   Rust items modelled:
     vrp-core/src/construction/heuristics/evaluators.rs :: eval_multi — `multi.permutations().into_iter().try_fold(
                                       MultiContext::new(best_known_cost, insertion_idx), |acc_res, services| { ..;
                                       MultiContext::promote(perm_res, acc_res) })` and the InsertionResult built from the final
                                       context (is_success: no violation, a cost AND activities; otherwise a failure with the
                                       context's violation or (unknown, not stopped), always with the job)
     vrp-core/src/construction/heuristics/evaluators.rs :: MultiContext::{new, promote} restricted to the fields the outer fold reads
                                       (violation, cost, activities present or not); every permutation's own result `perm_res`
                                       (the inner loops over start indices and sub-jobs: Model/ObjectivesX.v, property C20) is an input
   Entry point used by the correspondence: run_multi.   No proofs in this file. *)
From VRP Require Import Base.Tac Model.CostOrder Model.Reduce Model.Core Model.Reduce2.

Section MultiPerm.
Variable S : Type.
Variable C : Type.
Variable cost : S -> C.
Variable lt : C -> C -> bool.

(* result of one permutation (MultiContext after its inner loops) *)
Inductive perm_res := PSucc (s : S) | PFail (code : Z) (stopped : bool).

(* the accumulator of the outer fold: MNew known = MultiContext::new(best_known_cost, _) (cost = best_known_cost, no activities,
   no violation); MSucc = a promoted success; MFailed = a promoted failure (violation, no cost) *)
Inductive macc := MNew (known : option C) | MSucc (s : S) | MFailed (code : Z) (stopped : bool).

(* MultiContext::promote(left = perm_res, right = acc): best = by cost (`left < right` strictly, else right); with one cost only
   that side; with no cost the left one if it has a violation.  Break iff the promoted context carries a stopped violation *)
Definition mp_promote (left : perm_res) (right : macc) : macc * bool :=
  match left, right with
  | PSucc l, MNew (Some a) => (if lt (cost l) a then MSucc l else right, false)
  | PSucc l, MNew None => (MSucc l, false)
  | PSucc l, MSucc r => (if lt (cost l) (cost r) then MSucc l else right, false)
  | PSucc l, MFailed _ _ => (MSucc l, false)
  | PFail c st, MNew (Some _) => (right, false)
  | PFail c st, MNew None => (MFailed c st, st)
  | PFail c st, MSucc _ => (right, false)
  | PFail c st, MFailed _ _ => (MFailed c st, st)
  end.

Fixpoint mp_fold (perms : list perm_res) (acc : macc) : macc :=
  match perms with
  | [] => acc
  | p :: r => let '(res, brk) := mp_promote p acc in if brk then res else mp_fold r res
  end.

Definition mp_result (job : Z) (m : macc) : result S :=
  match m with
  | MSucc s => RSuccess s
  | MFailed c st => RFailure (mkFail c st (Some job))
  | MNew _ => RFailure (mkFail UNKNOWN false (Some job))        (* a cost without activities is not a success *)
  end.

(* eval_multi as a function of best_known_cost *)
Definition multi_run (job : Z) (perms : list perm_res) (known : option C) : result S :=
  mp_result job (mp_fold perms (MNew known)).
Definition multi_cell (rc : C) (job : Z) (perms : list perm_res) : cell S C := CEval rc (multi_run job perms).

(* the variant of seeded change C15-5: with a best-known cost only the first permutation is analysed *)
Definition multi_run_first_only (job : Z) (perms : list perm_res) (known : option C) : result S :=
  match known with
  | Some _ => multi_run job (firstn 1 perms) known
  | None => multi_run job perms None
  end.

Definition no_stopped (perms : list perm_res) : Prop :=
  forall c, ~ In (PFail c true) perms.
End MultiPerm.

Arguments PSucc {S} s.
Arguments PFail {S} code stopped.
Arguments MNew {S C} known.
Arguments MSucc {S C} s.
Arguments MFailed {S C} code stopped.

(* correspondence entry: cost vectors; per permutation the real result of the multi job restricted to that permutation *)
Definition run_multi (perms : list (@perm_res vsucc)) (known : option (list Z)) :=
  v_out (multi_run vsucc (list Z) fst vlt 0 perms known).
