(* C20, goal level: the estimate (quote) and the fitness of EVERY additive-looking objective feature the default pragmatic goal can
   contain, the assembly of the InsertionCost vector per layer order, the exhaustive evaluator over routes x jobs with vector-valued
   costs, and what carrying a candidate out does to the objective values.
   Rust items modelled:
     vrp-core/src/construction/features/minimize_unassigned.rs :: MinimizeUnassignedObjective::{fitness, estimate} with ANY
                                               unassigned_job_estimator; MinimizeUnassignedBuilder::build (default estimator = 1)
     vrp-pragmatic/src/format/problem/goal_reader.rs :: the estimator installed for Objective::MinimizeUnassigned { breaks }
                                               (cluster size / break value / 1) and the JobReadValueFn installed for
                                               Objective::MaximizeValue { breaks } (job value / break value / 0);
                                               eval_multi_objective_strategy (MultiStrategy::Sum, ::WeightedSum: the estimate part)
     vrp-core/src/construction/features/fleet_usage.rs :: create_minimize_tours_feature, create_maximize_tours_feature,
                                               create_minimize_arrival_time_feature, FleetUsageObjective::{fitness, estimate}
     vrp-core/src/construction/features/total_value.rs :: create_maximize_total_job_value_feature (estimate_value_fn = -1 * read fn,
                                               JobReadValueFn::Left / ::Right), MaximizeTotalValueObjective::{fitness, estimate},
                                               MaximizeTotalValueConstraint::merge (value of a merged job)
     vrp-core/src/construction/features/transport.rs :: DistanceObjective / DurationObjective / CostObjective ::{fitness, estimate}
                                               (estimate_leg, estimate_route, estimate_activity through Model/Core.v, Model/ObjectivesX.v)
     vrp-core/src/models/goal.rs              :: Goal::estimate (one component per layer), Goal::fitness (one component per objective),
                                               GoalBuilder::{add_single, add_multi} (estimate part)
     vrp-core/src/construction/heuristics/evaluators.rs :: eval_job_insertion_in_route (all exits, through Model/Reduce2.v `cell`),
                                               eval_single, analyze_insertion_in_route (InsertionPosition::Any, started from
                                               best_known_cost), analyze_insertion_in_route_leg with VECTOR costs
                                               (`goal.estimate(activity) + &route_costs`, select_cost)
     vrp-core/src/construction/heuristics/selectors.rs :: PositionInsertionEvaluator::evaluate_all (Model/Reduce2.v evaluate_all)
     vrp-core/src/construction/heuristics/insertions.rs :: apply_insertion_success, finalize_insertion_ctx (finalize_unassigned)
     vrp-core/src/construction/enablers/schedule_update.rs :: update_statistics under a time-DEPENDENT distance (section TD)
   Conventions: integer-valued data (Z); a cost vector is the list of its components, `+` is Model/CostOrder.v icost_add (zip with
   zero padding, as impl Add for InsertionCost), `<` is Model/Reduce.v vlt (lexicographic with zero padding; the sign of zero is C09's
   subject).  The arrival-time objective's fitness is a quotient: feat_fitness gives the numerator, feat_fit_den the denominator.
   Jobs are single jobs (one activity per job); a tour activity's a_job is its job id.
   Entry points of the correspondence (sub-stream c20_sel): run_c20sel, run_c20prag.   No proofs in this file. *)
From VRP Require Import Base.Tac Model.CostOrder Model.Reduce Model.Core Spec.Feasible Model.Eval Model.Objectives Model.ObjectivesX Model.Reduce2.

(* ================= actors, routes, solution ================= *)
Record groute := mkGR {
  gr_id : Z;                  (* the actor *)
  gr_veh : vehicle; gr_drv : dcosts;
  gr_shift_start : Z;         (* actor.detail.time.start *)
  gr_closed : bool;
  gr_tour : list act
}.
Definition gr_with (r : groute) (t : list act) : groute :=
  mkGR (gr_id r) (gr_veh r) (gr_drv r) (gr_shift_start r) (gr_closed r) t.

Record gsol := mkGS {
  gs_routes : list groute;    (* solution.routes *)
  gs_required : list Z; gs_unassigned : list Z; gs_ignored : list Z
}.

(* ================= features ================= *)
(* job attributes the pragmatic estimators read *)
Record jattr := mkJA { ja_value : option Z; ja_break : bool; ja_clusters : option nat }.

(* goal_reader.rs, Objective::MinimizeUnassigned { breaks }: clusters.len() * 1, else "break" => breaks.unwrap_or(1), else 1 *)
Definition prag_unassigned_est (breaks : option Z) (a : jattr) : Z :=
  match ja_clusters a with
  | Some n => Z.of_nat n * 1
  | None => if ja_break a then match breaks with Some b => b | None => 1 end else 1
  end.
(* goal_reader.rs, Objective::MaximizeValue { breaks }: job value, else the break value for a break, else 0 *)
Definition prag_value (breaks : option Z) (a : jattr) : Z :=
  match ja_value a with
  | Some v => v
  | None => if ja_break a then match breaks with Some b => b | None => 0 end else 0
  end.
(* MaximizeTotalValueConstraint::merge (JobReadValueFn::Left): the merged job carries source + candidate, written only when it differs *)
Definition merged_value (source candidate : Z) : Z :=
  let nv := source + candidate in if negb (nv =? source) then nv else source.

Inductive feat :=
| FUnassigned (uest : Z -> Z)          (* unassigned_job_estimator as a function of the job (the SolutionContext argument is unused by every estimator in the tree) *)
| FMinTours | FMaxTours | FMinArrival
| FValue (value : Z -> Z -> Z)         (* job_read_value_fn: actor id -> job id -> value (Left: the actor is ignored) *)
| FDistance | FDuration | FCost.

Inductive glayer :=
| GSingle (f : feat)
| GSum (fs : list feat)                (* MultiStrategy::Sum *)
| GWeighted (wfs : list (Z * feat)).   (* MultiStrategy::WeightedSum (integer weights) *)

Definition sumz (l : list Z) : Z := fold_right Z.add 0 l.
Definition tour_job_ids (t : list act) : list Z := map a_job (filter (fun a => negb (is_terminal a)) t).

Section WithMatrices.
Variable dur dist : Z -> Z -> Z.

(* FeatureObjective::estimate, MoveContext::Route *)
Definition feat_est_route (f : feat) (r : groute) (jid : Z) : Z :=
  match f with
  | FUnassigned u => -1 * u jid
  | FMinTours => if has_jobs (gr_tour r) then 0 else 1          (* tour.job_count() == 0 *)
  | FMaxTours => if has_jobs (gr_tour r) then 0 else -1
  | FMinArrival => gr_shift_start r
  | FValue v => -1 * v (gr_id r) jid
  | FDistance | FDuration => 0
  | FCost => cost_estimate_route_d (gr_veh r) (gr_drv r) (gr_tour r)
  end.
(* FeatureObjective::estimate, MoveContext::Activity *)
Definition feat_est_act (f : feat) (r : groute) (idx : nat) (x : act) : Z :=
  match f with
  | FDistance => leg_estimate dist (gr_tour r) idx x
  | FDuration => leg_estimate dur (gr_tour r) idx x
  | FCost => cost_estimate_activity_d dur dist (gr_veh r) (gr_drv r) (gr_tour r) idx x
  | _ => 0
  end.
(* FeatureObjective::fitness (FMinArrival: the numerator, see feat_fit_den) *)
Definition feat_fitness (f : feat) (s : gsol) : Z :=
  match f with
  | FUnassigned u =>
    (match gs_routes s with [] => sumz (map u (gs_ignored s)) | _ => 0 end) + sumz (map u (gs_unassigned s))
  | FMinTours => Z.of_nat (length (gs_routes s))
  | FMaxTours => -1 * Z.of_nat (length (gs_routes s))
  | FMinArrival => sumz (map (fun r => a_arr (last (gr_tour r) xd0)) (gs_routes s))
  | FValue v => sumz (map (fun r => sumz (map (fun j => -1 * v (gr_id r) j) (tour_job_ids (gr_tour r)))) (gs_routes s))
  | FDistance => sumz (map (fun r => total_distance dist (gr_tour r)) (gs_routes s))
  | FDuration => sumz (map (fun r => total_duration (gr_tour r)) (gs_routes s))
  | FCost => sumz (map (fun r => cost_fitness_d dist (gr_veh r) (gr_drv r) (gr_tour r)) (gs_routes s))
  end.
(* the arrival-time objective is total / routes.len() (0 without routes); every other objective has denominator 1 *)
Definition feat_fit_den (f : feat) (s : gsol) : Z :=
  match f with FMinArrival => Z.of_nat (length (gs_routes s)) | _ => 1 end.

(* the estimate function of a layer (add_single: objectives[0].estimate; Sum / WeightedSum: the (weighted) sum) *)
Definition layer_est_route (l : glayer) (r : groute) (jid : Z) : Z :=
  match l with
  | GSingle f => feat_est_route f r jid
  | GSum fs => sumz (map (fun f => feat_est_route f r jid) fs)
  | GWeighted wfs => sumz (map (fun wf => feat_est_route (snd wf) r jid * fst wf) wfs)
  end.
Definition layer_est_act (l : glayer) (r : groute) (idx : nat) (x : act) : Z :=
  match l with
  | GSingle f => feat_est_act f r idx x
  | GSum fs => sumz (map (fun f => feat_est_act f r idx x) fs)
  | GWeighted wfs => sumz (map (fun wf => feat_est_act (snd wf) r idx x * fst wf) wfs)
  end.
(* the value of a layer: its objective's fitness, for a group the (weighted) sum of the members' fitness values *)
Definition layer_value (l : glayer) (s : gsol) : Z :=
  match l with
  | GSingle f => feat_fitness f s
  | GSum fs => sumz (map (fun f => feat_fitness f s) fs)
  | GWeighted wfs => sumz (map (fun wf => feat_fitness (snd wf) s * fst wf) wfs)
  end.
Definition layer_feats (l : glayer) : list feat :=
  match l with GSingle f => [f] | GSum fs => fs | GWeighted wfs => map snd wfs end.

(* Goal::estimate: one component per layer, in layer order *)
Definition goal_est_route (g : list glayer) (r : groute) (jid : Z) : list Z := map (fun l => layer_est_route l r jid) g.
Definition goal_est_act (g : list glayer) (r : groute) (idx : nat) (x : act) : list Z := map (fun l => layer_est_act l r idx x) g.
(* Goal::fitness: one component per objective (groups flattened) *)
Definition goal_fitness (g : list glayer) (s : gsol) : list Z :=
  map (fun f => feat_fitness f s) (flat_map layer_feats g).
Definition goal_fit_dens (g : list glayer) (s : gsol) : list Z :=
  map (fun f => feat_fit_den f s) (flat_map layer_feats g).
Definition goal_values (g : list glayer) (s : gsol) : list Z := map (fun l => layer_value l s) g.

(* ================= the scan with vector costs ================= *)
Record vctx := mkV { vc_viol : option (Z * bool); vc_index : nat; vc_cost : option (list Z); vc_place : option placed }.
(* an accepted candidate of the scan: insertion index, place data, full cost vector *)
Definition vcand := (nat * placed * list Z)%type.
Definition vc_idx (c : vcand) : nat := fst (fst c).
Definition vc_pl (c : vcand) : placed := snd (fst c).
Definition vc_vec (c : vcand) : list Z := snd c.

Section VScan.
Variable ev : list act -> nat -> act -> option (Z * bool).     (* GoalContext::evaluate on activity level: None = accepted *)
Variable est : list act -> nat -> act -> list Z.               (* GoalContext::estimate on activity level *)
Variable closed : bool.

Definition pdata_of (pi : nat) (target : act) : placed := (pi, a_loc target, a_svc target, a_tws target, a_twe target).

(* analyze_insertion_in_route_leg *)
Fixpoint vscan_windows (t : list act) (idx : nat) (j : single) (pi : nat) (p : place) (rc : list Z) (ws : list (Z * Z)) (c : vctx)
  : vctx * bool :=
  match ws with
  | [] => (c, false)
  | w :: ws' =>
    let target := mk_target j (nth idx t xd0) p w in
    match ev t idx target with
    | Some (code, stopped) =>
      let c' := mkV (Some (code, stopped)) (vc_index c) (vc_cost c) (vc_place c) in
      if stopped then (c', true) else vscan_windows t idx j pi p rc ws' c'
    | None =>
      let costs := icost_add (est t idx target) rc in                                     (* goal.estimate(&move_ctx) + &route_costs *)
      let better := match vc_cost c with Some o => vlt costs o | None => true end in     (* select_cost(costs, other or max_value) *)
      let c' := if better then mkV None idx (Some costs) (Some (pdata_of pi target)) else c in
      vscan_windows t idx j pi p rc ws' c'
    end
  end.

Fixpoint vscan_places (t : list act) (idx : nat) (j : single) (pi : nat) (rc : list Z) (ps : list place) (c : vctx) : vctx * bool :=
  match ps with
  | [] => (c, false)
  | p :: ps' =>
    let '(c', stop) := vscan_windows t idx j pi p rc (p_tws p) c in
    if stop then (c', true) else vscan_places t idx j (S pi) rc ps' c'
  end.

Fixpoint vscan_legs (t : list act) (j : single) (rc : list Z) (idx n : nat) (c : vctx) : vctx :=
  match n with
  | O => c
  | S n' => let '(c', stop) := vscan_places t idx j 0 rc (s_places j) c in
            if stop then c' else vscan_legs t j rc (S idx) n' c'
  end.

(* analyze_insertion_in_route, InsertionPosition::Any, SingleContext::new(best_known_cost, 0) *)
Definition vanalyze (t : list act) (j : single) (rc : list Z) (known : option (list Z)) : vctx :=
  vscan_legs t j rc 0 (leg_count closed t) (mkV None 0 known None).

(* what the scan enumerates: the accepted (leg, place, window) combinations in scan order, up to the first `stopped` verdict *)
Fixpoint venum_windows (t : list act) (idx : nat) (j : single) (pi : nat) (p : place) (rc : list Z) (ws : list (Z * Z))
  : list vcand * bool :=
  match ws with
  | [] => ([], false)
  | w :: ws' =>
    let target := mk_target j (nth idx t xd0) p w in
    match ev t idx target with
    | Some (_, true) => ([], true)
    | Some (_, false) => venum_windows t idx j pi p rc ws'
    | None => let '(l, st) := venum_windows t idx j pi p rc ws' in
              ((idx, pdata_of pi target, icost_add (est t idx target) rc) :: l, st)
    end
  end.
Fixpoint venum_places (t : list act) (idx : nat) (j : single) (pi : nat) (rc : list Z) (ps : list place) : list vcand * bool :=
  match ps with
  | [] => ([], false)
  | p :: ps' =>
    let '(l, st) := venum_windows t idx j pi p rc (p_tws p) in
    if st then (l, true) else let '(l', st') := venum_places t idx j (S pi) rc ps' in (l ++ l', st')
  end.
Fixpoint venum_legs (t : list act) (j : single) (rc : list Z) (idx n : nat) : list vcand :=
  match n with
  | O => []
  | S n' => let '(l, st) := venum_places t idx j 0 rc (s_places j) in
            if st then l else l ++ venum_legs t j rc (S idx) n'
  end.
Definition venum (t : list act) (j : single) (rc : list Z) : list vcand := venum_legs t j rc 0 (leg_count closed t).
End VScan.

(* ================= the (route, job) pair and the grid ================= *)
(* InsertionSuccess of a single job: cost vector, (route position in the offered list, job id, insertion index, place) *)
Definition gsucc := (list Z * (nat * Z * nat * placed))%type.
Definition gcost (s : gsucc) : list Z := fst s.

Definition gresult_of (k : nat) (j : single) (c : vctx) : result gsucc :=
  match vc_place c with
  | Some p => RSuccess (match vc_cost c with Some v => v | None => [] end, (k, s_id j, vc_index c, p))
  | None => match vc_viol c with
            | Some (code, st) => RFailure (mkFail code st (Some (s_id j)))
            | None => RFailure (mkFail UNKNOWN false (Some (s_id j)))
            end
  end.

Definition gev_act (r : groute) : list act -> nat -> act -> option (Z * bool) := eval_activity dur (gr_veh r).
Definition gest_act (g : list glayer) (r : groute) : list act -> nat -> act -> list Z :=
  fun _ idx x => goal_est_act g r idx x.

(* eval_job_insertion_in_route for one pair as far as the pair decides it; `skip` = the job sits in `unassigned` with a concrete code
   and the route is not stale; constraints in feature order [transport; capacity] *)
Definition gcell (g : list glayer) (skip : bool) (k : nat) (r : groute) (j : single) : cell gsucc (list Z) :=
  if skip then CSkip else
  if negb (eval_route_time (gr_shift_start r, v_shift_end (gr_veh r)) j) then CRouteViol 1 (s_id j) else
  if negb (eval_route_cap (gr_veh r) (gr_tour r) j) then CRouteViol 2 (s_id j) else
  let rc := goal_est_route g r (s_id j) in
  CEval rc (fun known => gresult_of k j (vanalyze (gev_act r) (gest_act g r) (gr_closed r) (gr_tour r) j rc known)).

(* the candidates of a pair: empty when the pair is skipped or rejected on route level *)
Definition gcands (g : list glayer) (skip : bool) (r : groute) (j : single) : list vcand :=
  if skip then [] else
  if negb (eval_route_time (gr_shift_start r, v_shift_end (gr_veh r)) j) then [] else
  if negb (eval_route_cap (gr_veh r) (gr_tour r) j) then [] else
  venum (gev_act r) (gest_act g r) (gr_closed r) (gr_tour r) j (goal_est_route g r (s_id j)).

(* the routes offered to the evaluator: solution.routes, then registry.next_route() (`free`), numbered in that order *)
Definition offered (s : gsol) (free : list groute) : list (nat * groute) :=
  combine (seq 0 (length (gs_routes s) + length free)) (gs_routes s ++ free).
Definition gpair (g : list glayer) (skip : groute -> single -> bool) (kr : nat * groute) (j : single) : cell gsucc (list Z) :=
  gcell g (skip (snd kr) j) (fst kr) (snd kr) j.

(* PositionInsertionEvaluator::evaluate_all under the schedule `tree` (pflatten tree = cartesian_product (offered s free) jobs) *)
Definition gselect (g : list glayer) (skip : groute -> single -> bool) (tree : ptree ((nat * groute) * single)) : result gsucc :=
  evaluate_all gsucc (list Z) gcost vlt (nat * groute) single (gpair g skip) tree.

(* ================= carrying a candidate out ================= *)
Definition dummy_route : groute := mkGR (-1) (mkVeh 0 0 0 0 0 0 0) (mkDC 0 0 0 0 0) 0 true [].

(* apply_insertion_success + accept_insertion: the route at position k of the offered list (a registry route is pushed last),
   tour.insert_at(activity, index + 1), schedules recomputed; the job leaves `required` / `unassigned` *)
Definition gapply (s : gsol) (free : list groute) (k : nat) (jid : Z) (idx : nat) (x : act) : gsol :=
  let r := nth k (gs_routes s ++ free) dummy_route in
  let r' := gr_with r (reschedule dur (insert_after (gr_tour r) idx x)) in
  let routes := if (k <? length (gs_routes s))%nat
                then firstn k (gs_routes s) ++ r' :: skipn (S k) (gs_routes s)
                else gs_routes s ++ [r'] in
  mkGS routes (removez jid (gs_required s)) (removez jid (gs_unassigned s)) (gs_ignored s).

(* finalize_insertion_ctx: pending jobs become unassigned (the routes of this model always hold jobs: nothing to remove) *)
Definition gfinalize (s : gsol) : gsol :=
  let req := filter (fun j => negb (memz j (gs_unassigned s))) (gs_required s) in
  mkGS (gs_routes s) [] (gs_unassigned s ++ req) (gs_ignored s).

(* the realised change of every layer's value: the recreate step that carries the candidate out against the one that does not *)
Definition grealised (g : list glayer) (s : gsol) (free : list groute) (k : nat) (j : single) (c : vcand) : list Z :=
  let s' := gfinalize (gapply s free k (s_id j) (vc_idx c) (act_of_place j (vc_pl c))) in
  map (fun l => layer_value l s' - layer_value l (gfinalize s)) g.

(* the part of the realised change that no candidate can influence: ignored jobs stop being counted once the solution has a route *)
Definition feat_shift (f : feat) (s : gsol) : Z :=
  match f with
  | FUnassigned u => match gs_routes s with [] => -1 * sumz (map u (gs_ignored s)) | _ => 0 end
  | _ => 0
  end.
Definition layer_shift (l : glayer) (s : gsol) : Z :=
  match l with
  | GSingle f => feat_shift f s
  | GSum fs => sumz (map (fun f => feat_shift f s) fs)
  | GWeighted wfs => sumz (map (fun wf => feat_shift (snd wf) s * fst wf) wfs)
  end.
Definition goal_shift (g : list glayer) (s : gsol) : list Z := map (fun l => layer_shift l s) g.
End WithMatrices.

(* ================= time-dependent routing (excluded by the property) ================= *)
(* distD from to t = TransportCost::distance(route, from, to, TravelTime::Departure(t)); durD likewise *)
Section TD.
Variable durD distD : Z -> Z -> Z -> Z.

(* update_schedules *)
Fixpoint td_resched (loc dep : Z) (acts : list act) : list act :=
  match acts with
  | [] => []
  | a :: r => let arr := dep + durD loc (a_loc a) dep in
              let d := est_departure a arr in
              set_sched a arr d :: td_resched (a_loc a) d r
  end.
Definition td_reschedule (t : list act) : list act :=
  match t with [] => [] | s :: r => s :: td_resched (a_loc s) (a_dep s) r end.
(* update_statistics: every leg's distance at the departure time of its origin *)
Fixpoint td_dist_from (loc dep : Z) (acts : list act) : Z :=
  match acts with [] => 0 | a :: r => distD loc (a_loc a) dep + td_dist_from (a_loc a) (a_dep a) r end.
Definition td_total_distance (t : list act) : Z := match t with [] => 0 | s :: r => td_dist_from (a_loc s) (a_dep s) r end.
(* DistanceObjective::estimate = estimate_leg with the time arguments the code passes *)
Definition td_leg_estimate (t : list act) (idx : nat) (target : act) : Z :=
  let prev := nth idx t target in
  let nexts := skipn (S idx) t in
  let pd := a_dep prev in
  let arrival := pd + durD (a_loc prev) (a_loc target) pd in
  let dep_t := est_departure target arrival in
  let pt := distD (a_loc prev) (a_loc target) pd in
  let tn := match nexts with n :: _ => distD (a_loc target) (a_loc n) dep_t | [] => 0 end in
  if negb (has_jobs t) then pt + tn else
  match nexts with [] => pt + tn | n :: _ => pt + tn - distD (a_loc prev) (a_loc n) pd end.
End TD.

(* ================= entry point of the correspondence ================= *)
(* route description of a case: actor id, vehicle, driver, start location, end location, shift start, tour activities *)
Definition rdesc := (Z * vehicle * dcosts * Z * option Z * Z * list tact)%type.
Definition route_of (n : Z) (durm distm : list Z) (d : rdesc) : groute :=
  let '(id, v, drv, st, en, ss, acts) := d in
  let w := mkWorld n durm distm v st en ss in
  mkGR id v drv ss (closed w) (build_tour w acts).

(* feature codes of a case: 0 unassigned (estimator table), 1 min tours, 2 max tours, 3 min arrival, 4 value (table), 5 distance,
   6 duration, 7 cost.  Tables are association lists job id -> number (default 1 for the estimator, 0 for the value);
   value entries may be keyed by actor: key = actor id * 100000 + job id when `by_actor` *)
Fixpoint assoc (k : Z) (l : list (Z * Z)) (d : Z) : Z :=
  match l with [] => d | (a, b) :: r => if a =? k then b else assoc k r d end.
Definition feat_of (uest : list (Z * Z)) (values : list (Z * Z)) (by_actor : bool) (code : Z) : feat :=
  if code =? 0 then FUnassigned (fun j => assoc j uest 1)
  else if code =? 1 then FMinTours else if code =? 2 then FMaxTours else if code =? 3 then FMinArrival
  else if code =? 4 then FValue (fun a j => if by_actor then assoc (a * 100000 + j) values 0 else assoc j values 0)
  else if code =? 5 then FDistance else if code =? 6 then FDuration else FCost.
(* layer description: ([code], []) single; (codes, []) with several codes = Sum; (codes, weights) = WeightedSum *)
Definition layer_of (uest values : list (Z * Z)) (by_actor : bool) (d : list Z * list Z) : glayer :=
  let fs := map (feat_of uest values by_actor) (fst d) in
  match snd d, fs with
  | [], [f] => GSingle f
  | [], _ => GSum fs
  | ws, _ => GWeighted (combine ws fs)
  end.

Definition cand_out (k : nat) (jid : Z) (c : vcand) : list Z * list Z :=
  let '(idx, (pi, l, sv, a, b), vec) := c in ([Z.of_nat k; jid; Z.of_nat idx; Z.of_nat pi; l; sv; a; b], vec).

(* returned: (i) per pair in row-major order (routes outer, jobs inner) the enumerated candidates with their cost vectors;
   (ii) the result of the sequential fold (one leaf) over the grid: [1] ++ cost or [0; code], and the chosen candidate;
   (iii) per candidate, in the same order, the realised change of every LAYER value, and fitness numerators / denominators
         of every OBJECTIVE after carrying it out; (iv) the fitness numerators / denominators of the hand-over without insertion *)
Definition run_c20sel (n : Z) (durm distm : list Z) (used free : list rdesc) (required unassigned ignored : list Z)
           (jobs : list single) (uest values : list (Z * Z)) (by_actor : bool) (layers : list (list Z * list Z)) :=
  let dur := mat n durm in let dist := mat n distm in
  let g := map (layer_of uest values by_actor) layers in
  let s := mkGS (map (route_of n durm distm) used) required unassigned ignored in
  let fr := map (route_of n durm distm) free in
  let rs := offered s fr in
  let noskip := fun (_ : groute) (_ : single) => false in
  let pairs := cartesian_product rs jobs in
  let cands := flat_map (fun p : (nat * groute) * single =>
                 map (fun c => (fst (fst p), snd p, c)) (gcands dur dist g false (snd (fst p)) (snd p))) pairs in
  let sel := gselect dur dist g noskip (PLeaf pairs) in
  (map (fun kc : nat * single * vcand => cand_out (fst (fst kc)) (s_id (snd (fst kc))) (snd kc)) cands,
   match sel with
   | RSuccess (cost, (k, jid, idx, (pi, l, sv, a, b))) => (1 :: cost, [Z.of_nat k; jid; Z.of_nat idx; Z.of_nat pi; l; sv; a; b])
   | RFailure f => ([0; f_code f], [])
   end,
   map (fun kc : nat * single * vcand =>
          let '(k, j, c) := kc in
          let s' := gfinalize (gapply dur s fr k (s_id j) (vc_idx c) (act_of_place j (vc_pl c))) in
          (grealised dur dist g s fr k j c, goal_fitness dist g s', goal_fit_dens g s')) cands,
   (goal_fitness dist g (gfinalize s), goal_fit_dens g (gfinalize s))).

(* the goal as the pragmatic reader builds it from `objectives` (estimator of minimize-unassigned { breaks }, read function of
   maximize-value { breaks }, Sum / WeightedSum groups): per job (id, attributes) the route-level estimate vector on an unused route and the
   fitness vector of the state "no route, exactly this job unassigned" *)
Definition run_c20prag (n : Z) (durm distm : list Z) (r : rdesc) (bu bv : option Z) (attrs : list (Z * jattr))
           (layers : list (list Z * list Z)) :=
  let uest := map (fun ja : Z * jattr => (fst ja, prag_unassigned_est bu (snd ja))) attrs in
  let values := map (fun ja : Z * jattr => (fst ja, prag_value bv (snd ja))) attrs in
  let g := map (layer_of uest values false) layers in
  let rt := route_of n durm distm r in
  map (fun ja : Z * jattr => (goal_est_route g rt (fst ja), goal_fitness (mat n distm) g (mkGS [] [] [fst ja] []))) attrs.
