(* Model of InsertionCost completely, and of the comparisons of insertion results that rely on it (C09):
     vrp-core/src/construction/heuristics/insertions.rs ::
       InsertionCost::new / iter / max_value, MAX_INSERTION_COST, #[derive(Default)],
       impl FromIterator<Cost> / IntoIterator, impl Eq / PartialEq (eq = `cmp == Equal`), impl PartialOrd (partial_cmp = Some(cmp);
       lt / le / gt / ge are the provided methods of core::cmp::PartialOrd), impl Ord (cmp is Model/CostOrder.v :: icost_cmp),
       impl Add<B> / Sub<B> for &InsertionCost and for InsertionCost (by value = `&self op rhs`), impl Index<usize> (panics out of range),
       InsertionResult::choose_best_result
     vrp-core/src/construction/heuristics/selectors.rs :: ResultSelector::select_cost (provided method), BestResultSelector::select_insertion
   A cost vector is the list of the 64-bit patterns of its components (Base/TotalCmp.v).  The arithmetic of f64 (IEEE-754 binary64,
   round to nearest even: what `+`, `-`, `*` of Rust compute) is the standard library's executable specification Coq.Floats.SpecFloat
   (SFadd / SFsub / SFmul with prec = 53, emax = 1024; pure Gallina, no primitive floats, no axioms) between a decoder / encoder of bit
   patterns.  Every NaN result is the one pattern NAN_BITS (the payload / sign of a NaN produced by an operation is not part of
   any statement; the harness canonicalises NaN results the same way).
   Entry points of the correspondence: run_icost_api, run_icost_arithF, run_icost_ident, run_select, run_choose.   No proofs in this file. *)
From Coq Require Import SpecFloat.
From VRP Require Import Base.Tac Base.TotalCmp Model.CostOrder.

(* ---------- f64 on bit patterns ---------- *)
Definition two52 : Z := 4503599627370496.
Definition NAN_BITS : Z := 9221120237041090560.     (* 0x7FF8000000000000 *)
Definition NEG_ZERO : Z := two63.                   (* 0x8000000000000000 *)
Definition F64_MAX : Z := 9218868437227405311.      (* 0x7FEFFFFFFFFFFFFF = f64::MAX *)
Definition POS_INF : Z := 9218868437227405312.      (* 0x7FF0000000000000 *)

Definition sf_of_bits (b : Z) : spec_float :=
  let s := (two63 <=? b) in
  let r := if s then b - two63 else b in
  let e := Z.shiftr r 52 in                 (* r / 2^52 *)
  let m := Z.land r (Z.ones 52) in          (* r mod 2^52 *)
  if e =? 2047 then (if m =? 0 then S754_infinity s else S754_nan)
  else if e =? 0 then (if m =? 0 then S754_zero s else S754_finite s (Z.to_pos m) (-1074))
  else S754_finite s (Z.to_pos (m + two52)) (e - 1075).

Definition bits_of_sf (x : spec_float) : Z :=
  let sg (s : bool) := if s then two63 else 0 in
  match x with
  | S754_zero s => sg s
  | S754_infinity s => sg s + 2047 * two52
  | S754_nan => NAN_BITS
  | S754_finite s m e =>
      let m := Zpos m in
      if m <? two52 then sg s + m else sg s + (e + 1075) * two52 + (m - two52)
  end.

Definition is_nan (b : Z) : bool := 2047 * two52 <? Z.land b (Z.ones 63).     (* b mod 2^63 *)

Definition f64_add (a b : Z) : Z := bits_of_sf (SFadd 53 1024 (sf_of_bits a) (sf_of_bits b)).
Definition f64_sub (a b : Z) : Z := bits_of_sf (SFsub 53 1024 (sf_of_bits a) (sf_of_bits b)).
Definition f64_mul (a b : Z) : Z := bits_of_sf (SFmul 53 1024 (sf_of_bits a) (sf_of_bits b)).
(* impl Sum for f64 (core::iter): fold from -0.0 with `+` *)
Definition f64_sum (l : list Z) : Z := fold_left f64_add l NEG_ZERO.
(* the bit pattern of an integer value as a double (|v| < 2^53 is represented exactly; used on that domain only) *)
Definition f64_of_int (v : Z) : Z :=
  match v with
  | Z0 => 0
  | Zpos p => bits_of_sf (binary_normalize 53 1024 (Zpos p) 0 false)
  | Zneg p => bits_of_sf (binary_normalize 53 1024 (Zneg p) 0 false)
  end.

(* ---------- InsertionCost ---------- *)
Definition ic_new (data : list Z) : list Z := data.
Definition ic_iter (x : list Z) : list Z := x.
Definition ic_from_iter (l : list Z) : list Z := l.
Definition ic_into_iter (x : list Z) : list Z := x.
Definition ic_default : list Z := [].
Definition ic_max_value : list Z := [F64_MAX].

(* PartialEq::eq = `self.cmp(other) == Ordering::Equal`; ne is the provided method *)
Definition ic_eq (x y : list Z) : bool := match icost_cmp x y with Eq => true | _ => false end.
Definition ic_ne (x y : list Z) : bool := negb (ic_eq x y).
(* PartialOrd::partial_cmp = Some(self.cmp(other)); lt / le / gt / ge are the provided methods (matches! on partial_cmp) *)
Definition ic_partial_cmp (x y : list Z) : option comparison := Some (icost_cmp x y).
Definition ic_lt (x y : list Z) : bool := match ic_partial_cmp x y with Some Lt => true | _ => false end.
Definition ic_le (x y : list Z) : bool := match ic_partial_cmp x y with Some Lt | Some Eq => true | _ => false end.
Definition ic_gt (x y : list Z) : bool := match ic_partial_cmp x y with Some Gt => true | _ => false end.
Definition ic_ge (x y : list Z) : bool := match ic_partial_cmp x y with Some Gt | Some Eq => true | _ => false end.

(* Index<usize>: None = panic "index out of range" *)
Definition ic_index (x : list Z) (i : nat) : option Z := if (i <? length x)%nat then Some (nth i x 0) else None.

(* Add / Sub: (0..max(len)).map(|idx| lhs.get(idx).unwrap_or(0.0) op rhs.get(idx).unwrap_or(0.0)).collect() *)
Definition ic_zip (op : Z -> Z -> Z) (x y : list Z) : list Z :=
  map (fun i => op (getd x i) (getd y i)) (seq 0 (Nat.max (length x) (length y))).
Definition ic_add : list Z -> list Z -> list Z := ic_zip f64_add.
Definition ic_sub : list Z -> list Z -> list Z := ic_zip f64_sub.
(* the by-value operators: `&self + rhs`, `&self - rhs` *)
Definition ic_add_owned (x y : list Z) : list Z := ic_add x y.
Definition ic_sub_owned (x y : list Z) : list Z := ic_sub x y.

(* comparison with the two zeros merged (the "up to the sign of zero" of the property text) *)
Fixpoint zcmp_from (x y : list Z) (i n : nat) : comparison :=
  match n with
  | O => Eq
  | S n' => match Z.compare (zkey (getd x i)) (zkey (getd y i)) with Eq => zcmp_from x y (S i) n' | c => c end
  end.
Definition icost_zcmp (x y : list Z) : comparison := zcmp_from x y 0 (Nat.max (length x) (length y)).

(* ---------- insertion results: the part of InsertionResult the choice looks at ---------- *)
(* ISuccess cost tag: `tag` stands for the rest of the success (job, activities, actor); IFailure code: -1 = ViolationCode::unknown() *)
Inductive ires := ISuccess (cost : list Z) (tag : Z) | IFailure (code : Z).

(* InsertionResult::choose_best_result *)
Definition choose_best (l r : ires) : ires :=
  match l, r with
  | ISuccess _ _, IFailure _ => l
  | IFailure _, ISuccess _ _ => r
  | ISuccess cl _, ISuccess cr _ => if ic_gt cl cr then r else l
  | IFailure _, IFailure cr => if cr =? -1 then l else r
  end.
(* ResultSelector::select_cost (provided): `if left < right { Left } else { Right }`; true = Left *)
Definition select_cost (l r : list Z) : bool := ic_lt l r.
(* the fold of a result selector over candidate results, as fold_reduce / the evaluator loops do: left = accumulated *)
Definition choose_all (init : ires) (rs : list ires) : ires := fold_left choose_best rs init.

(* ---------- entry points of the correspondence ---------- *)
Definition b2z (b : bool) : Z := if b then 1 else 0.
Definition oz (o : option Z) : list Z := match o with Some v => [v] | None => [] end.
(* [cmp; eq; ne; partial_cmp (2 = None); lt; le; gt; ge], x[i] (empty = panic), cmp with max_value, cmp with default *)
Definition run_icost_api (x y : list Z) (i : nat) : list (list Z) :=
  [ [ord_z (icost_cmp x y); b2z (ic_eq x y); b2z (ic_ne x y);
     match ic_partial_cmp x y with Some c => ord_z c | None => 2 end;
     b2z (ic_lt x y); b2z (ic_le x y); b2z (ic_gt x y); b2z (ic_ge x y)];
    oz (ic_index x i);
    [ord_z (icost_cmp x ic_max_value); ord_z (icost_cmp x ic_default); ord_z (icost_cmp ic_default ic_max_value)];
    ic_iter (ic_from_iter x); ic_max_value; ic_default ].
(* + and - on every bit pattern, NaN results canonical: [x+y; x-y; (x+y)-y; (x-y)+y] and the zero-merged comparisons with x *)
Definition run_icost_arithF (x y : list Z) : list (list Z) :=
  let s := ic_add x y in let d := ic_sub x y in
  let sd := ic_sub s y in let ds := ic_add d y in
  [s; d; sd; ds].
(* Default is the neutral element: [x + default; x - default; default + x; default - x] *)
Definition run_icost_ident (x : list Z) : list (list Z) :=
  [ic_add x ic_default; ic_sub x ic_default; ic_add ic_default x; ic_sub ic_default x].
(* ResultSelector::select_cost against y and against max_value (1 = Left) *)
Definition run_select (x y : list Z) : list Z := [b2z (select_cost x y); b2z (select_cost x ic_max_value)].
Definition ires_z (r : ires) : list Z :=
  match r with ISuccess c t => [1; t] ++ c | IFailure c => [0; c] end.
Definition ires_of (p : Z * Z * list Z) : ires :=
  let '(k, t, c) := p in if k =? 1 then ISuccess c t else IFailure t.
Definition run_choose (init : Z * Z * list Z) (rs : list (Z * Z * list Z)) : list Z :=
  ires_z (choose_all (ires_of init) (map ires_of rs)).
