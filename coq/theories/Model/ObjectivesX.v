(* C20, widened: (A) the cost objective with DRIVER costs next to the vehicle costs, (B) the whole search of the insertion
   evaluator for jobs with several places / time windows — single jobs and multi (pickup-and-delivery) jobs — so that the
   activities a quote belongs to are part of the model, not a certificate.
   Rust items modelled (vrp-core/src):
     models/problem/costs.rs                 :: TransportCost::cost, ActivityCost::cost          (driver + vehicle rates)
     construction/features/transport.rs      :: CostObjective::{estimate_route, estimate_activity, analyze_route_leg}
     construction/heuristics/context.rs      :: InsertionContext::get_total_cost                 (vehicle part + driver part)
     construction/heuristics/evaluators.rs   :: eval_job_insertion_in_route (alternative = failure), eval_single, eval_multi,
                                                analyze_insertion_in_route (InsertionPosition::Any), analyze_insertion_in_route_leg,
                                                MultiContext::{new, next, success, fail, promote, is_success, is_failure},
                                                ShadowContext::{insert, restore}
     construction/heuristics/selectors.rs    :: LegSelection::sample_best (Exhaustive: legs().skip(skip).try_fold),
                                                BestResultSelector::select_cost
     models/problem/jobs.rs                  :: Multi::permutations (FixedJobPermutation: the default single order or an explicit list)
     models/solution/tour.rs                 :: legs, job_activity_count
   Entry point used by the correspondence: run_c20x.  No proofs in this file. *)
From VRP Require Import Base.Tac Model.Core Spec.Feasible Model.Eval Model.Objectives.

(* ================= (A) actor costs = vehicle costs + driver costs ================= *)
Record dcosts := mkDC { dc_fixed : Z; dc_pdist : Z; dc_ptime : Z; dc_pwait : Z; dc_psvc : Z }.

Section Driver.
Variable dur dist : Z -> Z -> Z.

(* TransportCost::cost: distance * (driver.per_distance + vehicle.per_distance) + duration * (driver.per_driving_time + vehicle.per_driving_time) *)
Definition tp_cost_d (v : vehicle) (d : dcosts) (from to : Z) : Z :=
  dist from to * (dc_pdist d + v_pdist v) + dur from to * (dc_ptime d + v_ptime v).
(* ActivityCost::cost: waiting * (driver.per_waiting_time + vehicle.per_waiting_time) + service * (driver.per_service_time + vehicle.per_service_time) *)
Definition act_cost_d (v : vehicle) (d : dcosts) (a : act) (arr : Z) : Z :=
  (if arr <? a_tws a then a_tws a - arr else 0) * (dc_pwait d + v_pwait v) + a_svc a * (dc_psvc d + v_psvc v).
Definition route_leg_d (v : vehicle) (d : dcosts) (s e : act) (time : Z) : Z * Z * Z :=
  let arrival := time + dur (a_loc s) (a_loc e) in
  (tp_cost_d v d (a_loc s) (a_loc e), act_cost_d v d e arrival, est_departure e arrival).

(* CostObjective::estimate_activity; the waiting credit is priced with the VEHICLE's waiting rate only, as in the code *)
Definition cost_estimate_activity_d (v : vehicle) (d : dcosts) (t : list act) (idx : nat) (target : act) : Z :=
  let prev := nth idx t target in
  let nexts := skipn (S idx) t in
  let '(tpl, acl, depl) := route_leg_d v d prev target (a_dep prev) in
  let '(tpr, acr, depr) := match nexts with n :: _ => route_leg_d v d target n depl | [] => (0, 0, 0) end in
  let new_costs := tpl + tpr + acl + acr in
  if negb (has_jobs t) then new_costs else
  match nexts with
  | [] => new_costs
  | n :: _ =>
    let waiting := waiting_of nexts in
    let waiting := if is_terminal n then 0 else waiting in
    let '(tpo, aco, depo) := route_leg_d v d prev n (a_dep prev) in
    let waiting_cost := Z.min waiting (Z.max 0 (depr - depo)) * v_pwait v in
    new_costs - (tpo + aco + waiting_cost)
  end.

(* CostObjective::estimate_route: driver.costs.fixed + vehicle.costs.fixed for a tour without jobs *)
Definition cost_estimate_route_d (v : vehicle) (d : dcosts) (t : list act) : Z :=
  if has_jobs t then 0 else dc_fixed d + v_fixed v.

(* get_total_cost for one route: get_cost(vehicle.costs) + get_cost(driver.costs) *)
Definition cost_fitness_d (v : vehicle) (d : dcosts) (t : list act) : Z :=
  (v_fixed v + v_pdist v * total_distance dist t + max3 (v_ptime v) (v_psvc v) (v_pwait v) * total_duration t)
  + (dc_fixed d + dc_pdist d * total_distance dist t + max3 (dc_ptime d) (dc_psvc d) (dc_pwait d) * total_duration t).
Definition route_cost_d (v : vehicle) (d : dcosts) (t : list act) : Z := if has_jobs t then cost_fitness_d v d t else 0.

Definition cost_quote_d (v : vehicle) (d : dcosts) (t : list act) (idx : nat) (x : act) : Z :=
  cost_estimate_route_d v d t + cost_estimate_activity_d v d t idx x.

(* the actor seen as one vehicle (used by the proofs only: the two views coincide on tours without waiting) *)
Definition eff_vehicle (v : vehicle) (d : dcosts) : vehicle :=
  mkVeh (v_shift_end v) (v_cap v) (v_fixed v + dc_fixed d) (v_pdist v + dc_pdist d) (v_ptime v + dc_ptime d)
        (v_pwait v + dc_pwait d) (v_psvc v + dc_psvc d).
End Driver.

(* ================= (B) the search ================= *)
Definition xd0 := mkAct (-1) 0 0 0 0 dzero 0 0.
Definition placed := (nat * Z * Z * Z * Z)%type.          (* place idx, location, duration, tw start, tw end *)
Definition act_of_place (j : single) (p : placed) : act :=
  let '(_, l, s, a, b) := p in mkAct (s_id j) l s a b (s_dem j) 0 0.

Section Search.
Variable dur : Z -> Z -> Z.
Variable ev : list act -> nat -> act -> option (Z * bool).   (* GoalContext::evaluate on activity level: None = accepted *)
Variable est : list act -> nat -> act -> Z.                   (* activity-level estimate of the (last) objective layer *)
Variable closed : bool.

(* analyze_insertion_in_route_leg: places x time windows of one leg *)
Fixpoint gscan_windows (t : list act) (idx : nat) (j : single) (pi : nat) (p : place) (rc : Z) (ws : list (Z * Z)) (c : sctx)
  : sctx * bool :=
  match ws with
  | [] => (c, false)
  | w :: ws' =>
    let target := mk_target j (nth idx t xd0) p w in
    match ev t idx target with
    | Some (code, stopped) =>
      let c' := mkSctx (Some (code, stopped)) (sc_index c) (sc_cost c) (sc_place c) in
      if stopped then (c', true) else gscan_windows t idx j pi p rc ws' c'
    | None =>
      let costs := est t idx target + rc in
      let better := match sc_cost c with Some o => costs <? o | None => true end in      (* select_cost vs InsertionCost::max_value *)
      let c' := if better
                then mkSctx None idx (Some costs) (Some (pi, a_loc target, a_svc target, a_tws target, a_twe target))
                else c in
      gscan_windows t idx j pi p rc ws' c'
    end
  end.

Fixpoint gscan_places (t : list act) (idx : nat) (j : single) (pi : nat) (rc : Z) (ps : list place) (c : sctx) : sctx * bool :=
  match ps with
  | [] => (c, false)
  | p :: ps' =>
    let '(c', stop) := gscan_windows t idx j pi p rc (p_tws p) c in
    if stop then (c', true) else gscan_places t idx j (S pi) rc ps' c'
  end.

(* legs idx, idx+1, ... (n legs left): try_fold, Break when a verdict says `stopped` *)
Fixpoint gscan_legs (t : list act) (j : single) (rc : Z) (idx n : nat) (c : sctx) : sctx :=
  match n with
  | O => c
  | S n' => let '(c', stop) := gscan_places t idx j 0 rc (s_places j) c in
            if stop then c' else gscan_legs t j rc (S idx) n' c'
  end.

(* analyze_insertion_in_route with insertion_idx = None: sample_best(skip = init.index, init) in Exhaustive mode *)
Definition ganalyze (t : list act) (j : single) (rc : Z) (skip : nat) : sctx :=
  gscan_legs t j rc skip (leg_count closed t - skip) (mkSctx None skip None None).

(* ---- eval_multi ---- *)
Definition mstep := (nat * nat * act)%type.          (* insertion index, place index, the activity as inserted *)
Record mctx := mkM {
  m_viol : option (Z * bool); m_start : nat; m_next : nat; m_cost : option Z; m_acts : option (list mstep)
}.
Definition step_of (s : mstep) : nat * act := (fst (fst s), snd s).

Definition m_new (cost : option Z) (index : nat) : mctx := mkM None index index cost None.
Definition m_nextctx (m : mctx) : mctx := mkM None (m_start m) (m_start m) None None.
Definition m_success (cost : Z) (acts : list mstep) : mctx :=
  mkM None (match acts with s :: _ => fst (fst s) | [] => 0%nat end)
      (S (match rev acts with s :: _ => fst (fst s) | [] => 0%nat end)) (Some cost) (Some acts).
Definition m_fail (err : sctx) (other : mctx) : mctx :=
  let viol := match sc_viol err with
              | Some (code, st) => (code, st && (match m_acts other with None => true | Some _ => false end))
              | None => (-1, false)
              end in
  mkM (Some viol) (m_start other) (m_start other) None None.
Definition is_stopped (v : option (Z * bool)) : bool := match v with Some (_, true) => true | _ => false end.
Definition m_is_success (m : mctx) : bool :=
  match m_viol m, m_cost m, m_acts m with None, Some _, Some _ => true | _, _, _ => false end.
Definition m_is_failure (m : mctx) (index : nat) : bool := is_stopped (m_viol m) || (index <? m_start m)%nat.
(* promote(left, right): (result, Break?) *)
Definition m_promote (left right : mctx) : mctx * bool :=
  let index := S (Nat.max (m_start left) (m_start right)) in
  let best := match m_cost left, m_cost right with
              | Some l, Some r => if l <? r then left else right
              | Some _, None => left
              | None, Some _ => right
              | None, None => match m_viol left with Some _ => left | None => right end
              end in
  let result := mkM (m_viol best) index index (m_cost best) (m_acts best) in
  (result, is_stopped (m_viol result)).

(* one sequence: the sub-jobs one after another, each on the shadow tour that already holds the earlier ones
   (ShadowContext::insert = insert_at(index + 1) + accept_route_state) *)
Fixpoint m_services (rc : Z) (t : list act) (services : list single) (in1 : mctx) : mctx :=
  match services with
  | [] => in1
  | s :: r =>
    match m_viol in1 with
    | Some _ => in1
    | None =>
      let srv := ganalyze t s 0 (m_next in1) in
      match sc_place srv with
      | Some p =>
        let x := act_of_place s p in                                    (* activity.place = place *)
        let t' := reschedule dur (insert_after t (sc_index srv) x) in
        let acts := (match m_acts in1 with Some l => l | None => [] end) ++ [(sc_index srv, fst (fst (fst (fst p))), x)] in
        let cost := (match m_cost in1 with Some c => c | None => rc end) + (match sc_cost srv with Some c => c | None => 0 end) in
        m_services rc t' r (m_success cost acts)
      | None => m_fail srv in1
      end
    end
  end.

(* (0..).try_fold(MultiContext::new(None, insertion_idx), ..): one sequence per start index; (result, out of fuel) *)
Fixpoint m_loop (fuel : nat) (rc : Z) (t : list act) (services : list single) (jac : nat) (out : mctx) : mctx * bool :=
  match fuel with
  | O => (out, true)
  | S f =>
    if m_is_failure out jac then (out, false) else
    let sq := m_services rc t services (m_nextctx out) in
    let '(res, brk) := m_promote sq out in
    if brk then (res, false) else m_loop f rc t services jac res
  end.

Definition job_activity_count (t : list act) : nat := (length t - (if closed then 2 else 1))%nat.

Inductive gresult :=
| GSuccess (cost : Z) (steps : list mstep)
| GFailure (code : Z) (stopped : bool)
| GOutOfFuel.

(* permutations().try_fold(MultiContext::new(best_known_cost = None, insertion_idx), ..): every permutation gets a fresh shadow and a
   fresh loop over the start indices; its result is promoted against the accumulator; (result, out of fuel) *)
Fixpoint m_perms (rc : Z) (t : list act) (jac : nat) (perms : list (list single)) (acc : mctx) : mctx * bool :=
  match perms with
  | [] => (acc, false)
  | sv :: r =>
    let '(perm_res, oof) := m_loop (S (S (length t))) rc t sv jac (m_new None 0) in
    if oof then (acc, true) else
    let '(res, brk) := m_promote perm_res acc in
    if brk then (res, false) else m_perms rc t jac r res
  end.

(* eval_multi with InsertionPosition::Any; `perms` = Multi::permutations() (the sub-jobs in every allowed order) *)
Definition geval_multi (rc : Z) (t : list act) (perms : list (list single)) : gresult :=
  let '(result, oof) := m_perms rc t (job_activity_count t) perms (m_new None 0) in
  if oof then GOutOfFuel else
  if m_is_success result
  then GSuccess (match m_cost result with Some c => c | None => 0 end) (match m_acts result with Some l => l | None => [] end)
  else match m_viol result with Some (code, st) => GFailure code st | None => GFailure (-1) false end.

(* eval_single with InsertionPosition::Any *)
Definition geval_single (rc : Z) (t : list act) (j : single) : gresult :=
  let r := ganalyze t j rc 0 in
  match sc_place r with
  | Some p => GSuccess (match sc_cost r with Some c => c | None => 0 end) [(sc_index r, fst (fst (fst (fst p))), act_of_place j p)]
  | None => match sc_viol r with Some (code, st) => GFailure code st | None => GFailure (-1) false end
  end.

(* the sum of the activity-level estimates of the steps, each on its shadow tour *)
Fixpoint multi_sum (t : list act) (steps : list (nat * act)) : Z :=
  match steps with
  | [] => 0
  | (idx, a) :: r => est t idx a + multi_sum (reschedule dur (insert_after t idx a)) r
  end.
End Search.

(* ================= entry point of the correspondence ================= *)
(* a Multi job: its sub-jobs and the index permutations of its JobPermutation (FixedJobPermutation: new_shared gives [[0; 1; ..]]) *)
Inductive jobx := JSingle (s : single) | JMulti (subs : list single) (perms : list (list nat)).
(* Multi::permutations: perm.iter().map(|&i| self.jobs.get(i).unwrap()) — an index out of range panics in the code; the hypotheses of the
   theorems (and the generators) use valid indices only, the default below is never reached *)
Definition resolve_perms (subs : list single) (perms : list (list nat)) : list (list single) :=
  map (fun perm => map (fun i => nth i subs (mkSingle (-1) [] dzero)) perm) perms.

(* eval_job_insertion_in_route: route-level verdicts of [transport; capacity], then the search.
   kind 0: last layer = cost objective (vehicle + driver costs); kind 1: last layer = distance objective *)
Definition eval_jobx (w : world) (d : dcosts) (t : list act) (j : jobx) (kind : Z) : gresult :=
  let v := w_veh w in
  let shift := (w_shift_start w, v_shift_end v) in
  let est := if kind =? 0 then cost_estimate_activity_d (wdur w) (wdist w) v d else leg_estimate (wdist w) in
  let rc := if kind =? 0 then cost_estimate_route_d v d t else 0 in
  match j with
  | JSingle s =>
    if negb (eval_route_time shift s) then GFailure 1 true else
    if negb (eval_route_cap v t s) then GFailure 2 true else
    geval_single (eval_activity (wdur w) v) est (closed w) rc t s
  | JMulti subs perms =>
    if negb (forallb (eval_route_time shift) subs) then GFailure 1 true else
    if negb (existsb (eval_route_cap v t) subs) then GFailure 2 true else
    geval_multi (wdur w) (eval_activity_multi w) est (closed w) rc t (resolve_perms subs perms)
  end.

Definition step_out (s : mstep) : list Z :=
  let '(idx, pi, a) := s in [Z.of_nat idx; Z.of_nat pi; a_loc a; a_svc a; a_tws a; a_twe a].

(* returned: verdict ([1; quote of the last layer] / [0; code; stopped] / [2] = out of fuel), the inserted activities, and
   [tours-layer quote; distance before (0 for an unused tour); distance after; cost before; cost after; no waiting before;
    no waiting in any shadow tour incl. the final one; sum of the distance estimates; route-level + sum of the cost estimates],
   the schedule after the insertion *)
Definition run_c20x (w : world) (d : dcosts) (acts : list tact) (j : jobx) (kind : Z) :=
  let t := build_tour w acts in
  let v := w_veh w in
  match eval_jobx w d t j kind with
  | GSuccess cost steps =>
    let st := map step_of steps in
    let t' := apply_steps (wdur w) t st in
    ([1; cost], map step_out steps,
     [ (if has_jobs t then 0 else 1);
       route_distance (wdist w) t; total_distance (wdist w) t';
       route_cost_d (wdist w) v d t; cost_fitness_d (wdist w) v d t';
       (if no_waitb t then 1 else 0); (if shadow_nowait w t st then 1 else 0);
       multi_sum (wdur w) (leg_estimate (wdist w)) t st;
       cost_estimate_route_d v d t + multi_sum (wdur w) (cost_estimate_activity_d (wdur w) (wdist w) v d) t st ],
     sched_out t')
  | GFailure code st => ([0; code; if st then 1 else 0], [], [], [])
  | GOutOfFuel => ([2], [], [], [])
  end.
