(* Lemmas about Model/GsomW.v (property C19, numeric half of the GSOM network).
   Part 1: a generic invariant theorem for the model over ANY arithmetic: a predicate on node weights / node errors / stored
           individuals / min-max tracking that is closed under the primitive formulas is preserved by every operation and history.
   Part 2: instances — dimension (any arithmetic), and over Q: convexity of Node::adjust, range of the learning rates, hull of the
           non-growing updates, bound of the grown weights, best matching unit = first argmin, errors and mse non-negative. *)
From Coq Require Import QArith Qminmax Lqa.
From VRP Require Import Base.Tac Model.Gsom Proofs.GsomP Model.SlotF Model.GsomW Model.GsomF.
Close Scope Q_scope.

(* ---------- lists ---------- *)
Lemma map2_length {A B C} (f : A -> B -> C) l r : length (map2 f l r) = Nat.min (length l) (length r).
Proof. revert r; induction l as [|a l IH]; intros [|b r]; cbn; auto. Qed.
Lemma map2_Forall2 {A B C} (f : A -> B -> C) (P : A -> Prop) (Q : B -> Prop) (R : C -> Prop) l r :
  (forall a b, P a -> Q b -> R (f a b)) -> Forall P l -> Forall Q r -> Forall R (map2 f l r).
Proof.
  intros H Hl; revert r; induction Hl as [|a l Pa Hl IH]; intros [|b r] Hr; cbn; auto.
  inversion Hr; subst. constructor; auto.
Qed.

Lemma fold_bind_panicR {A B} (f : A -> B -> res A) l c :
  fold_left (fun acc o => bind acc (fun m => f m o)) l (Panic c) = Panic c.
Proof. induction l; cbn; auto. Qed.

Section Generic.
Context {T : Type} (N : num T).

(* ---------- association list ---------- *)
Lemma lookupW_In c (l : wmap (T := T)) nd : lookupW c l = Some nd -> exists k, In (k, nd) l.
Proof.
  induction l as [|[k v] t IH]; cbn; [discriminate|].
  destruct (coord_eqb k c); intros H.
  - inversion H; subst. exists k; auto.
  - destruct (IH H) as [k' Hk]. exists k'; auto.
Qed.
Lemma length_modifyW c f (l : wmap (T := T)) : length (modifyW c f l) = length l.
Proof. unfold modifyW. apply map_length. Qed.
Lemma lookupW_modifyW c f (l : wmap (T := T)) : lookupW c (modifyW c f l) = option_map f (lookupW c l).
Proof.
  induction l as [|[k v] t IH]; cbn; auto.
  destruct (coord_eqb k c) eqn:E; cbn; rewrite E; auto.
Qed.

Definition NPs (NP : wnode (T := T) -> Prop) (l : wmap) : Prop := Forall (fun kv => NP (snd kv)) l.
Lemma NPs_lookup (NP : wnode (T := T) -> Prop) l c nd : NPs NP l -> lookupW c l = Some nd -> NP nd.
Proof.
  intros H L. destruct (lookupW_In _ _ _ L) as [k Hk]. unfold NPs in H. rewrite Forall_forall in H. apply (H _ Hk).
Qed.
Lemma NPs_modify (NP : wnode (T := T) -> Prop) c f l : (forall nd, NP nd -> NP (f nd)) -> NPs NP l -> NPs NP (modifyW c f l).
Proof.
  intros Hf H. unfold NPs, modifyW in *. rewrite Forall_map. eapply Forall_impl; [|exact H].
  intros [k v] Hv; cbn in *. destruct (coord_eqb k c); cbn; auto.
Qed.
Lemma NPs_remove (NP : wnode (T := T) -> Prop) c l : NPs NP l -> NPs NP (removeW c l).
Proof. unfold NPs, removeW. intros H. rewrite Forall_forall in *. intros kv Hin. apply filter_In in Hin. apply H; tauto. Qed.
Lemma NPs_insert (NP : wnode (T := T) -> Prop) c nd l : NP nd -> NPs NP l -> NPs NP (insertW c nd l).
Proof. intros Hn H. unfold insertW. constructor; auto. apply NPs_remove; auto. Qed.
Lemma NPs_map (NP : wnode (T := T) -> Prop) (f : wnode -> wnode) l : (forall nd, NP nd -> NP (f nd)) -> NPs NP l -> NPs NP (map (fun kv => (fst kv, f (snd kv))) l).
Proof. intros Hf H. unfold NPs in *. rewrite Forall_map. eapply Forall_impl; [|exact H]. intros [k v]; cbn; auto. Qed.

Lemma offsets_manh r o : In o (offsets r) -> 1 <= manh o.
Proof.
  unfold offsets. rewrite filter_In. intros [_ H]. unfold manh. destruct o as [a b]; cbn in *. lia.
Qed.
Lemma existing_In {A} (l : list (option coord * A)) c a : In (c, a) (existing l) -> In (Some c, a) l.
Proof.
  unfold existing. rewrite in_flat_map. intros [[oc x] [Hin H]]; cbn in H. destruct oc; cbn in H; [|tauto].
  destruct H as [H|[]]. inversion H; subst; auto.
Qed.
Lemma neighboursW_offset (l : wmap (T := T)) nd r p : In p (neighboursW l nd r) -> In (snd p) (offsets r).
Proof. unfold neighboursW. rewrite in_map_iff. intros [o [<- Ho]]; auto. Qed.

(* ---------- storage ---------- *)
Lemma In_ins x y l : In y (ins x l) -> y = x \/ In y l.
Proof.
  induction l as [|z t IH]; cbn.
  - intros [H|[]]; auto.
  - destruct (it_key x <? it_key z); cbn.
    + intros [H|[H|H]]; auto.
    + intros [H|H]; auto. destruct (IH H); auto.
Qed.
Lemma In_ssort y l : In y (ssort l) -> In y l.
Proof.
  unfold ssort. assert (G : forall l acc, In y (fold_left (fun acc x => ins x acc) l acc) -> In y l \/ In y acc).
  { clear l. induction l as [|x t IH]; cbn; auto. intros acc H. destruct (IH _ H) as [H1|H1]; auto.
    destruct (In_ins _ _ _ H1); auto. }
  intros H. destruct (G _ _ H) as [H1|[]]; auto.
Qed.
Lemma In_dedup_go dd last y l : In y (dedup_go dd last l) -> In y l.
Proof.
  revert last; induction l as [|a t IH]; cbn; auto. intros last. destruct (dd a last); cbn; [eauto|].
  intros [H|H]; eauto.
Qed.
Lemma In_dedup_by dd y l : In y (dedup_by dd l) -> In y l.
Proof. destruct l as [|x t]; cbn; auto. intros [H|H]; auto. right. eapply In_dedup_go; eauto. Qed.
Lemma In_firstn {A} (y : A) k l : In y (firstn k l) -> In y l.
Proof. revert l; induction k as [|k IH]; intros [|a t]; cbn; try tauto. intros [H|H]; auto. Qed.
Lemma In_st_add cap l x y : In y (st_add cap l x) -> In y l \/ y = x.
Proof.
  unfold st_add. intros H. apply In_firstn, In_dedup_by, In_ssort, in_app_or in H. destruct H as [H|[H|[]]]; auto.
Qed.

(* ================= the invariant ================= *)
Variables (PW PWin : list T -> Prop) (PE PD : T -> Prop) (PM : mm (T := T) -> Prop) (LR LRb : T -> Prop) (Cnt : nat -> Prop)
          (PX : item -> Prop) (thr0 df0 : T) (growth : bool).
Hypothesis HA : forall w t lr, PW w -> PWin t -> LR lr -> length w = length t -> PW (adjust N w t lr).
Hypothesis HMU : forall m w m', PM m -> PW w -> mm_update N m w = Ok m' -> PM m'.
Hypothesis HMUin : forall m w m', PM m -> PWin w -> mm_update N m w = Ok m' -> PM m'.
Hypothesis HMR : forall m, PM m -> PM (mm_reset N m).
Hypothesis HD : forall l r m, PD (distance N l r m).
Hypothesis HE1 : forall e d, PE e -> PD d -> PE (n_add N e d).
Hypothesis HE2 : forall e k, PE e -> 1 <= k -> PE (n_add N e (n_mul N (n_div N df0 (n_ofZ N k)) e)).
Hypothesis HE3 : PE (n_mul N (n_half N) thr0).
Hypothesis HE0 : PE (n_zero N).
Hypothesis HLR1 : forall lr len b, LRb lr -> Cnt len -> LR (base_rate N lr len b).
Hypothesis HLR2 : forall r k, LR r -> 1 <= k -> LR (n_div N r (n_ofZ N k)).
Hypothesis HX : forall x, PX x -> PWin (itw N x).
Hypothesis HG : growth = true ->
  (forall w1 w2, PW w1 -> PW w2 -> PW (map2 (grow_b N) w1 w2) /\ PW (map2 (grow_ac N) w1 w2)) /\
  (forall m, PM m -> PW (map (grow_d N) (mm_iter N m))) /\ (forall k, Cnt k).

Definition NP (nd : wnode (T := T)) : Prop := PW (w_w nd) /\ PE (w_e nd) /\ Forall PX (w_st nd).
Definition INV (n : wnet (T := T)) : Prop :=
  NPs NP (wn_nodes n) /\ PM (wn_mm n) /\ Cnt (length (wn_nodes n)) /\ wn_thr n = thr0 /\ wn_df n = df0 /\ LRb (wn_lr n).

Lemma NP_set_w w nd : PW w -> NP nd -> NP (set_w w nd).
Proof. unfold NP; cbn; tauto. Qed.
Lemma NP_set_e e nd : PE e -> NP nd -> NP (set_e e nd).
Proof. unfold NP; cbn; tauto. Qed.
Lemma NP_hit nd : NP nd -> NP (hitW nd).
Proof. unfold NP; cbn; tauto. Qed.
Lemma NP_clear nd : NP nd -> NP (clearW nd).
Proof. unfold NP; cbn. intuition. Qed.
Lemma NP_move c nd : NP nd -> NP (moveW c nd).
Proof. unfold NP; cbn; tauto. Qed.
Lemma NP_store x nd : PX x -> NP nd -> NP (storeW x nd).
Proof.
  unfold NP; cbn. intros Hx (H1 & H2 & H3). repeat split; auto. rewrite Forall_forall in *. intros y Hy.
  destruct (In_st_add _ _ _ _ Hy) as [H|H]; subst; auto.
Qed.

(* ---------- adjust_weights ---------- *)
Lemma adjust_node_inv n c w lr n' : INV n -> PWin w -> LR lr -> adjust_node N n c w lr = Ok n' -> INV n'.
Proof.
  intros (Hn & Hm & Hc & Ht & Hd & Hl) Hw Hlr. unfold adjust_node.
  destruct (lookupW c (wn_nodes n)) as [x|] eqn:L; [|intros H; injection H as <-; repeat split; auto].
  destruct (length (w_w x) =? length w)%nat eqn:E; [|discriminate]. apply Nat.eqb_eq in E.
  pose proof (NPs_lookup _ _ _ _ Hn L) as (Hx1 & Hx2 & Hx3).
  assert (Hw' : PW (adjust N (w_w x) w lr)) by (apply HA; auto).
  destruct (mm_update N (wn_mm n) (adjust N (w_w x) w lr)) as [m'|] eqn:U; cbn [bind]; [|discriminate].
  intros H; injection H as <-. unfold INV; cbn. rewrite length_modifyW. repeat split; auto.
  - apply NPs_modify; auto. intros nd. apply NP_set_w; auto.
  - eapply HMU; eauto.
Qed.

Lemma adjust_weights_inv n c w r b n' : INV n -> PWin w -> adjust_weights N n c w r b = Ok n' -> INV n'.
Proof.
  intros Hinv Hw. unfold adjust_weights. destruct (lookupW c (wn_nodes n)) as [nd|] eqn:L; [|discriminate].
  set (lr := base_rate N (wn_lr n) (length (wn_nodes n)) b).
  assert (Hlr : LR lr). { destruct Hinv as (_ & _ & Hc & _ & _ & Hl). apply HLR1; auto. }
  set (targets := (c, lr) :: _).
  assert (Ht : forall t, In t targets -> LR (snd t)).
  { intros t [<-|Hin]; cbn; auto. apply in_map_iff in Hin as [p [<- Hp]]; cbn.
    apply HLR2; auto. destruct p as [c' o]. apply existing_In in Hp. apply neighboursW_offset in Hp. cbn in *.
    eapply offsets_manh; eauto. }
  intros H. revert H. apply (fold_bind_inv (fun m t => adjust_node N m (fst t) w (snd t)) INV targets); auto.
  intros m t m' Hin Hm. apply adjust_node_inv; auto.
Qed.

(* ---------- distribute_error ---------- *)
Lemma distribute_error_inv n c r n' : INV n -> distribute_error N n c r = Ok n' -> INV n'.
Proof.
  intros Hinv. unfold distribute_error. destruct (lookupW c (wn_nodes n)) as [nd|] eqn:L; [|discriminate].
  set (targets := (c, None) :: _).
  assert (Ht : forall t, In t targets -> match snd t with Some d => exists k, 1 <= k /\ d = n_div N (wn_df n) (n_ofZ N k) | None => True end).
  { intros t [<-|Hin]; cbn; auto. apply in_map_iff in Hin as [p [<- Hp]]; cbn.
    destruct p as [c' o]. apply existing_In in Hp. apply neighboursW_offset in Hp. cbn in *.
    exists (manh o). split; auto. eapply offsets_manh; eauto. }
  assert (Hdf : wn_df n = df0) by (destruct Hinv as (_ & _ & _ & _ & H & _); auto).
  set (P := fun m : wnet => INV m /\ wn_df m = wn_df n).
  intros H. assert (G : P n') ; [|destruct G; auto].
  revert H. apply (fold_bind_inv _ P targets); [|split; auto].
  intros m t m' Hin [Hm Hdm]. destruct (lookupW (fst t) (wn_nodes m)) as [x|] eqn:Lx; [|discriminate].
  intros H; injection H as <-. destruct Hm as (Hn & Hmm & Hc & Hth & Hd & Hl).
  split; [|cbn; auto]. unfold INV; cbn. rewrite length_modifyW. repeat split; auto.
  apply NPs_modify; auto. intros nd0 Hnd0. specialize (Ht _ Hin). destruct (snd t) as [d|].
  - destruct Ht as [k [Hk ->]]. apply NP_set_e; auto. rewrite Hdf. apply HE2; auto. destruct Hnd0 as (_ & He & _); auto.
  - apply NP_set_e; auto. rewrite Hth. apply HE3.
Qed.

(* ---------- growth ---------- *)
Lemma grow_weights_PW n nd o : growth = true -> INV n -> NP nd -> PW (grow_weights N n nd o).
Proof.
  intros Hg (Hn & Hm & _) (Hw & _). destruct (HG Hg) as (G1 & G2 & _). unfold grow_weights.
  set (cc := w_c nd).
  match goal with |- PW (match ?a with _ => _ end) => destruct a as [m2|] eqn:E1 end.
  - apply G1; auto. assert (NP m2) as (H & _); auto.
    destruct (Z.abs (fst o) =? 1); eapply NPs_lookup; eauto.
  - match goal with |- PW (match ?a with _ => _ end) => destruct a as [m2|] eqn:E2 end.
    + apply G1; auto. assert (NP m2) as (H & _); auto.
      destruct (Z.abs (fst o) =? 1); unfold orelse in E2;
        repeat match type of E2 with context [match lookupW ?c ?l with _ => _ end] => destruct (lookupW c l) eqn:? end;
        try discriminate; try (injection E2 as <-); eapply NPs_lookup; eauto.
    + apply G2; auto.
Qed.

Lemma insert_node_inv n c w n' : growth = true -> INV n -> PW w -> insert_node N n c w = Ok n' -> INV n'.
Proof.
  intros Hg (Hn & Hm & Hc & Ht & Hd & Hl) Hw. unfold insert_node.
  destruct (mm_update N (wn_mm n) w) as [m'|] eqn:U; cbn [bind]; [|discriminate].
  intros H; injection H as <-. destruct (HG Hg) as (_ & _ & G3). unfold INV; cbn. repeat split; auto.
  - apply NPs_insert; auto. unfold NP; cbn. repeat split; auto.
  - eapply HMU; eauto.
Qed.

(* ---------- update ---------- *)
Lemma updateW_inv n bmu x err b n' : (b = true -> growth = true) -> INV n -> PX x -> PD err ->
  updateW N n bmu x err b = Ok n' -> INV n'.
Proof.
  intros Hb Hinv Hx Herr. unfold updateW. destruct (lookupW bmu (wn_nodes n)) as [nd0|] eqn:L0; [|discriminate].
  set (n1 := with_nodesW n _).
  assert (Hinv1 : INV n1).
  { destruct Hinv as (Hn & Hm & Hc & Ht & Hd & Hl). unfold INV, n1; cbn. rewrite length_modifyW. repeat split; auto.
    apply NPs_modify; auto. intros nd Hnd. assert (NP (set_e (n_add N (w_e nd) err) nd)).
    { apply NP_set_e; auto. apply HE1; auto. destruct Hnd as (_ & He & _); auto. }
    destruct b; auto. }
  destruct (lookupW bmu (wn_nodes n1)) as [nd|] eqn:L1; [|discriminate].
  pose proof (HX _ Hx) as Hxw.
  match goal with |- bind ?br _ = _ -> _ => destruct br as [n2|] eqn:B end; cbn [bind]; [|discriminate].
  assert (Hinv2 : INV n2).
  { destruct (exceeds N n1 nd && (is_boundaryW (wn_nodes n1) nd && b)) eqn:Eg.
    - assert (b = true) by (destruct b; auto; rewrite !andb_false_r in Eg; discriminate). specialize (Hb H).
      unfold grow_nodesW in B. rewrite L1 in B. cbn in B.
      revert B. set (news := map _ _).
      assert (Hnews : forall cw, In cw news -> exists o, snd cw = grow_weights N n1 nd o).
      { intros cw Hin. apply in_map_iff in Hin as [o [<- _]]. exists o; auto. }
      assert (Hnd : NP nd) by (destruct Hinv1 as (Hn1 & _); eapply NPs_lookup; eauto).
      set (P := fun m : wnet => INV m).
      assert (Hpw : forall cw, In cw news -> PW (snd cw)).
      { intros cw Hin. destruct (Hnews _ Hin) as [o ->]. apply grow_weights_PW; auto. }
      apply (fold_bind_inv (fun m cw => bind (insert_node N m (fst cw) (snd cw)) (fun m' => adjust_weights N m' (fst cw) (itw N x) (if b then 2 else 3) b)) INV news); auto.
      intros m cw m' Hin Hm. destruct (insert_node N m (fst cw) (snd cw)) as [mi|] eqn:I; cbn [bind]; [|discriminate].
      intros Ha. eapply adjust_weights_inv; [|exact Hxw|exact Ha]. eapply insert_node_inv; eauto.
    - destruct (exceeds N n1 nd).
      + eapply distribute_error_inv; eauto.
      + eapply adjust_weights_inv; eauto. }
  destruct (lookupW bmu (wn_nodes n2)) as [nd2|] eqn:L2; [|discriminate].
  intros H; injection H as <-. destruct Hinv2 as (Hn & Hm & Hc & Ht & Hd & Hl). unfold INV; cbn. rewrite length_modifyW. repeat split; auto.
  apply NPs_modify; auto. intros ndx. apply NP_store; auto.
Qed.

(* ---------- train_on_data ---------- *)
Lemma plan_cons n x t : plan N n (x :: t) =
  bind (plan N n t) (fun l => match find_bmu N (wn_nodes n) (wn_mm n) (itw N x) with
                              | None => Panic 1
                              | Some b => Ok ((w_c (fst b), snd b, x) :: l)
                              end).
Proof. reflexivity. Qed.
Lemma plan_PD n data p : plan N n data = Ok p -> Forall (fun t => PD (snd (fst t)) /\ In (snd t) data) p.
Proof.
  revert p; induction data as [|x t IH]; intros p.
  - cbn. intros H; inversion H; subst; constructor.
  - rewrite plan_cons. destruct (plan N n t) as [l|] eqn:P; cbn [bind]; [|discriminate].
    destruct (find_bmu N (wn_nodes n) (wn_mm n) (itw N x)) as [bm|] eqn:F; [|discriminate].
    intros H; injection H as <-. constructor.
    + cbn. split; auto. unfold find_bmu in F. destruct (wn_nodes n) as [|[k nd] tl]; [discriminate|].
      inversion F; subst; clear F.
      set (f := fun best kv => _). assert (G : forall l acc, PD (snd acc) -> PD (snd (fold_left f l acc))).
      { clear - HD. induction l as [|kv l IH]; cbn; auto. intros acc Hacc. apply IH. unfold f.
        destruct (n_lt N (distance N (w_w (snd kv)) (itw N x) (wn_mm n)) (snd acc)); cbn; auto. }
      apply G. cbn. apply HD.
    + specialize (IH _ eq_refl). eapply Forall_impl; [|exact IH]. cbn. intros a [? ?]; auto.
Qed.

Lemma train_on_dataW_inv n data b n' : (b = true -> growth = true) -> INV n -> Forall PX data ->
  train_on_dataW N n data b = Ok n' -> INV n'.
Proof.
  intros Hb Hinv Hx. unfold train_on_dataW. destruct (negb (wn_known n)); [discriminate|].
  destruct (plan N n data) as [p|] eqn:P; cbn [bind]; [|discriminate].
  pose proof (plan_PD _ _ _ P) as Hp. rewrite Forall_forall in Hp, Hx.
  apply (fold_bind_inv (fun m t => updateW N m (fst (fst t)) (snd t) (snd (fst t)) b) INV p); auto.
  intros m t m' Hin Hm. destruct (Hp _ Hin) as [H1 H2]. apply updateW_inv; auto.
Qed.

(* ---------- mm_update_all ---------- *)
Lemma mm_update_all_inv (Q : list T -> Prop) m ws m' :
  (forall m w m', PM m -> Q w -> mm_update N m w = Ok m' -> PM m') -> PM m -> Forall Q ws -> mm_update_all N m ws = Ok m' -> PM m'.
Proof.
  intros HQ Hm Hws. unfold mm_update_all. rewrite Forall_forall in Hws.
  apply (fold_bind_inv (fun m w => mm_update N m w) PM ws); auto. intros; eapply HQ; eauto.
Qed.

(* ---------- store_batch ---------- *)
Lemma with_mmW_inv n m : INV n -> PM m -> INV (with_mmW n m).
Proof. intros (Hn & Hm & Hc & Ht & Hd & Hl) H. unfold INV; cbn; repeat split; auto. Qed.
Lemma with_nodesW_inv n l : INV n -> NPs NP l -> Cnt (length l) -> INV (with_nodesW n l).
Proof. intros (Hn & Hm & Hc & Ht & Hd & Hl) H1 H2. unfold INV; cbn; repeat split; auto. Qed.

Lemma store_batchW_inv n data n' : growth = true -> INV n -> Forall PX data -> store_batchW N n data = Ok n' -> INV n'.
Proof.
  intros Hg Hinv Hx. unfold store_batchW. destruct (negb (wn_known n)); [discriminate|].
  destruct (mm_update_all N (wn_mm n) (map (itw N) data)) as [m|] eqn:U; cbn [bind]; [|discriminate].
  intros H. eapply train_on_dataW_inv; [| |exact Hx|exact H]; auto.
  apply with_mmW_inv; auto. apply (mm_update_all_inv PWin (wn_mm n) (map (itw N) data) m); auto.
  - destruct Hinv as (_ & Hm & _); auto.
  - rewrite Forall_map. eapply Forall_impl; [|exact Hx]. intros; apply HX; auto.
Qed.

(* ---------- retrain ---------- *)
Lemma resolve_ids_In pool ids sv : resolve_ids pool ids = Some sv -> forall y, In y sv -> In y pool.
Proof.
  revert sv; induction ids as [|i t IH]; cbn; intros sv.
  - intros H; inversion H; subst. intros y [].
  - destruct (find_item i pool) as [it|] eqn:F; [|discriminate]. destruct (resolve_ids pool t) as [r|]; [|discriminate].
    intros H; injection H as <-. intros y [<-|Hy]; eauto.
    unfold find_item in F. apply find_some in F. tauto.
Qed.

Lemma drain_pool_PX l : NPs NP l -> Forall PX (fst (drain_allW (T := T) l)).
Proof.
  intros H. cbn. rewrite Forall_forall. intros y Hy. apply in_flat_map in Hy as [kv [Hkv Hin]].
  unfold NPs in H. rewrite Forall_forall in H. destruct (H _ Hkv) as (_ & _ & Hs). rewrite Forall_forall in Hs; auto.
Qed.

Lemma set_known_inv n : INV n -> INV (set_known n).
Proof. intros (Hn & Hm & Hc & Ht & Hd & Hl). unfold INV; cbn; repeat split; auto. Qed.

Lemma retrain_roundW_inv n b ids n' : (b = true -> growth = true) -> INV n -> retrain_roundW N n b ids = Ok n' -> INV n'.
Proof.
  intros Hb Hinv. unfold retrain_roundW.
  pose proof (drain_pool_PX (wn_nodes n)) as Hpool. destruct (drain_allW (wn_nodes n)) as [pool l'] eqn:D.
  cbn in D. inversion D; subst pool l'; clear D. set (pool := flat_map _ _) in *. set (l' := map _ (wn_nodes n)).
  destruct Hinv as (Hn & Hm & Hc & Ht & Hd & Hl). specialize (Hpool Hn). cbn in Hpool.
  destruct (resolve_ids pool ids) as [sv|] eqn:R; [|discriminate].
  destruct (survivors_okW pool sv); [|discriminate].
  assert (Hsv : Forall PX sv).
  { rewrite Forall_forall in *. intros y Hy. apply Hpool. eapply resolve_ids_In; eauto. }
  assert (Hl' : NPs NP l') by (apply NPs_map; auto; apply NP_clear).
  destruct (mm_update_all N (mm_reset N (wn_mm n)) (map (itw N) sv ++ map (fun kv => w_w (snd kv)) l')) as [m|] eqn:U; cbn [bind]; [|discriminate].
  assert (Hm' : PM m).
  { unfold mm_update_all in U. rewrite fold_left_app in U.
    destruct (fold_left (fun acc w => bind acc (fun m' => mm_update N m' w)) (map (itw N) sv) (Ok (mm_reset N (wn_mm n)))) as [m1|] eqn:U1.
    - assert (PM m1).
      { eapply (mm_update_all_inv PWin); [exact HMUin|apply HMR; exact Hm| |exact U1].
        rewrite Forall_map. eapply Forall_impl; [|exact Hsv]. intros; apply HX; auto. }
      eapply (mm_update_all_inv PW); [exact HMU|exact H| |exact U].
      rewrite Forall_map. eapply Forall_impl; [|exact Hl']. intros kv (Hw & _); auto.
    - rewrite fold_bind_panicR in U. discriminate. }
  match goal with |- bind ?t _ = _ -> _ => destruct t as [n2|] eqn:Tr end; cbn [bind]; [|discriminate].
  assert (Hinv2 : INV n2).
  { eapply train_on_dataW_inv; [exact Hb| |exact Hsv|exact Tr]. apply set_known_inv.
    unfold INV; cbn. repeat split; auto. unfold l'. rewrite map_length; auto. }
  intros H; injection H as <-. destruct Hinv2 as (Hn2 & Hm2 & Hc2 & Ht2 & Hd2 & Hl2).
  unfold INV; cbn. repeat split; auto.
  - apply NPs_map; auto. intros nd. apply NP_set_e; auto.
  - rewrite map_length; auto.
Qed.

Lemma smoothW_inv n rounds n' : INV n -> smoothW N n rounds = Ok n' -> INV n'.
Proof.
  intros Hinv. unfold smoothW. apply (fold_bind_inv (fun m ids => retrain_roundW N m false ids) INV rounds); auto.
  intros m ids m' _ Hm. apply retrain_roundW_inv; auto. discriminate.
Qed.

(* ---------- reorder / compact ---------- *)
Lemma reorder_NPs post l l2 : NPs NP l -> reorder post l = Ok l2 -> NPs NP l2 /\ length l2 = length l.
Proof.
  intros Hl. unfold reorder. destruct (length post =? length l)%nat eqn:E; cbn [bind]; [|discriminate]. apply Nat.eqb_eq in E.
  destruct (nodupb coord_eqb post); [|discriminate]. rewrite <- E. clear E.
  revert l2; induction post as [|c t IH]; cbn; intros l2.
  - intros H; inversion H; subst. split; [constructor|auto].
  - destruct (fold_right _ _ t) as [tl|] eqn:F; cbn [bind]; [|discriminate].
    destruct (lookupW c l) as [nd|] eqn:L; [|discriminate]. intros H; injection H as <-.
    destruct (IH _ eq_refl) as [H1 H2]. split; [|cbn; auto]. constructor; auto. cbn. apply (NPs_lookup NP l c nd Hl L).
Qed.
Lemma reorder_net_inv post n n' : INV n -> reorder_net post n = Ok n' -> INV n'.
Proof.
  intros Hinv. unfold reorder_net. destruct (reorder post (wn_nodes n)) as [l|] eqn:R; cbn [bind]; [|discriminate].
  intros H; injection H as <-. destruct Hinv as (Hn & Hm & Hc & Ht & Hd & Hl).
  destruct (reorder_NPs _ _ _ Hn R) as [H1 H2]. unfold INV; cbn. rewrite H2. repeat split; auto.
Qed.

Lemma remapW_NPs f l : NPs NP l -> NPs NP (remapW f l).
Proof.
  intros Hl. unfold remapW. assert (G : forall l acc, NPs NP l -> NPs NP acc ->
    NPs NP (fold_left (fun acc kv => let nd := moveW (f (fst kv)) (snd kv) in insertW (w_c nd) nd acc) l acc)).
  { clear. induction l as [|kv t IH]; cbn; auto. intros acc Ht Hacc. inversion Ht; subst. apply IH; auto.
    apply NPs_insert; auto. }
  apply G; auto. constructor.
Qed.
Lemma remove_allW_NPs l removed data l2 : NPs NP l -> remove_allW l removed = Ok (data, l2) -> NPs NP l2 /\ Forall PX data.
Proof.
  intros Hl. unfold remove_allW.
  set (P := fun st : list item * wmap => NPs NP (snd st) /\ Forall PX (fst st)).
  intros H. change (P (data, l2)). revert H.
  apply (fold_bind_inv (fun st c => match lookupW c (snd st) with None => Panic 6 | Some nd => Ok (fst st ++ w_st nd, removeW c (snd st)) end) P removed).
  - intros st c st' _ [H1 H2]. destruct (lookupW c (snd st)) as [nd|] eqn:L; [|discriminate].
    intros H; injection H as <-. split; cbn.
    + apply NPs_remove; auto.
    + apply Forall_app. split; auto. destruct (NPs_lookup _ _ _ _ H1 L) as (_ & _ & H3); auto.
  - split; cbn; auto.
Qed.

Lemma compactW_inv n post n' : growth = true -> INV n -> compactW N n post = Ok n' -> INV n'.
Proof.
  intros Hg Hinv. unfold compactW. destruct (negb (wn_known n)); [discriminate|].
  destruct (decims (shapeW (wn_nodes n)) 3 4) as [xd yd].
  match goal with |- (if ?c then _ else _) = _ -> _ => destruct c end.
  { intros H; injection H as <-; auto. }
  match goal with |- bind ?r _ = _ -> _ => destruct r as [[data l1]|] eqn:R end; cbn [bind]; [|discriminate].
  match goal with |- bind ?r _ = _ -> _ => destruct r as [l2|] eqn:Ro end; cbn [bind]; [|discriminate].
  intros H. pose proof Hinv as (Hn & Hm & Hc & Ht & Hd & Hl).
  destruct (remove_allW_NPs _ _ _ _ Hn R) as [H1 H2]. cbn [fst snd] in *.
  destruct (reorder_NPs _ _ _ (remapW_NPs _ _ H1) Ro) as [H3 _].
  eapply train_on_dataW_inv; [| |exact H2|exact H]; [intros; discriminate|].
  apply with_nodesW_inv; auto. destruct (HG Hg) as (_ & _ & G3). apply G3.
Qed.

Hypothesis HLRb : forall b, LRb (n_ofbits N b).
Definition op_PX (o : wop) : Prop := match o with WStore data _ => Forall PX data | _ => True end.

Lemma stepW_inv n o n' : growth = true -> INV n -> op_PX o -> stepW N n o = Ok n' -> INV n'.
Proof.
  intros Hg Hinv Ho. destruct o as [data post|rounds post|post|b]; cbn [stepW].
  - destruct (store_batchW N n data) as [m|] eqn:S; cbn [bind]; [|discriminate].
    apply reorder_net_inv. eapply store_batchW_inv; eauto.
  - destruct (smoothW N n rounds) as [m|] eqn:S; cbn [bind]; [|discriminate].
    apply reorder_net_inv. eapply smoothW_inv; eauto.
  - destruct (compactW N n post) as [m|] eqn:S; cbn [bind]; [|discriminate].
    apply reorder_net_inv. eapply compactW_inv; eauto.
  - intros H; injection H as <-. destruct Hinv as (Hn & Hm & Hc & Ht & Hd & Hl). unfold INV; cbn. repeat split; auto.
Qed.

Lemma runW_inv n ops n' : growth = true -> INV n -> Forall op_PX ops -> runW N n ops = Ok n' -> INV n'.
Proof.
  intros Hg Hinv Hops. unfold runW. rewrite Forall_forall in Hops.
  apply (fold_bind_inv (fun m o => stepW N m o) INV ops); auto.
  intros m o m' Hin Hm. apply stepW_inv; auto.
Qed.

End Generic.

(* ================= instance: dimension (any arithmetic) ================= *)
Section Dim.
Context {T : Type} (N : num T) (d : nat).
Definition dimW (n : wnet (T := T)) : Prop :=
  Forall (fun kv => length (w_w (snd kv)) = d) (wn_nodes n) /\ length (mm_min (wn_mm n)) = d /\ length (mm_max (wn_mm n)) = d.

Lemma mm_update_dim (m : mm (T := T)) w m' : length (mm_min m) = d /\ length (mm_max m) = d -> mm_update N m w = Ok m' ->
  length (mm_min m') = d /\ length (mm_max m') = d.
Proof.
  intros [H1 H2]. unfold mm_update. destruct (length w =? length (mm_min m))%nat eqn:E; [|discriminate]. apply Nat.eqb_eq in E.
  intros H; injection H as <-. cbn. rewrite !map2_length. lia.
Qed.
Lemma mm_iter_length (m : mm (T := T)) : length (mm_min m) = d -> length (mm_max m) = d -> length (mm_iter N m) = d.
Proof. intros H1 H2. unfold mm_iter. destruct (mm_isreset m); [rewrite map_length|rewrite combine_length]; lia. Qed.

Theorem runW_dim n ops n' : dimW n -> runW N n ops = Ok n' -> dimW n'.
Proof.
  intros (Hn & H1 & H2) R.
  pose (PW := fun w : list T => length w = d). pose (TT := fun _ : T => True).
  pose (PM := fun m : mm (T := T) => length (mm_min m) = d /\ length (mm_max m) = d).
  assert (G : INV PW TT PM TT (fun _ => True) (fun _ => True) (wn_thr n) (wn_df n) n').
  { eapply (runW_inv N PW (fun _ => True) TT TT PM TT TT (fun _ => True) (fun _ => True) (wn_thr n) (wn_df n) true);
      try exact R; unfold PW, TT, PM; auto.
    - intros w t lr Hw _ _ Hl. unfold adjust. rewrite map2_length. lia.
    - intros m w m' Hm _. apply mm_update_dim; auto.
    - intros m w m' Hm _. apply mm_update_dim; auto.
    - intros m [A B]. unfold mm_reset; cbn. rewrite !map_length. auto.
    - intros _. repeat split; auto.
      + rewrite map2_length. lia.
      + rewrite map2_length. lia.
      + intros m [A B]. rewrite map_length. apply mm_iter_length; auto.
    - unfold INV. repeat split; auto. unfold NPs. eapply Forall_impl; [|exact Hn]. intros kv Hkv. unfold NP. repeat split; auto.
      apply Forall_forall; auto.
    - apply Forall_forall. intros o _. destruct o; cbn; auto. apply Forall_forall; auto. }
  destruct G as (Gn & [G1 G2] & _). repeat split; auto.
  unfold NPs in Gn. eapply Forall_impl; [|exact Gn]. intros kv (Hw & _); auto.
Qed.
End Dim.

(* ================= instances over Q ================= *)
Open Scope Q_scope.

Lemma q38_range : 0 < n_38 (QN (fun x => x)) /\ n_38 (QN (fun x => x)) <= 4.
Proof. split; vm_compute; [reflexivity|discriminate]. Qed.

(* ---------- Node::adjust is a convex step ---------- *)
Lemma adjust1_convex sq lr w v : adjust1 (QN sq) lr w v == (1 - lr) * w + lr * v.
Proof. unfold adjust1; cbn. ring. Qed.
Lemma adjust1_between sq lr w v lo hi : 0 <= lr <= 1 -> lo <= w <= hi -> lo <= v <= hi -> lo <= adjust1 (QN sq) lr w v <= hi.
Proof. intros Hl Hw Hv. rewrite adjust1_convex. split; nra. Qed.
Lemma adjust1_between_ends sq lr w v : 0 <= lr <= 1 -> Qmin w v <= adjust1 (QN sq) lr w v <= Qmax w v.
Proof.
  intros Hl. apply adjust1_between; auto; split;
    auto using Q.le_min_l, Q.le_min_r, Q.le_max_l, Q.le_max_r;
    try (eapply Qle_trans; [apply Q.le_min_l|apply Q.le_max_l]); try (eapply Qle_trans; [apply Q.le_min_r|apply Q.le_max_r]).
Qed.

(* ---------- learning rates ---------- *)
Lemma qdiv_unit a b : 0 <= a -> a <= b -> 0 < b -> 0 <= a / b <= 1.
Proof.
  intros Ha Hab Hb. split.
  - apply Qle_shift_div_l; auto. lra.
  - apply Qle_shift_div_r; auto. lra.
Qed.
Lemma base_rate_range sq lr len b : 0 <= lr <= 1 -> (4 <= len)%nat -> 0 <= base_rate (QN sq) lr len b <= 1.
Proof.
  intros Hl Hn. unfold base_rate. cbn [n_mul n_sub n_one n_div n_38 n_ofZ n_quarter QN].
  destruct q38_range as [A B]. cbn [n_38 QN] in A, B. set (c := q_of_bits 4615739258092021350) in *.
  assert (Hlen : 4 <= inject_Z (Z.of_nat len)). { change 4 with (inject_Z 4). rewrite <- Zle_Qle. lia. }
  destruct (qdiv_unit c (inject_Z (Z.of_nat len))) as [C1 C2]; try lra.
  set (x := c / inject_Z (Z.of_nat len)) in *.
  destruct b; split; nra.
Qed.
Lemma rate_div_range r k : 0 <= r <= 1 -> (1 <= k)%Z -> 0 <= r / inject_Z k <= 1.
Proof.
  intros Hr Hk. assert (1 <= inject_Z k). { change 1 with (inject_Z 1). rewrite <- Zle_Qle. lia. }
  apply qdiv_unit; lra.
Qed.
Lemma learning_rate_schedule_range c : -1 <= c <= 1 -> 1 # 10 <= learning_rate_of_cos c <= 1.
Proof. intros H. unfold learning_rate_of_cos. split; lra. Qed.

(* ---------- boxes ---------- *)
Definition inbox (B : list (Q * Q)) (w : list Q) : Prop := Forall2 (fun b v => fst b <= v <= snd b) B w.
Lemma inbox_length B w : inbox B w -> length w = length B.
Proof. intros H. induction H; cbn; auto. Qed.
Lemma inbox_adjust sq B w t lr : 0 <= lr <= 1 -> inbox B w -> inbox B t -> inbox B (adjust (QN sq) w t lr).
Proof.
  intros Hl Hw; revert t; induction Hw as [|b v B w Hb Hw IH]; intros t Ht; inversion Ht; subst; unfold adjust in *; cbn [map2];
    constructor; [apply (adjust1_between sq); auto | apply IH; exact H3].
Qed.

(* ---------- grown weights ---------- *)
Lemma grow_b_bounds sq w1 w2 lo hi : lo <= w1 <= hi -> lo <= w2 <= hi -> lo <= grow_b (QN sq) w1 w2 <= hi.
Proof. intros H1 H2. unfold grow_b; cbn. assert (E : (w1 + w2) / 2 == (w1 + w2) * (1 # 2)) by (unfold Qdiv; reflexivity). rewrite E. split; lra. Qed.
Lemma grow_ac_value sq w1 w2 : grow_ac (QN sq) w1 w2 == 2 * w1 - w2.
Proof. unfold grow_ac; cbn. destruct (negb (Qle_bool w2 w1)); ring. Qed.
Lemma grow_ac_bounds sq w1 w2 lo hi : lo <= w1 <= hi -> lo <= w2 <= hi ->
  lo - (hi - lo) <= grow_ac (QN sq) w1 w2 <= hi + (hi - lo).
Proof. intros H1 H2. rewrite grow_ac_value. split; lra. Qed.
Lemma grow_d_bounds sq mn mx lo hi : lo <= mn <= hi -> lo <= mx <= hi -> lo <= grow_d (QN sq) (mn, mx) <= hi.
Proof. intros H1 H2. unfold grow_d; cbn. assert (E : (mn + mx) / 2 == (mn + mx) * (1 # 2)) by (unfold Qdiv; reflexivity). rewrite E. split; lra. Qed.
Lemma grow_ac_leaves_hull : exists w1 w2 lo hi, lo <= w1 <= hi /\ lo <= w2 <= hi /\ ~ (grow_ac (QN (fun x => x)) w1 w2 <= hi).
Proof. exists 1, 0, 0, 1. repeat split; try lra. vm_compute. intros H; apply H; reflexivity. Qed.

(* ---------- hull of the non-growing updates (smooth, re-training of compact): a box that contains every node weight and every stored /
   re-trained individual keeps containing every node weight, when 0 <= learning rate <= 1 and the map has >= 4 nodes ---------- *)
Section Hull.
Variables (sq : Q -> Q) (B : list (Q * Q)).
Definition hull_ok (n : wnet (T := Q)) : Prop :=
  Forall (fun kv => inbox B (w_w (snd kv)) /\ Forall (fun x => inbox B (itw (QN sq) x)) (w_st (snd kv))) (wn_nodes n) /\
  (4 <= length (wn_nodes n))%nat /\ 0 <= wn_lr n <= 1.

Let PW := inbox B.
Let PX := fun x : item => inbox B (itw (QN sq) x).
Let TT := fun _ : Q => True.
Let LRq := fun r : Q => 0 <= r <= 1.
Let Cnt4 := fun k : nat => (4 <= k)%nat.

Lemma INV_of_hull n : hull_ok n -> INV PW TT (fun _ => True) LRq Cnt4 PX (wn_thr n) (wn_df n) n.
Proof.
  unfold hull_ok, INV, NPs, NP. intros (H1 & H2 & H3). repeat split; auto; try apply H3.
  eapply Forall_impl; [|exact H1]. cbn. intros kv [A C]. repeat split; auto.
Qed.
Lemma hull_of_INV n t d : INV PW TT (fun _ => True) LRq Cnt4 PX t d n -> hull_ok n.
Proof.
  unfold hull_ok, INV, NPs, NP. intros (H1 & _ & H2 & _ & _ & H3). repeat split; auto; try apply H3.
  eapply Forall_impl; [|exact H1]. cbn. intros kv (A & _ & C). split; auto.
Qed.

Lemma hull_train n data n' : hull_ok n -> Forall PX data -> train_on_dataW (QN sq) n data false = Ok n' -> hull_ok n'.
Proof.
  intros H Hd R. apply INV_of_hull in H. apply (hull_of_INV n' (wn_thr n) (wn_df n)).
  eapply (train_on_dataW_inv (QN sq) PW PW TT TT (fun _ => True) LRq LRq Cnt4 PX (wn_thr n) (wn_df n) false);
    try exact R; try exact H; unfold PW, PX, TT, LRq, Cnt4; auto; try discriminate.
  - intros w t lr Hw Htt Hl _. apply inbox_adjust; auto.
  - intros lr len b Hl Hc. apply base_rate_range; auto.
  - intros r k Hr Hk. apply rate_div_range; auto.
Qed.

Lemma hull_smooth n rounds n' : hull_ok n -> smoothW (QN sq) n rounds = Ok n' -> hull_ok n'.
Proof.
  intros H R. apply INV_of_hull in H. apply (hull_of_INV n' (wn_thr n) (wn_df n)).
  eapply (smoothW_inv (QN sq) PW PW TT TT (fun _ => True) LRq LRq Cnt4 PX (wn_thr n) (wn_df n) false);
    try exact R; try exact H; unfold PW, PX, TT, LRq, Cnt4; auto; try discriminate.
  - intros w t lr Hw Htt Hl _. apply inbox_adjust; auto.
  - intros lr len b Hl Hc. apply base_rate_range; auto.
  - intros r k Hr Hk. apply rate_div_range; auto.
Qed.
End Hull.

(* ---------- accumulated errors stay non-negative over every history; the growth test is `growing_threshold <= node.error` ---------- *)
Definition errors_ok (n : wnet (T := Q)) : Prop :=
  Forall (fun kv => 0 <= w_e (snd kv)) (wn_nodes n) /\ 0 <= wn_thr n /\ 0 <= wn_df n.

Lemma errors_nonneg sq n ops n' : (forall x, 0 <= sq x) -> errors_ok n -> runW (QN sq) n ops = Ok n' -> errors_ok n'.
Proof.
  intros Hsq (H1 & H2 & H3) R.
  pose (TW := fun _ : list Q => True). pose (PE := fun e : Q => 0 <= e). pose (TT := fun _ : Q => True).
  assert (G : INV TW PE (fun _ => True) TT (fun _ => True) (fun _ => True) (wn_thr n) (wn_df n) n').
  { eapply (runW_inv (QN sq) TW TW PE PE (fun _ => True) TT TT (fun _ => True) (fun _ => True) (wn_thr n) (wn_df n) true);
      try exact R; unfold TW, PE, TT; auto.
    - intros l r m. unfold distance. cbn [n_sqrt QN]. apply Hsq.
    - intros e d He Hd. cbn. lra.
    - intros e k He Hk. cbn [n_add n_mul n_div n_ofZ QN].
      assert (1 <= inject_Z k). { change 1 with (inject_Z 1). rewrite <- Zle_Qle. lia. }
      assert (0 <= wn_df n / inject_Z k). { apply Qle_shift_div_l; lra. }
      nra.
    - cbn. lra.
    - cbn. lra.
    - unfold INV, NPs, NP. repeat split; auto. eapply Forall_impl; [|exact H1]. cbn. intros kv Hkv. repeat split; auto.
      apply Forall_forall; auto.
    - apply Forall_forall. intros o _. destruct o; cbn; auto. apply Forall_forall; auto. }
  destruct G as (Gn & _ & _ & E1 & E2 & _). unfold errors_ok. rewrite E1, E2. repeat split; auto.
  unfold NPs in Gn. eapply Forall_impl; [|exact Gn]. intros kv (_ & He & _); auto.
Qed.

Lemma exceeds_iff sq n nd : exceeds (QN sq) n nd = true <-> wn_thr n <= w_e nd.
Proof. unfold exceeds. cbn [n_le QN]. apply Qle_bool_iff. Qed.
Lemma exceeds_at_threshold sq n nd : w_e nd == wn_thr n -> exceeds (QN sq) n nd = true.
Proof. intros H. apply exceeds_iff. rewrite H. apply Qle_refl. Qed.

(* ---------- find_bmu = the first node of minimal distance ---------- *)
Lemma find_bmu_argmin sq l m w nd dv :
  find_bmu (QN sq) l m w = Some (nd, dv) ->
  dv = distance (QN sq) (w_w nd) w m /\
  exists pre k post, l = pre ++ (k, nd) :: post /\
    (forall kv, In kv pre -> dv < distance (QN sq) (w_w (snd kv)) w m) /\
    (forall kv, In kv post -> dv <= distance (QN sq) (w_w (snd kv)) w m).
Proof.
  unfold find_bmu. destruct l as [|[k0 nd0] t]; [discriminate|].
  set (D := fun x : wnode (T := Q) => distance (QN sq) (w_w x) w m).
  set (f := fun (best : wnode * Q) (kv : coord * wnode) => _).
  assert (G : forall t pre k a post,
             (forall kv, In kv pre -> D a < D (snd kv)) -> (forall kv, In kv post -> D a <= D (snd kv)) ->
             let r := fold_left f t (a, D a) in
             snd r = D (fst r) /\ exists pre' k' post', pre ++ (k, a) :: post ++ t = pre' ++ (k', fst r) :: post' /\
               (forall kv, In kv pre' -> snd r < D (snd kv)) /\ (forall kv, In kv post' -> snd r <= D (snd kv))).
  { clear. induction t as [|kv t IH]; intros pre k a post Hpre Hpost; cbn [fold_left].
    - cbn. split; auto. exists pre, k, post. rewrite app_nil_r. auto.
    - assert (Hf : f (a, D a) kv = if negb (Qle_bool (D a) (D (snd kv))) then (snd kv, D (snd kv)) else (a, D a)) by reflexivity.
      rewrite Hf. clear Hf.
      destruct (Qle_bool (D a) (D (snd kv))) eqn:E; cbn [negb].
      + apply Qle_bool_iff in E.
        destruct (IH pre k a (post ++ [kv])) as [A (pre' & k' & post' & B1 & B2 & B3)]; auto.
        { intros x Hx. apply in_app_or in Hx as [Hx|[<-|[]]]; auto. }
        split; auto. exists pre', k', post'. split; auto. rewrite <- B1. rewrite <- !app_assoc. reflexivity.
      + assert (Hlt : D (snd kv) < D a). { apply Qnot_le_lt. intros H. apply Qle_bool_iff in H. congruence. }
        destruct kv as [k1 n1]. cbn [snd] in *.
        destruct (IH (pre ++ (k, a) :: post) k1 n1 []) as [A (pre' & k' & post' & B1 & B2 & B3)].
        { intros x Hx. apply in_app_or in Hx as [Hx|[<-|Hx]]; cbn [snd].
          - eapply Qlt_trans; [exact Hlt|auto].
          - exact Hlt.
          - eapply Qlt_le_trans; [exact Hlt|auto]. }
        { intros x []. }
        split; auto. exists pre', k', post'. split; auto. rewrite <- B1. cbn [app]. rewrite <- !app_assoc. reflexivity. }
  intros H0. assert (H : fold_left f t (nd0, D nd0) = (nd, dv)) by (injection H0 as H0; exact H0). clear H0.
  specialize (G t [] k0 nd0 [] (fun _ (F : False) => match F with end) (fun _ (F : False) => match F with end)).
  cbn zeta in G. rewrite H in G. cbn [fst snd app] in G. destruct G as [A (pre' & k' & post' & B1 & B2 & B3)].
  split; auto. exists pre', k', post'. auto.
Qed.

(* ---------- mse >= 0 ---------- *)
Lemma sumf_sq_nonneg sq a b : 0 <= sumf (QN sq) (map2 (sqdiff (QN sq)) a b).
Proof.
  unfold sumf. cbn [n_add n_nzero QN].
  assert (G : forall l acc, Forall (fun x => 0 <= x) l -> 0 <= acc -> 0 <= fold_left Qplus l acc).
  { induction l as [|x l IH]; cbn; auto. intros acc Hl Ha. inversion Hl; subst. apply IH; auto. lra. }
  apply G; [|lra]. revert b; induction a as [|x a IH]; intros [|y b]; cbn [map2]; constructor; auto.
  unfold sqdiff. cbn [n_sub n_mul QN]. set (dd := x - y). nra.
Qed.
Lemma node_mse_nonneg sq m nd : 0 <= node_mse (QN sq) m nd.
Proof.
  unfold node_mse. destruct (w_st nd) as [|x st] eqn:E; [cbn; lra|]. rewrite <- E. cbn [n_div n_add n_zero n_ofZ QN].
  assert (Hlen : 0 < inject_Z (Z.of_nat (length (w_st nd)))).
  { rewrite E. change 0 with (inject_Z 0). rewrite <- Zlt_Qlt. cbn [length]. lia. }
  apply Qle_shift_div_l; auto. rewrite Qmult_0_l.
  assert (G : forall l acc, 0 <= acc -> 0 <= fold_left (fun acc x => acc + sumf (QN sq) (map2 (sqdiff (QN sq)) (normalize (QN sq) (w_w nd) m) (normalize (QN sq) (itw (QN sq) x) m))) l acc).
  { induction l as [|y l IH]; cbn; auto. intros acc Ha. apply IH. pose proof (sumf_sq_nonneg sq (normalize (QN sq) (w_w nd) m) (normalize (QN sq) (itw (QN sq) y) m)). lra. }
  apply G. lra.
Qed.
Lemma net_mse_nonneg sq n : 0 <= net_mse (QN sq) n.
Proof.
  unfold net_mse. set (f := fun acc kv => _).
  assert (G : forall l acc, 0 <= snd acc -> 0 <= snd (fold_left f l acc)).
  { induction l as [|kv l IH]; cbn [fold_left]; auto. intros acc Ha. apply IH. unfold f. destruct (w_st (snd kv)); auto.
    cbn [snd n_add QN]. pose proof (node_mse_nonneg sq (wn_mm n) (snd kv)). lra. }
  specialize (G (wn_nodes n) (O, n_zero (QN sq))). destruct (fold_left f (wn_nodes n) (O, n_zero (QN sq))) as [k s]. cbn [fst snd] in *.
  destruct k as [|k]; [cbn; lra|]. cbn [n_div n_ofZ QN]. apply Qle_shift_div_l.
  - change 0 with (inject_Z 0). rewrite <- Zlt_Qlt. lia.
  - rewrite Qmult_0_l. apply G. cbn. lra.
Qed.
Lemma distance_nonneg sq l r m : (forall x, 0 <= sq x) -> 0 <= distance (QN sq) l r m.
Proof. intros H. unfold distance. cbn [n_sqrt QN]. apply H. Qed.
Lemma dist2_nonneg sq l r m : 0 <= dist2 (QN sq) l r m.
Proof. unfold dist2. apply sumf_sq_nonneg. Qed.
Close Scope Q_scope.

(* ---------- non-vacuity witnesses: a concrete network over Q (2 x 2 map, one dimension), smoothing and a full history succeed ---------- *)
Definition wq_b0 : Z := 0.                          (* 0.0 *)
Definition wq_b1 : Z := 4607182418800017408.        (* 1.0 *)
Definition wq_b2 : Z := 4611686018427387904.        (* 2.0 *)
Definition wq_b3 : Z := 4613937818241073152.        (* 3.0 *)
Definition wq_node (c : coord) (w : Q) (st : list item) : coord * wnode (T := Q) := (c, mkW c [w] 0%Q 0 2 st).
Definition wq_net : wnet (T := Q) :=
  mkWN [wq_node (0, 0) 0%Q [mkI 1 1 1 [wq_b1]]; wq_node (1, 0) 1%Q []; wq_node (0, 1) 2%Q [mkI 2 2 2 [wq_b2]]; wq_node (1, 1) 3%Q []]
       1 1%Q (1 # 2)%Q (1 # 2)%Q (mm_new (QN (fun x => x)) 1) false 2.
Definition wq_post : list coord := [(0, 0); (1, 0); (0, 1); (1, 1)].
Definition wq_ops : list wop :=
  [WSmooth [[2; 1]] wq_post; WStore [mkI 3 0 3 [wq_b3]; mkI 4 0 4 [wq_b0]] wq_post; WLr wq_b1; WCompact wq_post].
Definition wq_id (x : Q) : Q := x.

Lemma wq_hull_witness : hull_ok wq_id [(0%Q, 3%Q)] wq_net /\ exists n', smoothW (QN wq_id) wq_net [[1; 2]] = Ok n'.
Proof.
  split.
  - unfold hull_ok. split; [|split; [cbn; lia | split; vm_compute; discriminate]].
    repeat constructor; vm_compute; discriminate.
  - eexists. vm_compute. reflexivity.
Qed.
Lemma wq_history_witness : errors_ok wq_net /\ dimW 1 wq_net /\ exists n', runW (QN wq_id) wq_net wq_ops = Ok n' /\ length (wn_nodes n') = 4%nat.
Proof.
  split; [|split].
  - unfold errors_ok. repeat split; try (vm_compute; discriminate). repeat constructor; vm_compute; discriminate.
  - unfold dimW. repeat split; repeat constructor.
  - eexists. split; [vm_compute; reflexivity | reflexivity].
Qed.

(* ---------- the statements of Properties/C19.v ---------- *)
Open Scope Q_scope.
Lemma adjust_convex_step_all (sq : Q -> Q) (lr w v lo hi : Q) :
  adjust1 (QN sq) lr w v == (1 - lr) * w + lr * v /\
  (0 <= lr <= 1 -> Qmin w v <= adjust1 (QN sq) lr w v <= Qmax w v) /\
  (0 <= lr <= 1 -> lo <= w <= hi -> lo <= v <= hi -> lo <= adjust1 (QN sq) lr w v <= hi).
Proof. split; [apply adjust1_convex|]. split; [apply adjust1_between_ends|apply adjust1_between]. Qed.

Lemma learning_rates_all (sq : Q -> Q) (lr : Q) (len : nat) (is_new : bool) (k : Z) (c : Q) :
  (0 <= lr <= 1 -> (4 <= len)%nat -> 0 <= base_rate (QN sq) lr len is_new <= 1) /\
  (0 <= lr <= 1 -> (4 <= len)%nat -> (1 <= k)%Z -> 0 <= base_rate (QN sq) lr len is_new / inject_Z k <= 1) /\
  (-1 <= c <= 1 -> 1 # 10 <= learning_rate_of_cos c <= 1).
Proof.
  split; [apply base_rate_range|]. split.
  - intros H1 H2 H3. apply rate_div_range; auto. apply base_rate_range; auto.
  - apply learning_rate_schedule_range.
Qed.

Lemma hull_all (sq : Q -> Q) (B : list (Q * Q)) (n n' : wnet (T := Q)) :
  let inside := fun w : list Q => Forall2 (fun b v => fst b <= v <= snd b) B w in
  let ok := fun m : wnet (T := Q) =>
    Forall (fun kv => inside (w_w (snd kv)) /\ Forall (fun x => inside (itw (QN sq) x)) (w_st (snd kv))) (wn_nodes m) /\
    (4 <= length (wn_nodes m))%nat /\ 0 <= wn_lr m <= 1 in
  ok n ->
  (forall rounds, smoothW (QN sq) n rounds = Ok n' -> ok n') /\
  (forall data, Forall (fun x => inside (itw (QN sq) x)) data -> train_on_dataW (QN sq) n data false = Ok n' -> ok n').
Proof.
  intros inside ok H. split.
  - intros rounds R. exact (hull_smooth sq B n rounds n' H R).
  - intros data Hd R. exact (hull_train sq B n data n' H Hd R).
Qed.

Lemma grown_bounds_all (sq : Q -> Q) (w1 w2 lo hi : Q) : lo <= w1 <= hi -> lo <= w2 <= hi ->
  lo <= grow_b (QN sq) w1 w2 <= hi /\ lo <= grow_d (QN sq) (w1, w2) <= hi /\
  grow_ac (QN sq) w1 w2 == 2 * w1 - w2 /\ lo - (hi - lo) <= grow_ac (QN sq) w1 w2 <= hi + (hi - lo).
Proof.
  intros H1 H2. split; [apply grow_b_bounds; auto|]. split; [apply grow_d_bounds; auto|].
  split; [apply grow_ac_value|apply grow_ac_bounds; auto].
Qed.

Lemma errors_growth_all (sq : Q -> Q) (n : wnet (T := Q)) (ops : list wop) (n' : wnet (T := Q)) :
  (forall x, 0 <= sq x) ->
  (Forall (fun kv => 0 <= w_e (snd kv)) (wn_nodes n) /\ 0 <= wn_thr n /\ 0 <= wn_df n) ->
  runW (QN sq) n ops = Ok n' ->
  (Forall (fun kv => 0 <= w_e (snd kv)) (wn_nodes n') /\ 0 <= wn_thr n' /\ 0 <= wn_df n') /\
  (forall nd, exceeds (QN sq) n' nd = true <-> wn_thr n' <= w_e nd) /\
  (forall nd, w_e nd == wn_thr n' -> exceeds (QN sq) n' nd = true).
Proof.
  intros Hsq H R. split; [exact (errors_nonneg sq n ops n' Hsq H R)|]. split; intros nd.
  - apply exceeds_iff.
  - apply exceeds_at_threshold.
Qed.

Lemma measures_all (sq : Q -> Q) (n : wnet (T := Q)) (nd : wnode (T := Q)) (l r : list Q) :
  0 <= dist2 (QN sq) l r (wn_mm n) /\ ((forall x, 0 <= sq x) -> 0 <= distance (QN sq) l r (wn_mm n)) /\
  0 <= node_mse (QN sq) (wn_mm n) nd /\ 0 <= net_mse (QN sq) n.
Proof.
  split; [apply dist2_nonneg|]. split; [intros H; apply distance_nonneg; auto|].
  split; [apply node_mse_nonneg|apply net_mse_nonneg].
Qed.
Close Scope Q_scope.

(* the twin agrees with the exact model on a dyadic step: w = 1.5, target = 4, rate = 0.25 -> 2.125 *)
Lemma float_adjust_example :
  run_adjustF [4609434218613702656] [4616189618054758400] 4598175219545276416 = [4611967493404098560] /\
  run_adjustQ [4609434218613702656] [4616189618054758400] 4598175219545276416 = [(17, 8)].
Proof. vm_compute. split; reflexivity. Qed.

Lemma nonvacuous_weights_all :
  (let inside := fun w : list Q => Forall2 (fun b v => (fst b <= v <= snd b)%Q) [(0%Q, 3%Q)] w in
   Forall (fun kv => inside (w_w (snd kv)) /\ Forall (fun x => inside (itw (QN wq_id) x)) (w_st (snd kv))) (wn_nodes wq_net) /\
   (4 <= length (wn_nodes wq_net))%nat /\ (0 <= wn_lr wq_net <= 1)%Q) /\
  (exists n', smoothW (QN wq_id) wq_net [[1; 2]] = Ok n') /\
  (Forall (fun kv => (0 <= w_e (snd kv))%Q) (wn_nodes wq_net) /\ (0 <= wn_thr wq_net)%Q /\ (0 <= wn_df wq_net)%Q) /\
  (exists n', runW (QN wq_id) wq_net wq_ops = Ok n' /\ length (wn_nodes n') = 4%nat) /\
  run_adjustF [4609434218613702656] [4616189618054758400] 4598175219545276416 = [4611967493404098560] /\
  run_adjustQ [4609434218613702656] [4616189618054758400] 4598175219545276416 = [(17, 8)].
Proof.
  destruct wq_hull_witness as [H1 H2]. destruct wq_history_witness as (H3 & _ & H4). destruct float_adjust_example as [H5 H6].
  split; [exact H1|]. split; [exact H2|]. split; [exact H3|]. split; [exact H4|]. split; auto.
Qed.
