(* Lemmas about Model/InsCost.v (C09): InsertionCost's Eq / PartialOrd against cmp, max_value, Default, the structure of + and -,
   the neutral element at the f64 level, choose_best_result. *)
From Coq Require Import SpecFloat.
From VRP Require Import Base.Tac Base.TotalCmp Model.CostOrder Model.InsCost Proofs.CostOrderP.

(* ---------- Eq / PartialEq / PartialOrd are consistent with Ord::cmp ---------- *)
Lemma ic_eq_iff_cmp x y : ic_eq x y = true <-> icost_cmp x y = Eq.
Proof. unfold ic_eq. destruct (icost_cmp x y); split; congruence. Qed.

Lemma ic_ne_iff_cmp x y : ic_ne x y = true <-> icost_cmp x y <> Eq.
Proof. unfold ic_ne, ic_eq. destruct (icost_cmp x y); cbn; split; congruence. Qed.

Lemma ic_eq_refl x : ic_eq x x = true.
Proof. apply ic_eq_iff_cmp, icost_cmp_refl. Qed.

Lemma ic_eq_sym x y : ic_eq x y = ic_eq y x.
Proof. unfold ic_eq. rewrite (icost_cmp_antisym x y). destruct (icost_cmp y x); reflexivity. Qed.

Lemma ic_eq_trans x y z : ic_eq x y = true -> ic_eq y z = true -> ic_eq x z = true.
Proof. rewrite !ic_eq_iff_cmp. apply icost_cmp_trans. Qed.

(* equal costs are indistinguishable for cmp (Eq is a congruence of the order) *)
Lemma ic_eq_cmp_compat x y z : ic_eq x y = true -> icost_cmp x z = icost_cmp y z /\ icost_cmp z x = icost_cmp z y.
Proof.
  rewrite ic_eq_iff_cmp. intros H. split; [apply icost_cmp_eq_compat; assumption|].
  rewrite (icost_cmp_antisym z x), (icost_cmp_antisym z y). f_equal. apply icost_cmp_eq_compat; assumption.
Qed.

Lemma ic_eq_iff_padded x y : Forall fbits_ok x -> Forall fbits_ok y ->
  (ic_eq x y = true <-> forall j, getd x j = getd y j).
Proof. intros Hx Hy. rewrite ic_eq_iff_cmp. apply icost_cmp_eq_iff; assumption. Qed.

(* == of InsertionCost is not the == of its f64 components *)
Lemma ic_eq_not_ieee :
  ic_eq [NAN_BITS] [NAN_BITS] = true /\ ic_eq [NEG_ZERO] [0] = false /\ ic_eq [] [0] = true /\ ic_eq [] [NEG_ZERO] = false.
Proof. vm_compute. auto. Qed.

Lemma ic_partial_cmp_total x y : ic_partial_cmp x y = Some (icost_cmp x y).
Proof. reflexivity. Qed.

Lemma ic_lt_iff x y : ic_lt x y = true <-> icost_cmp x y = Lt.
Proof. unfold ic_lt, ic_partial_cmp. destruct (icost_cmp x y); split; congruence. Qed.
Lemma ic_gt_iff x y : ic_gt x y = true <-> icost_cmp x y = Gt.
Proof. unfold ic_gt, ic_partial_cmp. destruct (icost_cmp x y); split; congruence. Qed.
Lemma ic_le_iff x y : ic_le x y = true <-> icost_cmp x y <> Gt.
Proof. unfold ic_le, ic_partial_cmp. destruct (icost_cmp x y); split; congruence. Qed.
Lemma ic_ge_iff x y : ic_ge x y = true <-> icost_cmp x y <> Lt.
Proof. unfold ic_ge, ic_partial_cmp. destruct (icost_cmp x y); split; congruence. Qed.

(* exactly one of <, ==, > ; <= is "not >" ; >= is "not <" ; the operators are dual *)
Lemma ic_trichotomy x y :
  (ic_lt x y = true /\ ic_eq x y = false /\ ic_gt x y = false) \/
  (ic_lt x y = false /\ ic_eq x y = true /\ ic_gt x y = false) \/
  (ic_lt x y = false /\ ic_eq x y = false /\ ic_gt x y = true).
Proof. unfold ic_lt, ic_gt, ic_eq, ic_partial_cmp. destruct (icost_cmp x y); auto. Qed.

Lemma ic_le_not_gt x y : ic_le x y = negb (ic_gt x y).
Proof. unfold ic_le, ic_gt, ic_partial_cmp. destruct (icost_cmp x y); reflexivity. Qed.
Lemma ic_ge_not_lt x y : ic_ge x y = negb (ic_lt x y).
Proof. unfold ic_ge, ic_lt, ic_partial_cmp. destruct (icost_cmp x y); reflexivity. Qed.
Lemma ic_le_lt_or_eq x y : ic_le x y = ic_lt x y || ic_eq x y.
Proof. unfold ic_le, ic_lt, ic_eq, ic_partial_cmp. destruct (icost_cmp x y); reflexivity. Qed.
Lemma ic_gt_flip x y : ic_gt x y = ic_lt y x.
Proof. unfold ic_gt, ic_lt, ic_partial_cmp. rewrite (icost_cmp_antisym x y). destruct (icost_cmp y x); reflexivity. Qed.
Lemma ic_ge_flip x y : ic_ge x y = ic_le y x.
Proof. unfold ic_ge, ic_le, ic_partial_cmp. rewrite (icost_cmp_antisym x y). destruct (icost_cmp y x); reflexivity. Qed.

Lemma icost_cmp_le_trans x y z : icost_cmp x y <> Gt -> icost_cmp y z <> Gt -> icost_cmp x z <> Gt.
Proof.
  intros H1 H2.
  destruct (icost_cmp x y) eqn:E1; [| |congruence].
  - rewrite (icost_cmp_eq_compat x y z E1). assumption.
  - destruct (icost_cmp y z) eqn:E2; [| |congruence].
    + assert (E3 : icost_cmp z y = Eq) by (rewrite icost_cmp_antisym, E2; reflexivity).
      rewrite (icost_cmp_antisym x z), (icost_cmp_eq_compat z y x E3), <- icost_cmp_antisym, E1. discriminate.
    + rewrite (icost_cmp_trans Lt x y z E1 E2). discriminate.
Qed.

Lemma ic_le_trans x y z : ic_le x y = true -> ic_le y z = true -> ic_le x z = true.
Proof. rewrite !ic_le_iff. apply icost_cmp_le_trans. Qed.

Lemma ic_lt_trans x y z : ic_lt x y = true -> ic_lt y z = true -> ic_lt x z = true.
Proof. rewrite !ic_lt_iff. apply icost_cmp_trans. Qed.

Lemma ic_le_antisym x y : ic_le x y = true -> ic_le y x = true -> ic_eq x y = true.
Proof.
  rewrite !ic_le_iff, ic_eq_iff_cmp. rewrite (icost_cmp_antisym y x). destruct (icost_cmp x y); cbn; congruence.
Qed.

(* ---------- Index ---------- *)
Lemma ic_index_some x i : (i < length x)%nat -> ic_index x i = Some (getd x i).
Proof. intros H. unfold ic_index. apply Nat.ltb_lt in H. rewrite H. reflexivity. Qed.
Lemma ic_index_panics x i : (length x <= i)%nat -> ic_index x i = None.
Proof. intros H. unfold ic_index. apply Nat.ltb_ge in H. rewrite H. reflexivity. Qed.

(* ---------- max_value and Default ---------- *)
Lemma key_F64_MAX : key F64_MAX = F64_MAX.
Proof. reflexivity. Qed.

Lemma cmp_from_first_lt x y n : total_cmp (getd x 0) (getd y 0) = Lt -> cmp_from x y 0 (S n) = Lt.
Proof. intros H. cbn [cmp_from]. rewrite H. reflexivity. Qed.

Lemma icost_cmp_first x y c : c <> Eq -> total_cmp (getd x 0) (getd y 0) = c -> (0 < Nat.max (length x) (length y))%nat ->
  icost_cmp x y = c.
Proof.
  intros Hc H Hn. unfold icost_cmp. destruct (Nat.max (length x) (length y)) as [|n]; [lia|].
  cbn [cmp_from]. rewrite H. destruct c; congruence.
Qed.

(* every cost whose first component is below f64::MAX in the total order is below max_value *)
Lemma ic_max_value_above x : key (getd x 0) < key F64_MAX -> icost_cmp x ic_max_value = Lt.
Proof.
  intros H. apply icost_cmp_first; [discriminate| |cbn; lia].
  unfold total_cmp. apply Z.compare_lt_iff. exact H.
Qed.

(* in terms of bit patterns: every double except f64::MAX itself, +inf and the NaNs with a clear sign bit *)
Lemma key_below_max b : fbits_ok b -> (key b < key F64_MAX <-> b < F64_MAX \/ two63 <= b).
Proof. rewrite key_F64_MAX. unfold fbits_ok, key, F64_MAX, two63, two64. intros H. destruct (b <? _) eqn:E; lia. Qed.

Lemma ic_max_value_not_top :
  icost_cmp [POS_INF] ic_max_value = Gt /\ icost_cmp [NAN_BITS] ic_max_value = Gt /\
  icost_cmp [F64_MAX; 1] ic_max_value = Gt /\ select_cost [POS_INF] ic_max_value = false.
Proof. vm_compute. auto. Qed.

Lemma ic_default_is_zeros k : icost_cmp ic_default (repeat 0 k) = Eq.
Proof. apply (icost_cmp_pad [] k). Qed.

(* ---------- + and - : structure, for any component operation ---------- *)
Lemma ic_zip_length op x y : length (ic_zip op x y) = Nat.max (length x) (length y).
Proof. unfold ic_zip. rewrite map_length, seq_length. reflexivity. Qed.

Lemma ic_zip_getd op x y j : (j < Nat.max (length x) (length y))%nat ->
  getd (ic_zip op x y) j = op (getd x j) (getd y j).
Proof.
  intros H. unfold ic_zip, getd at 1.
  set (f := fun i => op (getd x i) (getd y i)).
  rewrite (nth_indep _ 0 (f 0%nat)) by (rewrite map_length, seq_length; exact H).
  rewrite map_nth. rewrite seq_nth by exact H. reflexivity.
Qed.

Lemma ic_zip_getd_beyond op x y j : (Nat.max (length x) (length y) <= j)%nat -> getd (ic_zip op x y) j = 0.
Proof. intros H. apply getd_beyond. rewrite ic_zip_length. exact H. Qed.

Lemma zip_pad_length f x y : length (zip_pad f x y) = Nat.max (length x) (length y).
Proof.
  revert y; induction x as [|a x IH]; intros [|b y]; cbn [zip_pad length]; try reflexivity.
  - rewrite map_length. reflexivity.
  - rewrite IH. cbn [length]. lia.
  - rewrite IH. lia.
Qed.

Lemma zip_pad_getd f x y j : (j < Nat.max (length x) (length y))%nat -> getd (zip_pad f x y) j = f (getd x j) (getd y j).
Proof.
  revert y j; induction x as [|a x IH]; intros [|b y] j H; cbn [zip_pad length] in *.
  - cbn in H. lia.
  - destruct j as [|j]; [reflexivity|]. unfold getd; cbn [nth].
    assert (Hj : (j < length y)%nat) by (cbn in H; lia).
    rewrite (nth_indep _ 0 (f 0 0)) by (rewrite map_length; exact Hj). rewrite map_nth.
    destruct j; reflexivity.
  - destruct j as [|j]; [reflexivity|]. unfold getd in *; cbn [nth].
    rewrite IH by (cbn in *; lia). destruct j; reflexivity.
  - destruct j as [|j]; [reflexivity|]. unfold getd in *; cbn [nth]. apply IH. cbn in H. lia.
Qed.

Lemma list_ext_getd (a b : list Z) : length a = length b -> (forall j, (j < length a)%nat -> getd a j = getd b j) -> a = b.
Proof.
  revert b; induction a as [|x a IH]; intros [|y b] L H; try discriminate; [reflexivity|].
  f_equal.
  - apply (H 0%nat). cbn; lia.
  - apply IH; [cbn in L; lia|]. intros j Hj. apply (H (S j)). cbn; lia.
Qed.

(* the operator as written in the code (index loop over 0..max) is the padded zip of Model/CostOrder.v *)
Lemma ic_zip_zip_pad op x y : ic_zip op x y = zip_pad op x y.
Proof.
  apply list_ext_getd.
  - rewrite ic_zip_length, zip_pad_length. reflexivity.
  - intros j Hj. rewrite ic_zip_length in Hj. rewrite ic_zip_getd, zip_pad_getd by exact Hj. reflexivity.
Qed.

(* ---------- zero-merged comparison ---------- *)
Lemma zcmp_from_all_eq x y i k : (forall j, (i <= j)%nat -> zkey (getd x j) = zkey (getd y j)) -> zcmp_from x y i k = Eq.
Proof.
  revert i; induction k as [|k IH]; intros i H; cbn [zcmp_from]; [reflexivity|].
  rewrite (H i) by lia. rewrite Z.compare_refl. apply IH. intros j Hj; apply H; lia.
Qed.

Lemma zcmp_from_eq_iff x y i n :
  zcmp_from x y i n = Eq <-> forall j, (i <= j < i + n)%nat -> zkey (getd x j) = zkey (getd y j).
Proof.
  revert i; induction n as [|n IH]; intros i; cbn [zcmp_from].
  - split; [intros _ j Hj; lia|reflexivity].
  - destruct (Z.compare_spec (zkey (getd x i)) (zkey (getd y i))) as [E|E|E].
    + rewrite IH. split; intros H j Hj.
      * destruct (Nat.eq_dec j i) as [->|]; [assumption|apply H; lia].
      * apply H; lia.
    + split; [discriminate|]. intros H. specialize (H i ltac:(lia)). lia.
    + split; [discriminate|]. intros H. specialize (H i ltac:(lia)). lia.
Qed.

Lemma icost_zcmp_eq_iff x y : icost_zcmp x y = Eq <-> forall j, zkey (getd x j) = zkey (getd y j).
Proof.
  unfold icost_zcmp. rewrite zcmp_from_eq_iff. split; intros H j.
  - destruct (Nat.lt_ge_cases j (Nat.max (length x) (length y))).
    + apply H; lia.
    + rewrite !getd_beyond by lia. reflexivity.
  - intros _. apply H.
Qed.

(* (x op1 y) op2 y compared with x, component by component: the generic form of "addition and subtraction are inverse
   up to the sign of zero" *)
Lemma ic_zip_inverse_generic (add sub : Z -> Z -> Z) x y :
  (forall j, (j < Nat.max (length x) (length y))%nat ->
             zkey (sub (add (getd x j) (getd y j)) (getd y j)) = zkey (getd x j)) ->
  icost_zcmp (ic_zip sub (ic_zip add x y) y) x = Eq.
Proof.
  intros H. apply icost_zcmp_eq_iff. intros j.
  set (N := Nat.max (length x) (length y)).
  assert (L : Nat.max (length (ic_zip add x y)) (length y) = N) by (rewrite ic_zip_length; unfold N; lia).
  destruct (Nat.lt_ge_cases j N) as [Hj|Hj].
  - rewrite ic_zip_getd by (rewrite L; exact Hj). rewrite ic_zip_getd by exact Hj. apply H. exact Hj.
  - rewrite ic_zip_getd_beyond by (rewrite L; exact Hj). rewrite (getd_beyond x) by (unfold N in Hj; lia). reflexivity.
Qed.

(* ---------- f64 level: encoder / decoder round trip, Default is neutral ---------- *)
Definition f64_ok (b : Z) : Prop := fbits_ok b /\ is_nan b = false.

Lemma shiftr52 r : 0 <= r -> Z.shiftr r 52 = r / two52.
Proof. intros H. rewrite Z.shiftr_div_pow2 by lia. reflexivity. Qed.
Lemma land52 r : 0 <= r -> Z.land r (Z.ones 52) = r mod two52.
Proof. intros H. rewrite Z.land_ones by lia. reflexivity. Qed.
Lemma land63 r : 0 <= r -> Z.land r (Z.ones 63) = r mod two63.
Proof. intros H. rewrite Z.land_ones by lia. reflexivity. Qed.

Lemma bits_roundtrip b : f64_ok b -> bits_of_sf (sf_of_bits b) = b.
Proof.
  intros [[H0 H1] Hn]. unfold is_nan in Hn. rewrite land63 in Hn by exact H0.
  unfold sf_of_bits.
  set (s := two63 <=? b). set (r := if s then b - two63 else b).
  assert (Hr : 0 <= r < two63 /\ r = b mod two63).
  { unfold r, s, two63, two64 in *. destruct (9223372036854775808 <=? b) eqn:E; lia. }
  destruct Hr as [Hr Hrm]. rewrite <- Hrm in Hn.
  rewrite shiftr52, land52 by lia.
  assert (Hd : r = two52 * (r / two52) + r mod two52) by (apply Z.div_mod; unfold two52; lia).
  assert (Hm : 0 <= r mod two52 < two52) by (apply Z.mod_pos_bound; unfold two52; lia).
  assert (He : 0 <= r / two52 <= 2047) by (unfold two52, two63 in *; lia).
  destruct (r / two52 =? 2047) eqn:E1.
  - destruct (r mod two52 =? 0) eqn:E2.
    + cbn [bits_of_sf]. unfold r, s, two52, two63 in *. destruct (9223372036854775808 <=? b) eqn:E; lia.
    + exfalso. unfold two52, two63 in *. lia.
  - destruct (r / two52 =? 0) eqn:E3.
    + destruct (r mod two52 =? 0) eqn:E2.
      * cbn [bits_of_sf]. unfold r, s, two52, two63 in *. destruct (9223372036854775808 <=? b) eqn:E; lia.
      * cbn [bits_of_sf]. rewrite Z2Pos.id by lia.
        assert (Hlt : (r mod two52 <? two52) = true) by lia. rewrite Hlt.
        unfold r, s, two52, two63 in *. destruct (9223372036854775808 <=? b) eqn:E; lia.
    + cbn [bits_of_sf]. rewrite Z2Pos.id by lia.
      assert (Hlt : (r mod two52 + two52 <? two52) = false) by lia. rewrite Hlt.
      unfold r, s, two52, two63 in *. destruct (9223372036854775808 <=? b) eqn:E; lia.
Qed.

Lemma sf_of_bits_zero : sf_of_bits 0 = S754_zero false.
Proof. reflexivity. Qed.

Lemma sf_not_nan b : f64_ok b -> sf_of_bits b <> S754_nan.
Proof.
  intros H E. pose proof (bits_roundtrip b H) as R. rewrite E in R. cbn in R.
  destruct H as [_ Hn]. rewrite <- R in Hn. vm_compute in Hn. discriminate.
Qed.

(* x - (+0.0) = x bit for bit, for every non-NaN double *)
Lemma f64_sub_zero b : f64_ok b -> f64_sub b 0 = b.
Proof.
  intros H. unfold f64_sub. rewrite sf_of_bits_zero.
  rewrite <- (bits_roundtrip b H) at 2. pose proof (sf_not_nan b H) as N.
  destruct (sf_of_bits b) as [[|]| | |]; try reflexivity; congruence.
Qed.

(* x + (+0.0) = x except that -0.0 becomes +0.0 *)
Lemma f64_add_zero b : f64_ok b -> f64_add b 0 = if b =? NEG_ZERO then 0 else b.
Proof.
  intros H. unfold f64_add. rewrite sf_of_bits_zero.
  pose proof (bits_roundtrip b H) as R. pose proof (sf_not_nan b H) as N.
  destruct (sf_of_bits b) as [[|]| s| |s m e] eqn:E; try congruence.
  - cbn in R. subst b. reflexivity.
  - cbn in R. subst b. reflexivity.
  - cbn [SFadd]. rewrite R. destruct (b =? NEG_ZERO) eqn:Eb; [|reflexivity].
    exfalso. assert (Hb : b = NEG_ZERO) by lia. rewrite Hb in E. vm_compute in E. discriminate.
  - cbn [SFadd]. rewrite R. destruct (b =? NEG_ZERO) eqn:Eb; [|reflexivity].
    exfalso. assert (Hb : b = NEG_ZERO) by lia. rewrite Hb in E. vm_compute in E. discriminate.
Qed.

Lemma f64_zero_add b : f64_ok b -> f64_add 0 b = if b =? NEG_ZERO then 0 else b.
Proof.
  intros H. unfold f64_add. rewrite sf_of_bits_zero.
  pose proof (bits_roundtrip b H) as R. pose proof (sf_not_nan b H) as N.
  destruct (sf_of_bits b) as [[|]| s| |s m e] eqn:E; try congruence.
  - cbn in R. subst b. reflexivity.
  - cbn in R. subst b. reflexivity.
  - cbn [SFadd]. rewrite R. destruct (b =? NEG_ZERO) eqn:Eb; [|reflexivity].
    exfalso. assert (Hb : b = NEG_ZERO) by lia. rewrite Hb in E. vm_compute in E. discriminate.
  - cbn [SFadd]. rewrite R. destruct (b =? NEG_ZERO) eqn:Eb; [|reflexivity].
    exfalso. assert (Hb : b = NEG_ZERO) by lia. rewrite Hb in E. vm_compute in E. discriminate.
Qed.

(* -0.0 + x = x bit for bit: why a `sum` over one estimate is that estimate (impl Sum for f64 starts from -0.0) *)
Lemma f64_negzero_add b : f64_ok b -> f64_add NEG_ZERO b = b.
Proof.
  intros H. unfold f64_add. change (sf_of_bits NEG_ZERO) with (S754_zero true).
  rewrite <- (bits_roundtrip b H) at 2. pose proof (sf_not_nan b H) as N.
  destruct (sf_of_bits b) as [[|]| | |]; try reflexivity; congruence.
Qed.

Lemma zkey_if_negzero b : zkey (if b =? NEG_ZERO then 0 else b) = zkey b.
Proof. destruct (b =? NEG_ZERO) eqn:E; [|reflexivity]. assert (b = NEG_ZERO) by lia. subst. reflexivity. Qed.

Lemma getd_ok x j : Forall f64_ok x -> f64_ok (getd x j).
Proof.
  intros Hx. unfold getd. destruct (Nat.lt_ge_cases j (length x)).
  - rewrite Forall_forall in Hx. apply Hx, nth_In; assumption.
  - rewrite nth_overflow by assumption. split; [unfold fbits_ok, two64; lia|reflexivity].
Qed.

Lemma max_n_0 n : Nat.max n 0 = n. Proof. lia. Qed.

Lemma ic_sub_default x : Forall f64_ok x -> ic_sub x ic_default = x.
Proof.
  intros Hx. apply list_ext_getd.
  - unfold ic_sub. rewrite ic_zip_length. cbn [ic_default length]. lia.
  - intros j Hj. unfold ic_sub in *. rewrite ic_zip_length in Hj. rewrite ic_zip_getd by exact Hj.
    unfold ic_default. change (getd [] j) with (nth j (@nil Z) 0). rewrite (nth_overflow []) by (cbn; lia).
    apply f64_sub_zero, getd_ok, Hx.
Qed.

Lemma ic_add_default x : Forall f64_ok x ->
  ic_add x ic_default = map (fun b => if b =? NEG_ZERO then 0 else b) x /\ icost_zcmp (ic_add x ic_default) x = Eq /\
  icost_zcmp (ic_add ic_default x) x = Eq.
Proof.
  intros Hx.
  assert (G : forall j, getd (ic_add x ic_default) j = if getd x j =? NEG_ZERO then 0 else getd x j).
  { intros j. unfold ic_add. destruct (Nat.lt_ge_cases j (Nat.max (length x) (length ic_default))) as [Hj|Hj].
    - rewrite ic_zip_getd by exact Hj. unfold ic_default. change (getd [] j) with (nth j (@nil Z) 0).
      rewrite (nth_overflow []) by (cbn; lia). apply f64_add_zero, getd_ok, Hx.
    - rewrite ic_zip_getd_beyond by exact Hj. cbn [ic_default length] in Hj. rewrite (getd_beyond x) by lia. reflexivity. }
  assert (G2 : forall j, getd (ic_add ic_default x) j = if getd x j =? NEG_ZERO then 0 else getd x j).
  { intros j. unfold ic_add. destruct (Nat.lt_ge_cases j (Nat.max (length ic_default) (length x))) as [Hj|Hj].
    - rewrite ic_zip_getd by exact Hj. unfold ic_default. change (getd [] j) with (nth j (@nil Z) 0).
      rewrite (nth_overflow []) by (cbn; lia). apply f64_zero_add, getd_ok, Hx.
    - rewrite ic_zip_getd_beyond by exact Hj. cbn [ic_default length] in Hj. rewrite (getd_beyond x) by lia. reflexivity. }
  split; [|split].
  - apply list_ext_getd.
    + unfold ic_add. rewrite ic_zip_length, map_length. cbn [ic_default length]. lia.
    + intros j Hj. rewrite G. unfold getd at 3.
      set (f := fun b => if b =? NEG_ZERO then 0 else b).
      rewrite (nth_indep _ 0 (f 0)).
      * rewrite map_nth. reflexivity.
      * unfold ic_add in Hj. rewrite ic_zip_length in Hj. cbn [ic_default length] in Hj. rewrite map_length. lia.
  - apply icost_zcmp_eq_iff. intros j. rewrite G. apply zkey_if_negzero.
  - apply icost_zcmp_eq_iff. intros j. rewrite G2. apply zkey_if_negzero.
Qed.

(* the inverse law wherever the component operations are exact (decidable side condition, evaluated on the faithful f64 model) *)
Definition inv_ok (a b : Z) : bool := (zkey (f64_sub (f64_add a b) b) =? zkey a) && (zkey (f64_add (f64_sub a b) b) =? zkey a).

Lemma ic_add_sub_f64 x y :
  (forall j, (j < Nat.max (length x) (length y))%nat -> inv_ok (getd x j) (getd y j) = true) ->
  icost_zcmp (ic_sub (ic_add x y) y) x = Eq /\ icost_zcmp (ic_add (ic_sub x y) y) x = Eq.
Proof.
  intros H. split; apply ic_zip_inverse_generic; intros j Hj; specialize (H j Hj); unfold inv_ok in H; lia.
Qed.

(* over all doubles the law is false: absorption (1 + MAX) - MAX = 0, overflow, inf - inf *)
Lemma ic_add_sub_f64_absorption :
  icost_zcmp (ic_sub (ic_add [4607182418800017408] [F64_MAX]) [F64_MAX]) [4607182418800017408] = Lt /\
  ic_sub (ic_add [F64_MAX] [F64_MAX]) [F64_MAX] = [POS_INF] /\
  ic_sub (ic_add [0] [POS_INF]) [POS_INF] = [NAN_BITS].
Proof. vm_compute. auto. Qed.

(* ---------- choose_best_result / select_cost ---------- *)
Lemma select_cost_iff l r : select_cost l r = true <-> icost_cmp l r = Lt.
Proof. apply ic_lt_iff. Qed.

Definition is_success (r : ires) : bool := match r with ISuccess _ _ => true | IFailure _ => false end.
Definition cost_of (r : ires) : list Z := match r with ISuccess c _ => c | IFailure _ => [] end.

Lemma choose_best_cases l r : choose_best l r = l \/ choose_best l r = r.
Proof.
  destruct l as [cl tl|cl], r as [cr tr|cr]; cbn [choose_best]; auto.
  - destruct (ic_gt cl cr); auto.
  - destruct (cr =? -1); auto.
Qed.

Lemma choose_best_success l r : is_success (choose_best l r) = is_success l || is_success r.
Proof.
  destruct l as [cl tl|cl], r as [cr tr|cr]; cbn [choose_best is_success orb]; try reflexivity.
  - destruct (ic_gt cl cr); reflexivity.
  - destruct (cr =? -1); reflexivity.
Qed.

(* the fold keeps the LEFTMOST cheapest success: everything offered before it is strictly dearer (or a failure), nothing offered
   after it is strictly cheaper *)
Definition leftmost_min (offered : list ires) (res : ires) : Prop :=
  exists l1 l2, offered = l1 ++ res :: l2 /\ is_success res = true /\
    (forall r, In r l1 -> is_success r = true -> icost_cmp (cost_of r) (cost_of res) = Gt) /\
    (forall r, In r l2 -> is_success r = true -> icost_cmp (cost_of res) (cost_of r) <> Gt).

Lemma choose_all_inv rs : forall seen acc,
  (is_success acc = true -> leftmost_min seen acc) ->
  (is_success acc = false -> forall r, In r seen -> is_success r = false) ->
  let res := choose_all acc rs in
  (is_success res = true -> leftmost_min (seen ++ rs) res) /\
  (is_success res = false -> forall r, In r (seen ++ rs) -> is_success r = false).
Proof.
  induction rs as [|r rs IH]; intros seen acc Hs Hf; cbn [choose_all fold_left].
  - rewrite app_nil_r. split; assumption.
  - change (fold_left choose_best rs (choose_best acc r)) with (choose_all (choose_best acc r) rs).
    replace (seen ++ r :: rs) with ((seen ++ [r]) ++ rs) by (rewrite <- app_assoc; reflexivity).
    apply IH.
    + intros Hsucc.
      destruct acc as [ca ta|ca], r as [cr tr|cr]; cbn [choose_best] in *.
      * (* success, success *)
        destruct (ic_gt ca cr) eqn:G.
        -- (* r strictly cheaper: r becomes the leftmost minimum *)
           apply ic_gt_iff in G.
           destruct (Hs eq_refl) as (l1 & l2 & E & _ & B & A).
           exists seen, []. split; [reflexivity|]. split; [reflexivity|]. split; [|intros ? []].
           intros q Hq Sq. subst seen. cbn [cost_of] in *.
           apply in_app_or in Hq. destruct Hq as [Hq|[<-|Hq]].
           ++ specialize (B q Hq Sq). apply (icost_cmp_trans Gt _ ca _ B G).
           ++ exact G.
           ++ specialize (A q Hq Sq).
              (* ca <= q and ca > cr  ->  q > cr *)
              destruct (icost_cmp (cost_of q) cr) eqn:E1; [| |reflexivity]; exfalso; apply A.
              ** rewrite (icost_cmp_antisym ca (cost_of q)).
                 assert (E2 : icost_cmp cr (cost_of q) = Eq) by (rewrite icost_cmp_antisym, E1; reflexivity).
                 rewrite (icost_cmp_eq_compat (cost_of q) cr ca E1). rewrite <- icost_cmp_antisym. exact G.
              ** assert (E2 : icost_cmp cr ca = Lt) by (rewrite icost_cmp_antisym, G; reflexivity).
                 pose proof (icost_cmp_trans Lt _ _ _ E1 E2) as T. rewrite icost_cmp_antisym, T. reflexivity.
        -- destruct (Hs eq_refl) as (l1 & l2 & E & S & B & A).
           exists l1, (l2 ++ [ISuccess cr tr]). split; [subst seen; rewrite <- app_assoc; reflexivity|].
           split; [reflexivity|]. split; [exact B|].
           intros q Hq Sq. apply in_app_or in Hq. destruct Hq as [Hq|[<-|[]]]; [apply A; assumption|].
           cbn [cost_of]. intros C. apply ic_gt_iff in C. congruence.
      * (* success, failure *)
        destruct (Hs eq_refl) as (l1 & l2 & E & S & B & A).
        exists l1, (l2 ++ [IFailure cr]). split; [subst seen; rewrite <- app_assoc; reflexivity|].
        split; [reflexivity|]. split; [exact B|].
        intros q Hq Sq. apply in_app_or in Hq. destruct Hq as [Hq|[<-|[]]]; [apply A; assumption|discriminate].
      * (* failure, success *)
        exists seen, []. split; [reflexivity|]. split; [reflexivity|]. split; [|intros ? []].
        intros q Hq Sq. rewrite (Hf eq_refl q Hq) in Sq. discriminate.
      * destruct (cr =? -1); discriminate.
    + intros Hfail r' Hr'.
      assert (Sa : is_success acc = false /\ is_success r = false).
      { rewrite choose_best_success in Hfail. destruct (is_success acc), (is_success r); cbn in Hfail; try discriminate; auto. }
      apply in_app_or in Hr'. destruct Hr' as [Hr'|[<-|[]]]; [apply Hf; tauto|tauto].
Qed.

Lemma choose_all_leftmost_min init rs :
  existsb is_success (init :: rs) = true -> leftmost_min (init :: rs) (choose_all init rs).
Proof.
  intros Hex.
  destruct (choose_all_inv rs [init] init) as [H1 H2].
  - intros S. exists [], []. split; [reflexivity|]. split; [exact S|]. split; intros ? [].
  - intros S r [<-|[]]. exact S.
  - cbn [app] in *. destruct (is_success (choose_all init rs)) eqn:S; [apply H1; reflexivity|].
    exfalso. apply existsb_exists in Hex. destruct Hex as (r & Hr & Sr). rewrite (H2 eq_refl r Hr) in Sr. discriminate.
Qed.

Lemma choose_all_no_success init rs :
  existsb is_success (init :: rs) = false -> is_success (choose_all init rs) = false.
Proof.
  intros Hex. destruct (is_success (choose_all init rs)) eqn:S; [|reflexivity]. exfalso.
  assert (In (choose_all init rs) (init :: rs)).
  { clear. revert init. induction rs as [|r rs IH]; intros init; cbn [choose_all fold_left]; [left; reflexivity|].
    change (fold_left choose_best rs (choose_best init r)) with (choose_all (choose_best init r) rs).
    destruct (IH (choose_best init r)) as [E|E].
    - rewrite <- E. destruct (choose_best_cases init r) as [-> | ->]; [left; reflexivity|right; left; reflexivity].
    - right; right; exact E. }
  assert (existsb is_success (init :: rs) = true) by (apply existsb_exists; eauto). congruence.
Qed.

(* ---------- packaged statements used by Properties/C09.v ---------- *)
Lemma ic_eq_equivalence x y z :
  ic_eq x x = true /\ ic_eq x y = ic_eq y x /\ (ic_eq x y = true -> ic_eq y z = true -> ic_eq x z = true).
Proof. exact (conj (ic_eq_refl x) (conj (ic_eq_sym x y) (ic_eq_trans x y z))). Qed.

Lemma ic_operators x y :
  (ic_lt x y = true <-> icost_cmp x y = Lt) /\ (ic_le x y = true <-> icost_cmp x y <> Gt) /\
  (ic_gt x y = true <-> icost_cmp x y = Gt) /\ (ic_ge x y = true <-> icost_cmp x y <> Lt) /\
  ic_gt x y = ic_lt y x /\ ic_ge x y = ic_le y x /\ ic_le x y = ic_lt x y || ic_eq x y.
Proof.
  exact (conj (ic_lt_iff x y) (conj (ic_le_iff x y) (conj (ic_gt_iff x y) (conj (ic_ge_iff x y)
    (conj (ic_gt_flip x y) (conj (ic_ge_flip x y) (ic_le_lt_or_eq x y))))))).
Qed.

Lemma ic_le_order x y z :
  (ic_le x y = true -> ic_le y z = true -> ic_le x z = true) /\ (ic_le x y = true -> ic_le y x = true -> ic_eq x y = true) /\
  (ic_le x y = true \/ ic_le y x = true).
Proof.
  refine (conj (ic_le_trans x y z) (conj (ic_le_antisym x y) _)).
  rewrite <- (ic_ge_flip x y), ic_ge_not_lt, ic_le_lt_or_eq. destruct (ic_lt x y); cbn; auto.
Qed.

Lemma ic_index_spec x i :
  ((i < length x)%nat -> ic_index x i = Some (getd x i)) /\ ((length x <= i)%nat -> ic_index x i = None).
Proof. exact (conj (ic_index_some x i) (ic_index_panics x i)). Qed.

Lemma ic_zip_structure op x y :
  length (ic_zip op x y) = Nat.max (length x) (length y) /\
  (forall j, (j < Nat.max (length x) (length y))%nat -> getd (ic_zip op x y) j = op (getd x j) (getd y j)) /\
  ic_zip op x y = zip_pad op x y.
Proof. exact (conj (ic_zip_length op x y) (conj (ic_zip_getd op x y) (ic_zip_zip_pad op x y))). Qed.

Lemma inv_ok_examples :
  inv_ok (f64_of_int 3) (f64_of_int (-7)) = true /\ inv_ok NEG_ZERO (f64_of_int 5) = true /\
  inv_ok (f64_of_int 4503599627370495) (f64_of_int 4503599627370496) = true /\ inv_ok 4607182418800017408 F64_MAX = false.
Proof. vm_compute. auto. Qed.
