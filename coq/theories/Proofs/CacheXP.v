(* C05 proofs for cross-tour cached quantities (Model/CacheX.v). *)
From VRP Require Import Base.Tac Model.Cache Proofs.CacheP Model.CacheX.
