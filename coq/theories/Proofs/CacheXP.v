(* C05 proofs for cross-tour cached quantities (Model/CacheX.v): the solution-level update that writes EVERY tour makes the
   cached value a function of the bare tours at every hand-over and after every insertion; the re-run loop of
   accept_solution_state_with_states; the nested clear of CombinedFeatureState::accept_route_state; the shared reload resource. *)
From VRP Require Import Base.Tac Model.Cache Proofs.CacheP Model.CacheX.

Section PX.
Variables tour job value : Type.
Notation feature := (feature tour job value).
Notation xfeature := (xfeature tour value).
Notation rctx := (rctx tour value).
Variable fs : list feature.

(* every per-tour field right, stale or not *)
Definition fields_ok (r : rctx) : Prop := forall f, In f fs -> field_ok tour job value f r.
(* the cross-tour field of xf in r equals its value computed from the bare tours ts *)
Definition x_ok (xf : xfeature) (ts : list tour) (r : rctx) : Prop := rc_state r (xf_key xf) = xf_spec xf ts (rc_tour r).
(* reading the route contexts gives the function of the bare tours as soon as the per-tour fields it depends on are fresh *)
Definition x_sound (xf : xfeature) : Prop :=
  forall rs r, In r rs -> Forall fields_ok rs -> xf_read xf rs r = xf_spec xf (map rc_tour rs) (rc_tour r).
Definition x_apart (xf : xfeature) : Prop := forall f, In f fs -> f_key f <> xf_key xf.

(* ---------------- one route under x_write ---------------- *)
Lemma x_write_tour : forall (xf : xfeature) v r, rc_tour (x_write tour value xf v r) = rc_tour r.
Proof. reflexivity. Qed.
Lemma x_write_own : forall (xf : xfeature) v r, rc_state (x_write tour value xf v r) (xf_key xf) = v.
Proof. intros. unfold x_write, set_key. cbn. rewrite Nat.eqb_refl. reflexivity. Qed.
Lemma x_write_other : forall (xf : xfeature) v r k, k <> xf_key xf -> rc_state (x_write tour value xf v r) k = rc_state r k.
Proof.
  intros xf v r k Hk. unfold x_write, set_key. cbn.
  destruct (Nat.eqb k (xf_key xf)) eqn:E; [apply Nat.eqb_eq in E; congruence|reflexivity].
Qed.
Lemma x_write_fields : forall (xf : xfeature) v r, x_apart xf -> fields_ok r -> fields_ok (x_write tour value xf v r).
Proof.
  intros xf v r Ha Hok f Hf. unfold field_ok. rewrite x_write_tour, x_write_other; [apply Hok; exact Hf|apply Ha; exact Hf].
Qed.

(* the element function of x_update (not partial) *)
Definition x_upd1 (xf : xfeature) (rs : list rctx) (r : rctx) : rctx :=
  match xf_scope xf with
  | XAll => x_write tour value xf (xf_read xf rs r) r
  | XStaleOnly => if rc_stale r then x_write tour value xf (xf_read xf rs r) r else r
  end.
Lemma x_update_map : forall xf rs, x_update tour value false xf rs = map (x_upd1 xf rs) rs.
Proof. reflexivity. Qed.
Lemma x_update_partial : forall xf rs, x_update tour value true xf rs = rs.
Proof. reflexivity. Qed.

Lemma x_upd1_tour : forall xf rs r, rc_tour (x_upd1 xf rs r) = rc_tour r.
Proof. intros. unfold x_upd1. destruct (xf_scope xf); [reflexivity|destruct (rc_stale r); reflexivity]. Qed.
Lemma x_upd1_other : forall xf rs r k, k <> xf_key xf -> rc_state (x_upd1 xf rs r) k = rc_state r k.
Proof.
  intros xf rs r k Hk. unfold x_upd1.
  destruct (xf_scope xf); [apply x_write_other; exact Hk|destruct (rc_stale r); [apply x_write_other; exact Hk|reflexivity]].
Qed.
Lemma x_upd1_fields : forall xf rs r, x_apart xf -> fields_ok r -> fields_ok (x_upd1 xf rs r).
Proof.
  intros xf rs r Ha Hok f Hf. unfold field_ok. rewrite x_upd1_tour, x_upd1_other; [apply Hok; exact Hf|apply Ha; exact Hf].
Qed.

Lemma x_update_tours : forall p xf rs, map rc_tour (x_update tour value p xf rs) = map rc_tour rs.
Proof.
  intros [|] xf rs; [reflexivity|]. rewrite x_update_map, map_map. apply map_ext. intros r. apply x_upd1_tour.
Qed.
Lemma x_update_fields : forall p xf rs, x_apart xf -> Forall fields_ok rs -> Forall fields_ok (x_update tour value p xf rs).
Proof.
  intros [|] xf rs Ha H; [exact H|]. rewrite x_update_map. apply Forall_forall. intros r' Hin.
  apply in_map_iff in Hin as (r & <- & Hr). apply x_upd1_fields; [exact Ha|]. rewrite Forall_forall in H. apply H. exact Hr.
Qed.
(* a field at another key that is a function g of the tour stays so *)
Definition at_key (k : nat) (g : tour -> option value) (r : rctx) : Prop := rc_state r k = g (rc_tour r).
Lemma x_update_keeps : forall p xf rs k g, k <> xf_key xf -> Forall (at_key k g) rs -> Forall (at_key k g) (x_update tour value p xf rs).
Proof.
  intros [|] xf rs k g Hk H; [exact H|]. rewrite x_update_map. apply Forall_forall. intros r' Hin.
  apply in_map_iff in Hin as (r & <- & Hr). unfold at_key. rewrite x_upd1_tour, x_upd1_other; [|exact Hk].
  rewrite Forall_forall in H. apply H. exact Hr.
Qed.
(* the update that writes every route makes the field the function of the bare tours *)
Lemma x_update_spec : forall xf rs, xf_scope xf = XAll -> x_sound xf -> Forall fields_ok rs ->
  Forall (x_ok xf (map rc_tour rs)) (x_update tour value false xf rs).
Proof.
  intros xf rs Hsc Hs Hok. rewrite x_update_map. apply Forall_forall. intros r' Hin.
  apply in_map_iff in Hin as (r & <- & Hr). unfold x_ok. rewrite x_upd1_tour. unfold x_upd1. rewrite Hsc, x_write_own.
  apply Hs; assumption.
Qed.

(* ---------------- a sequence of cross-tour updates, each preceded by a harmless step `pre` ---------------- *)
Section Pre.
Variable pre : xfeature -> list rctx -> list rctx.
Hypothesis pre_tours : forall xf rs, map rc_tour (pre xf rs) = map rc_tour rs.
Hypothesis pre_fields : forall xf rs, x_apart xf -> Forall fields_ok rs -> Forall fields_ok (pre xf rs).
Hypothesis pre_keeps : forall xf rs k g, k <> xf_key xf -> Forall (at_key k g) rs -> Forall (at_key k g) (pre xf rs).

Definition x_seq (p : bool) (xl : list xfeature) (rs : list rctx) : list rctx :=
  fold_left (fun acc xf => x_update tour value p xf (pre xf acc)) xl rs.

Lemma x_seq_tours : forall p xl rs, map rc_tour (x_seq p xl rs) = map rc_tour rs.
Proof.
  intros p xl. induction xl as [|xf xl IH]; intros rs; [reflexivity|].
  unfold x_seq in *. cbn [fold_left]. rewrite IH, x_update_tours, pre_tours. reflexivity.
Qed.
Lemma x_seq_fields : forall p xl rs, (forall xf, In xf xl -> x_apart xf) -> Forall fields_ok rs -> Forall fields_ok (x_seq p xl rs).
Proof.
  intros p xl. induction xl as [|xf xl IH]; intros rs Ha H; [exact H|].
  unfold x_seq in *. cbn [fold_left]. apply IH; [intros; apply Ha; right; assumption|].
  apply x_update_fields; [apply Ha; left; reflexivity|]. apply pre_fields; [apply Ha; left; reflexivity|exact H].
Qed.
Lemma x_seq_keeps : forall p xl rs k g, ~ In k (map xf_key xl) -> Forall (at_key k g) rs -> Forall (at_key k g) (x_seq p xl rs).
Proof.
  intros p xl. induction xl as [|xf xl IH]; intros rs k g Hk H; [exact H|].
  unfold x_seq in *. cbn [fold_left]. cbn [map] in Hk. apply IH; [intros Hin; apply Hk; right; exact Hin|].
  assert (Hne : k <> xf_key xf) by (intros ->; apply Hk; left; reflexivity).
  apply x_update_keeps; [exact Hne|]. apply pre_keeps; [exact Hne|exact H].
Qed.
Lemma x_seq_spec : forall xl rs,
  NoDup (map xf_key xl) -> (forall xf, In xf xl -> x_apart xf) -> (forall xf, In xf xl -> x_sound xf) -> Forall fields_ok rs ->
  forall xf, In xf xl -> xf_scope xf = XAll -> Forall (x_ok xf (map rc_tour rs)) (x_seq false xl rs).
Proof.
  induction xl as [|x0 xl IH]; intros rs Hnd Ha Hs Hok xf Hin Hsc; [destruct Hin|].
  cbn [map] in Hnd. inversion Hnd as [|? ? Hni Hnd']; subst.
  assert (Hok1 : Forall fields_ok (pre x0 rs)) by (apply pre_fields; [apply Ha; left; reflexivity|exact Hok]).
  assert (Hok2 : Forall fields_ok (x_update tour value false x0 (pre x0 rs)))
    by (apply x_update_fields; [apply Ha; left; reflexivity|exact Hok1]).
  unfold x_seq. cbn [fold_left]. fold (x_seq false xl (x_update tour value false x0 (pre x0 rs))).
  destruct Hin as [->|Hin].
  - apply (x_seq_keeps false xl _ (xf_key xf) (xf_spec xf (map rc_tour rs))); [exact Hni|].
    rewrite <- (pre_tours xf rs). apply x_update_spec; [exact Hsc|apply Hs; left; reflexivity|exact Hok1].
  - rewrite <- (pre_tours x0 rs), <- (x_update_tours false x0 (pre x0 rs)).
    apply IH; auto; intros; [apply Ha|apply Hs]; right; assumption.
Qed.
End Pre.

Definition pre_id : xfeature -> list rctx -> list rctx := fun _ l => l.
Lemma x_updates_seq : forall p xl rs, x_updates tour value p xl rs = x_seq pre_id p xl rs.
Proof. reflexivity. Qed.
Lemma pre_id_tours : forall xf rs, map rc_tour (pre_id xf rs) = map rc_tour rs.
Proof. reflexivity. Qed.
Lemma pre_id_fields : forall xf rs, x_apart xf -> Forall fields_ok rs -> Forall fields_ok (pre_id xf rs).
Proof. intros xf rs _ H. exact H. Qed.
Lemma pre_id_keeps : forall xf rs k g, k <> xf_key xf -> Forall (at_key k g) rs -> Forall (at_key k g) (pre_id xf rs).
Proof. intros xf rs k g _ H. exact H. Qed.

(* ---------------- the per-tour round and the loop ---------------- *)
Lemma unset_fields : forall r, fields_ok r -> fields_ok (unset tour value r).
Proof. intros r H f Hf. exact (H f Hf). Qed.

Lemma sol_round_tours : forall rs, map rc_tour (sol_round tour job value fs rs) = map rc_tour rs.
Proof.
  intros rs. unfold sol_round. rewrite map_map. apply map_ext. intros r.
  apply (fold_tour tour job value (sol_handler tour job value) (sol_handler_cases tour job value)).
Qed.

Lemma sol_round_fields : keys_distinct tour job value fs ->
  (forall f, In f fs -> refreshes_on_handover tour job value f = true) ->
  forall rs, Forall (CacheOK tour job value fs) rs -> Forall fields_ok (sol_round tour job value fs rs).
Proof.
  intros Hk Href rs Hall. apply Forall_forall. intros r1 Hin. unfold sol_round in Hin.
  apply in_map_iff in Hin as (r & <- & Hr). intros f Hf.
  destruct (handover_fresh tour job value fs Hk rs
              (mkRctx (rc_tour (fold_left (fun acc f => sol_handler tour job value f acc) fs r))
                      (rc_state (fold_left (fun acc f => sol_handler tour job value f acc) fs r)) false) Hall) as [_ H].
  - unfold accept_solution_state. apply in_map_iff. exists r. split; [reflexivity|exact Hr].
  - exact (H f Hf (Href f Hf)).
Qed.

Lemma fields_cache_ok : forall r, fields_ok r -> CacheOK tour job value fs r.
Proof. intros r H _ f Hf _. apply H. exact Hf. Qed.
Lemma stale_cache_ok : forall r, rc_stale r = true -> CacheOK tour job value fs r.
Proof. intros r H H0. congruence. Qed.

Variable xfs : list xfeature.
Variable edits : list rctx -> option (list rctx).
(* what the solution-level clean-up may do: a route of the result is an unchanged route or has been changed through route_mut *)
Definition edits_ok : Prop := forall rs rs', edits rs = Some rs' -> forall r', In r' rs' -> In r' rs \/ rc_stale r' = true.

Definition handed_over (partial : bool) (rs' : list rctx) : Prop :=
  Forall (fun r' => rc_stale r' = false /\ fields_ok r' /\
                    (partial = false -> forall xf, In xf xfs -> xf_scope xf = XAll -> x_ok xf (map rc_tour rs') r')) rs'.

Theorem handover_fresh_x :
  keys_distinct tour job value fs -> NoDup (map xf_key xfs) ->
  (forall f, In f fs -> refreshes_on_handover tour job value f = true) ->
  (forall xf, In xf xfs -> x_apart xf) -> (forall xf, In xf xfs -> x_sound xf) -> edits_ok ->
  forall partial fuel rs rs', Forall (CacheOK tour job value fs) rs ->
  accept_solution_loop tour job value fs xfs edits partial fuel rs = Some rs' -> handed_over partial rs'.
Proof.
  intros Hk Hnd Href Ha Hs He partial fuel. induction fuel as [|k IH]; intros rs rs' Hall Hrun; [discriminate|].
  cbn [accept_solution_loop] in Hrun.
  pose proof (sol_round_fields Hk Href rs Hall) as H1.
  destruct (edits (sol_round tour job value fs rs)) as [rs2|] eqn:Ee.
  - apply (IH rs2 rs'); [|exact Hrun]. apply Forall_forall. intros r2 Hr2.
    destruct (He _ _ Ee r2 Hr2) as [Hin|Hst]; [|apply stale_cache_ok; exact Hst].
    apply fields_cache_ok. rewrite Forall_forall in H1. apply H1. exact Hin.
  - injection Hrun as <-. rewrite x_updates_seq.
    set (rs1 := sol_round tour job value fs rs) in *.
    assert (Ht : map rc_tour (map (unset tour value) (x_seq pre_id partial xfs rs1)) = map rc_tour rs1).
    { rewrite map_map. change (map (fun x => rc_tour (unset tour value x)) (x_seq pre_id partial xfs rs1))
        with (map rc_tour (x_seq pre_id partial xfs rs1)). apply (x_seq_tours pre_id pre_id_tours). }
    unfold handed_over. rewrite Ht. apply Forall_forall. intros r' Hin. apply in_map_iff in Hin as (r & <- & Hr).
    split; [reflexivity|]. split.
    + apply unset_fields. assert (Hf : Forall fields_ok (x_seq pre_id partial xfs rs1)).
      { apply (x_seq_fields pre_id pre_id_fields); [exact Ha|exact H1]. }
      rewrite Forall_forall in Hf. apply Hf. exact Hr.
    + intros -> xf Hxf Hsc.
      assert (Hx : Forall (x_ok xf (map rc_tour rs1)) (x_seq pre_id false xfs rs1)).
      { apply (x_seq_spec pre_id pre_id_tours pre_id_fields pre_id_keeps); assumption. }
      rewrite Forall_forall in Hx. exact (Hx r Hr).
Qed.

(* ---------------- after a single insertion ---------------- *)
Lemma update_nth_forall : forall (P : rctx -> Prop) g i l, Forall P l -> (forall a, P a -> P (g a)) -> Forall P (update_nth i g l).
Proof.
  intros P g i l. revert i. induction l as [|a l IH]; intros i H Hg; [cbn; constructor|].
  inversion H; subst. destruct i; cbn [update_nth]; constructor; auto.
Qed.
Lemma update_nth_map : forall (B : Type) (h : rctx -> B) g i l, (forall a, h (g a) = h a) -> map h (update_nth i g l) = map h l.
Proof.
  intros B h g i l Hg. revert i. induction l as [|a l IH]; intros i; [reflexivity|].
  destruct i; cbn [update_nth map]; [rewrite Hg|rewrite IH]; reflexivity.
Qed.
Definition pre_prevent (i : nat) : xfeature -> list rctx -> list rctx := fun xf l => update_nth i (x_prevent tour value xf) l.

Theorem insertion_fresh_x :
  keys_distinct tour job value fs -> NoDup (map xf_key xfs) ->
  (forall xf, In xf xfs -> x_apart xf) -> (forall xf, In xf xfs -> x_sound xf) ->
  forall ins j i rs, insertion_exact tour job value fs ins -> Forall fields_ok rs ->
  let rs' := accept_insertion_x tour job value fs xfs false ins j i rs in
  Forall (fun r' => fields_ok r' /\ forall xf, In xf xfs -> xf_scope xf = XAll -> x_ok xf (map rc_tour rs') r') rs'.
Proof.
  intros Hk Hnd Ha Hs ins j i rs Hex Hok rs'.
  set (rs1 := update_nth i (apply_insertion tour job value fs ins j) rs).
  assert (H1 : Forall fields_ok rs1).
  { apply update_nth_forall; [exact Hok|]. intros a Hfa. exact (insertion_fresh tour job value fs Hk ins j a Hex Hfa). }
  assert (Hpt : forall xf l, map rc_tour (pre_prevent i xf l) = map rc_tour l).
  { intros. apply update_nth_map. reflexivity. }
  assert (Hpf : forall xf l, x_apart xf -> Forall fields_ok l -> Forall fields_ok (pre_prevent i xf l)).
  { intros xf l Hxa H. apply update_nth_forall; [exact H|]. intros a Hfa. apply x_write_fields; assumption. }
  assert (Hpk : forall xf l k g, k <> xf_key xf -> Forall (at_key k g) l -> Forall (at_key k g) (pre_prevent i xf l)).
  { intros xf l k g Hne H. apply update_nth_forall; [exact H|]. intros a Hq. unfold at_key, x_prevent.
    rewrite x_write_tour, x_write_other; assumption. }
  assert (E : rs' = x_seq (pre_prevent i) false xfs rs1) by reflexivity.
  rewrite E. clear E rs'.
  assert (Ht : map rc_tour (x_seq (pre_prevent i) false xfs rs1) = map rc_tour rs1) by (apply (x_seq_tours _ Hpt)).
  rewrite Ht. apply Forall_forall. intros r' Hr'. split.
  - assert (Hf : Forall fields_ok (x_seq (pre_prevent i) false xfs rs1)) by (apply (x_seq_fields _ Hpf); assumption).
    rewrite Forall_forall in Hf. exact (Hf r' Hr').
  - intros xf Hxf Hsc.
    assert (Hx : Forall (x_ok xf (map rc_tour rs1)) (x_seq (pre_prevent i) false xfs rs1))
      by (apply (x_seq_spec _ Hpt Hpf Hpk); assumption).
    rewrite Forall_forall in Hx. exact (Hx r' Hr').
Qed.

(* ---------------- the nested clear of CombinedFeatureState::accept_route_state ---------------- *)
Lemma fold_refresh_stale : forall (gs : list feature) r, rc_stale r = true ->
  rc_stale (fold_left (fun acc f => if f_on_route f then refresh tour job value f acc else acc) gs r) = true.
Proof.
  intros gs r H. apply (fold_stale tour job value (fun f r => if f_on_route f then refresh tour job value f r else r)
                                   (route_handler_cases tour job value)). exact H.
Qed.

Lemma fold_refresh_other : forall (gs : list feature) r k, ~ In k (map f_key gs) ->
  rc_state (fold_left (fun acc f => if f_on_route f then refresh tour job value f acc else acc) gs r) k = rc_state r k.
Proof.
  induction gs as [|g gs IH]; intros r k Hk; [reflexivity|]. cbn [fold_left]. cbn [map] in Hk.
  rewrite IH; [|intros Hin; apply Hk; right; exact Hin].
  destruct (f_on_route g); [|reflexivity]. unfold refresh, set_key. cbn.
  destruct (Nat.eqb k (f_key g)) eqn:E; [apply Nat.eqb_eq in E; exfalso; apply Hk; left; congruence|reflexivity].
Qed.
Lemma fold_prevent_other : forall (xs : list xfeature) r k, ~ In k (map xf_key xs) ->
  rc_state (fold_left (fun acc xf => x_prevent tour value xf acc) xs r) k = rc_state r k.
Proof.
  induction xs as [|x xs IH]; intros r k Hk; [reflexivity|]. cbn [fold_left]. cbn [map] in Hk.
  rewrite IH; [|intros Hin; apply Hk; right; exact Hin]. unfold x_prevent. apply x_write_other.
  intros ->. apply Hk. left. reflexivity.
Qed.

(* BEFORE /repo 05d96ed (nested = true), a goal [f; Combined gs xs]: after GoalContext::accept_route_state on a stale tour the
   flag is clear and the field of f, written a moment ago, is gone *)
Theorem nested_clear_wipes : forall (f : feature) gs xs r,
  rc_stale r = true -> ~ In (f_key f) (map f_key gs) -> ~ In (f_key f) (map xf_key xs) ->
  let r' := goal_accept_route_state tour job value true [EOne f; ECombined gs xs] r in
  rc_stale r' = false /\ rc_tour r' = rc_tour r /\ rc_state r' (f_key f) = None.
Proof.
  intros f gs xs r Hst Hg Hx r'. subst r'. unfold goal_accept_route_state. rewrite Hst. cbn [fold_left entry_route].
  split; [reflexivity|].
  set (r1 := if f_on_route f then refresh tour job value f (mkRctx (rc_tour r) (fun _ => None) true)
             else mkRctx (rc_tour r) (fun _ => None) true).
  assert (Hs1 : rc_stale r1 = true) by (subst r1; destruct (f_on_route f); reflexivity).
  assert (Ht1 : rc_tour r1 = rc_tour r) by (subst r1; destruct (f_on_route f); reflexivity).
  unfold accept_route_state_x. rewrite Hs1. cbn [unset rc_tour rc_state]. split.
  - rewrite <- Ht1.
    assert (Hp : forall r0 : rctx, rc_tour (fold_left (fun acc xf => x_prevent tour value xf acc) xs r0) = rc_tour r0).
    { clear. induction xs as [|x xs IH]; intros r0; [reflexivity|]. cbn [fold_left]. rewrite IH. reflexivity. }
    rewrite Hp.
    rewrite (fold_tour tour job value (fun f r => if f_on_route f then refresh tour job value f r else r)
                       (route_handler_cases tour job value)). reflexivity.
  - rewrite fold_prevent_other; [|exact Hx]. rewrite fold_refresh_other; [|exact Hg]. reflexivity.
Qed.

(* a goal without a combined state is the protocol of Model/Cache.v (before and after the repair) *)
Theorem goal_accept_route_state_flat : forall nested (gs : list feature) r,
  goal_accept_route_state tour job value nested (map EOne gs) r = accept_route_state tour job value gs r.
Proof.
  intros nested gs r. unfold goal_accept_route_state, accept_route_state. destruct (rc_stale r); [|reflexivity].
  unfold unset. f_equal.
  - f_equal. generalize (mkRctx (rc_tour r) (fun _ : nat => @None value) true).
    induction gs as [|g gs IH]; intros r0; [reflexivity|]. cbn [map fold_left entry_route]. apply IH.
  - f_equal. generalize (mkRctx (rc_tour r) (fun _ : nat => @None value) true).
    induction gs as [|g gs IH]; intros r0; [reflexivity|]. cbn [map fold_left entry_route]. apply IH.
Qed.

(* ---------------- the repaired protocol (nested = false): one clear / unset bracket around ALL handlers ---------------- *)
(* the handlers of a goal as one sequence of steps: refresh of a per-tour feature, or prevent of a cross-tour one *)
Definition step_key (s : feature + xfeature) : nat := match s with inl f => f_key f | inr xf => xf_key xf end.
Definition step (s : feature + xfeature) (r : rctx) : rctx :=
  match s with
  | inl f => if f_on_route f then refresh tour job value f r else r
  | inr xf => x_prevent tour value xf r
  end.
Definition steps (es : list (entry tour job value)) : list (feature + xfeature) :=
  flat_map (fun e => match e with EOne f => [inl f] | ECombined gs xs => map inl gs ++ map inr xs end) es.

Lemma fold_steps_app : forall l1 l2 r,
  fold_left (fun acc s => step s acc) (l1 ++ l2) r = fold_left (fun acc s => step s acc) l2 (fold_left (fun acc s => step s acc) l1 r).
Proof. intros. apply fold_left_app. Qed.

Lemma combined_route_steps : forall gs xs r,
  combined_route tour job value gs xs r = fold_left (fun acc s => step s acc) (map inl gs ++ map inr xs) r.
Proof.
  intros gs xs r. unfold combined_route. rewrite fold_steps_app.
  assert (H1 : forall r0, fold_left (fun acc s => step s acc) (map inl gs) r0 =
                          fold_left (fun acc f => if f_on_route f then refresh tour job value f acc else acc) gs r0).
  { induction gs as [|g gs IH]; intros r0; [reflexivity|]. cbn [map fold_left step]. apply IH. }
  assert (H2 : forall r0, fold_left (fun acc s => step s acc) (map inr xs) r0 =
                          fold_left (fun acc xf => x_prevent tour value xf acc) xs r0).
  { induction xs as [|x xs IH]; intros r0; [reflexivity|]. cbn [map fold_left step]. apply IH. }
  rewrite H1, H2. reflexivity.
Qed.

Lemma goal_fold_steps : forall es r,
  fold_left (fun acc e => entry_route tour job value false e acc) es r = fold_left (fun acc s => step s acc) (steps es) r.
Proof.
  unfold steps. induction es as [|e es IH]; intros r; [reflexivity|]. cbn [fold_left flat_map]. rewrite fold_steps_app, IH. f_equal.
  destruct e as [f|gs xs]; cbn [entry_route]; [reflexivity|apply combined_route_steps].
Qed.

Lemma steps_keys : forall es, map step_key (steps es) = entry_keys tour job value es.
Proof.
  unfold steps, entry_keys. induction es as [|e es IH]; [reflexivity|]. cbn [flat_map]. rewrite map_app, IH. f_equal.
  destruct e as [f|gs xs]; [reflexivity|]. rewrite map_app, !map_map. reflexivity.
Qed.

Lemma in_flat_steps : forall es f, In f (flat_fs tour job value es) -> In (inl f) (steps es).
Proof.
  intros es f H. unfold flat_fs in H. apply in_flat_map in H as (e & He & Hf). unfold steps. apply in_flat_map.
  exists e. split; [exact He|]. destruct e as [g|gs xs].
  - destruct Hf as [->|[]]. left. reflexivity.
  - apply in_or_app. left. apply in_map. exact Hf.
Qed.

Lemma step_tour : forall s r, rc_tour (step s r) = rc_tour r.
Proof. intros [f|xf] r; cbn [step]; [destruct (f_on_route f); reflexivity|reflexivity]. Qed.
Lemma step_keeps : forall (f : feature) s r, f_key f <> step_key s -> field_ok tour job value f r -> field_ok tour job value f (step s r).
Proof.
  intros f [g|xf] r Hk H; cbn [step step_key] in *.
  - destruct (f_on_route g); [apply refresh_other; assumption|exact H].
  - unfold field_ok, x_prevent. rewrite x_write_tour, x_write_other; assumption.
Qed.
Lemma steps_keep : forall (f : feature) l r, (forall s, In s l -> f_key f <> step_key s) -> field_ok tour job value f r ->
  field_ok tour job value f (fold_left (fun acc s => step s acc) l r).
Proof.
  intros f l. induction l as [|s l IH]; intros r Hk H; [exact H|]. cbn [fold_left].
  apply IH; [intros; apply Hk; right; assumption|]. apply step_keeps; [apply Hk; left; reflexivity|exact H].
Qed.
Lemma steps_field : forall (f : feature) l r, NoDup (map step_key l) -> In (inl f) l -> f_on_route f = true ->
  field_ok tour job value f (fold_left (fun acc s => step s acc) l r).
Proof.
  intros f l. induction l as [|s l IH]; intros r Hnd Hin Hon; [destruct Hin|].
  cbn [map] in Hnd. inversion Hnd as [|? ? Hni Hnd']; subst. cbn [fold_left]. destruct Hin as [->|Hin].
  - apply steps_keep.
    + intros s Hs Heq. apply Hni. cbn [step_key]. rewrite Heq. apply in_map. exact Hs.
    + cbn [step]. rewrite Hon. apply refresh_own.
  - apply IH; assumption.
Qed.

(* GoalContext::accept_route_state as repaired keeps the invariant for EVERY per-tour feature of the goal, inside a combined
   state or not *)
Theorem cache_ok_goal_accept_route_state : forall es r, NoDup (entry_keys tour job value es) ->
  CacheOK tour job value (flat_fs tour job value es) r ->
  CacheOK tour job value (flat_fs tour job value es) (goal_accept_route_state tour job value false es r).
Proof.
  intros es r Hnd Hok. unfold goal_accept_route_state. destruct (rc_stale r) eqn:Es; [|exact Hok].
  intros _ f Hf Hon. unfold field_ok. cbn [unset rc_state rc_tour]. rewrite goal_fold_steps.
  apply steps_field; [rewrite steps_keys; exact Hnd|apply in_flat_steps; exact Hf|exact Hon].
Qed.
End PX.

(* ================= the shared reload resource ================= *)
(* get_route_intervals: every interval starts inside the tour (get_activity_by_idx cannot panic on fresh intervals) *)
Lemma ivs_from_range : forall acts idx last start, (start <= idx)%nat -> (idx + length acts = S last)%nat ->
  Forall (fun se => (fst se <= last)%nat) (ivs_from idx last acts start).
Proof.
  induction acts as [|a rest IH]; intros idx last start Hs Hl; [constructor|].
  cbn [ivs_from length] in *.
  destruct (is_marker a) eqn:Em; destruct (Nat.eqb idx last) eqn:El; cbn [orb andb].
  - apply Nat.eqb_eq in El. subst idx. destruct rest; [|cbn [length] in Hl; lia].
    cbn [ivs_from]. repeat constructor; cbn [fst]; lia.
  - apply Nat.eqb_neq in El. constructor; [cbn [fst]; lia|]. apply IH; lia.
  - apply Nat.eqb_eq in El. subst idx. destruct rest; [|cbn [length] in Hl; lia].
    cbn [ivs_from]. repeat constructor; cbn [fst]; lia.
  - apply IH; lia.
Qed.

Lemma intervals_in_range : forall t, Forall (fun se => (fst se < length t)%nat) (intervals_of t).
Proof.
  intros t. unfold intervals_of. destruct t as [|a t]; [constructor|].
  assert (H := ivs_from_range (a :: t) 0 (length (a :: t) - 1) 0 (le_n 0)).
  cbn [length] in *. eapply Forall_impl; [|apply H; lia]. intros se Hse. cbn beta in Hse. lia.
Qed.

Lemma route_contribs_fresh : forall t ivs, Forall (fun se => (fst se < length t)%nat) ivs ->
  route_contribs t ivs = Some (flat_map (contrib1 t) ivs).
Proof.
  intros t ivs H. induction H as [|[s e] ivs Hs _ IH]; [reflexivity|].
  cbn [route_contribs flat_map fst] in *. rewrite IH. unfold contrib1. cbn [fst snd].
  destruct (nth_error t s) as [a|] eqn:En; [|apply nth_error_None in En; lia].
  destruct (sa_res a) as [[cap id]|]; reflexivity.
Qed.

Lemma avail_entries_fresh : forall total t ivs, Forall (fun se => (fst se < length t)%nat) ivs ->
  avail_entries total t ivs = Some (map (entry1 (fun id => lookup id total) t) ivs).
Proof.
  intros total t ivs H. induction H as [|[s e] ivs Hs _ IH]; [reflexivity|].
  cbn [avail_entries map fst] in *. rewrite IH. unfold entry1. cbn [fst].
  destruct (nth_error t s) as [a|] eqn:En; [reflexivity|apply nth_error_None in En; lia].
Qed.

(* the HashMap of totals *)
Lemma lookup_add_same : forall id d m, lookup id (add_entry id d m) = Some (match lookup id m with Some v => v | None => 0 end + d).
Proof.
  intros id d m. induction m as [|[k v] m IH]; cbn [add_entry lookup].
  - rewrite Z.eqb_refl. reflexivity.
  - destruct (k =? id) eqn:E; cbn [lookup]; rewrite E; [reflexivity|exact IH].
Qed.
Lemma lookup_add_other : forall id id' d m, id' <> id -> lookup id (add_entry id' d m) = lookup id m.
Proof.
  intros id id' d m Hne. induction m as [|[k v] m IH]; cbn [add_entry lookup].
  - destruct (id' =? id) eqn:E; [apply Z.eqb_eq in E; congruence|reflexivity].
  - destruct (k =? id') eqn:E; cbn [lookup].
    + apply Z.eqb_eq in E. subst k. destruct (id' =? id) eqn:E2; [apply Z.eqb_eq in E2; congruence|reflexivity].
    + rewrite IH. reflexivity.
Qed.

Lemma lookup_fold : forall id cs m,
  lookup id (fold_left (fun m p => add_entry (fst p) (snd p) m) cs m) =
  match lookup id m with
  | Some v => Some (v + sum_for id cs)
  | None => if existsb (fun p => fst p =? id) cs then Some (sum_for id cs) else None
  end.
Proof.
  intros id cs. induction cs as [|[k d] cs IH]; intros m; cbn [fold_left existsb sum_for fold_right fst snd].
  - destruct (lookup id m); [f_equal; lia|reflexivity].
  - rewrite IH. fold (sum_for id cs). destruct (k =? id) eqn:E.
    + apply Z.eqb_eq in E. subst k. rewrite lookup_add_same. cbn [orb].
      destruct (lookup id m); f_equal; lia.
    + apply Z.eqb_neq in E. rewrite lookup_add_other; [|exact E]. cbn [orb]. reflexivity.
Qed.

Lemma lookup_totals : forall id cs,
  lookup id (totals cs) = if existsb (fun p => fst p =? id) cs then Some (sum_for id cs) else None.
Proof. intros. unfold totals. rewrite lookup_fold. reflexivity. Qed.

Notation srctx := (rctx (list sact) xval).

Lemma cached_fresh : forall r : srctx, fields_ok _ _ _ shared_table r -> cached_intervals r = intervals_of (rc_tour r).
Proof.
  intros r H. specialize (H intervals_feature (or_introl eq_refl)). unfold field_ok in H.
  cbn [f_key f_compute intervals_feature] in H. unfold cached_intervals. rewrite H. reflexivity.
Qed.

Lemma all_contribs_fresh : forall rs : list srctx, Forall (fields_ok _ _ _ shared_table) rs ->
  all_contribs rs = Some (flat_map contribs_spec (map rc_tour rs)).
Proof.
  intros rs H. induction H as [|r rs Hr _ IH]; [reflexivity|].
  cbn [all_contribs map flat_map]. rewrite IH, (cached_fresh r Hr), route_contribs_fresh; [reflexivity|apply intervals_in_range].
Qed.

Theorem shared_read_sound : forall scope, x_sound _ _ _ shared_table (shared_feature scope).
Proof.
  intros scope rs r Hin Hok. cbn [xf_read xf_spec shared_feature]. unfold shared_read, avail_spec.
  rewrite (all_contribs_fresh rs Hok).
  assert (Hr : fields_ok _ _ _ shared_table r) by (rewrite Forall_forall in Hok; apply Hok; exact Hin).
  rewrite (cached_fresh r Hr), avail_entries_fresh; [|apply intervals_in_range].
  do 2 f_equal. unfold avail_spec_entries. apply map_ext. intros se. unfold entry1.
  destruct (nth_error (rc_tour r) (fst se)) as [a|]; [|reflexivity].
  destruct (sa_res a) as [[cap id]|]; [|reflexivity].
  rewrite lookup_totals. reflexivity.
Qed.

Lemma shared_table_keys : keys_distinct _ _ _ shared_table.
Proof. unfold keys_distinct. cbn. repeat constructor. intros []. Qed.
Lemma shared_table_refreshes : forall f, In f shared_table -> refreshes_on_handover _ _ _ f = true.
Proof. intros f [<-|[]]. reflexivity. Qed.
Lemma shared_apart : forall scope xf, In xf [shared_feature scope] -> x_apart _ _ _ shared_table xf.
Proof. intros scope xf [<-|[]] f [<-|[]]. cbn. discriminate. Qed.

(* at every hand-over (whatever the marker clean-up did in the abandoned rounds) and in a complete solution: no tour is stale,
   the cached reload intervals are those of the tour, and the cached availability of every reload interval of every tour is the
   function `avail_spec` of the bare tours of the handed-over solution *)
Theorem shared_handover_fresh : forall edits, edits_ok _ _ edits ->
  forall fuel (rs rs' : list srctx), Forall (CacheOK _ _ _ shared_table) rs ->
  accept_solution_loop _ _ _ shared_table shared_shipped edits false fuel rs = Some rs' ->
  Forall (fun r' => rc_stale r' = false /\
                    rc_state r' K_INTERVALS = Some (XIntervals (intervals_of (rc_tour r'))) /\
                    rc_state r' K_SHARED = avail_spec (map rc_tour rs') (rc_tour r')) rs'.
Proof.
  intros edits He fuel rs rs' Hall Hrun.
  assert (H := handover_fresh_x _ _ _ shared_table shared_shipped edits shared_table_keys
                 ltac:(cbn; repeat constructor; intros []) shared_table_refreshes (shared_apart XAll)
                 ltac:(intros xf [<-|[]]; apply shared_read_sound) He false fuel rs rs' Hall Hrun).
  unfold handed_over in H. eapply Forall_impl; [|exact H]. cbn beta. intros r' (Hs & Hf & Hx).
  split; [exact Hs|]. split.
  - exact (Hf intervals_feature (or_introl eq_refl)).
  - exact (Hx eq_refl (shared_feature XAll) (or_introl eq_refl) eq_refl).
Qed.

(* after every single insertion into a complete solution whose per-tour fields were fresh *)
Theorem shared_insertion_fresh : forall ins j i (rs : list srctx),
  insertion_exact _ _ _ shared_table ins -> Forall (fields_ok _ _ _ shared_table) rs ->
  let rs' := accept_insertion_x _ _ _ shared_table shared_shipped false ins j i rs in
  Forall (fun r' => rc_state r' K_INTERVALS = Some (XIntervals (intervals_of (rc_tour r'))) /\
                    rc_state r' K_SHARED = avail_spec (map rc_tour rs') (rc_tour r')) rs'.
Proof.
  intros ins j i rs Hex Hok rs'.
  assert (H := insertion_fresh_x _ _ _ shared_table shared_shipped shared_table_keys
                 ltac:(cbn; repeat constructor; intros []) (shared_apart XAll)
                 ltac:(intros xf [<-|[]]; apply shared_read_sound) ins j i rs Hex Hok).
  cbn zeta in H. eapply Forall_impl; [|exact H]. cbn beta. intros r' (Hf & Hx). split.
  - exact (Hf intervals_feature (or_introl eq_refl)).
  - exact (Hx (shared_feature XAll) (or_introl eq_refl) eq_refl).
Qed.

(* what that function is: capacity of the resource at the first activity of the interval minus the demand of ALL reload
   intervals of ALL tours drawing from the same resource *)
Theorem shared_avail_char : forall ts t s e a cap id,
  In t ts -> In (s, e) (intervals_of t) -> nth_error t s = Some a -> sa_res a = Some (cap, id) ->
  In (s, Some (cap - sum_for id (flat_map contribs_spec ts))) (avail_spec_entries ts t).
Proof.
  intros ts t s e a cap id Ht Hse Hn Hres. unfold avail_spec_entries. apply in_map_iff. exists (s, e). split; [|exact Hse].
  unfold entry1. cbn [fst]. rewrite Hn, Hres. unfold resource_total.
  assert (Hex : existsb (fun p => fst p =? id) (flat_map contribs_spec ts) = true).
  { apply existsb_exists. exists (id, interval_demand t s e). split; [|cbn [fst]; apply Z.eqb_refl].
    apply in_flat_map. exists t. split; [exact Ht|]. unfold contribs_spec. apply in_flat_map. exists (s, e).
    split; [exact Hse|]. unfold contrib1. cbn [fst snd]. rewrite Hn, Hres. left. reflexivity. }
  rewrite Hex. reflexivity.
Qed.

(* ---------------- witnesses ---------------- *)
Definition S0 : sact := mkSA (-1) false None None.
Definition J (i d : Z) : sact := mkSA i false None (Some d).
Definition R (i cap id : Z) : sact := mkSA i true (Some (cap, id)) None.
(* two tours reloading from resource 0 (capacity 5); job 3 is loaded at the reload of the first tour *)
Definition wt1 : list sact := [S0; J 1 1; R 100 5 0; J 2 1; J 3 2; S0].
Definition wt2 : list sact := [S0; J 4 1; R 101 5 0; J 5 1; S0].
Definition w_remove (id : Z) (t : list sact) : list sact := filter (fun a => negb (sa_job a =? id)) t.
Definition w_start (xfs : list (xfeature (list sact) xval)) : option (list srctx) :=
  accept_solution_loop _ _ _ shared_table xfs no_edits false 3
    [mkRctx wt1 (fun _ => None) true; mkRctx wt2 (fun _ => None) true].
(* a search step takes job 3 out of the first tour (route_mut) and hands over; the second tour is not touched *)
Definition w_step (xfs : list (xfeature (list sact) xval)) : option (list srctx) :=
  match w_start xfs with
  | Some [r1; r2] => accept_solution_loop _ _ _ shared_table xfs no_edits false 3 [route_mut _ _ (w_remove 3) r1; r2]
  | _ => None
  end.

(* with the second pass restricted to stale tours (seeded C05-5) the untouched tour keeps the outdated value *)
Theorem shared_stale_only_refuted :
  exists r1 r2, w_step shared_stale_only = Some [r1; r2] /\ rc_stale r2 = false /\ rc_tour r2 = wt2 /\
    rc_state r2 K_SHARED = Some (XAvail [(0%nat, None); (2%nat, Some 1)]) /\
    avail_spec [rc_tour r1; rc_tour r2] (rc_tour r2) = Some (XAvail [(0%nat, None); (2%nat, Some 3)]).
Proof. eexists. eexists. split; [vm_compute; reflexivity|]. vm_compute. auto. Qed.

(* the same history with the code as it is *)
Theorem shared_step_shipped :
  exists r1 r2, w_step shared_shipped = Some [r1; r2] /\ rc_stale r2 = false /\ rc_tour r2 = wt2 /\
    rc_state r1 K_SHARED = Some (XAvail [(0%nat, None); (2%nat, Some 3)]) /\
    rc_state r2 K_SHARED = Some (XAvail [(0%nat, None); (2%nat, Some 3)]) /\
    rc_state r2 K_INTERVALS = Some (XIntervals [(0%nat, 1%nat); (2%nat, 4%nat)]).
Proof. eexists. eexists. split; [vm_compute; reflexivity|]. vm_compute. auto 10. Qed.

(* finding C05-F2 (the code BEFORE /repo 05d96ed): GoalContext::accept_route_state on a goal [transport-like feature;
   CombinedFeatureState [reload intervals; shared resource]]: the tour is flagged fresh, the field of the first feature is gone,
   its recomputation is not *)
Theorem nested_clear_refuted :
  let r' := goal_accept_route_state _ _ _ true shared_goal (mkRctx wt1 (fun _ => None) true) in
  rc_stale r' = false /\ rc_state r' K_TOTAL = None /\ f_compute total_feature (rc_tour r') = Some (XTotal 6) /\
  ~ CacheOK _ _ _ [total_feature; intervals_feature] r'.
Proof.
  cbn zeta. split; [reflexivity|]. split; [reflexivity|]. split; [reflexivity|].
  intros H. specialize (H eq_refl total_feature (or_introl eq_refl) eq_refl). unfold field_ok in H. vm_compute in H. discriminate.
Qed.

(* the same call on the code as repaired: every field is there *)
Theorem nested_clear_repaired :
  let r' := goal_accept_route_state _ _ _ false shared_goal (mkRctx wt1 (fun _ => None) true) in
  rc_stale r' = false /\ rc_state r' K_TOTAL = Some (XTotal 6) /\
  rc_state r' K_INTERVALS = Some (XIntervals [(0%nat, 1%nat); (2%nat, 5%nat)]) /\
  CacheOK _ _ _ (flat_fs _ _ _ shared_goal) r'.
Proof.
  cbn zeta. split; [reflexivity|]. split; [reflexivity|]. split; [vm_compute; reflexivity|].
  apply cache_ok_goal_accept_route_state; [cbn; repeat constructor; cbn; intuition discriminate|].
  intros H. discriminate.
Qed.
