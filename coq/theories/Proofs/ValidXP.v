(* Lemmas about the round-four rules of the end-to-end checker (Spec/ValidX.v): each executable rule is sound and complete for
   its declarative statement; conservativity with respect to Spec/Valid.v; concrete documents (non-vacuity). *)
From VRP Require Import Base.Tac Model.Core Spec.Feasible Spec.Intervals Proofs.IntervalsP Spec.Valid Proofs.ValidP Spec.ValidX.

(* ================================================================== 1. replacement tasks, mixed jobs *)
Lemma mixed_order_b_iff acts : mixed_order_b acts = true <-> PickupsBeforeAll acts.
Proof.
  unfold PickupsBeforeAll. induction acts as [|x r IH]; cbn [mixed_order_b].
  - split; [|reflexivity]. intros _ l1 a l2 b l3 H. destruct l1; discriminate.
  - rewrite andb_true_iff, IH. split.
    + intros [Hx Hr] l1 a l2 b l3 Heq Ha.
      destruct l1 as [|y l1]; cbn in Heq; injection Heq as Hxa Hrest.
      * subst x r. apply Z.eqb_neq in Ha. rewrite Ha in Hx. rewrite forallb_forall in Hx.
        assert (Hin : In b (l2 ++ b :: l3)) by (apply in_or_app; right; left; reflexivity).
        specialize (Hx b Hin). apply negb_true_iff in Hx. apply Z.eqb_neq in Hx. exact Hx.
      * subst. eapply Hr; [reflexivity|exact Ha].
    + intros H. split.
      * destruct (fa_kind x =? 0) eqn:Hk; [reflexivity|]. apply Z.eqb_neq in Hk.
        apply forallb_forall. intros b Hb. apply in_split in Hb. destruct Hb as [l2 [l3 ->]].
        apply negb_true_iff. apply Z.eqb_neq. apply (H [] x l2 b l3); [reflexivity|exact Hk].
      * intros l1 a l2 b l3 Heq Ha. apply (H (x :: l1) a l2 b l3); [cbn; rewrite Heq; reflexivity|exact Ha].
Qed.

Lemma mixed_viols_nil P S : mixed_viols P S = [] <-> MixedOrdered P S.
Proof.
  unfold mixed_viols, mixed_viol, MixedOrdered. rewrite flat_map_nil_iff. split.
  - intros H job t Hj Ht. specialize (H job Hj). rewrite flat_map_nil_iff in H. specialize (H t Ht).
    rewrite if_nil_iff in H. apply mixed_order_b_iff. exact H.
  - intros H job Hj. rewrite flat_map_nil_iff. intros t Ht. rewrite if_nil_iff. apply mixed_order_b_iff. apply H; assumption.
Qed.

(* the rule for mixed jobs contains the old one: pickups before deliveries *)
Lemma mixed_implies_pickups_first acts : PickupsBeforeAll acts -> PickupsFirst acts.
Proof. intros H l1 a l2 b l3 Heq Ha. apply (H l1 a l2 b l3 Heq). lia. Qed.

(* ---- a replacement activity = a static delivery directly followed by a static pickup of the same place *)
Lemma repl_change a : is_repl_act a = true -> d_change (a_dem a) = d_ps (a_dem a) - d_ds (a_dem a) /\ 0 < d_ds (a_dem a).
Proof.
  unfold is_repl_act, d_change. rewrite !andb_true_iff. intros [[[[_ _] H3] H4] H5].
  apply Z.ltb_lt in H3. apply Z.eqb_eq in H4, H5. lia.
Qed.

Lemma split_not_reload a : forall b, In b (split_act a) -> is_reload b = is_reload a.
Proof.
  unfold split_act. destruct (is_repl_act a); intros b Hb.
  - destruct Hb as [<-|[<-|[]]]; reflexivity.
  - destruct Hb as [<-|[]]. reflexivity.
Qed.

Lemma dch_d x : d_change (mkDemand 0 0 x 0) = - x.
Proof. unfold d_change. cbn [d_ps d_pd d_ds d_dd]. lia. Qed.
Lemma dch_p x : d_change (mkDemand x 0 0 0) = x.
Proof. unfold d_change. cbn [d_ps d_pd d_ds d_dd]. lia. Qed.

Lemma sim_load_split cap : forall i l, l <= cap -> sim_load cap l (flat_map split_act i) = sim_load cap l i.
Proof.
  induction i as [|a r IH]; intros l Hl; cbn [flat_map sim_load]; [reflexivity|].
  unfold split_act at 1. destruct (is_repl_act a) eqn:Hr.
  - destruct (repl_change a Hr) as [Hc Hd]. cbn [app sim_load with_dem a_dem]. cbv zeta. rewrite !dch_d, !dch_p.
    replace (l + - d_ds (a_dem a) + d_ps (a_dem a)) with (l + d_change (a_dem a)) by lia.
    assert (E : (l + - d_ds (a_dem a) <=? cap) = true) by (apply Z.leb_le; lia). rewrite E. cbn [andb].
    destruct (l + d_change (a_dem a) <=? cap) eqn:E2; [|reflexivity]. cbn [andb]. apply IH. apply Z.leb_le. exact E2.
  - cbn [app sim_load]. cbv zeta. destruct (l + d_change (a_dem a) <=? cap) eqn:E2; [|reflexivity]. cbn [andb].
    apply IH. apply Z.leb_le. exact E2.
Qed.

Lemma tsd_split : forall i, total_static_delivery (flat_map split_act i) = total_static_delivery i.
Proof.
  induction i as [|a r IH]; [reflexivity|]. cbn [flat_map]. unfold split_act at 1. destruct (is_repl_act a) eqn:Hr.
  - cbn [app]. unfold total_static_delivery in *. cbn [fold_right with_dem a_dem d_ds]. rewrite IH. lia.
  - cbn [app]. unfold total_static_delivery in *. cbn [fold_right]. rewrite IH. reflexivity.
Qed.

Lemma tsp_split : forall i, total_static_pickup (flat_map split_act i) = total_static_pickup i.
Proof.
  induction i as [|a r IH]; [reflexivity|]. cbn [flat_map]. unfold split_act at 1. destruct (is_repl_act a) eqn:Hr.
  - cbn [app]. unfold total_static_pickup in *. cbn [fold_right with_dem a_dem d_ps]. rewrite IH. lia.
  - cbn [app]. unfold total_static_pickup in *. cbn [fold_right]. rewrite IH. reflexivity.
Qed.

Lemma load_after_split : forall i l, load_after l (flat_map split_act i) = load_after l i.
Proof.
  induction i as [|a r IH]; intros l; [reflexivity|]. cbn [flat_map]. unfold split_act at 1. destruct (is_repl_act a) eqn:Hr.
  - destruct (repl_change a Hr) as [Hc _]. cbn [app load_after with_dem a_dem]. rewrite !dch_d, !dch_p.
    rewrite IH. f_equal. lia.
  - cbn [app load_after]. apply IH.
Qed.

Lemma ivls_nonempty : forall l, ivls l <> [].
Proof. induction l as [|a r IH]; cbn [ivls]; [discriminate|]. destruct (ivls r); [discriminate|]. destruct (is_reload a); discriminate. Qed.

Lemma ivls_app_nr : forall pre r, forallb (fun a => negb (is_reload a)) pre = true ->
  ivls (pre ++ r) = match ivls r with iv :: rest => (pre ++ iv) :: rest | [] => [pre] end.
Proof.
  induction pre as [|a p IH]; intros r H; cbn [app].
  - destruct (ivls r) eqn:E; [exfalso; exact (ivls_nonempty r E)|reflexivity].
  - cbn [forallb] in H. apply andb_true_iff in H. destruct H as [Ha Hp]. apply negb_true_iff in Ha.
    cbn [ivls]. rewrite (IH r Hp). destruct (ivls r) as [|iv rest] eqn:E; [exfalso; exact (ivls_nonempty r E)|].
    rewrite Ha. reflexivity.
Qed.

Lemma ivls_split : forall t, ivls (split_repl t) = map (flat_map split_act) (ivls t).
Proof.
  unfold split_repl. induction t as [|a r IH]; [reflexivity|]. cbn [flat_map].
  destruct (is_reload a) eqn:Ha.
  - assert (E : split_act a = [a]) by (unfold split_act, is_repl_act; rewrite Ha; reflexivity).
    rewrite E. cbn [app ivls]. rewrite IH, Ha. destruct (ivls r) as [|iv rest] eqn:E2; [exfalso; exact (ivls_nonempty r E2)|].
    cbn [map flat_map]. rewrite E. reflexivity.
  - assert (Hnr : forallb (fun b => negb (is_reload b)) (split_act a) = true).
    { apply forallb_forall. intros b Hb. rewrite (split_not_reload a b Hb), Ha. reflexivity. }
    rewrite (ivls_app_nr _ _ Hnr), IH. cbn [ivls]. rewrite Ha.
    destruct (ivls r) as [|iv rest] eqn:E2; [exfalso; exact (ivls_nonempty r E2)|]. cbn [map flat_map]. reflexivity.
Qed.

Lemma ivl_feasible_split cap : forall iv carry,
  ivl_feasible cap carry (map (flat_map split_act) iv) = ivl_feasible cap carry iv.
Proof.
  induction iv as [|i r IH]; intros carry; cbn [map ivl_feasible]; [reflexivity|]. cbv zeta.
  rewrite tsd_split, tsp_split, load_after_split, IH.
  destruct (carry + total_static_delivery i <=? cap) eqn:E; [|reflexivity]. cbn [andb].
  rewrite sim_load_split; [reflexivity|apply Z.leb_le; exact E].
Qed.

(* the capacity verdict of the checker on a tour is its verdict on the tour with every replacement split in two *)
Lemma split_load_feasible cap t : ivl_load_feasible cap (split_repl t) = ivl_load_feasible cap t.
Proof. unfold ivl_load_feasible. rewrite ivls_split. apply ivl_feasible_split. Qed.

(* and the load on board does not change at a replacement whose two demands are equal: the new good leaves, the old one comes *)
Lemma repl_load_constant a l : is_repl_act a = true -> d_ps (a_dem a) = d_ds (a_dem a) -> load_after l [a] = l.
Proof. intros Hr Heq. destruct (repl_change a Hr) as [Hc _]. cbn [load_after]. lia. Qed.

(* Valid.demand_of gives a replacement task (kind 3) with a positive demand exactly that shape *)
Lemma demand_of_replacement job tk : tk_kind tk = 3 -> 0 < tk_demand tk ->
  demand_of job tk = mkDemand (tk_demand tk) 0 (tk_demand tk) 0.
Proof. intros Hk _. unfold demand_of. rewrite Hk. reflexivity. Qed.

(* ---- non-vacuity: ex_P of ValidP.v plus job 3 = static pickup at location 2 + replacement (demand 4) at location 1 *)
Definition ex_Pr : pproblem :=
  mkPProblem (pr_jobs ex_P ++ [mkPJob 3 [mkPTask 0 [mkPPlace 2 0 [(NEGT, INF)] None] 1; mkPTask 3 [mkPPlace 1 5 [(NEGT, INF)] None] 4]
                                      true [] [] [] None None [] []])
             (pr_fleet ex_P) 3 (pr_dur ex_P) (pr_dist ex_P) [].
(* depot -> pickup of job 3 at 2 (arrive 20) -> replacement of job 3 at 1 (30..35) -> depot at 45; 4 on board from the start
   (the new good), 5 after the pickup, still 5 after the replacement (the old good), 0 at the end *)
Definition ex_stat_r : sstat := mkSStat 137 40 45 40 5 0 0.
Definition ex_Sr : ssolution :=
  mkSSolution ex_stat_r
    [mkSTour 1 1 0 [mkSStop 0 0 0 4 0 [mkSAct (-1) 10 None None None];
                    mkSStop 2 20 20 5 20 [mkSAct 3 0 None None None];
                    mkSStop 1 30 35 5 30 [mkSAct 3 3 None None None];
                    mkSStop 0 45 45 0 40 [mkSAct (-1) 11 None None None]] ex_stat_r []]
    [(1, 1%nat); (2, 1%nat)].
(* the same tour with the replacement served BEFORE the pickup of the same job (times and loads consistent with that order) *)
Definition ex_Sr_bad : ssolution :=
  mkSSolution ex_stat_r
    [mkSTour 1 1 0 [mkSStop 0 0 0 4 0 [mkSAct (-1) 10 None None None];
                    mkSStop 1 10 15 4 10 [mkSAct 3 3 None None None];
                    mkSStop 2 25 25 5 20 [mkSAct 3 0 None None None];
                    mkSStop 0 45 45 0 40 [mkSAct (-1) 11 None None None]] ex_stat_r []]
    [(1, 1%nat); (2, 1%nat)].
(* the replaced good counted once: the loads of a plain delivery of 4 (0 on board after the replacement) *)
Definition ex_Sr_once : ssolution :=
  mkSSolution ex_stat_r
    [mkSTour 1 1 0 [mkSStop 0 0 0 4 0 [mkSAct (-1) 10 None None None];
                    mkSStop 2 20 20 5 20 [mkSAct 3 0 None None None];
                    mkSStop 1 30 35 1 30 [mkSAct 3 3 None None None];
                    mkSStop 0 45 45 0 40 [mkSAct (-1) 11 None None None]] ex_stat_r []]
    [(1, 1%nat); (2, 1%nat)].

Lemma ex_replacement :
  valid_b ex_Pr ex_Sr ++ mixed_viols ex_Pr ex_Sr = []
  /\ valid_b ex_Pr ex_Sr_bad ++ mixed_viols ex_Pr ex_Sr_bad = [AJobMixedOrder 3]
  /\ valid_b ex_Pr ex_Sr_once = [RLoad 0 2].
Proof. repeat split; vm_compute; reflexivity. Qed.

Lemma ex_replacement_mixed : MixedOrdered ex_Pr ex_Sr /\ ~ MixedOrdered ex_Pr ex_Sr_bad.
Proof.
  split; [apply mixed_viols_nil; vm_compute; reflexivity|].
  intros H. apply mixed_viols_nil in H. vm_compute in H. discriminate.
Qed.

(* capacity 4 is not enough for that tour (5 on board after the pickup), although the replacement itself "delivers" 4 *)
Definition ex_repl_tour : list act :=
  [mkAct (-1) 0 0 0 INF dzero 0 0; mkAct 3 2 0 NEGT INF (mkDemand 1 0 0 0) 20 20;
   mkAct 3 1 5 NEGT INF (mkDemand 4 0 4 0) 30 35; mkAct (-1) 0 0 NEGT 1000 dzero 45 45].
Lemma ex_replacement_capacity :
  ivl_load_feasible 5 ex_repl_tour = true /\ ivl_load_feasible 4 ex_repl_tour = false
  /\ ivl_loads_of ex_repl_tour = [4; 5; 5; 5]
  /\ ivl_loads_of (split_repl ex_repl_tour) = [4; 5; 1; 5; 5].
Proof. repeat split; vm_compute; reflexivity. Qed.


(* ================================================================== 2. required breaks: the clock *)
Lemma sumz_nonneg l : (forall x, In x l -> 0 <= x) -> 0 <= sumz l.
Proof.
  induction l as [|x r IH]; intros H; cbn [sumz fold_right]; [lia|].
  assert (0 <= x) by (apply H; left; reflexivity).
  assert (0 <= sumz r) by (apply IH; intros y Hy; apply H; right; exact Hy). unfold sumz in *. lia.
Qed.

Lemma busy_nil s t : busy [] s t = 0.
Proof. reflexivity. Qed.
Lemma busy_cons b e r s t : busy ((b, e) :: r) s t = Z.max 0 (Z.min e t - Z.max b s) + busy r s t.
Proof. reflexivity. Qed.
Lemma busy_nonneg B s t : 0 <= busy B s t.
Proof.
  unfold busy. apply sumz_nonneg. intros x Hx. apply in_map_iff in Hx. destruct Hx as [be [<- _]]. lia.
Qed.

(* every interval of r starts at or after x *)
Definition lb (x : Z) (r : list (Z * Z)) : Prop := forall be, In be r -> x <= fst be.

Lemma busy_before r : forall x s t, lb x r -> t <= x -> busy r s t = 0.
Proof.
  induction r as [|[b e] r IH]; intros x s t Hlb Ht; [reflexivity|].
  rewrite busy_cons. rewrite (IH x s t); [|intros be Hbe; apply Hlb; right; exact Hbe|exact Ht].
  assert (x <= b) by (apply (Hlb (b, e)); left; reflexivity). lia.
Qed.

Lemma busy_from r : forall x s s' t, lb x r -> s <= x -> s' <= x -> busy r s t = busy r s' t.
Proof.
  induction r as [|[b e] r IH]; intros x s s' t Hlb Hs Hs'; [reflexivity|].
  rewrite !busy_cons. rewrite (IH x s s' t); [|intros be Hbe; apply Hlb; right; exact Hbe|exact Hs|exact Hs'].
  assert (x <= b) by (apply (Hlb (b, e)); left; reflexivity). lia.
Qed.

Lemma interior_cons b e r t : interior ((b, e) :: r) t = ((b <? t) && (t <? e)) || interior r t.
Proof. reflexivity. Qed.

Lemma interior_before r : forall x t, lb x r -> t <= x -> interior r t = false.
Proof.
  induction r as [|[b e] r IH]; intros x t Hlb Ht; [reflexivity|].
  rewrite interior_cons. rewrite (IH x t); [|intros be Hbe; apply Hlb; right; exact Hbe|exact Ht].
  assert (x <= b) by (apply (Hlb (b, e)); left; reflexivity).
  assert (E : (b <? t) = false) by (apply Z.ltb_ge; lia). rewrite E. reflexivity.
Qed.

Lemma iv_ok_cons b e r : iv_ok ((b, e) :: r) = true -> b < e /\ iv_ok r = true /\ lb e r.
Proof.
  revert b e. induction r as [|[b' e'] r IH]; intros b e H.
  - cbn [iv_ok] in H. rewrite !andb_true_iff in H. destruct H as [[H1 _] _]. apply Z.ltb_lt in H1. split; [exact H1|]. split; [reflexivity|]. intros be [].
  - change (iv_ok ((b, e) :: (b', e') :: r)) with ((b <? e) && (e <=? b') && iv_ok ((b', e') :: r)) in H.
    rewrite !andb_true_iff in H. destruct H as [[H1 H2] H3]. apply Z.ltb_lt in H1. apply Z.leb_le in H2.
    split; [exact H1|]. split; [exact H3|].
    destruct (IH b' e' H3) as [Hlt [_ Hlb]]. intros be [<-|Hbe]; cbn [fst]; [exact H2|].
    specialize (Hlb be Hbe). lia.
Qed.

Lemma net_cons_after b e r s t : b < e -> e <= s -> net ((b, e) :: r) s t = net r s t.
Proof. intros Hbe Hes. unfold net. rewrite busy_cons. lia. Qed.

Theorem adv_spec : forall B s d, iv_ok B = true -> 0 <= d -> AdvSpec B s d (adv B s d).
Proof.
  induction B as [|[b e] r IH]; intros s d Hok Hd.
  - cbn [adv]. unfold AdvSpec, net. rewrite busy_nil. split; [lia|]. split; [lia|]. split; [reflexivity|].
    intros t' H1 H2. left. rewrite busy_nil. lia.
  - destruct (iv_ok_cons b e r Hok) as [Hbe [Hr Hlb]]. cbn [adv].
    destruct (e <=? s) eqn:E1.
    + (* the interval is over *)
      apply Z.leb_le in E1. destruct (IH s d Hr Hd) as [A1 [A2 [A3 A4]]]. unfold AdvSpec.
      split; [exact A1|]. split; [rewrite net_cons_after; assumption|]. split.
      * rewrite interior_cons, A3. assert (E : (adv r s d <? e) = false) by (apply Z.ltb_ge; lia). rewrite E, andb_false_r. reflexivity.
      * intros t' H1 H2. destruct (A4 t' H1 H2) as [H|H]; [left; rewrite net_cons_after; assumption|right].
        rewrite interior_cons, H. apply orb_true_r.
    + apply Z.leb_gt in E1. destruct (b <? s) eqn:E2.
      * (* s strictly inside the interval: wait for its end *)
        apply Z.ltb_lt in E2. destruct (IH e d Hr Hd) as [A1 [A2 [A3 A4]]]. unfold AdvSpec.
        set (t := adv r e d) in *.
        assert (Hnet : forall t', e <= t' -> net ((b, e) :: r) s t' = net r e t').
        { intros t' Ht'. unfold net. rewrite busy_cons. rewrite (busy_from r e s e t' Hlb); [|lia|lia]. lia. }
        split; [lia|]. split; [rewrite Hnet; [exact A2|exact A1]|]. split.
        -- rewrite interior_cons, A3. assert (E : (t <? e) = false) by (apply Z.ltb_ge; lia). rewrite E, andb_false_r. reflexivity.
        -- intros t' H1 H2. destruct (Z_lt_ge_dec t' e) as [Hlt|Hge].
           ++ right. rewrite interior_cons. assert (Ea : (b <? t') = true) by (apply Z.ltb_lt; lia).
              assert (Eb : (t' <? e) = true) by (apply Z.ltb_lt; lia). rewrite Ea, Eb. reflexivity.
           ++ destruct (A4 t' ltac:(lia) H2) as [H|H]; [left; rewrite Hnet; [exact H|lia]|right].
              rewrite interior_cons, H. apply orb_true_r.
      * apply Z.ltb_ge in E2. destruct (s + d <=? b) eqn:E3.
        -- (* done before the interval begins *)
           apply Z.leb_le in E3. unfold AdvSpec.
           assert (Hb : forall t', t' <= b -> busy ((b, e) :: r) s t' = 0).
           { intros t' Ht'. rewrite busy_cons. rewrite (busy_before r e s t' Hlb); [|lia]. lia. }
           split; [lia|]. split; [unfold net; rewrite Hb; lia|]. split.
           ++ rewrite interior_cons. rewrite (interior_before r e (s + d) Hlb); [|lia].
              assert (E : (b <? s + d) = false) by (apply Z.ltb_ge; lia). rewrite E. reflexivity.
           ++ intros t' H1 H2. left. unfold net. rewrite Hb; lia.
        -- (* the interval interrupts *)
           apply Z.leb_gt in E3.
           destruct (IH e (d - (b - s)) Hr ltac:(lia)) as [A1 [A2 [A3 A4]]]. unfold AdvSpec.
           set (t := adv r e (d - (b - s))) in *.
           assert (Hnet : forall t', e <= t' -> net ((b, e) :: r) s t' = net r e t' + (b - s)).
           { intros t' Ht'. unfold net. rewrite busy_cons. rewrite (busy_from r e s e t' Hlb); [|lia|lia]. lia. }
           split; [lia|]. split; [rewrite Hnet; [lia|exact A1]|]. split.
           ++ rewrite interior_cons, A3. assert (E : (t <? e) = false) by (apply Z.ltb_ge; lia). rewrite E, andb_false_r. reflexivity.
           ++ intros t' H1 H2. destruct (Z_le_gt_dec t' b) as [Hle|Hgt].
              ** left. unfold net. rewrite busy_cons. rewrite (busy_before r e s t' Hlb); [|lia]. lia.
              ** destruct (Z_lt_ge_dec t' e) as [Hlt|Hge].
                 --- right. rewrite interior_cons. assert (Ea : (b <? t') = true) by (apply Z.ltb_lt; lia).
                     assert (Eb : (t' <? e) = true) by (apply Z.ltb_lt; lia). rewrite Ea, Eb. reflexivity.
                 --- destruct (A4 t' ltac:(lia) H2) as [H|H]; [left; rewrite Hnet; lia|right].
                     rewrite interior_cons, H. apply orb_true_r.
Qed.

Theorem adv_unique B s d t1 t2 : AdvSpec B s d t1 -> AdvSpec B s d t2 -> t1 = t2.
Proof.
  intros [A1 [A2 [A3 A4]]] [B1 [B2 [B3 B4]]].
  destruct (Z.lt_trichotomy t1 t2) as [H|[H|H]]; [|exact H|].
  - destruct (B4 t1 A1 H) as [H'|H']; [lia|congruence].
  - destruct (A4 t2 B1 H) as [H'|H']; [lia|congruence].
Qed.

Theorem adv_iff B s d t : iv_ok B = true -> 0 <= d -> (adv B s d = t <-> AdvSpec B s d t).
Proof.
  intros Hok Hd. split.
  - intros <-. apply adv_spec; assumption.
  - intros H. eapply adv_unique; [apply adv_spec; assumption|exact H].
Qed.

(* ================================================================== 2. required breaks: the rules *)
Lemma rbreaks_ok_iff X t : rbreaks_ok X t = true <-> RBreaksDefined X t.
Proof.
  unfold rbreaks_ok, RBreaksDefined. destruct (has_rb X t).
  - rewrite andb_true_iff, gassign_b_iff. split; [intros H _; exact H|intros H; apply H; reflexivity].
  - split; [intros _ H; discriminate|reflexivity].
Qed.

Lemma rbreak_viols_nil X S : rbreak_viols X S = [] <-> forall t, In t (sl_tours S) -> RBreaksDefined X t.
Proof.
  unfold rbreak_viols. rewrite mapi_nil_iff. split.
  - intros H t Ht. apply In_nth_error in Ht. destruct Ht as [n Hn]. specialize (H n t Hn). cbv beta in H.
    rewrite if_nil_iff in H. apply rbreaks_ok_iff. exact H.
  - intros H n t Hn. rewrite if_nil_iff. apply rbreaks_ok_iff. apply H. eapply nth_error_In. exact Hn.
Qed.

Lemma rb_missing_iff X t : rb_missing X t = false <-> RBreaksTaken X t.
Proof.
  unfold rb_missing, RBreaksTaken, rb_taken. cbv zeta. rewrite existsb_false_iff. split.
  - intros H b Hb Hd. specialize (H b Hb). rewrite Hd in H. cbn [andb] in H. apply negb_false_iff in H.
    apply existsb_exists in H. destruct H as [a [Ha Hf]]. exists a. auto.
  - intros H b Hb. destruct (rb_due _ _ b) eqn:Hd; [|reflexivity]. cbn [andb]. apply negb_false_iff.
    destruct (H b Hb Hd) as [a [Ha Hf]]. apply existsb_exists. exists a. auto.
Qed.

Lemma rb_missing_viols_nil X S : rb_missing_viols X S = [] <-> forall t, In t (sl_tours S) -> RBreaksTaken X t.
Proof.
  unfold rb_missing_viols. rewrite mapi_nil_iff. split.
  - intros H t Ht. apply In_nth_error in Ht. destruct Ht as [n Hn]. specialize (H n t Hn). cbv beta in H.
    rewrite ifn_nil_iff in H. apply rb_missing_iff. exact H.
  - intros H n t Hn. rewrite ifn_nil_iff. apply rb_missing_iff. apply H. eapply nth_error_In. exact Hn.
Qed.

Lemma reserved_from_nil_gen dur B k : forall l d0 dd i,
  reserved_from dur B k i (fa_loc d0) (fa_end d0) l = [] <->
  (forall l1 a b l2, (d0, dd) :: l = l1 ++ a :: b :: l2 ->
     dur (fa_loc (fst a)) (fa_loc (fst b)) <= net B (fa_end (fst a)) (fa_arr (fst b))
     /\ snd b <= net B (fa_start (fst b)) (fa_end (fst b))).
Proof.
  induction l as [|[x dx] r IH]; intros d0 dd i; cbn [reserved_from].
  - split; [|reflexivity]. intros _ l1 a b l2 H. destruct l1 as [|y [|y' l1]]; discriminate.
  - rewrite app_nil_iff, if_nil_iff, andb_true_iff, !Z.leb_le, (IH x dx (i + 1)). split.
    + intros [[H1 H1'] H2] l1 a b l2 Heq. destruct l1 as [|y l1]; cbn [app] in Heq.
      * injection Heq as <- <- _. cbn [fst snd]. split; assumption.
      * injection Heq as _ Heq. apply (H2 l1 a b l2). exact Heq.
    + intros H. split.
      * apply (H [] (d0, dd) (x, dx) r). reflexivity.
      * intros l1 a b l2 Heq. apply (H ((d0, dd) :: l1) a b l2). cbn [app]. rewrite Heq. reflexivity.
Qed.

Lemma reserved_from_nil dur B k l d0 i :
  reserved_from dur B k i (fa_loc d0) (fa_end d0) l = [] <-> ReservedRespected dur B d0 l.
Proof. apply reserved_from_nil_gen. Qed.

(* ================================================================== 2. required breaks: conservativity *)
(* without reserved intervals the clock is the ordinary one, and every function of this part is the Spec/Valid.v function *)
Lemma net_nil s t : net [] s t = t - s.
Proof. unfold net, busy. cbn [map sumz fold_right]. lia. Qed.

Lemma shrink_nil a : shrink [] a = a.
Proof. unfold shrink. rewrite net_nil. destruct a. cbn. f_equal. lia. Qed.

Lemma map_shrink_nil l : map (shrink []) l = l.
Proof. induction l as [|a r IH]; cbn [map]; [reflexivity|]. rewrite shrink_nil, IH. reflexivity. Qed.

Lemma match_all_fst P sh : forall l ms, match_all P sh l = Some ms -> map fst ms = l.
Proof.
  induction l as [|a r IH]; intros ms H; cbn [match_all] in H.
  - injection H as <-. reflexivity.
  - destruct (match_act P sh a) as [m|]; [|discriminate]. destruct (match_all P sh r) as [ms'|]; [|discriminate].
    injection H as <-. cbn [map fst]. rewrite (IH ms' eq_refl). reflexivity.
Qed.

Lemma combine_fst_snd {A B} (l : list (A * B)) : combine (map fst l) (map snd l) = l.
Proof. induction l as [|[a b] r IH]; cbn [map combine fst snd]; [reflexivity|]. rewrite IH. reflexivity. Qed.

Lemma rebuild_rb_nil P t : rebuild_rb P [] t = rebuild P t.
Proof.
  unfold rebuild_rb, rebuild. destruct (shift_of P t) as [[vt sh]|]; [|reflexivity].
  destruct (split_tour _ (flat_tour t)) as [[[d js] e]|]; [|reflexivity].
  rewrite map_shrink_nil. destruct (match_all P (abs_shift (fa_end d) sh) js) as [ms|] eqn:Hm; [|reflexivity].
  cbv zeta. rewrite <- (match_all_fst _ _ _ _ Hm), combine_fst_snd. reflexivity.
Qed.

Lemma sim_time_rb_nil dur : forall acts loc dep, sim_time_rb dur [] loc dep acts = sim_time dur loc dep acts.
Proof.
  induction acts as [|a r IH]; intros loc dep; cbn [sim_time_rb sim_time adv]; [reflexivity|]. cbv zeta.
  rewrite IH. replace (Z.max (dep + dur loc (a_loc a)) (a_tws a) + 0 =? Z.max (dep + dur loc (a_loc a)) (a_tws a)) with true
    by (symmetry; apply Z.eqb_eq; lia).
  rewrite andb_true_r. reflexivity.
Qed.

Lemma time_feasible_rb_nil dur t : time_feasible_rb dur [] t = time_feasible dur t.
Proof. destruct t as [|s r]; [reflexivity|]. apply sim_time_rb_nil. Qed.

Lemma replay_from_rb_nil dur : forall acts loc dep, replay_from_rb dur [] loc dep acts = replay_from dur loc dep acts.
Proof. induction acts as [|a r IH]; intros loc dep; cbn [replay_from_rb replay_from adv]; [reflexivity|]. cbv zeta. rewrite IH. reflexivity. Qed.

Lemma replay_rb_nil dur t : replay_rb dur [] t = replay dur t.
Proof. destruct t as [|s r]; [reflexivity|]. cbn [replay_rb replay]. rewrite replay_from_rb_nil. reflexivity. Qed.

Lemma replay_duration_rb_nil dur t : replay_duration_rb dur [] t = replay_duration dur t.
Proof. unfold replay_duration_rb, replay_duration. rewrite replay_rb_nil. reflexivity. Qed.

Lemma replay_waiting_rb_nil dur t : replay_waiting_rb dur [] t = replay_waiting dur t.
Proof.
  unfold replay_waiting_rb, replay_waiting. rewrite replay_rb_nil. f_equal. apply map_ext. intros ax. apply net_nil.
Qed.

Lemma feasible_viol_rb_nil P k t : feasible_viol_rb P [] k t = feasible_viol P k t.
Proof.
  unfold feasible_viol_rb, feasible_viol. rewrite rebuild_rb_nil. destruct (rebuild P t) as [r|]; [|reflexivity].
  cbv zeta. rewrite time_feasible_rb_nil, replay_duration_rb_nil. reflexivity.
Qed.

Lemma replay_stat_rb_nil P vt acts : replay_stat_rb P [] vt acts (snd (last (replay (pdur P) acts) (0, 0))) = replay_stat P vt acts.
Proof.
  unfold replay_stat_rb, replay_stat, replay_duration. cbv zeta. rewrite replay_waiting_rb_nil.
  unfold iv_total. cbn [map sumz fold_right]. rewrite Z.add_0_r. destruct acts; reflexivity.
Qed.

Lemma mapi_from_ext {A B} (f g : Z -> A -> B) l : (forall k x, f k x = g k x) -> forall k, mapi_from k f l = mapi_from k g l.
Proof. intros H. induction l as [|x r IH]; intros k; cbn [mapi_from]; [reflexivity|]. rewrite H, IH. reflexivity. Qed.
Lemma mapi_ext {A B} (f g : Z -> A -> B) l : (forall k x, f k x = g k x) -> mapi f l = mapi g l.
Proof. intros H. apply mapi_from_ext. exact H. Qed.

Lemma same_time_nil x y : same_time [] x y = (x =? y).
Proof.
  unfold same_time. rewrite net_nil. destruct (x =? y) eqn:E.
  - apply Z.eqb_eq in E. subst. apply Z.eqb_eq. lia.
  - apply Z.eqb_neq in E. apply Z.eqb_neq. lia.
Qed.

Lemma tour_over_nil x y : tour_over [] x y = y.
Proof. unfold tour_over. rewrite same_time_nil. destruct (x =? y) eqn:E; [apply Z.eqb_eq in E; exact E|reflexivity]. Qed.

Lemma act_checks_rb_nil k facts rep : act_checks_rb [] k facts rep = act_checks k facts rep.
Proof.
  unfold act_checks_rb, act_checks. f_equal. apply mapi_ext. intros i [f [arr dep]]. rewrite !same_time_nil. reflexivity.
Qed.

Lemma stop_checks_rb_nil k t facts rep loads cum : stop_checks_rb [] k t facts rep loads cum [] = stop_checks k t facts rep loads cum.
Proof.
  unfold stop_checks_rb, stop_checks. f_equal. apply mapi_ext. intros s st.
  replace (nth_z (@nil (option Z)) s None) with (@None Z) by (unfold nth_z; destruct (Z.to_nat s); reflexivity).
  destruct (last_index_of_stop s facts 0 None) as [i|]; [|reflexivity]. unfold later. rewrite same_time_nil. reflexivity.
Qed.

Lemma replay_tour_rb_nil P k t : replay_tour_rb P [] [] k t = replay_tour P k t.
Proof.
  unfold replay_tour_rb, replay_tour. rewrite rebuild_rb_nil. destruct (rebuild P t) as [r|]; [|reflexivity].
  cbv zeta. rewrite replay_rb_nil, act_checks_rb_nil, stop_checks_rb_nil, map_shrink_nil, combine_fst_snd, tour_over_nil, replay_stat_rb_nil. reflexivity.
Qed.

Lemma dim_tour_viol_rb_nil P k t d : dim_tour_viol_rb P [] k t d = dim_tour_viol P k t d.
Proof. unfold dim_tour_viol_rb, dim_tour_viol. rewrite rebuild_rb_nil. reflexivity. Qed.

Lemma order_viol_rb_nil P k t : order_viol_rb P [] k t = order_viol P k t.
Proof. unfold order_viol_rb, order_viol. rewrite rebuild_rb_nil. reflexivity. Qed.

(* a problem without required breaks *)
Lemma has_rb_X0 t : has_rb X0 t = false.
Proof. reflexivity. Qed.
Lemma strip_sol_X0 S : strip_sol X0 S = S.
Proof. unfold strip_sol, xstrip. cbn [has_rb rbreaks_of X0 xp_rbreaks find]. rewrite map_id. destruct S. reflexivity. Qed.

Lemma concat_mapi_nil {A B} (l : list A) : concat (mapi (fun (_ : Z) (_ : A) => @nil B) l) = [].
Proof. unfold mapi. generalize 0. induction l as [|x r IH]; intros k; cbn [mapi_from concat]; [reflexivity|]. apply IH. Qed.

Lemma rbreak_viols_X0 S : rbreak_viols X0 S = [].
Proof. exact (concat_mapi_nil (sl_tours S)). Qed.
Lemma rb_missing_viols_X0 S : rb_missing_viols X0 S = [].
Proof. exact (concat_mapi_nil (sl_tours S)). Qed.
Lemma reserved_X0 P S :
  concat (mapi (fun k t => if has_rb X0 t then reserved_viol P (xbreaks X0 t) k (xstrip X0 t) else []) (sl_tours S)) = [].
Proof. exact (concat_mapi_nil (sl_tours S)). Qed.

(* a document without clustered stops *)
Lemma nth_z_nil {A} (i : Z) (d : A) : nth_z [] i d = d.
Proof. unfold nth_z. destruct (Z.to_nat i); reflexivity. Qed.
Lemma xt_of_XS0 k : xt_of XS0 k = xt0.
Proof. unfold xt_of, XS0. cbn [xs_tours]. apply nth_z_nil. Qed.
Lemma is_cluster_tour_XS0 k : is_cluster_tour (xt_of XS0 k) = false.
Proof. rewrite xt_of_XS0. reflexivity. Qed.
Lemma member_viol_xt0 P X k t : member_viol P X xt0 k t = [].
Proof.
  unfold member_viol. apply flat_map_nil_iff. intros it Hit. unfold items_of, mapi in Hit.
  assert (H : forall l n, In it (mapi_from n (fun i a => (i, (a, nth_z (xt_commute xt0) i None))) l) -> snd (snd it) = None).
  { induction l as [|a r IH]; intros n Hin; cbn [mapi_from] in Hin; [contradiction|].
    destruct Hin as [<-|Hin]; [cbn [snd xt_commute xt0]; apply nth_z_nil|exact (IH _ Hin)]. }
  rewrite (H _ _ Hit). reflexivity.
Qed.
Lemma member_viols_XS0 P X S : member_viols P X XS0 S = [].
Proof.
  unfold member_viols. rewrite (mapi_ext _ (fun (_ : Z) (_ : stour) => @nil violation)); [apply concat_mapi_nil|].
  intros k t. rewrite xt_of_XS0. apply member_viol_xt0.
Qed.

Theorem accounted4_X0 P S : accounted4 X0 XS0 P S = accounted_b P S ++ mixed_viols P S.
Proof. unfold accounted4. rewrite strip_sol_X0, rbreak_viols_X0, member_viols_XS0, app_nil_r. reflexivity. Qed.

Theorem feasible4_X0 P S : feasible4 X0 XS0 P S = feasible_viols P S ++ xfeasible_viols P S.
Proof.
  unfold feasible4. rewrite rb_missing_viols_X0, reserved_X0.
  unfold feasible_viols, xfeasible_viols, dims_feasible_viols, order_viols. cbv zeta.
  rewrite strip_sol_X0.
  rewrite (mapi_ext (fun k t => if is_cluster_tour (xt_of XS0 k) then feasible_viol_cl P X0 (xt_of XS0 k) k t
                                else feasible_viol_rb P (xbreaks X0 t) k (xstrip X0 t)) (feasible_viol P));
    [|intros k t; rewrite is_cluster_tour_XS0; apply feasible_viol_rb_nil].
  rewrite (mapi_ext (fun k t => flat_map (fun d => fst (if is_cluster_tour (xt_of XS0 k) then dim_viol_cl P k t d
                                                        else dim_tour_viol_rb P (xbreaks X0 t) k (xstrip X0 t) d)) (seq 0 (xdims P)))
                    (fun k t => flat_map (fun d => fst (dim_tour_viol P k t d)) (seq 0 (xdims P))));
    [|intros k t; apply flat_map_ext; intros d; rewrite is_cluster_tour_XS0; apply (f_equal fst); apply dim_tour_viol_rb_nil].
  rewrite (mapi_ext (fun k t => if is_cluster_tour (xt_of XS0 k) then order_viol_cl P k t
                                else order_viol_rb P (xbreaks X0 t) k (xstrip X0 t)) (order_viol P));
    [|intros k t; rewrite is_cluster_tour_XS0; apply order_viol_rb_nil].
  rewrite !app_nil_r. reflexivity.
Qed.

Theorem replay4_X0 P S : replay4 X0 XS0 P S = replay_viol P S ++ xreplay_viols P S.
Proof.
  unfold replay4, replay_viol, xreplay_viols, dims_replay_viols.
  rewrite (mapi_ext (fun k t => if is_cluster_tour (xt_of XS0 k) then replay_tour_cl P X0 (xt_of XS0 k) k t
                                else replay_tour_rb P (xbreaks X0 t) (xbends X0 t) k (xstrip X0 t)) (replay_tour P));
    [|intros k t; rewrite is_cluster_tour_XS0; apply replay_tour_rb_nil].
  rewrite (mapi_ext (fun k t => flat_map (fun d => snd (if is_cluster_tour (xt_of XS0 k) then dim_viol_cl P k t d
                                                        else dim_tour_viol_rb P (xbreaks X0 t) k (xstrip X0 t) d)) (seq 0 (xdims P)))
                    (fun k t => flat_map (fun d => snd (dim_tour_viol P k t d)) (seq 0 (xdims P))));
    [|intros k t; apply flat_map_ext; intros d; rewrite is_cluster_tour_XS0; apply (f_equal snd); apply dim_tour_viol_rb_nil].
  change (xtotal_checks XS0) with (@nil violation). rewrite app_nil_r, app_assoc. reflexivity.
Qed.

Theorem valid4_X0 P S : valid4 X0 XS0 P S = precond_viol P ++ accounted_b P S ++ mixed_viols P S ++ feasible_viols P S ++ xfeasible_viols P S
                                          ++ replay_viol P S ++ xreplay_viols P S.
Proof. unfold valid4. rewrite accounted4_X0, feasible4_X0, replay4_X0, <- !app_assoc. reflexivity. Qed.
(* ---- non-vacuity: ex_P of ValidP.v, whose only shift now defines one required break *)
(* (a) at the exact time 12, 4 s: it interrupts the service of job 1 (10 .. 19 instead of 10 .. 15), back at the depot at 29 *)
Definition ex_Xq : xproblem := mkXProblem [(1, 0%nat, [mkRBreak 12 12 4 false])] None.
Definition ex_stat_q : sstat := mkSStat 85 20 29 20 5 0 4.
Definition ex_Sq : ssolution :=
  mkSSolution ex_stat_q
    [mkSTour 1 1 0 [mkSStop 0 0 0 1 0 [mkSAct (-1) 10 None None None];
                    mkSStop 1 10 19 0 10 [mkSAct 1 1 (Some 1) (Some (10, 19)) None; mkSAct BREAK_JOB 12 None (Some (12, 16)) None];
                    mkSStop 0 29 29 0 20 [mkSAct (-1) 11 None None None]] ex_stat_q []]
    [(2, 1%nat)].
(* (b) offset interval [4, 4] after the departure, 3 s: taken while driving to job 1 - a stop without location *)
Definition ex_Xt : xproblem := mkXProblem [(1, 0%nat, [mkRBreak 4 4 3 true])] None.
Definition ex_stat_t : sstat := mkSStat 83 20 28 20 5 0 3.
Definition ex_St : ssolution :=
  mkSSolution ex_stat_t
    [mkSTour 1 1 0 [mkSStop 0 0 0 1 0 [mkSAct (-1) 10 None None None];
                    mkSStop TRANSIT 4 7 1 (-1) [mkSAct BREAK_JOB 12 None None None];
                    mkSStop 1 13 18 0 10 [mkSAct 1 1 None None None];
                    mkSStop 0 28 28 0 20 [mkSAct (-1) 11 None None None]] ex_stat_t []]
    [(2, 1%nat)].

(* the same break is listed, but its time is not reserved: the vehicle reaches job 1 at 10 as if it had not stopped *)
Definition ex_stat_t2 : sstat := mkSStat 77 20 25 20 5 0 3.
Definition ex_St_bad : ssolution :=
  mkSSolution ex_stat_t2
    [mkSTour 1 1 0 [mkSStop 0 0 0 1 0 [mkSAct (-1) 10 None None None];
                    mkSStop TRANSIT 4 7 1 (-1) [mkSAct BREAK_JOB 12 None None None];
                    mkSStop 1 10 15 0 10 [mkSAct 1 1 None None None];
                    mkSStop 0 25 25 0 20 [mkSAct (-1) 11 None None None]] ex_stat_t2 []]
    [(2, 1%nat)].

Lemma ex_required_break :
  valid4 ex_Xq XS0 ex_P ex_Sq = [] /\ valid4 ex_Xt XS0 ex_P ex_St = []
  /\ In (FReservedTime 0 1) (feasible4 ex_Xt XS0 ex_P ex_St_bad)
  /\ feasible4 ex_Xq XS0 ex_P ex_S = [FRequiredBreakMissing 0]
  /\ accounted4 ex_Xt XS0 ex_P ex_Sq = [ARequiredBreak 0].
Proof.
  split; [vm_compute; reflexivity|]. split; [vm_compute; reflexivity|].
  split; [vm_compute; repeat (first [left; reflexivity | right])|]. split; vm_compute; reflexivity.
Qed.
Lemma ex_required_break_defined :
  RBreaksDefined ex_Xq (hd ex_tour (sl_tours ex_Sq)) /\ break_acts (hd ex_tour (sl_tours ex_Sq)) <> []
  /\ has_rb ex_Xq (hd ex_tour (sl_tours ex_Sq)) = true.
Proof. split; [apply rbreaks_ok_iff; vm_compute; reflexivity|]. split; [vm_compute; discriminate|reflexivity]. Qed.
Lemma ex_clock : adv [(12, 16)] 10 5 = 19 /\ adv [(4, 7)] 0 10 = 13 /\ adv [(12, 16)] 14 0 = 16 /\ adv [(12, 16)] 12 0 = 12
                 /\ net [(12, 16)] 10 19 = 5 /\ net [(12, 16)] 10 15 = 2.
Proof. repeat split; vm_compute; reflexivity. Qed.

(* ---- witnesses for the findings made with required breaks *)
(* finding C02-F3: the break of ex_St reported twice - as the stop without location and as an activity of the next stop *)
Definition ex_St_twice : ssolution :=
  mkSSolution ex_stat_t
    [mkSTour 1 1 0 [mkSStop 0 0 0 1 0 [mkSAct (-1) 10 None None None];
                    mkSStop TRANSIT 4 7 1 (-1) [mkSAct BREAK_JOB 12 None None None];
                    mkSStop 1 13 18 0 10 [mkSAct BREAK_JOB 12 None (Some (4, 7)) None; mkSAct 1 1 (Some 1) (Some (13, 18)) None];
                    mkSStop 0 28 28 0 20 [mkSAct (-1) 11 None None None]] ex_stat_t []]
    [(2, 1%nat)].
Lemma ex_required_break_twice : accounted4 ex_Xt XS0 ex_P ex_St_twice = [ARequiredBreak 0].
Proof. vm_compute. reflexivity. Qed.

(* finding C03-F4: job 1 may be served from 30 on; the vehicle arrives at 10 and waits; a required break at exactly 15, 5 s, is
   taken while it waits.  Split of the duration 45 = driving 20 + serving 5 + waiting 15 + break 5, cost 7 + 20 + 2 * 45 = 117 *)
Definition ex_Pw : pproblem :=
  mkPProblem [mkPJob 1 [mkPTask 1 [mkPPlace 1 5 [(30, 100)] None] 1] true [] [] [] None None [] []]
             (pr_fleet ex_P) 3 (pr_dur ex_P) (pr_dist ex_P) [].
Definition ex_Xw : xproblem := mkXProblem [(1, 0%nat, [mkRBreak 15 15 5 false])] None.
Definition ex_tour_w (st : sstat) : stour :=
  mkSTour 1 1 0 [mkSStop 0 0 0 1 0 [mkSAct (-1) 10 None None None];
                 mkSStop 1 10 35 0 10 [mkSAct BREAK_JOB 12 None (Some (15, 20)) None; mkSAct 1 1 (Some 1) (Some (30, 35)) None];
                 mkSStop 0 45 45 0 20 [mkSAct (-1) 11 None None None]] st [].
Definition ex_Sw : ssolution := mkSSolution (mkSStat 117 20 45 20 5 15 5) [ex_tour_w (mkSStat 117 20 45 20 5 15 5)] [].
(* what the writer reports: waiting = arrival-to-start (20, the break's 5 s once more), cost with those 5 s charged twice *)
Definition ex_Sw_twice : ssolution := mkSSolution (mkSStat 127 20 45 20 5 20 5) [ex_tour_w (mkSStat 127 20 45 20 5 20 5)] [].
Lemma ex_required_break_waiting :
  valid4 ex_Xw XS0 ex_Pw ex_Sw = [] /\ valid4 ex_Xw XS0 ex_Pw ex_Sw_twice = [RStatWaiting 0; RStatCost 0]
  /\ 20 + 5 + 20 + 5 <> 45.
Proof. split; [vm_compute; reflexivity|]. split; [vm_compute; reflexivity|discriminate]. Qed.


(* ================================================================== 3. vicinity clustering *)
Lemma member_viol_nil P X xt k t : member_viol P X xt k t = [] <-> ClusterMembersOk P X xt t.
Proof.
  unfold member_viol, ClusterMembersOk. rewrite flat_map_nil_iff. split.
  - intros H it Hit Hc. specialize (H it Hit). destruct (snd (snd it)) as [c|]; [|congruence]. cbn [some_b andb] in H.
    destruct (clusterable P (xp_cluster X) (fst (snd it))); [reflexivity|discriminate].
  - intros H it Hit. destruct (snd (snd it)) as [c|] eqn:E; [|reflexivity]. cbn [some_b andb].
    rewrite (H it Hit); [reflexivity|]. rewrite E. discriminate.
Qed.

Lemma member_viols_nil P X XS S :
  member_viols P X XS S = [] <-> forall n t, nth_error (sl_tours S) n = Some t -> ClusterMembersOk P X (xt_of XS (Z.of_nat n)) t.
Proof.
  unfold member_viols. rewrite mapi_nil_iff. split.
  - intros H n t Hn. apply (member_viol_nil P X _ (Z.of_nat n)). apply H. exact Hn.
  - intros H n t Hn. apply member_viol_nil. apply H. exact Hn.
Qed.

Lemma window_viol_nil k r : window_viol k r = [] <-> WindowsKept r.
Proof.
  unfold window_viol, WindowsKept. rewrite mapi_nil_iff. split.
  - intros H am Hin Hk. apply In_nth_error in Hin. destruct Hin as [n Hn]. specialize (H n am Hn). cbv beta in H.
    rewrite Hk in H. cbn [andb] in H. destruct (window_ok (snd (snd am)) (fst am)); [reflexivity|discriminate].
  - intros H n am Hn. destruct (is_job_kind (fa_kind (fst am))) eqn:Hk; [|reflexivity]. cbn [andb].
    rewrite (H am (nth_error_In _ _ Hn) Hk). reflexivity.
Qed.

Lemma threshold_viol_nil P X c xt k t : xp_cluster X = Some c ->
  (threshold_viol P X xt k t = [] <-> WithinThreshold P c xt t).
Proof.
  intros Hc. unfold threshold_viol, WithinThreshold. rewrite Hc, flat_map_nil_iff. split.
  - intros H it Hit Hs. cbv zeta. intros Hloc. specialize (H it Hit). cbv zeta in H.
    destruct (snd (snd it)) as [cm|]; [|congruence]. cbn [some_b andb] in H.
    apply Z.eqb_neq in Hloc. rewrite Hloc in H. cbn [negb andb] in H.
    destruct (near P c _ (fa_loc (fst (snd it)))); [reflexivity|discriminate].
  - intros H it Hit. cbv zeta. destruct (snd (snd it)) as [cm|] eqn:E; [|reflexivity]. cbn [some_b andb].
    destruct (fa_loc (fst (snd it)) =? _) eqn:Hloc; [reflexivity|]. cbn [negb andb].
    assert (Hs : snd (snd it) <> None) by (rewrite E; discriminate).
    specialize (H it Hit Hs). cbv zeta in H. apply Z.eqb_neq in Hloc. rewrite (H Hloc). reflexivity.
Qed.

Lemma outer_from_nil P k : forall stops a s,
  outer_from P k s (ss_loc a) (ss_dep a) (ss_dist a) stops = [] <->
  (forall l1 x y l2, a :: stops = l1 ++ x :: y :: l2 ->
     ss_arr y = ss_dep x + pdur P (ss_loc x) (ss_loc y) /\ ss_dist y = ss_dist x + pdist P (ss_loc x) (ss_loc y)).
Proof.
  induction stops as [|b r IH]; intros a s; cbn [outer_from].
  - split; [|reflexivity]. intros _ l1 x y l2 H. destruct l1 as [|z [|z' l1]]; discriminate.
  - rewrite !app_nil_iff, !if_nil_iff, !Z.eqb_eq, (IH b (s + 1)). split.
    + intros [H1 [H2 H3]] l1 x y l2 Heq. destruct l1 as [|z l1]; cbn [app] in Heq.
      * injection Heq as <- <- _. split; assumption.
      * injection Heq as _ Heq. apply (H3 l1 x y l2). exact Heq.
    + intros H. destruct (H [] a b r eq_refl) as [G1 G2]. split; [exact G1|]. split; [exact G2|].
      intros l1 x y l2 Heq. apply (H (a :: l1) x y l2). cbn [app]. rewrite Heq. reflexivity.
Qed.

Lemma outer_viol_nil P k t : outer_viol P k t = [] <-> LegsReplayed P t.
Proof.
  unfold outer_viol, LegsReplayed. destruct (to_stops t) as [|a r].
  - split; [|reflexivity]. intros _. split; [intros st r0 H; discriminate|intros l1 x y l2 H; destruct l1; discriminate].
  - rewrite app_nil_iff, if_nil_iff, Z.eqb_eq, outer_from_nil. split.
    + intros [H1 H2]. split; [intros st r0 Heq; injection Heq as <- _; exact H1|exact H2].
    + intros [H1 H2]. split; [apply (H1 a r eq_refl)|exact H2].
Qed.

(* ---- non-vacuity: three locations on a line, 10 apart (ex_P's matrix and vehicle); job 1 = delivery at location 1, job 3 = delivery
        at location 2; clustering: visiting continue, parking 2, thresholds 10 / 10.  One clustered stop at location 1: parking
        10 .. 12, job 1 12 .. 17, commute to location 2 17 .. 27, job 3 27 .. 32, commute back 32 .. 42, depot at 52 *)
Definition ex_Pc : pproblem :=
  mkPProblem [mkPJob 1 [mkPTask 1 [mkPPlace 1 5 [(NEGT, INF)] None] 1] true [] [] [] None None [] [];
              mkPJob 3 [mkPTask 1 [mkPPlace 2 5 [(NEGT, INF)] None] 1] true [] [] [] None None [] []]
             (pr_fleet ex_P) 3 (pr_dur ex_P) (pr_dist ex_P) [].
Definition ex_Xc : xproblem := mkXProblem [] (Some (mkCCfg false 2 10 10 [])).
Definition ex_stat_c : sstat := mkSStat 131 20 52 20 10 0 0.
Definition ex_Sc : ssolution :=
  mkSSolution ex_stat_c
    [mkSTour 1 1 0 [mkSStop 0 0 0 2 0 [mkSAct (-1) 10 None None None];
                    mkSStop 1 10 42 0 10 [mkSAct 1 1 (Some 1) (Some (12, 17)) None; mkSAct 3 1 (Some 2) (Some (27, 32)) None];
                    mkSStop 0 52 52 0 20 [mkSAct (-1) 11 None None None]] ex_stat_c []]
    [].
Definition ex_XSc : xsolution :=
  mkXSolution [mkXTour [None; Some (10, 12); None]
                       [None; Some (None, None); Some (Some (mkCommute 1 10 17 27), Some (mkCommute 1 10 32 42)); None] 20 2] 20 2.
(* job 3, a member of the cluster, is missing from the document (swallowed by the cluster) *)
Definition ex_Sc_lost : ssolution :=
  mkSSolution ex_stat_c
    [mkSTour 1 1 0 [mkSStop 0 0 0 2 0 [mkSAct (-1) 10 None None None];
                    mkSStop 1 10 42 0 10 [mkSAct 1 1 (Some 1) (Some (12, 17)) None];
                    mkSStop 0 52 52 0 20 [mkSAct (-1) 11 None None None]] ex_stat_c []]
    [].
Definition ex_XSc_lost : xsolution := mkXSolution [mkXTour [None; Some (10, 12); None] [None; Some (None, None); None] 20 2] 20 2.
(* the forward commute of job 3 claims to start at the depot *)
Definition ex_XSc_bad : xsolution :=
  mkXSolution [mkXTour [None; Some (10, 12); None]
                       [None; Some (None, None); Some (Some (mkCommute 0 10 17 27), Some (mkCommute 1 10 32 42)); None] 20 2] 20 2.
(* job 3 is excluded from clustering by the plan *)
Definition ex_Xc_excl : xproblem := mkXProblem [] (Some (mkCCfg false 2 10 10 [3])).

Lemma ex_cluster :
  valid4 ex_Xc ex_XSc ex_Pc ex_Sc = []
  /\ accounted4 ex_Xc ex_XSc_lost ex_Pc ex_Sc_lost = [AJobLost 3]
  /\ replay4 ex_Xc ex_XSc_bad ex_Pc ex_Sc = [RCommute 0 2]
  /\ accounted4 ex_Xc_excl ex_XSc ex_Pc ex_Sc = [AClusterMember 0 2]
  /\ is_cluster_tour (xt_of ex_XSc 0) = true.
Proof. repeat split; vm_compute; reflexivity. Qed.
