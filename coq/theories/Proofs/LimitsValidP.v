(* C01: the limits / skills part of the step-level notion Spec/FeasibleX.v is what the end-to-end checker Spec/Valid.v evaluates
   on returned documents (feasible_viol: FMaxDistance / FMaxDuration / FTourSize / FSkills), so that the step theorems of
   Properties/C01.v and the judgement of whole solver outputs speak about the same quantities. *)
From VRP Require Import Base.Tac Model.Core Spec.Feasible Spec.FeasibleX Spec.Valid.

Lemma legs_sum_legs_from : forall m r loc, legs_sum m loc r = legs_from m loc r.
Proof. induction r as [|a r IH]; intros loc; cbn; [reflexivity|]. rewrite IH. reflexivity. Qed.

Lemma tour_legs_is_tour_distance : forall m t, tour_legs m t = tour_distance m t.
Proof. intros m [|s r]; [reflexivity|]. apply legs_sum_legs_from. Qed.

Lemma replay_from_finish : forall dur r loc dep d0,
  snd (last (replay_from dur loc dep r) d0) = match r with [] => snd d0 | _ => sim_finish dur loc dep r end.
Proof.
  induction r as [|a r IH]; intros loc dep d0; [reflexivity|].
  cbn [replay_from FeasibleX.sim_finish].
  set (arr := dep + dur loc (a_loc a)). set (d := Z.max arr (a_tws a) + a_svc a).
  destruct r as [|b r'].
  - reflexivity.
  - change (last ((arr, d) :: replay_from dur (a_loc a) d (b :: r')) d0) with (last (replay_from dur (a_loc a) d (b :: r')) d0).
    rewrite (IH (a_loc a) d d0). reflexivity.
Qed.

Lemma replay_duration_is_tour_duration : forall dur t, replay_duration dur t = tour_duration dur t.
Proof.
  intros dur [|s r]; [reflexivity|]. unfold replay_duration, tour_duration, replay.
  destruct r as [|a r'].
  - reflexivity.
  - change (last ((a_arr s, a_dep s) :: replay_from dur (a_loc s) (a_dep s) (a :: r')) (0, 0))
      with (last (replay_from dur (a_loc s) (a_dep s) (a :: r')) (0, 0)).
    rewrite replay_from_finish. reflexivity.
Qed.

Lemma skills_ok_is_skills_sat_b : forall vt job,
  skills_ok vt job = skills_sat_b (vt_skills vt) (mkReq (pj_skills job) (pj_one job) (pj_none job)).
Proof. reflexivity. Qed.

Lemma le_opt_is_le_lim : forall x lim, le_opt x lim = le_lim x lim.
Proof. reflexivity. Qed.
