(* C09 — IEEE-754 binary64 addition and subtraction (Coq.Floats.SpecFloat, the f64 model of Model/InsCost.v) are EXACT on
   integer-valued doubles while the result stays below 2^53; hence InsertionCost + / - on such vectors refine the Z model of
   Model/CostOrder.v and are inverse to each other (bit for bit; up to the sign of zero when -0.0 occurs among the components).
   Pure Z / positive reasoning about SpecFloat's rounding functions: no real numbers, no axioms. *)
From Coq Require Import SpecFloat Zpower.
From VRP Require Import Base.Tac Base.TotalCmp Model.CostOrder Model.InsCost Proofs.CostOrderP Proofs.InsCostP.

(* ---------- iter_pos, shifts ---------- *)
Lemma iter_pos_iter {A} (f : A -> A) n : forall x, SpecFloat.iter_pos f n x = Pos.iter f x n.
Proof.
  induction n as [n IH|n IH|]; intros x; cbn [SpecFloat.iter_pos Pos.iter]; rewrite ?IH; try reflexivity.
  rewrite Pos.iter_swap, Pos.iter_swap. reflexivity.
Qed.

Definition rec0 (m : Z) : shr_record := {| shr_m := m; shr_r := false; shr_s := false |}.

Lemma shr_1_even p : shr_1 (rec0 (Zpos (xO p))) = rec0 (Zpos p).
Proof. reflexivity. Qed.

Lemma iter_shr_shift n : forall m, Pos.iter shr_1 (rec0 (Zpos (shift_pos n m))) n = rec0 (Zpos m).
Proof.
  unfold shift_pos. induction n as [|n IH] using Pos.peano_ind; intros m.
  - reflexivity.
  - rewrite (Pos.iter_succ n _ xO). rewrite Pos.iter_succ. rewrite <- Pos.iter_swap. rewrite shr_1_even. apply IH.
Qed.

Lemma zpos_shift n m : Zpos (shift_pos n m) = Zpos m * 2 ^ Zpos n.
Proof. rewrite shift_pos_correct, Z.pow_pos_fold. lia. Qed.

Lemma iter_shr_exact n q m : Zpos q = Zpos m * 2 ^ Zpos n -> SpecFloat.iter_pos shr_1 n (rec0 (Zpos q)) = rec0 (Zpos m).
Proof.
  intros H. rewrite iter_pos_iter. rewrite <- zpos_shift in H. injection H as ->. apply iter_shr_shift.
Qed.

(* ---------- digits ---------- *)
Lemma digits2_bounds p : 2 ^ (Zpos (digits2_pos p) - 1) <= Zpos p < 2 ^ Zpos (digits2_pos p).
Proof.
  induction p as [p IH|p IH|]; cbn [digits2_pos]; [| |cbn; lia].
  - rewrite Pos2Z.inj_succ. replace (Z.succ (Zpos (digits2_pos p)) - 1) with (Z.succ (Zpos (digits2_pos p) - 1)) by lia.
    rewrite !Z.pow_succ_r by lia. lia.
  - rewrite Pos2Z.inj_succ. replace (Z.succ (Zpos (digits2_pos p)) - 1) with (Z.succ (Zpos (digits2_pos p) - 1)) by lia.
    rewrite !Z.pow_succ_r by lia. lia.
Qed.

Lemma digits2_unique p d : 0 < d -> 2 ^ (d - 1) <= Zpos p < 2 ^ d -> Zpos (digits2_pos p) = d.
Proof.
  intros Hd [H1 H2]. pose proof (digits2_bounds p) as [B1 B2].
  destruct (Z.lt_trichotomy (Zpos (digits2_pos p)) d) as [L|[E|G]]; [|exact E|].
  - exfalso. assert (2 ^ Zpos (digits2_pos p) <= 2 ^ (d - 1)) by (apply Z.pow_le_mono_r; lia). lia.
  - exfalso. assert (2 ^ d <= 2 ^ (Zpos (digits2_pos p) - 1)) by (apply Z.pow_le_mono_r; lia). lia.
Qed.

Lemma digits2_shift n m : Zpos (digits2_pos (shift_pos n m)) = Zpos (digits2_pos m) + Zpos n.
Proof.
  apply digits2_unique; [lia|]. rewrite zpos_shift. pose proof (digits2_bounds m) as [B1 B2].
  replace (Zpos (digits2_pos m) + Zpos n - 1) with ((Zpos (digits2_pos m) - 1) + Zpos n) by lia.
  rewrite !Z.pow_add_r by lia. assert (0 < 2 ^ Zpos n) by (apply Z.pow_pos_nonneg; lia). nia.
Qed.


Definition dg (p : positive) : Z := Zpos (digits2_pos p).
Definition cm (p : positive) : positive := if dg p <? 53 then shift_pos (Z.to_pos (53 - dg p)) p else p.
Definition ce (p : positive) : Z := dg p - 53.

Lemma dg_pos p : 1 <= dg p.
Proof. unfold dg. lia. Qed.

Lemma cm_value p : dg p <= 53 -> Zpos (cm p) = Zpos p * 2 ^ (53 - dg p).
Proof.
  intros H. unfold cm. destruct (dg p <? 53) eqn:E.
  - rewrite zpos_shift. rewrite Z2Pos.id by lia. reflexivity.
  - replace (53 - dg p) with 0 by lia. lia.
Qed.

Lemma cm_digits p : dg p <= 53 -> dg (cm p) = 53.
Proof.
  intros H. unfold cm. destruct (dg p <? 53) eqn:E.
  - unfold dg at 1. rewrite digits2_shift. fold (dg p). rewrite Z2Pos.id by lia. lia.
  - lia.
Qed.

Lemma pos_eq_of_Z (a b : positive) : Zpos a = Zpos b -> a = b.
Proof. intros H; injection H; auto. Qed.

Lemma dg_shift q m n : Zpos q = Zpos m * 2 ^ Zpos n -> dg q = dg m + Zpos n.
Proof. intros H. rewrite <- zpos_shift in H. apply pos_eq_of_Z in H. subst q. apply digits2_shift. Qed.

Lemma shr_fexp_canon m e : dg m = 53 -> -1074 <= e -> shr_fexp 53 1024 (Zpos m) e loc_Exact = (rec0 (Zpos m), e).
Proof.
  intros H He. unfold shr_fexp. cbn [Zdigits2]. fold (dg m). rewrite H.
  replace (fexp 53 1024 (53 + e) - e) with 0 by (unfold fexp, emin; lia). reflexivity.
Qed.

Lemma bra_canon s m e : dg m = 53 -> -1074 <= e <= 971 -> binary_round_aux 53 1024 s (Zpos m) e loc_Exact = S754_finite s m e.
Proof.
  intros H He. unfold binary_round_aux. rewrite shr_fexp_canon by lia.
  cbn [rec0 shr_m loc_of_shr_record round_nearest_even]. rewrite shr_fexp_canon by lia. cbn [rec0 shr_m].
  destruct (Zle_bool e (1024 - 53)) eqn:E; [reflexivity|]. apply Z.leb_gt in E. lia.
Qed.

Lemma bra_shift s q e n m : Zpos q = Zpos m * 2 ^ Zpos n -> dg m = 53 -> -1074 <= e + Zpos n <= 971 ->
  binary_round_aux 53 1024 s (Zpos q) e loc_Exact = S754_finite s m (e + Zpos n).
Proof.
  intros Hq Hm He. unfold binary_round_aux.
  assert (S1 : shr_fexp 53 1024 (Zpos q) e loc_Exact = (rec0 (Zpos m), e + Zpos n)).
  { unfold shr_fexp. cbn [Zdigits2]. fold (dg q). rewrite (dg_shift q m n Hq), Hm.
    replace (fexp 53 1024 (53 + Zpos n + e) - e) with (Zpos n) by (unfold fexp, emin; lia).
    cbn [shr shr_record_of_loc]. fold (rec0 (Zpos q)). rewrite (iter_shr_exact n q m Hq). reflexivity. }
  rewrite S1. cbn [rec0 shr_m loc_of_shr_record round_nearest_even]. rewrite shr_fexp_canon by lia. cbn [rec0 shr_m].
  destruct (Zle_bool (e + Zpos n) (1024 - 53)) eqn:E; [reflexivity|]. apply Z.leb_gt in E. lia.
Qed.

(* rounding a positive mantissa q = p * 2^K at exponent -K (i.e. the integer p) is exact when p has at most 53 bits *)
Lemma binary_round_exact s q K p : 0 <= K <= 1000 -> Zpos q = Zpos p * 2 ^ K -> dg p <= 53 ->
  binary_round 53 1024 s q (- K) = S754_finite s (cm p) (ce p).
Proof.
  intros HK Hq Hp. pose proof (dg_pos p) as Hd.
  assert (Dq : dg q = dg p + K).
  { destruct (Z.eq_dec K 0) as [->|NK].
    - rewrite Z.pow_0_r, Z.mul_1_r in Hq. apply pos_eq_of_Z in Hq. subst. lia.
    - destruct K as [|k|k]; try lia. apply (dg_shift q p k Hq). }
  unfold binary_round. fold (dg q). rewrite Dq.
  replace (fexp 53 1024 (dg p + K + - K)) with (dg p - 53) by (unfold fexp, emin; lia).
  unfold shl_align. replace (dg p - 53 - - K) with (dg p - 53 + K) by lia.
  pose proof (cm_value p Hp) as Vc. pose proof (cm_digits p Hp) as Dc.
  destruct (dg p - 53 + K) as [|d|d] eqn:E.
  - (* exactly canonical *)
    assert (q = cm p).
    { apply pos_eq_of_Z. rewrite Vc, Hq. f_equal. f_equal. lia. }
    subst q. replace (- K) with (ce p) by (unfold ce; lia). apply bra_canon; [exact Dc|unfold ce; lia].
  - (* too many bits: shift right by d *)
    assert (Hq2 : Zpos q = Zpos (cm p) * 2 ^ Zpos d).
    { rewrite Vc, Hq, <- Z.mul_assoc, <- Z.pow_add_r by lia. f_equal. f_equal. lia. }
    rewrite (bra_shift s q (- K) d (cm p) Hq2 Dc) by (unfold ce in *; lia). f_equal. unfold ce. lia.
  - (* too few bits: shift left by d *)
    assert (shift_pos d q = cm p).
    { apply pos_eq_of_Z. rewrite zpos_shift, Vc, Hq, <- Z.mul_assoc, <- Z.pow_add_r by lia. f_equal. f_equal. lia. }
    rewrite H. apply bra_canon; [exact Dc|unfold ce; lia].
Qed.


Definition two53 : Z := 9007199254740992.

Lemma dg_le53 p : Zpos p < two53 -> dg p <= 53.
Proof.
  intros H. pose proof (digits2_bounds p) as [B1 _]. fold (dg p) in B1.
  destruct (Z_le_gt_dec (dg p) 53) as [L|G]; [exact L|exfalso].
  assert (2 ^ 53 <= 2 ^ (dg p - 1)) by (apply Z.pow_le_mono_r; lia). change (2 ^ 53) with two53 in H0. lia.
Qed.

(* the spec_float of an integer value *)
Definition sfi (v : Z) : spec_float :=
  match v with
  | Z0 => S754_zero false
  | Zpos p => S754_finite false (cm p) (ce p)
  | Zneg p => S754_finite true (cm p) (ce p)
  end.

Lemma normalize_int v : Z.abs v < two53 -> binary_normalize 53 1024 v 0 false = sfi v.
Proof.
  intros H. destruct v as [|p|p]; cbn [binary_normalize sfi]; [reflexivity| |].
  - change 0 with (- 0) at 1. apply binary_round_exact; [lia|lia|apply dg_le53; lia].
  - change 0 with (- 0) at 1. apply binary_round_exact; [lia|lia|apply dg_le53; lia].
Qed.

Lemma f64_of_int_sf v : Z.abs v < two53 -> f64_of_int v = bits_of_sf (sfi v).
Proof.
  intros H. destruct v as [|p|p]; [reflexivity| |]; unfold f64_of_int; rewrite normalize_int by exact H; reflexivity.
Qed.

(* decoding an encoded canonical finite float gives it back *)
Lemma dg53_bounds m : dg m = 53 -> two52 <= Zpos m < two53.
Proof. intros H. pose proof (digits2_bounds m) as B. fold (dg m) in B. rewrite H in B. exact B. Qed.

Lemma sf_roundtrip_finite s m e : dg m = 53 -> -1074 <= e <= 971 ->
  sf_of_bits (bits_of_sf (S754_finite s m e)) = S754_finite s m e.
Proof.
  intros Hm He. pose proof (dg53_bounds m Hm) as [M1 M2]. unfold two53 in M2.
  cbn [bits_of_sf]. assert (Hlt : (Zpos m <? two52) = false) by lia. rewrite Hlt.
  set (r := (e + 1075) * two52 + (Zpos m - two52)).
  assert (Hr : 0 <= r < two63) by (unfold r, two52, two63 in *; lia).
  assert (Hdiv : r / two52 = e + 1075).
  { unfold r. rewrite Z.div_add_l by (unfold two52; lia). rewrite Z.div_small by (unfold two52 in *; lia). lia. }
  assert (Hmod : r mod two52 = Zpos m - two52).
  { unfold r. rewrite Z.add_comm, Z.mod_add by (unfold two52; lia). apply Z.mod_small. unfold two52 in *; lia. }
  unfold sf_of_bits.
  assert (Hs : (two63 <=? (if s then two63 else 0) + (e + 1075) * two52 + (Zpos m - two52)) = s).
  { destruct s; fold r; [apply Z.leb_le|apply Z.leb_gt]; unfold two63 in *; lia. }
  replace ((if s then two63 else 0) + (e + 1075) * two52 + (Zpos m - two52)) with ((if s then two63 else 0) + r) in * by (unfold r; lia).
  rewrite Hs.
  replace (if s then (if s then two63 else 0) + r - two63 else (if s then two63 else 0) + r) with r by (destruct s; lia).
  rewrite shiftr52, land52 by lia. rewrite Hdiv, Hmod.
  assert (E1 : (e + 1075 =? 2047) = false) by lia. assert (E2 : (e + 1075 =? 0) = false) by lia. rewrite E1, E2.
  replace (Zpos m - two52 + two52) with (Zpos m) by lia. cbn [Z.to_pos]. f_equal. lia.
Qed.

Lemma sfi_roundtrip v : Z.abs v < two53 -> sf_of_bits (bits_of_sf (sfi v)) = sfi v.
Proof.
  intros H. destruct v as [|p|p]; cbn [sfi]; [reflexivity| |];
    (apply sf_roundtrip_finite; [apply cm_digits, dg_le53; lia|
     assert (dg p <= 53) by (apply dg_le53; lia); pose proof (dg_pos p); unfold ce; lia]).
Qed.

Lemma sf_of_int v : Z.abs v < two53 -> sf_of_bits (f64_of_int v) = sfi v.
Proof. intros H. rewrite f64_of_int_sf by exact H. apply sfi_roundtrip, H. Qed.

(* ---------- addition / subtraction of two canonical finite operands ---------- *)
Lemma align_value m e ez : ez <= e -> Zpos (fst (shl_align m e ez)) = Zpos m * 2 ^ (e - ez).
Proof.
  intros H. unfold shl_align. destruct (ez - e) as [|d|d] eqn:E; cbn [fst].
  - replace (e - ez) with 0 by lia. lia.
  - lia.
  - rewrite zpos_shift. f_equal. f_equal. lia.
Qed.

Lemma canon_aligned p ez : dg p <= 53 -> ez <= ce p -> ez <= 0 ->
  Zpos (fst (shl_align (cm p) (ce p) ez)) = Zpos p * 2 ^ (- ez).
Proof.
  intros Hp H1 H2. rewrite align_value by exact H1. rewrite cm_value by exact Hp.
  pose proof (dg_pos p). unfold ce in *. rewrite <- Z.mul_assoc, <- Z.pow_add_r by lia. f_equal. f_equal. lia.
Qed.

Lemma normalize_scaled v K : 0 <= K <= 1000 -> Z.abs v < two53 -> binary_normalize 53 1024 (v * 2 ^ K) (- K) false = sfi v.
Proof.
  intros HK Hv. assert (P : 0 < 2 ^ K) by (apply Z.pow_pos_nonneg; lia).
  destruct v as [|p|p]; cbn [sfi].
  - reflexivity.
  - destruct (Zpos p * 2 ^ K) as [|q|q] eqn:E; try lia. cbn [binary_normalize].
    apply binary_round_exact; [exact HK|exact (eq_sym E)|apply dg_le53; lia].
  - destruct (Zneg p * 2 ^ K) as [|q|q] eqn:E; try lia. cbn [binary_normalize].
    apply binary_round_exact; [exact HK| |apply dg_le53; lia]. lia.
Qed.

Definition sv (s : bool) (p : positive) : Z := cond_Zopp s (Zpos p).

Lemma sfi_sv s p : sfi (sv s p) = S754_finite s (cm p) (ce p).
Proof. destruct s; reflexivity. Qed.

Lemma sfadd_ff s1 p1 s2 p2 : Zpos p1 < two53 -> Zpos p2 < two53 -> Z.abs (sv s1 p1 + sv s2 p2) < two53 ->
  SFadd 53 1024 (S754_finite s1 (cm p1) (ce p1)) (S754_finite s2 (cm p2) (ce p2)) = sfi (sv s1 p1 + sv s2 p2).
Proof.
  intros H1 H2 H3. pose proof (dg_le53 p1 H1) as D1. pose proof (dg_le53 p2 H2) as D2.
  pose proof (dg_pos p1). pose proof (dg_pos p2).
  cbn [SFadd]. set (ez := Z.min (ce p1) (ce p2)).
  assert (Hez : -52 <= ez <= 0) by (unfold ez, ce; lia).
  rewrite (canon_aligned p1 ez) by (unfold ez; lia). rewrite (canon_aligned p2 ez) by (unfold ez; lia).
  replace (cond_Zopp s1 (Zpos p1 * 2 ^ (- ez)) + cond_Zopp s2 (Zpos p2 * 2 ^ (- ez))) with ((sv s1 p1 + sv s2 p2) * 2 ^ (- ez))
    by (unfold sv; destruct s1, s2; cbn [cond_Zopp]; lia).
  replace ez with (- (- ez)) at 2 by lia. apply normalize_scaled; [lia|exact H3].
Qed.

Lemma sfsub_ff s1 p1 s2 p2 : Zpos p1 < two53 -> Zpos p2 < two53 -> Z.abs (sv s1 p1 - sv s2 p2) < two53 ->
  SFsub 53 1024 (S754_finite s1 (cm p1) (ce p1)) (S754_finite s2 (cm p2) (ce p2)) = sfi (sv s1 p1 - sv s2 p2).
Proof.
  intros H1 H2 H3. pose proof (dg_le53 p1 H1) as D1. pose proof (dg_le53 p2 H2) as D2.
  pose proof (dg_pos p1). pose proof (dg_pos p2).
  cbn [SFsub]. set (ez := Z.min (ce p1) (ce p2)).
  assert (Hez : -52 <= ez <= 0) by (unfold ez, ce; lia).
  rewrite (canon_aligned p1 ez) by (unfold ez; lia). rewrite (canon_aligned p2 ez) by (unfold ez; lia).
  replace (cond_Zopp s1 (Zpos p1 * 2 ^ (- ez)) - cond_Zopp s2 (Zpos p2 * 2 ^ (- ez))) with ((sv s1 p1 - sv s2 p2) * 2 ^ (- ez))
    by (unfold sv; destruct s1, s2; cbn [cond_Zopp]; lia).
  replace ez with (- (- ez)) at 2 by lia. apply normalize_scaled; [lia|exact H3].
Qed.

Lemma sv_of v : v <> 0 -> exists s p, v = sv s p.
Proof. destruct v as [|p|p]; [congruence|exists false, p; reflexivity|exists true, p; reflexivity]. Qed.

Lemma sfadd_int a b : Z.abs a < two53 -> Z.abs b < two53 -> Z.abs (a + b) < two53 -> SFadd 53 1024 (sfi a) (sfi b) = sfi (a + b).
Proof.
  intros Ha Hb Hab.
  destruct (Z.eq_dec a 0) as [->|Na]; [destruct b; reflexivity|].
  destruct (Z.eq_dec b 0) as [->|Nb]; [rewrite Z.add_0_r; destruct a; reflexivity|].
  destruct (sv_of a Na) as (s1 & p1 & ->). destruct (sv_of b Nb) as (s2 & p2 & ->).
  rewrite !sfi_sv. apply sfadd_ff; [destruct s1|destruct s2|]; cbn [sv cond_Zopp] in *; lia.
Qed.

Lemma sfsub_int a b : Z.abs a < two53 -> Z.abs b < two53 -> Z.abs (a - b) < two53 -> SFsub 53 1024 (sfi a) (sfi b) = sfi (a - b).
Proof.
  intros Ha Hb Hab.
  destruct (Z.eq_dec b 0) as [->|Nb]; [rewrite Z.sub_0_r; destruct a; reflexivity|].
  destruct (Z.eq_dec a 0) as [->|Na]; [destruct b; reflexivity|].
  destruct (sv_of a Na) as (s1 & p1 & ->). destruct (sv_of b Nb) as (s2 & p2 & ->).
  rewrite !sfi_sv. apply sfsub_ff; [destruct s1|destruct s2|]; cbn [sv cond_Zopp] in *; lia.
Qed.

(* IEEE-754 binary64 addition and subtraction are exact on integer-valued doubles as long as the result stays below 2^53 *)
Theorem f64_add_int a b : Z.abs a < two53 -> Z.abs b < two53 -> Z.abs (a + b) < two53 ->
  f64_add (f64_of_int a) (f64_of_int b) = f64_of_int (a + b).
Proof.
  intros Ha Hb Hab. unfold f64_add. rewrite !sf_of_int by assumption. rewrite sfadd_int by assumption.
  symmetry. apply f64_of_int_sf, Hab.
Qed.

Theorem f64_sub_int a b : Z.abs a < two53 -> Z.abs b < two53 -> Z.abs (a - b) < two53 ->
  f64_sub (f64_of_int a) (f64_of_int b) = f64_of_int (a - b).
Proof.
  intros Ha Hb Hab. unfold f64_sub. rewrite !sf_of_int by assumption. rewrite sfsub_int by assumption.
  symmetry. apply f64_of_int_sf, Hab.
Qed.


Notation enc := f64_of_int.

Lemma enc_0 : enc 0 = 0. Proof. reflexivity. Qed.

Lemma getd_map_enc xs j : getd (map enc xs) j = enc (getd xs j).
Proof.
  unfold getd. destruct (Nat.lt_ge_cases j (length xs)) as [H|H].
  - rewrite (nth_indep _ 0 (enc 0)) by (rewrite map_length; exact H). apply map_nth.
  - rewrite !nth_overflow by (rewrite ?map_length; exact H). reflexivity.
Qed.

Definition bnd (B v : Z) : Prop := Z.abs v < B.

Lemma getd_bnd B xs j : 0 < B -> Forall (bnd B) xs -> bnd B (getd xs j).
Proof.
  intros HB Hx. unfold getd. destruct (Nat.lt_ge_cases j (length xs)) as [H|H].
  - rewrite Forall_forall in Hx. apply Hx, nth_In, H.
  - rewrite nth_overflow by exact H. unfold bnd. lia.
Qed.

(* the f64 operators on encoded integer vectors compute the encoded integer result: they refine the Z model of Model/CostOrder.v *)
Lemma ic_add_refines B1 B2 xs ys : 0 < B1 -> 0 < B2 -> B1 + B2 <= two53 -> Forall (bnd B1) xs -> Forall (bnd B2) ys ->
  ic_add (map enc xs) (map enc ys) = map enc (icost_add xs ys).
Proof.
  intros P1 P2 HB Hx Hy. apply list_ext_getd.
  - unfold ic_add, icost_add. rewrite ic_zip_length, !map_length, zip_pad_length. reflexivity.
  - intros j Hj. unfold ic_add in *. rewrite ic_zip_length, !map_length in Hj.
    rewrite ic_zip_getd by (rewrite !map_length; exact Hj). rewrite !getd_map_enc.
    unfold icost_add. rewrite getd_zip_pad by reflexivity.
    pose proof (getd_bnd B1 xs j P1 Hx) as A. pose proof (getd_bnd B2 ys j P2 Hy) as B. unfold bnd in *.
    apply f64_add_int; lia.
Qed.

Lemma ic_sub_refines B1 B2 xs ys : 0 < B1 -> 0 < B2 -> B1 + B2 <= two53 -> Forall (bnd B1) xs -> Forall (bnd B2) ys ->
  ic_sub (map enc xs) (map enc ys) = map enc (icost_sub xs ys).
Proof.
  intros P1 P2 HB Hx Hy. apply list_ext_getd.
  - unfold ic_sub, icost_sub. rewrite ic_zip_length, !map_length, zip_pad_length. reflexivity.
  - intros j Hj. unfold ic_sub in *. rewrite ic_zip_length, !map_length in Hj.
    rewrite ic_zip_getd by (rewrite !map_length; exact Hj). rewrite !getd_map_enc.
    unfold icost_sub. rewrite getd_zip_pad by reflexivity.
    pose proof (getd_bnd B1 xs j P1 Hx) as A. pose proof (getd_bnd B2 ys j P2 Hy) as B. unfold bnd in *.
    apply f64_sub_int; lia.
Qed.

Lemma zip_pad_bnd f B1 B2 B xs ys : 0 < B1 -> 0 < B2 -> f 0 0 = 0 ->
  (forall a b, bnd B1 a -> bnd B2 b -> bnd B (f a b)) -> Forall (bnd B1) xs -> Forall (bnd B2) ys -> Forall (bnd B) (zip_pad f xs ys).
Proof.
  intros P1 P2 F0 Hf Hx Hy. apply Forall_forall. intros v Hv. apply In_nth with (d := 0) in Hv. destruct Hv as (j & Hj & <-).
  change (nth j (zip_pad f xs ys) 0) with (getd (zip_pad f xs ys) j). rewrite getd_zip_pad by exact F0.
  apply Hf; apply getd_bnd; assumption.
Qed.

(* on integer-valued cost vectors with components below 2^52, (x + y) - y and (x - y) + y are x: bit for bit after zero padding *)
Theorem ic_add_sub_int xs ys : Forall (bnd two52) xs -> Forall (bnd two52) ys ->
  icost_cmp (ic_sub (ic_add (map enc xs) (map enc ys)) (map enc ys)) (map enc xs) = Eq /\
  icost_cmp (ic_add (ic_sub (map enc xs) (map enc ys)) (map enc ys)) (map enc xs) = Eq.
Proof.
  intros Hx Hy.
  assert (T : two52 + two52 <= two53) by (unfold two52, two53; lia).
  assert (P : 0 < two52) by (unfold two52; lia). assert (P3 : 0 < two53) by (unfold two53; lia).
  rewrite (ic_add_refines two52 two52) by assumption. rewrite (ic_sub_refines two52 two52 xs ys) by assumption.
  assert (S1 : Forall (bnd two53) (icost_add xs ys)).
  { apply (zip_pad_bnd Z.add two52 two52); auto. unfold bnd, two52, two53. intros; lia. }
  assert (S2 : Forall (bnd two53) (icost_sub xs ys)).
  { apply (zip_pad_bnd Z.sub two52 two52); auto. unfold bnd, two52, two53. intros; lia. }
  split.
  - (* (x+y)-y: the general refinement lemma needs |x+y| + |y| < 2^53, which fails; go through components *)
    apply cmp_from_all_eq. intros j _. unfold ic_sub.
    set (N := Nat.max (length (map enc (icost_add xs ys))) (length (map enc ys))).
    destruct (Nat.lt_ge_cases j N) as [Hj|Hj].
    + rewrite ic_zip_getd by exact Hj. rewrite !getd_map_enc. unfold icost_add. rewrite getd_zip_pad by reflexivity.
      pose proof (getd_bnd two52 xs j P Hx) as A. pose proof (getd_bnd two52 ys j P Hy) as B. unfold bnd, two52, two53 in *.
      rewrite f64_sub_int by (unfold two53; lia). f_equal. lia.
    + rewrite ic_zip_getd_beyond by exact Hj. unfold N in Hj. rewrite !map_length in Hj. unfold icost_add in Hj.
      rewrite zip_pad_length in Hj. rewrite getd_beyond by (rewrite map_length; lia). reflexivity.
  - apply cmp_from_all_eq. intros j _. unfold ic_add.
    set (N := Nat.max (length (map enc (icost_sub xs ys))) (length (map enc ys))).
    destruct (Nat.lt_ge_cases j N) as [Hj|Hj].
    + rewrite ic_zip_getd by exact Hj. rewrite !getd_map_enc. unfold icost_sub. rewrite getd_zip_pad by reflexivity.
      pose proof (getd_bnd two52 xs j P Hx) as A. pose proof (getd_bnd two52 ys j P Hy) as B. unfold bnd, two52, two53 in *.
      rewrite f64_add_int by (unfold two53; lia). f_equal. lia.
    + rewrite ic_zip_getd_beyond by exact Hj. unfold N in Hj. rewrite !map_length in Hj. unfold icost_sub in Hj.
      rewrite zip_pad_length in Hj. rewrite getd_beyond by (rewrite map_length; lia). reflexivity.
Qed.

(* ---------- with -0.0 among the components: inverse up to the sign of zero ---------- *)
Definition idbl (b : Z) : Prop := b = NEG_ZERO \/ exists v, bnd two52 v /\ b = enc v.

Lemma sf_negzero : sf_of_bits NEG_ZERO = S754_zero true.
Proof. reflexivity. Qed.

Lemma b52_53 v : bnd two52 v -> Z.abs v < two53.
Proof. unfold bnd, two52, two53. lia. Qed.

Lemma negzero_add_enc v : Z.abs v < two53 -> f64_add NEG_ZERO (enc v) = enc v.
Proof.
  intros H. unfold f64_add. rewrite sf_negzero, sf_of_int by exact H. rewrite (f64_of_int_sf v H).
  destruct v; reflexivity.
Qed.
Lemma enc_add_negzero v : Z.abs v < two53 -> f64_add (enc v) NEG_ZERO = enc v.
Proof.
  intros H. unfold f64_add. rewrite sf_negzero, sf_of_int by exact H. rewrite (f64_of_int_sf v H).
  destruct v; reflexivity.
Qed.
Lemma enc_sub_negzero v : Z.abs v < two53 -> f64_sub (enc v) NEG_ZERO = enc v.
Proof.
  intros H. unfold f64_sub. rewrite sf_negzero, sf_of_int by exact H. rewrite (f64_of_int_sf v H).
  destruct v; reflexivity.
Qed.
Lemma negzero_sub_enc v : Z.abs v < two53 -> f64_sub NEG_ZERO (enc v) = if v =? 0 then NEG_ZERO else enc (- v).
Proof.
  intros H. unfold f64_sub. rewrite sf_negzero, sf_of_int by exact H.
  destruct v as [|p|p]; [reflexivity| |]; cbn [sfi SFsub negb Z.eqb].
  - rewrite (f64_of_int_sf (- Zpos p)) by (cbn; lia). reflexivity.
  - rewrite (f64_of_int_sf (- Zneg p)) by (cbn; lia). reflexivity.
Qed.

Lemma zkey_enc0 : zkey (enc 0) = zkey NEG_ZERO.
Proof. reflexivity. Qed.

Lemma inv_ok_idbl a b : idbl a -> idbl b -> inv_ok a b = true.
Proof.
  intros [->|(va & Ha & ->)] [->|(vb & Hb & ->)]; unfold inv_ok.
  - vm_compute. reflexivity.
  - pose proof (b52_53 vb Hb) as Hb'.
    rewrite negzero_add_enc by exact Hb'. rewrite f64_sub_int by (try exact Hb'; rewrite Z.sub_diag; unfold two53; cbn; lia).
    rewrite Z.sub_diag. rewrite negzero_sub_enc by exact Hb'.
    destruct (vb =? 0) eqn:E.
    + assert (vb = 0) by lia. subst vb. vm_compute. reflexivity.
    + rewrite f64_add_int by (rewrite ?Z.abs_opp; try exact Hb'; replace (- vb + vb) with 0 by lia; unfold two53; cbn; lia).
      replace (- vb + vb) with 0 by lia. reflexivity.
  - pose proof (b52_53 va Ha) as Ha'.
    rewrite (enc_add_negzero va Ha'). rewrite !(enc_sub_negzero va Ha'). rewrite (enc_add_negzero va Ha').
    rewrite !Z.eqb_refl. reflexivity.
  - pose proof (b52_53 va Ha) as Ha'. pose proof (b52_53 vb Hb) as Hb'. unfold bnd, two52 in Ha, Hb.
    rewrite f64_add_int by (try assumption; unfold two53; lia). rewrite f64_sub_int by (try assumption; unfold two53; lia).
    rewrite f64_sub_int by (try assumption; unfold two53; lia). rewrite f64_add_int by (try assumption; unfold two53; lia).
    replace (va + vb - vb) with va by lia. replace (va - vb + vb) with va by lia. rewrite !Z.eqb_refl. reflexivity.
Qed.

Lemma getd_idbl x j : Forall idbl x -> idbl (getd x j).
Proof.
  intros Hx. unfold getd. destruct (Nat.lt_ge_cases j (length x)) as [H|H].
  - rewrite Forall_forall in Hx. apply Hx, nth_In, H.
  - rewrite nth_overflow by exact H. right. exists 0. split; [unfold bnd, two52; cbn; lia|reflexivity].
Qed.

Theorem ic_add_sub_idbl x y : Forall idbl x -> Forall idbl y ->
  icost_zcmp (ic_sub (ic_add x y) y) x = Eq /\ icost_zcmp (ic_add (ic_sub x y) y) x = Eq.
Proof. intros Hx Hy. apply ic_add_sub_f64. intros j _. apply inv_ok_idbl; apply getd_idbl; assumption. Qed.

Lemma idbl_examples : idbl NEG_ZERO /\ idbl 0 /\ idbl 4607182418800017408 /\ idbl (enc (-4503599627370495)).
Proof.
  split; [left; reflexivity|]. split; [right; exists 0; split; [unfold bnd, two52; cbn; lia|reflexivity]|].
  split; [right; exists 1; split; [unfold bnd, two52; cbn; lia|reflexivity]|].
  right. exists (-4503599627370495). split; [unfold bnd, two52; cbn; lia|reflexivity].
Qed.

