(* C06 / C01, step level: tour limits (distance, duration), tour size, skills and strict locks.
   An insertion accepted by the modelled goal (Model/Limits.v) keeps the tour feasible for the extended simulation
   Spec/FeasibleX.v; the distance / size / skills tests are exact, the duration test is conservative (exact when nothing after
   the next activity waits). *)
From VRP Require Import Base.Tac Model.Core Spec.Feasible Spec.FeasibleX Model.Eval Model.Limits
  Proofs.CoreTimeP Proofs.CoreCapP Proofs.CoreEvalP Proofs.CoreMultiP.

(* ================================================================== the checker of the specification *)
Lemma zmem_In : forall x l, zmem x l = true <-> In x l.
Proof.
  intros x l. unfold zmem. rewrite existsb_exists. split.
  - intros (y & Hy & E). apply Z.eqb_eq in E. subst. exact Hy.
  - intros H. exists x. split; [exact H|apply Z.eqb_refl].
Qed.

Lemma zmem_false : forall x l, zmem x l = false <-> ~ In x l.
Proof. intros x l. rewrite <- zmem_In. destruct (zmem x l); split; congruence. Qed.

Lemma skills_sat_b_iff : forall vs r, skills_sat_b vs r = true <-> SkillsSat vs r.
Proof.
  intros vs r. unfold skills_sat_b, SkillsSat. rewrite !andb_true_iff, !forallb_forall.
  split.
  - intros ((Ha & Ho) & Hn). repeat split.
    + intros s Hs. apply zmem_In. apply Ha. exact Hs.
    + destruct (r_one r) as [|o l] eqn:E; [left; reflexivity|right].
      apply existsb_exists in Ho as (s & Hs & Hm). exists s. split; [exact Hs|apply zmem_In; exact Hm].
    + intros s Hs Hin. specialize (Hn s Hs). apply zmem_In in Hin. rewrite Hin in Hn. discriminate.
  - intros (Ha & Ho & Hn). repeat split.
    + intros s Hs. apply zmem_In. apply Ha. exact Hs.
    + destruct (r_one r) as [|o l] eqn:E; [reflexivity|].
      destruct Ho as [Ho|(s & Hs & Hin)]; [discriminate|].
      apply existsb_exists. exists s. split; [exact Hs|apply zmem_In; exact Hin].
    + intros s Hs. apply negb_true_iff. apply zmem_false. apply Hn. exact Hs.
Qed.

Lemma le_lim_iff : forall x lim, le_lim x lim = true <-> (forall L, lim = Some L -> x <= L).
Proof.
  intros x [l|]; cbn.
  - rewrite Z.leb_le. split; [intros H L E; inversion E; subst; exact H|intros H; apply H; reflexivity].
  - split; [intros _ L E; discriminate|reflexivity].
Qed.

Lemma le_lim_nat_iff : forall x lim, le_lim_nat x lim = true <-> (forall L, lim = Some L -> (x <= L)%nat).
Proof.
  intros x [l|]; cbn.
  - rewrite Nat.leb_le. split; [intros H L E; inversion E; subst; exact H|intros H; apply H; reflexivity].
  - split; [intros _ L E; discriminate|reflexivity].
Qed.

Theorem feasible_x_b_iff : forall dur dist v lim vs req t,
  feasible_x_b dur dist v lim vs req t = true <-> FeasibleX dur dist v lim vs req t.
Proof.
  intros. unfold feasible_x_b, FeasibleX. rewrite !andb_true_iff, !le_lim_iff, le_lim_nat_iff, forallb_forall.
  split.
  - intros ((((H1 & H2) & H3) & H4) & H5). split; [exact H1|]. split; [exact H2|]. split; [exact H3|]. split; [exact H4|].
    intros a Ha Hj. apply skills_sat_b_iff. specialize (H5 a Ha). apply orb_true_iff in H5 as [H5|H5]; [|exact H5].
    unfold is_job in H5. apply negb_true_iff in H5. lia.
  - intros (H1 & H2 & H3 & H4 & H5). split; [split; [split; [split|]|]|]; try assumption.
    intros a Ha. apply orb_true_iff. destruct (is_job a) eqn:E; [right|left; reflexivity].
    apply skills_sat_b_iff. apply H5; [exact Ha|unfold is_job in E; lia].
Qed.

(* ================================================================== distance and duration of a tour with one more activity *)
Section TotalsDist.
Variable dist : Z -> Z -> Z.
Notation legs_from := (legs_from dist).

Lemma dist_from_legs : forall r loc, dist_from dist loc r = legs_from loc r.
Proof. induction r as [|a r IH]; intros loc; cbn; [reflexivity|]. rewrite IH. reflexivity. Qed.

(* what update_statistics caches is the distance of the specification *)
Lemma total_distance_spec : forall t, total_distance dist t = tour_distance dist t.
Proof. intros [|s r]; [reflexivity|]. apply dist_from_legs. Qed.

Lemma legs_app : forall A p B loc, legs_from loc (A ++ p :: B) = legs_from loc (A ++ [p]) + legs_from (a_loc p) B.
Proof.
  induction A as [|a A IH]; intros p B loc; cbn [app FeasibleX.legs_from].
  - lia.
  - rewrite IH. lia.
Qed.

Definition leg_delta (p x : act) (B : list act) : Z :=
  dist (a_loc p) (a_loc x) + match B with n :: _ => dist (a_loc x) (a_loc n) - dist (a_loc p) (a_loc n) | [] => 0 end.

Lemma tour_distance_insert : forall A p x B,
  tour_distance dist (A ++ p :: x :: B) = tour_distance dist (A ++ p :: B) + leg_delta p x B.
Proof.
  intros A p x B. unfold leg_delta.
  assert (E : forall loc, legs_from loc (x :: B) = legs_from loc B + (dist loc (a_loc x) +
              match B with n :: _ => dist (a_loc x) (a_loc n) - dist loc (a_loc n) | [] => 0 end)).
  { intros loc. destruct B as [|n r]; cbn [FeasibleX.legs_from]; lia. }
  destruct A as [|s A]; cbn [app tour_distance].
  - apply E.
  - rewrite (legs_app A p (x :: B)), (legs_app A p B), E. lia.
Qed.

End TotalsDist.

Section TotalsDur.
Variable dur : Z -> Z -> Z.
Notation sim_finish := (sim_finish dur).

(* the finishing time is monotone and non-expansive in the time at which the walk starts: a delay is passed on at most 1:1,
   waiting absorbs it (ANY matrix: the legs are the same in both walks) *)
Lemma sim_finish_mono : forall acts loc d d', d <= d' ->
  sim_finish loc d acts <= sim_finish loc d' acts <= sim_finish loc d acts + (d' - d).
Proof.
  induction acts as [|a r IH]; intros loc d d' H; cbn [FeasibleX.sim_finish]; [lia|].
  set (e := Z.max (d + dur loc (a_loc a)) (a_tws a) + a_svc a).
  set (e' := Z.max (d' + dur loc (a_loc a)) (a_tws a) + a_svc a).
  assert (He : e <= e') by (unfold e, e'; lia).
  specialize (IH (a_loc a) e e' He). unfold e, e' in *. lia.
Qed.

(* without waiting the delay is passed on exactly *)
Fixpoint no_wait_from (loc dep : Z) (acts : list act) : Prop :=
  match acts with
  | [] => True
  | a :: r => a_tws a <= dep + dur loc (a_loc a) /\ no_wait_from (a_loc a) (dep + dur loc (a_loc a) + a_svc a) r
  end.

Lemma sim_finish_shift : forall acts loc d k, 0 <= k -> no_wait_from loc d acts ->
  sim_finish loc (d + k) acts = sim_finish loc d acts + k.
Proof.
  induction acts as [|a r IH]; intros loc d k Hk Hn; cbn [FeasibleX.sim_finish]; [reflexivity|].
  cbn [no_wait_from] in Hn. destruct Hn as [Hw Hn].
  replace (Z.max (d + k + dur loc (a_loc a)) (a_tws a) + a_svc a) with (d + dur loc (a_loc a) + a_svc a + k) by lia.
  replace (Z.max (d + dur loc (a_loc a)) (a_tws a) + a_svc a) with (d + dur loc (a_loc a) + a_svc a) by lia.
  apply IH; assumption.
Qed.

(* on a consistently scheduled prefix the walk reproduces the cached departure *)
Lemma finish_split : forall A p B loc dep,
  sched_ok_from dur loc dep (A ++ [p]) -> sim_finish loc dep (A ++ p :: B) = sim_finish (a_loc p) (a_dep p) B.
Proof.
  induction A as [|a A IH]; intros p B loc dep H; cbn [app FeasibleX.sim_finish sched_ok_from] in *.
  - destruct H as (H1 & H2 & _). rewrite H2, H1. reflexivity.
  - destruct H as (H1 & H2 & H3). rewrite H1 in H2. unfold est_departure in H2. rewrite <- H2. apply IH. exact H3.
Qed.

Lemma sched_ok_from_tail : forall A B loc dep, sched_ok_from dur loc dep (A ++ B) ->
  sched_ok_from dur (match rev A with a :: _ => a_loc a | [] => loc end) (match rev A with a :: _ => a_dep a | [] => dep end) B.
Proof.
  induction A as [|a A IH]; intros B loc dep H; [exact H|].
  cbn [app sched_ok_from] in H. destruct H as (_ & _ & H3). specialize (IH B _ _ H3).
  cbn [rev]. destruct (rev A) as [|b l] eqn:E; cbn [app]; exact IH.
Qed.

Lemma finish_sched : forall acts loc dep, sched_ok_from dur loc dep acts ->
  sim_finish loc dep acts = match rev acts with a :: _ => a_dep a | [] => dep end.
Proof.
  induction acts as [|a r IH]; intros loc dep H; [reflexivity|].
  cbn [sched_ok_from] in H. destruct H as (H1 & H2 & H3). cbn [FeasibleX.sim_finish].
  rewrite H1 in H2. unfold est_departure in H2. rewrite <- H2. rewrite (IH _ _ H3).
  cbn [rev]. destruct (rev r) as [|b l]; reflexivity.
Qed.

Lemma last_rev : forall (l : list act) d, last l d = match rev l with a :: _ => a | [] => d end.
Proof.
  intros l d. destruct (rev l) as [|a r] eqn:E.
  - apply (f_equal (@rev act)) in E. rewrite rev_involutive in E. subst. reflexivity.
  - apply (f_equal (@rev act)) in E. rewrite rev_involutive in E. subst. cbn [rev]. apply last_last.
Qed.

(* what update_statistics caches is the duration of the specification (on a consistently scheduled tour) *)
Lemma total_duration_spec : forall t, sched_ok dur t -> total_duration t = tour_duration dur t.
Proof.
  intros [|s r] H; [reflexivity|]. cbn [sched_ok] in H. unfold total_duration, tour_duration.
  rewrite (finish_sched r _ _ H). rewrite last_rev. cbn [rev].
  destruct (rev r) as [|a l]; reflexivity.
Qed.

(* departure from `x` when coming from `p`, and from `n` when coming from `x` *)
Definition dep_after (p : act) (pdep : Z) (x : act) : Z := Z.max (pdep + dur (a_loc p) (a_loc x)) (a_tws x) + a_svc x.

Lemma tour_duration_split : forall A p B, sched_ok dur (A ++ p :: B) ->
  forall X, tour_duration dur (A ++ p :: X) = sim_finish (a_loc p) (a_dep p) X - a_dep (hd p A).
Proof.
  intros A p B H X. destruct A as [|s A]; cbn [app tour_duration hd].
  - reflexivity.
  - cbn [app sched_ok] in H. rewrite (finish_split A p X); [reflexivity|].
    apply (sched_ok_from_app dur _ B). rewrite <- app_assoc. exact H.
Qed.

End TotalsDur.

(* calculate_travel_delta, the duration part: the shift of the departure from the next activity (the whole leg when there is none) *)
Lemma travel_delta_spec : forall dur dist p x next,
  travel_delta dur dist p x next =
  (leg_delta dist p x (match next with Some n => [n] | None => [] end),
   match next with
   | Some n => dep_after dur x (dep_after dur p (a_dep p) x) n - dep_after dur p (a_dep p) n
   | None => dep_after dur p (a_dep p) x - a_dep p
   end).
Proof.
  intros dur dist p x [n|]; unfold travel_delta, travel_leg, leg_delta, dep_after; cbn [fst snd]; f_equal; lia.
Qed.


(* ================================================================== skills: soundness and exactness of the route-level test *)
Lemma forallb_zmem : forall j v, forallb (fun s => zmem s v) j = true <-> (forall s, In s j -> In s v).
Proof. intros. rewrite forallb_forall. split; intros H s Hs; [apply zmem_In|apply zmem_In]; auto. Qed.

Lemma is_empty_nil : forall l, is_empty l = true <-> l = [].
Proof. intros [|x l]; cbn; split; congruence. Qed.

Lemma check_all_of_iff : forall js vs, check_all_of js vs = true <-> (forall s, In s (olist (js_all js)) -> In s (olist vs)).
Proof.
  intros js vs. unfold check_all_of. destruct (js_all js) as [j|]; destruct vs as [v|]; cbn [olist].
  - apply forallb_zmem.
  - rewrite is_empty_nil. split; [intros -> s []|]. intros H. destruct j as [|x j]; [reflexivity|]. destruct (H x (or_introl eq_refl)).
  - split; [intros _ s []|reflexivity].
  - split; [intros _ s []|reflexivity].
Qed.

Lemma check_none_of_iff : forall js vs, check_none_of js vs = true <-> (forall s, In s (olist (js_none js)) -> ~ In s (olist vs)).
Proof.
  intros js vs. unfold check_none_of. destruct (js_none js) as [j|]; destruct vs as [v|]; cbn [olist].
  - rewrite forallb_forall. split; intros H s Hs.
    + apply zmem_false. apply negb_true_iff. apply H. exact Hs.
    + apply negb_true_iff. apply zmem_false. apply H. exact Hs.
  - split; [intros _ s _ []|reflexivity].
  - split; [intros _ s []|reflexivity].
  - split; [intros _ s []|reflexivity].
Qed.

(* oneOf: sound always; exact unless the record carries an EMPTY oneOf set for a vehicle that has a skills dimension *)
Lemma check_one_of_sound : forall js vs, check_one_of js vs = true ->
  olist (js_one js) = [] \/ exists s, In s (olist (js_one js)) /\ In s (olist vs).
Proof.
  intros js vs. unfold check_one_of. destruct (js_one js) as [j|]; destruct vs as [v|]; cbn [olist]; intros H.
  - right. apply existsb_exists in H as (s & Hs & Hm). exists s. split; [exact Hs|apply zmem_In; exact Hm].
  - left. apply is_empty_nil. exact H.
  - left. reflexivity.
  - left. reflexivity.
Qed.

Lemma check_one_of_complete : forall js vs, js_one js <> Some [] \/ vs = None ->
  (olist (js_one js) = [] \/ exists s, In s (olist (js_one js)) /\ In s (olist vs)) -> check_one_of js vs = true.
Proof.
  intros js vs Hn H. unfold check_one_of. destruct (js_one js) as [j|]; destruct vs as [v|]; cbn [olist] in *; try reflexivity.
  - destruct H as [->|(s & Hs & Hin)]; [destruct Hn; congruence|].
    apply existsb_exists. exists s. split; [exact Hs|apply zmem_In; exact Hin].
  - destruct H as [->|(s & _ & [])]. reflexivity.
Qed.

Theorem route_skills_sound : forall vs js, eval_route_skills vs js = None -> SkillsSat (olist vs) (req_of js).
Proof.
  intros vs [s|]; cbn [eval_route_skills req_of].
  - destruct (check_all_of s vs && check_one_of s vs && check_none_of s vs) eqn:E; [|discriminate]. intros _.
    apply andb_true_iff in E as [E E3]. apply andb_true_iff in E as [E1 E2].
    unfold SkillsSat. cbn [r_all r_one r_none]. split; [apply check_all_of_iff; exact E1|].
    split; [apply check_one_of_sound; exact E2|apply check_none_of_iff; exact E3].
  - intros _. unfold SkillsSat, no_req. cbn. split; [intros s []|]. split; [left; reflexivity|intros s []].
Qed.

Theorem route_skills_exact : forall vs s, js_one s <> Some [] \/ vs = None ->
  (eval_route_skills vs (Some s) = None <-> SkillsSat (olist vs) (req_of (Some s))).
Proof.
  intros vs s Hn. split; [apply route_skills_sound|].
  unfold SkillsSat. cbn [req_of r_all r_one r_none eval_route_skills]. intros (H1 & H2 & H3).
  rewrite (proj2 (check_all_of_iff s vs) H1), (check_one_of_complete s vs Hn H2), (proj2 (check_none_of_iff s vs) H3). reflexivity.
Qed.

(* JobSkills::new never produces an empty set *)
Lemma js_new_normal : forall a o n, js_one (js_new a o n) <> Some [].
Proof. intros a [[|x l]|] n; cbn; congruence. Qed.

(* ================================================================== tour shape and the job activity count *)
(* a tour as Tour::new / insert_at keep it: departure, job activities, and the arrival iff the tour is closed *)
Definition tour_shape (closed : bool) (t : list act) : Prop :=
  exists k, map is_job t = false :: repeat true k ++ (if closed then [false] else []).

Lemma job_count_app : forall A B, job_count (A ++ B) = (job_count A + job_count B)%nat.
Proof. intros. unfold job_count. rewrite filter_app, app_length. reflexivity. Qed.

Lemma filter_map_length : forall (l : list act), length (filter is_job l) = length (filter (fun b : bool => b) (map is_job l)).
Proof. induction l as [|a l IH]; cbn; [reflexivity|]. destruct (is_job a); cbn; rewrite IH; reflexivity. Qed.

Lemma filter_repeat_true : forall k, filter (fun b : bool => b) (repeat true k) = repeat true k.
Proof. induction k; cbn; congruence. Qed.

Lemma shape_length : forall (closed : bool) t k, map is_job t = false :: repeat true k ++ (if closed then [false] else []) ->
  length t = (1 + k + (if closed then 1 else 0))%nat.
Proof.
  intros closed t k E. apply (f_equal (fun l : list bool => length l)) in E. rewrite map_length in E. cbn [length] in E.
  rewrite app_length, repeat_length in E. destruct closed; cbn [length] in E; lia.
Qed.

Lemma job_count_shape : forall closed t, tour_shape closed t -> job_count t = job_activity_count closed t.
Proof.
  intros closed t [k E]. pose proof (shape_length closed t k E) as HL.
  unfold job_count. rewrite filter_map_length, E. cbn [filter]. rewrite filter_app, filter_repeat_true, app_length, repeat_length.
  unfold job_activity_count. destruct t as [|x t']; [cbn in HL; lia|]. rewrite HL.
  destruct closed; cbn; lia.
Qed.

Lemma shape_leg_count : forall (closed : bool) t k, map is_job t = false :: repeat true k ++ (if closed then [false] else []) ->
  leg_count closed t = S k.
Proof.
  intros closed t k E. pose proof (shape_length closed t k E) as HL. unfold leg_count.
  destruct t as [|x [|y t']]; cbn [length] in *.
  - lia.
  - destruct closed; lia.
  - destruct closed; lia.
Qed.

Lemma ins_repeat : forall k idx (fin : list bool), (idx <= k)%nat ->
  firstn idx (repeat true k ++ fin) ++ true :: skipn idx (repeat true k ++ fin) = repeat true (S k) ++ fin.
Proof.
  induction k as [|k IH]; intros idx fin H.
  - assert (idx = 0%nat) by lia. subst. reflexivity.
  - destruct idx as [|i]; [reflexivity|]. cbn [repeat app firstn skipn]. f_equal. apply IH. lia.
Qed.

(* an insertion at one of the legs the evaluator scans keeps the shape *)
Lemma shape_insert : forall closed t idx x, tour_shape closed t -> (idx < leg_count closed t)%nat -> is_job x = true ->
  tour_shape closed (insert_after t idx x).
Proof.
  intros closed t idx x [k E] Hidx Hx. rewrite (shape_leg_count closed t k E) in Hidx. exists (S k).
  unfold insert_after. rewrite map_app. cbn [map]. rewrite Hx, <- firstn_map, <- skipn_map, E.
  cbn [firstn skipn]. cbn [app]. f_equal. apply ins_repeat. lia.
Qed.

Lemma leg_count_le : forall closed t, (leg_count closed t <= length t)%nat.
Proof. intros closed [|x [|y t]]; cbn [leg_count length]; [lia|lia|]. destruct closed; lia. Qed.

Lemma job_count_insert : forall t idx x, is_job x = true -> job_count (insert_after t idx x) = S (job_count t).
Proof.
  intros t idx x Hx. unfold insert_after.
  assert (E : job_count t = job_count (firstn (S idx) t ++ skipn (S idx) t)) by (rewrite firstn_skipn; reflexivity).
  rewrite E. change (x :: skipn (S idx) t) with ([x] ++ skipn (S idx) t). rewrite !job_count_app.
  unfold job_count at 2. cbn [filter]. rewrite Hx. cbn [length]. lia.
Qed.

Lemma In_insert_after : forall (t : list act) idx x a, In a (insert_after t idx x) -> a = x \/ In a t.
Proof.
  intros t idx x a H. unfold insert_after in H. apply in_app_or in H as [H|[H|H]].
  - right. rewrite <- (firstn_skipn (S idx) t). apply in_or_app. left. exact H.
  - left. symmetry. exact H.
  - right. rewrite <- (firstn_skipn (S idx) t). apply in_or_app. right. exact H.
Qed.

(* ================================================================== soundness of the modelled goal, one activity *)
Section Sound.
Variable dur dist : Z -> Z -> Z.
Notation FeasibleX := (FeasibleX dur dist).

Lemma skipn_next : forall (B : list act), match B with n :: _ => Some n | [] => None end = hd_error B.
Proof. intros [|n r]; reflexivity. Qed.

(* the duration after the insertion is bounded by max(old, old + shift of the next departure) *)
Lemma dur_insert_bound : forall p x B s0 L,
  sim_finish dur (a_loc p) (a_dep p) B - s0 <= L ->
  sim_finish dur (a_loc p) (a_dep p) B - s0 +
    match hd_error B with
    | Some n => dep_after dur x (dep_after dur p (a_dep p) x) n - dep_after dur p (a_dep p) n
    | None => dep_after dur p (a_dep p) x - a_dep p
    end <= L ->
  sim_finish dur (a_loc p) (a_dep p) (x :: B) - s0 <= L.
Proof.
  intros p x B s0 L H0 H1. destruct B as [|n r]; cbn [hd_error FeasibleX.sim_finish] in *.
  - unfold dep_after in H1. lia.
  - fold (dep_after dur p (a_dep p) x). fold (dep_after dur x (dep_after dur p (a_dep p) x) n).
    fold (dep_after dur p (a_dep p) n) in H0, H1.
    set (d0 := dep_after dur p (a_dep p) n) in *. set (d1 := dep_after dur x (dep_after dur p (a_dep p) x) n) in *.
    destruct (Z_le_gt_dec d0 d1) as [Hle|Hgt].
    + pose proof (sim_finish_mono dur r (a_loc n) d0 d1 Hle). lia.
    + pose proof (sim_finish_mono dur r (a_loc n) d1 d0 ltac:(lia)). lia.
Qed.

(* accepted by the travel-limit test (with the cached totals of the tour) => both limits hold on the tour with `x` after `p` *)
Lemma act_limits_sound : forall lim A p x B,
  sched_ok dur (A ++ p :: B) ->
  (forall L, l_dist lim = Some L -> tour_distance dist (A ++ p :: B) <= L) ->
  (forall L, l_dur lim = Some L -> tour_duration dur (A ++ p :: B) <= L) ->
  eval_act_limits dur dist lim (cached_totals dist (A ++ p :: B)) p x (hd_error B) = None ->
  (forall L, l_dist lim = Some L -> tour_distance dist (A ++ p :: x :: B) <= L) /\
  (forall L, l_dur lim = Some L -> tour_duration dur (A ++ p :: x :: B) <= L).
Proof.
  intros lim A p x B Hs Hd Hu He.
  unfold eval_act_limits, cached_totals in He. rewrite travel_delta_spec in He.
  rewrite total_distance_spec, (total_duration_spec dur _ Hs) in He.
  rewrite (tour_duration_split dur A p B Hs B) in He, Hu.
  rewrite (tour_duration_split dur A p B Hs (x :: B)).
  rewrite tour_distance_insert.
  assert (Eld : leg_delta dist p x (match hd_error B with Some n => [n] | None => [] end) = leg_delta dist p x B).
  { destruct B as [|n r]; reflexivity. }
  rewrite Eld in He. clear Eld.
  set (D := tour_distance dist (A ++ p :: B)) in *. set (dl := leg_delta dist p x B) in *.
  set (s0 := a_dep (hd p A)) in *.
  pose proof (dur_insert_bound p x B s0) as Hdur.
  destruct (l_dist lim) as [Ld|] eqn:ELd; destruct (l_dur lim) as [Lu|] eqn:ELu.
  - destruct (Ld <? D + dl) eqn:E1; [discriminate|]. destruct (Lu <? _) eqn:E2; [discriminate|].
    split; intros L EL; inversion EL; subst.
    + lia.
    + apply Hdur; [apply Hu; reflexivity|lia].
  - destruct (Ld <? D + dl) eqn:E1; [discriminate|].
    split; intros L EL; inversion EL; subst. lia.
  - destruct (Lu <? _) eqn:E2; [discriminate|].
    split; intros L EL; inversion EL; subst. apply Hdur; [apply Hu; reflexivity|lia].
  - split; intros L EL; discriminate.
Qed.

(* ---- exactness of the two tests *)
Lemma act_limits_distance_exact : forall lim L A p x B,
  l_dist lim = Some L -> l_dur lim = None ->
  (eval_act_limits dur dist lim (cached_totals dist (A ++ p :: B)) p x (hd_error B) = None
   <-> tour_distance dist (A ++ p :: x :: B) <= L).
Proof.
  intros lim L A p x B EL EU. unfold eval_act_limits, cached_totals. rewrite EL, EU, travel_delta_spec, total_distance_spec.
  rewrite tour_distance_insert.
  assert (Eld : leg_delta dist p x (match hd_error B with Some n => [n] | None => [] end) = leg_delta dist p x B).
  { destruct B as [|n r]; reflexivity. }
  rewrite Eld. destruct (L <? _) eqn:E; split; intros H; try discriminate; try reflexivity; lia.
Qed.

(* the duration test is exact when the insertion does not let the next activity leave earlier and nothing behind it waits
   (in particular: on the last leg of an open tour and on the leg in front of the last activity) *)
Lemma act_limits_duration_exact : forall lim L A p x B,
  sched_ok dur (A ++ p :: B) -> l_dist lim = None -> l_dur lim = Some L ->
  match B with
  | [] => True
  | n :: r => dep_after dur p (a_dep p) n <= dep_after dur x (dep_after dur p (a_dep p) x) n /\
              no_wait_from dur (a_loc n) (dep_after dur p (a_dep p) n) r
  end ->
  (eval_act_limits dur dist lim (cached_totals dist (A ++ p :: B)) p x (hd_error B) = None
   <-> tour_duration dur (A ++ p :: x :: B) <= L).
Proof.
  intros lim L A p x B Hs ED EL Hex. unfold eval_act_limits, cached_totals. rewrite ED, EL, travel_delta_spec.
  rewrite (total_duration_spec dur _ Hs), (tour_duration_split dur A p B Hs B), (tour_duration_split dur A p B Hs (x :: B)).
  destruct B as [|n r]; cbn [hd_error FeasibleX.sim_finish].
  - unfold dep_after. destruct (L <? _) eqn:E; split; intros H; try discriminate; try reflexivity; lia.
  - destruct Hex as [Hle Hnw].
    fold (dep_after dur p (a_dep p) x). fold (dep_after dur x (dep_after dur p (a_dep p) x) n). fold (dep_after dur p (a_dep p) n).
    set (d0 := dep_after dur p (a_dep p) n) in *. set (d1 := dep_after dur x (dep_after dur p (a_dep p) x) n) in *.
    replace d1 with (d0 + (d1 - d0)) at 2 by lia.
    rewrite (sim_finish_shift dur r (a_loc n) d0 (d1 - d0) ltac:(lia) Hnw).
    destruct (L <? _) eqn:E; split; intros H; try discriminate; try reflexivity; lia.
Qed.


(* ---- the whole activity-level and route-level evaluation *)
Lemma next_is_hd_error : forall (t : list act) idx,
  match skipn (S idx) t with n :: _ => Some n | [] => None end = hd_error (skipn (S idx) t).
Proof. intros. destruct (skipn (S idx) t); reflexivity. Qed.

Lemma eval_activity_x_parts : forall g v t idx x,
  eval_activity_x dur dist g v t idx x = None ->
  eval_activity dur v t idx x = None /\
  eval_act_limits dur dist (g_lim g) (cached_totals dist t) (nth idx t x) x (hd_error (skipn (S idx) t)) = None /\
  eval_act_lock (g_rules g) (nth idx t x) x (hd_error (skipn (S idx) t)) = None.
Proof.
  intros g v t idx x H. unfold eval_activity_x in H. rewrite next_is_hd_error in H.
  destruct (eval_activity dur v t idx x); [discriminate|].
  destruct (eval_act_limits _ _ _ _ _ _ _); [discriminate|]. auto.
Qed.

Lemma route_size_sound : forall lim closed t idx x,
  tour_shape closed t -> is_job x = true -> eval_route_size lim closed t 1 = None ->
  forall L, l_size lim = Some L -> (job_count (insert_after t idx x) <= L)%nat.
Proof.
  intros lim closed t idx x Hsh Hx He L EL. unfold eval_route_size in He. rewrite EL in He.
  destruct (L <? _)%nat eqn:E; [discriminate|]. apply Nat.ltb_ge in E.
  rewrite (job_count_insert t idx x Hx), (job_count_shape closed t Hsh). lia.
Qed.

(* the size test is exact *)
Lemma route_size_exact : forall lim closed t idx x L,
  tour_shape closed t -> is_job x = true -> l_size lim = Some L ->
  (eval_route_size lim closed t 1 = None <-> (job_count (insert_after t idx x) <= L)%nat).
Proof.
  intros lim closed t idx x L Hsh Hx EL. unfold eval_route_size. rewrite EL.
  rewrite (job_count_insert t idx x Hx), (job_count_shape closed t Hsh).
  destruct (L <? _)%nat eqn:E.
  - apply Nat.ltb_lt in E. split; [discriminate|lia].
  - apply Nat.ltb_ge in E. split; [lia|reflexivity].
Qed.

(* SOUNDNESS, one activity: route level (skills of the job, tour size) and activity level (time windows, capacity, travel limits)
   accept => the tour with the activity is feasible for the extended simulation.  Any matrix, open or closed tour. *)
Theorem eval_x_sound : forall g v req closed t idx x js,
  (idx < length t)%nat -> sched_ok dur t -> tour_shape closed t ->
  d_change (a_dem (hd x t)) = 0 -> simple_demand (a_dem x) -> 0 <= a_job x ->
  req (a_job x) = req_of js ->
  FeasibleX v (g_lim g) (olist (g_vskills g)) req t ->
  eval_route_skills (g_vskills g) js = None ->
  eval_route_size (g_lim g) closed t 1 = None ->
  eval_activity_x dur dist g v t idx x = None ->
  FeasibleX v (g_lim g) (olist (g_vskills g)) req (insert_after t idx x).
Proof.
  intros g v req closed t idx x js Hidx Hs Hsh Hst Hd Hj Hreq (Hf & Hdist & Hdur & Hsize & Hsk) Hrs Hrz He.
  destruct (eval_activity_x_parts g v t idx x He) as (E1 & E2 & _).
  assert (Hx : is_job x = true) by (unfold is_job; lia).
  split; [apply eval_activity_sound; assumption|].
  assert (HL : (forall L, l_dist (g_lim g) = Some L -> tour_distance dist (insert_after t idx x) <= L) /\
               (forall L, l_dur (g_lim g) = Some L -> tour_duration dur (insert_after t idx x) <= L)).
  { rewrite (insert_after_split t idx x x Hidx). destruct (split_at t idx x Hidx) as [Et _].
    apply act_limits_sound; rewrite <- Et; assumption. }
  destruct HL as [HL1 HL2]. split; [exact HL1|]. split; [exact HL2|]. split.
  - apply (route_size_sound (g_lim g) closed); assumption.
  - intros a Ha Hja. apply In_insert_after in Ha as [->|Ha]; [|apply Hsk; assumption].
    rewrite Hreq. apply route_skills_sound. exact Hrs.
Qed.

Lemma eval_route_x_parts : forall g v ss closed t j js,
  eval_route_x g v ss closed t j js = None ->
  eval_route_skills (g_vskills g) js = None /\ eval_route_lock (g_conds g) (s_id j) = None /\
  eval_route_size (g_lim g) closed t 1 = None.
Proof.
  intros g v ss closed t j js H. unfold eval_route_x in H.
  destruct (negb (eval_route_time _ _)); [discriminate|]. destruct (negb (eval_route_cap _ _ _)); [discriminate|].
  destruct (eval_route_skills _ _); [discriminate|]. destruct (eval_route_lock _ _); [discriminate|]. auto.
Qed.

End Sound.

(* ================================================================== the scan returns only accepted alternatives *)
Section ScanSound.
Variable ev : list act -> nat -> act -> option (Z * bool).
Variable est : list act -> nat -> act -> Z.
Variable t : list act.
Variable j : single.
Variable rc : Z.
Variable bound : nat.

Definition place_act (pl : nat * Z * Z * Z * Z) : act :=
  let '(_, l, s, a, b) := pl in mkAct (s_id j) l s a b (s_dem j) 0 0.

Definition ctx_inv (c : sctx) : Prop :=
  forall pl, sc_place c = Some pl -> ev t (sc_index c) (place_act pl) = None /\ (sc_index c < bound)%nat.

Lemma scan_windows_g_inv : forall ws idx pi p c, (idx < bound)%nat -> ctx_inv c ->
  ctx_inv (fst (scan_windows_g ev est t idx j pi p rc ws c)).
Proof.
  induction ws as [|w ws IH]; intros idx pi p c Hidx Hc; cbn [scan_windows_g]; [exact Hc|].
  set (target := mk_target j (nth idx t (mkAct (-1) 0 0 0 0 dzero 0 0)) p w).
  destruct (ev t idx target) as [[code st]|] eqn:E.
  - assert (Hc' : ctx_inv (mkSctx (Some (code, st)) (sc_index c) (sc_cost c) (sc_place c))) by exact Hc.
    destruct st; [exact Hc'|]. apply IH; assumption.
  - apply IH; [exact Hidx|].
    destruct (match sc_cost c with Some o => est t idx target + rc <? o | None => true end); [|exact Hc].
    intros pl Hpl. cbn [sc_place sc_index] in *. inversion Hpl; subst pl. split; [exact E|exact Hidx].
Qed.

Lemma scan_places_g_inv : forall ps idx pi c, (idx < bound)%nat -> ctx_inv c ->
  ctx_inv (fst (scan_places_g ev est t idx j pi rc ps c)).
Proof.
  induction ps as [|p ps IH]; intros idx pi c Hidx Hc; cbn [scan_places_g]; [exact Hc|].
  pose proof (scan_windows_g_inv (p_tws p) idx pi p c Hidx Hc) as Hw.
  destruct (scan_windows_g ev est t idx j pi p rc (p_tws p) c) as [c' stop]. cbn [fst] in Hw.
  destruct stop; [exact Hw|]. apply IH; assumption.
Qed.

Lemma scan_legs_g_inv : forall n idx c, (idx + n <= bound)%nat -> ctx_inv c ->
  ctx_inv (scan_legs_g ev est t j rc idx n c).
Proof.
  induction n as [|n IH]; intros idx c Hb Hc; cbn [scan_legs_g]; [exact Hc|].
  pose proof (scan_places_g_inv (s_places j) idx 0 c ltac:(lia) Hc) as Hl. unfold scan_leg_g.
  destruct (scan_places_g ev est t idx j 0 rc (s_places j) c) as [c' stop]. cbn [fst] in Hl.
  destruct stop; [exact Hl|]. apply IH; [lia|exact Hl].
Qed.

Lemma analyze_g_inv : forall closed pos, bound = leg_count closed t -> ctx_inv (analyze_g ev est closed t j pos rc).
Proof.
  intros closed pos Hb.
  assert (H0 : ctx_inv (mkSctx None 0 None None)) by (intros pl H; discriminate).
  unfold analyze_g. rewrite <- Hb. destruct pos as [|i|].
  - apply scan_legs_g_inv; [lia|exact H0].
  - destruct (i <? bound)%nat eqn:E; [|exact H0]. apply Nat.ltb_lt in E. apply scan_places_g_inv; assumption.
  - destruct (Nat.max bound 1 - 1 <? bound)%nat eqn:E; [|exact H0]. apply Nat.ltb_lt in E. apply scan_places_g_inv; assumption.
Qed.
End ScanSound.

(* Core's scan is the instance `eval_activity` of the parametrised scan (so the duplication is faithful) *)
Lemma scan_windows_g_core : forall dur est v t idx j pi p rc ws c,
  scan_windows_g (eval_activity dur v) est t idx j pi p rc ws c = scan_windows dur est v t idx j pi p rc ws c.
Proof.
  induction ws as [|w ws IH]; intros c; cbn [scan_windows_g scan_windows]; [reflexivity|].
  destruct (eval_activity dur v t idx _) as [[code st]|]; [destruct st; [reflexivity|apply IH]|apply IH].
Qed.

Lemma scan_places_g_core : forall dur est v t idx j rc ps pi c,
  scan_places_g (eval_activity dur v) est t idx j pi rc ps c = scan_places dur est v t idx j pi rc ps c.
Proof.
  induction ps as [|p ps IH]; intros pi c; cbn [scan_places_g scan_places]; [reflexivity|].
  rewrite scan_windows_g_core. destruct (scan_windows dur est v t idx j pi p rc (p_tws p) c) as [c' stop].
  destruct stop; [reflexivity|apply IH].
Qed.

Lemma scan_legs_g_core : forall dur est v t j rc n idx c,
  scan_legs_g (eval_activity dur v) est t j rc idx n c = scan_legs dur est v t j rc idx n c.
Proof.
  induction n as [|n IH]; intros idx c; cbn [scan_legs_g scan_legs]; [reflexivity|].
  unfold scan_leg_g, scan_leg. rewrite scan_places_g_core.
  destruct (scan_places dur est v t idx j 0 rc (s_places j) c) as [c' stop]. destruct stop; [reflexivity|apply IH].
Qed.

Theorem analyze_g_core : forall dur est v closed t j pos rc,
  analyze_g (eval_activity dur v) est closed t j pos rc = analyze dur est v closed t j pos rc.
Proof.
  intros. unfold analyze_g, analyze. destruct pos as [|i|].
  - apply scan_legs_g_core.
  - destruct (i <? _)%nat; [|reflexivity]. unfold scan_leg_g, scan_leg. rewrite scan_places_g_core. reflexivity.
  - destruct (_ <? _)%nat; [|reflexivity]. unfold scan_leg_g, scan_leg. rewrite scan_places_g_core. reflexivity.
Qed.

(* ================================================================== the whole single-job evaluation, and histories *)
Section Whole.
Variable dur dist : Z -> Z -> Z.
Variable g : xgoal.
Variable v : vehicle.
Variable shift_start : Z.
Variable closed : bool.
Variable req : Z -> skillreq.

Definition goodx (t : list act) : Prop :=
  t <> [] /\ sched_ok dur t /\ (forall d, d_change (a_dem (hd d t)) = 0) /\ tour_shape closed t /\
  FeasibleX dur dist v (g_lim g) (olist (g_vskills g)) req t.

(* SOUNDNESS of eval_job_insertion_in_route (single job, any position mode, any number of places / windows): a success names a
   leg of the tour, and the tour with the job at the answered place is feasible for the extended simulation *)
Theorem eval_single_x_sound : forall t j js pos idx pl c,
  goodx t -> simple_demand (s_dem j) -> 0 <= s_id j -> req (s_id j) = req_of js ->
  eval_single_x dur dist g v shift_start closed t j js pos = ESuccess idx pl c ->
  (idx < leg_count closed t)%nat /\
  FeasibleX dur dist v (g_lim g) (olist (g_vskills g)) req (insert_after t idx (place_act j pl)).
Proof.
  intros t j js pos idx pl c (Hne & Hs & Hh & Hsh & Hf) Hd Hj Hreq He.
  unfold eval_single_x in He.
  destruct (eval_route_x g v shift_start closed t j js) as [[code st]|] eqn:ER; [discriminate|].
  destruct (eval_route_x_parts g v shift_start closed t j js ER) as (R1 & _ & R3).
  set (r := analyze_g _ _ closed t j pos _) in He.
  pose proof (analyze_g_inv (eval_activity_x dur dist g v) (cost_estimate_activity dur dist v) t j (cost_estimate_route v t)
                (leg_count closed t) closed pos eq_refl) as Hinv.
  fold r in Hinv. destruct (sc_place r) as [pl'|] eqn:EP.
  - injection He as E1 E2 _. destruct (Hinv pl' EP) as [Hev Hlt]. rewrite E1 in Hev, Hlt. rewrite E2 in Hev.
    split; [exact Hlt|].
    pose proof (leg_count_le closed t) as Hle.
    destruct pl as [[[[pi l] s] a] b]. unfold place_act in *.
    apply (eval_x_sound dur dist g v req closed t idx _ js); try assumption; try lia.
    apply Hh.
  - destruct (sc_viol r) as [[code st]|]; discriminate.
Qed.

Lemma legs_resched : forall r loc l d, legs_from dist loc (resched_from dur l d r) = legs_from dist loc r.
Proof. induction r as [|a r IH]; intros; cbn [resched_from FeasibleX.legs_from]; [reflexivity|]. cbn [a_loc set_sched]. rewrite IH. reflexivity. Qed.

Lemma finish_resched : forall r loc dep l d, sim_finish dur loc dep (resched_from dur l d r) = sim_finish dur loc dep r.
Proof.
  induction r as [|a r IH]; intros; cbn [resched_from FeasibleX.sim_finish]; [reflexivity|].
  cbn [a_loc a_tws a_svc set_sched]. rewrite IH. reflexivity.
Qed.

Lemma map_is_job_resched : forall r l d, map is_job (resched_from dur l d r) = map is_job r.
Proof. induction r as [|a r IH]; intros; cbn [resched_from map]; [reflexivity|]. rewrite IH. reflexivity. Qed.

Lemma In_resched : forall r l d a, In a (resched_from dur l d r) -> exists a', In a' r /\ a_job a' = a_job a.
Proof.
  induction r as [|b r IH]; intros l d a H; cbn [resched_from] in H; [destruct H|].
  destruct H as [<-|H].
  - exists b. split; [left; reflexivity|reflexivity].
  - destruct (IH _ _ _ H) as (a' & Ha' & E). exists a'. split; [right; exact Ha'|exact E].
Qed.

Lemma feasible_x_resched : forall t, FeasibleX dur dist v (g_lim g) (olist (g_vskills g)) req t ->
  FeasibleX dur dist v (g_lim g) (olist (g_vskills g)) req (reschedule dur t).
Proof.
  intros [|s r] (H1 & H2 & H3 & H4 & H5); [split; [exact H1|split; [exact H2|split; [exact H3|split; [exact H4|exact H5]]]]|].
  split; [rewrite feasible_resched; exact H1|].
  split; [cbn [reschedule tour_distance] in *; intros L EL; rewrite legs_resched; apply H2; exact EL|].
  split; [cbn [reschedule tour_duration] in *; intros L EL; rewrite finish_resched; apply H3; exact EL|].
  split.
  - intros L EL. specialize (H4 L EL). unfold job_count in *. rewrite filter_map_length in *.
    cbn [reschedule map] in *. rewrite map_is_job_resched. exact H4.
  - intros a Ha Hj. cbn [reschedule] in Ha. destruct Ha as [<-|Ha]; [apply H5; [left; reflexivity|exact Hj]|].
    destruct (In_resched _ _ _ _ Ha) as (a' & Ha' & E). rewrite <- E. apply H5; [right; exact Ha'|lia].
Qed.

Lemma shape_resched : forall t, tour_shape closed t -> tour_shape closed (reschedule dur t).
Proof.
  intros [|s r] [k E]; [exists k; exact E|]. exists k. cbn [reschedule map] in *. rewrite map_is_job_resched. exact E.
Qed.

(* one accepted evaluation, really applied, keeps the invariant *)
Theorem apply_success_good : forall t j js pos idx pl c,
  goodx t -> simple_demand (s_dem j) -> 0 <= s_id j -> req (s_id j) = req_of js ->
  eval_single_x dur dist g v shift_start closed t j js pos = ESuccess idx pl c ->
  goodx (apply_result dur t j (ESuccess idx pl c)).
Proof.
  intros t j js pos idx pl c Hg Hd Hj Hreq He.
  destruct (eval_single_x_sound t j js pos idx pl c Hg Hd Hj Hreq He) as [Hlt Hf].
  destruct Hg as (Hne & Hs & Hh & Hsh & _).
  destruct pl as [[[[pi l] s] a] b]. unfold place_act in Hf. cbn [apply_result].
  set (x := mkAct (s_id j) l s a b (s_dem j) 0 0) in *.
  split; [|split; [|split; [|split]]].
  - destruct t as [|s0 r]; [congruence|]. cbn. discriminate.
  - apply sched_ok_reschedule.
  - intros d. rewrite hd_reschedule, hd_insert_after by assumption. apply Hh.
  - apply shape_resched. apply shape_insert; [exact Hsh|exact Hlt|]. unfold is_job, x. cbn [a_job]. lia.
  - apply feasible_x_resched. exact Hf.
Qed.

(* HISTORY: any sequence of evaluations (any jobs, any position modes) whose successes are applied *)
Inductive ins_history_x : list act -> list act -> Prop :=
| ihx_nil : forall t, ins_history_x t t
| ihx_cons : forall t j js pos idx pl c t'',
    simple_demand (s_dem j) -> 0 <= s_id j -> req (s_id j) = req_of js ->
    eval_single_x dur dist g v shift_start closed t j js pos = ESuccess idx pl c ->
    ins_history_x (apply_result dur t j (ESuccess idx pl c)) t'' -> ins_history_x t t''.

Theorem construction_good_x : forall t t', ins_history_x t t' -> goodx t -> goodx t'.
Proof.
  intros t t' H. induction H as [|t j js pos idx pl c t'' Hd Hj Hreq He _ IH]; intros Hg; [exact Hg|].
  apply IH. apply (apply_success_good t j js pos); assumption.
Qed.

End Whole.

(* ================================================================== strict locks *)
Section Locks.

Definition last_opt (l : list Z) : option Z := match rev l with x :: _ => Some x | [] => None end.

Lemma last_opt_snoc : forall l y, last_opt (l ++ [y]) = Some y.
Proof. intros. unfold last_opt. rewrite rev_app_distr. reflexivity. Qed.

Lemma last_opt_app_in : forall A l, l <> [] -> exists y, last_opt (A ++ l) = Some y /\ In y l.
Proof.
  intros A l H. destruct (exists_last H) as (l' & y & ->). exists y. split.
  - rewrite app_assoc. apply last_opt_snoc.
  - apply in_or_app. right. left. reflexivity.
Qed.

Lemma hd_error_app_in : forall (l B : list Z), l <> [] -> exists y, hd_error (l ++ B) = Some y /\ In y l.
Proof. intros [|y l] B H; [congruence|]. exists y. split; [reflexivity|left; reflexivity]. Qed.

Lemma rule_contains_In : forall r j, rule_contains r j = true <-> In j (lr_jobs r).
Proof. intros. apply zmem_In. Qed.

Lemma after_prev_none : forall r n, can_insert_after r None n = false.
Proof. reflexivity. Qed.
Lemma before_next_none : forall r p, can_insert_before r p None = false.
Proof. reflexivity. Qed.
Lemma after_next_in : forall r p n, In n (lr_jobs r) -> can_insert_after r p (Some n) = false.
Proof. intros r p n H. unfold can_insert_after. apply rule_contains_In in H. rewrite H. cbn. apply andb_false_r. Qed.
Lemma before_prev_in : forall r p n, In p (lr_jobs r) -> can_insert_before r (Some p) n = false.
Proof. intros r p n H. unfold can_insert_before. apply rule_contains_In in H. rewrite H. cbn. apply andb_false_r. Qed.

(* the served jobs as two halves U (up to the insertion point) and W (behind it) *)
Lemma lock_insert_lists : forall r U W x pre post,
  U ++ W = pre ++ lr_jobs r ++ post -> anchored (lr_pos r) pre post -> ~ In x (lr_jobs r) ->
  can_insert r (Some x) (last_opt U) (hd_error W) = true ->
  exists pre' post', U ++ x :: W = pre' ++ lr_jobs r ++ post' /\ anchored (lr_pos r) pre' post'.
Proof.
  intros r U W x pre post E Ha Hx Hc.
  unfold can_insert in Hc. assert (Hnx : rule_contains r x = false).
  { destruct (rule_contains r x) eqn:E0; [|reflexivity]. apply rule_contains_In in E0. contradiction. }
  rewrite Hnx in Hc. cbn [orb] in Hc.
  destruct (app_eq_app _ _ _ _ E) as [l [[EU EJ]|[Epre EW]]].
  - (* U = pre ++ l, J ++ post = l ++ W *)
    symmetry in EJ. destruct (app_eq_app _ _ _ _ EJ) as [l2 [[El EP]|[EJ2 EW]]].
    + (* l = J ++ l2, post = l2 ++ W : behind the block *)
      subst U post l. exists pre, (l2 ++ x :: W). split; [rewrite <- !app_assoc; reflexivity|].
      destruct (lr_pos r); cbn [anchored] in *; try exact Ha; try exact I.
      * (* arrival *) apply app_eq_nil in Ha as [-> ->]. cbn [hd_error] in Hc. rewrite before_next_none in Hc. discriminate.
      * discriminate.
    + (* J = l ++ l2, W = l2 ++ post *)
      subst U W. destruct l as [|a l'].
      * (* in front of the block *)
        cbn [app] in EJ2. rewrite app_nil_r in *. exists (pre ++ [x]), post. split; [rewrite <- app_assoc, <- EJ2; reflexivity|].
        destruct (lr_pos r); cbn [anchored] in *; try exact I.
        -- subst pre. cbn in Hc. discriminate.
        -- exact Ha.
        -- discriminate.
      * destruct l2 as [|b l2'].
        -- (* right behind the block *)
           rewrite app_nil_r in EJ2. cbn [app] in *. exists pre, (x :: post). split; [rewrite EJ2, <- app_assoc; reflexivity|].
           destruct (lr_pos r); cbn [anchored] in *; try exact I.
           ++ exact Ha.
           ++ subst post. cbn [hd_error] in Hc. rewrite before_next_none in Hc. discriminate.
           ++ discriminate.
        -- (* strictly inside: both neighbours belong to the block *)
           exfalso.
           destruct (last_opt_app_in pre (a :: l') ltac:(discriminate)) as (y & Ey & Hy).
           assert (HyJ : In y (lr_jobs r)) by (rewrite EJ2; apply in_or_app; left; exact Hy).
           assert (HbJ : In b (lr_jobs r)) by (rewrite EJ2; apply in_or_app; right; left; reflexivity).
           rewrite Ey in Hc. cbn [app hd_error] in Hc.
           rewrite (after_next_in r (Some y) b HbJ), (before_prev_in r y (Some b) HyJ) in Hc.
           destruct (lr_pos r); discriminate.
  - (* pre = U ++ l, W = l ++ J ++ post : in front of the block *)
    subst pre W. exists (U ++ x :: l), post. split; [rewrite <- app_assoc; reflexivity|].
    destruct (lr_pos r); cbn [anchored] in *; try exact I.
    + apply app_eq_nil in Ha as [-> ->]. cbn in Hc. discriminate.
    + exact Ha.
    + discriminate.
Qed.

Lemma served_app : forall A B, served (A ++ B) = served A ++ served B.
Proof. intros. unfold served. rewrite filter_app, map_app. reflexivity. Qed.

Lemma nth_shape : forall k (fin : list bool) i d, (1 <= i <= k)%nat -> nth i (false :: repeat true k ++ fin) d = true.
Proof.
  intros k fin [|i] d H; [lia|]. cbn [nth]. rewrite app_nth1 by (rewrite repeat_length; lia).
  rewrite (nth_indep _ d true) by (rewrite repeat_length; lia). apply nth_repeat.
Qed.

Lemma skipn_cons_nth : forall (t : list act) i n rest d, skipn i t = n :: rest -> nth i t d = n /\ length t = (i + S (length rest))%nat.
Proof.
  induction t as [|a t IH]; intros i n rest d H.
  - destruct i; discriminate.
  - destruct i as [|i]; cbn [skipn] in H.
    + inversion H; subst. split; [reflexivity|cbn; lia].
    + destruct (IH i n rest d H) as [E L]. split; [exact E|cbn [length]; lia].
Qed.

Lemma served_single : forall a, served [a] = if is_job a then [a_job a] else [].
Proof. intros a. unfold served. cbn. destruct (is_job a); reflexivity. Qed.

(* SOUNDNESS of the strict-rule test: an accepted insertion of a job that is not part of the rule leaves the block contiguous
   and anchored *)
Theorem lock_insert_sound : forall r closed t idx x,
  tour_shape closed t -> (idx < leg_count closed t)%nat -> is_job x = true -> ~ In (a_job x) (lr_jobs r) ->
  LockOk r t ->
  can_insert r (job_of x) (job_of (nth idx t x))
             (match hd_error (skipn (S idx) t) with Some n => job_of n | None => None end) = true ->
  LockOk r (insert_after t idx x).
Proof.
  intros r closed t idx x [k E] Hidx Hx Hnr (pre & post & Es & Ha) Hc.
  rewrite (shape_leg_count closed t k E) in Hidx.
  pose proof (shape_length closed t k E) as HL.
  assert (Hlt : (idx < length t)%nat) by lia.
  set (U := served (firstn (S idx) t)). set (W := served (skipn (S idx) t)).
  assert (EUW : served t = U ++ W) by (unfold U, W; rewrite <- served_app, firstn_skipn; reflexivity).
  assert (Enew : served (insert_after t idx x) = U ++ a_job x :: W).
  { unfold insert_after. change (x :: skipn (S idx) t) with ([x] ++ skipn (S idx) t).
    rewrite !served_app, served_single, Hx. reflexivity. }
  (* previous job *)
  assert (Hprev : last_opt U = job_of (nth idx t x)).
  { destruct (split_at t idx x Hlt) as [Et Hl].
    assert (Ef : firstn (S idx) t = firstn idx t ++ [nth idx t x]).
    { clear -Hlt. revert idx Hlt. induction t as [|a t IH]; intros idx H; cbn in H; [lia|].
      destruct idx as [|i]; [reflexivity|]. cbn [firstn nth app]. f_equal. apply IH. lia. }
    unfold U. rewrite Ef, served_app, served_single. unfold job_of.
    destruct (is_job (nth idx t x)) eqn:Ep; [apply last_opt_snoc|].
    rewrite app_nil_r.
    assert (idx = 0%nat).
    { destruct idx as [|i]; [reflexivity|]. exfalso.
      pose proof (map_nth is_job t x (S i)) as Hm. rewrite E in Hm. rewrite nth_shape in Hm by lia. congruence. }
    subst idx. reflexivity. }
  (* next job *)
  assert (Hnext : hd_error W = match hd_error (skipn (S idx) t) with Some n => job_of n | None => None end).
  { unfold W. destruct (skipn (S idx) t) as [|n rest] eqn:Esk; [reflexivity|]. cbn [hd_error].
    destruct (skipn_cons_nth t (S idx) n rest x Esk) as [En Ln].
    change (n :: rest) with ([n] ++ rest). rewrite served_app, served_single. unfold job_of.
    destruct (is_job n) eqn:Enj; [reflexivity|]. cbn [app].
    assert (rest = []).
    { destruct (Nat.le_gt_cases (S idx) k) as [Hle|Hgt].
      - exfalso. pose proof (map_nth is_job t x (S idx)) as Hm. rewrite E, En in Hm. rewrite nth_shape in Hm by lia. congruence.
      - destruct rest; [reflexivity|]. cbn [length] in Ln. destruct closed; lia. }
    subst rest. reflexivity. }
  unfold job_of in Hc at 1. rewrite Hx in Hc. rewrite <- Hprev, <- Hnext in Hc.
  rewrite EUW in Es.
  destruct (lock_insert_lists r U W (a_job x) pre post Es Ha Hnr Hc) as (pre' & post' & E' & Ha').
  exists pre', post'. split; [rewrite Enew; exact E'|exact Ha'].
Qed.

Lemma eval_act_lock_none : forall rules p x next,
  eval_act_lock rules p x next = None ->
  forall r, In r rules -> can_insert r (job_of x) (job_of p) (match next with Some n => job_of n | None => None end) = true.
Proof.
  intros rules p x next H r Hr. unfold eval_act_lock in H.
  destruct (forallb _ rules) eqn:E; [|discriminate]. rewrite forallb_forall in E. apply E. exact Hr.
Qed.

Lemma served_resched : forall dur r l d, served (resched_from dur l d r) = served r.
Proof.
  intros dur. induction r as [|a r IH]; intros l d; cbn [resched_from]; [reflexivity|].
  unfold served in *. cbn [filter]. change (is_job (set_sched a (d + dur l (a_loc a)) (est_departure a (d + dur l (a_loc a))))) with (is_job a).
  destruct (is_job a); cbn [map]; rewrite IH; reflexivity.
Qed.

Lemma lock_ok_resched : forall dur r t, LockOk r t -> LockOk r (reschedule dur t).
Proof.
  intros dur r [|s t] H; [exact H|]. destruct H as (pre & post & E & Ha). exists pre, post. split; [|exact Ha].
  cbn [reschedule]. change (s :: resched_from dur (a_loc s) (a_dep s) t) with ([s] ++ resched_from dur (a_loc s) (a_dep s) t).
  rewrite served_app, served_resched. rewrite <- served_app. exact E.
Qed.

End Locks.

(* the whole goal, activity level: every strict rule of the tour's actor survives an accepted insertion of an outside job *)
Theorem eval_x_lock_sound : forall dur dist g v closed t idx x,
  tour_shape closed t -> (idx < leg_count closed t)%nat -> 0 <= a_job x ->
  eval_activity_x dur dist g v t idx x = None ->
  forall r, In r (g_rules g) -> ~ In (a_job x) (lr_jobs r) -> LockOk r t -> LockOk r (insert_after t idx x).
Proof.
  intros dur dist g v closed t idx x Hsh Hidx Hj He r Hr Hnr Hok.
  destruct (eval_activity_x_parts dur dist g v t idx x He) as (_ & _ & E3).
  apply (lock_insert_sound r closed); try assumption; [unfold is_job; lia|].
  apply (eval_act_lock_none (g_rules g)); assumption.
Qed.

(* ================================================================== histories with strict locks *)
Section WholeLocks.
Variable dur dist : Z -> Z -> Z.
Variable g : xgoal.
Variable v : vehicle.
Variable shift_start : Z.
Variable closed : bool.
Variable req : Z -> skillreq.

Definition locks_ok (t : list act) : Prop := forall r, In r (g_rules g) -> LockOk r t.
Definition outside_rules (j : Z) : Prop := forall r, In r (g_rules g) -> ~ In j (lr_jobs r).

(* what a success of the whole evaluation certifies *)
Lemma eval_single_x_success : forall t j js pos idx pl c,
  eval_single_x dur dist g v shift_start closed t j js pos = ESuccess idx pl c ->
  eval_route_x g v shift_start closed t j js = None /\ (idx < leg_count closed t)%nat /\
  eval_activity_x dur dist g v t idx (place_act j pl) = None.
Proof.
  intros t j js pos idx pl c He. unfold eval_single_x in He.
  destruct (eval_route_x g v shift_start closed t j js) as [[code st]|] eqn:ER; [discriminate|].
  set (r := analyze_g _ _ closed t j pos _) in He.
  pose proof (analyze_g_inv (eval_activity_x dur dist g v) (cost_estimate_activity dur dist v) t j (cost_estimate_route v t)
                (leg_count closed t) closed pos eq_refl) as Hinv.
  fold r in Hinv. destruct (sc_place r) as [pl'|] eqn:EP.
  - injection He as E1 E2 _. destruct (Hinv pl' EP) as [Hev Hlt]. rewrite E1 in Hev, Hlt. rewrite E2 in Hev. auto.
  - destruct (sc_viol r) as [[code st]|]; discriminate.
Qed.

(* a job locked to another vehicle is never accepted *)
Theorem lock_condition_sound : forall t j js pos idx pl c,
  eval_single_x dur dist g v shift_start closed t j js pos = ESuccess idx pl c -> zassoc (s_id j) (g_conds g) <> Some false.
Proof.
  intros t j js pos idx pl c He. destruct (eval_single_x_success t j js pos idx pl c He) as (ER & _ & _).
  destruct (eval_route_x_parts g v shift_start closed t j js ER) as (_ & R2 & _).
  unfold eval_route_lock in R2. destruct (zassoc (s_id j) (g_conds g)) as [[|]|]; congruence.
Qed.

Theorem apply_success_locks : forall t j js pos idx pl c,
  tour_shape closed t -> 0 <= s_id j -> outside_rules (s_id j) -> locks_ok t ->
  eval_single_x dur dist g v shift_start closed t j js pos = ESuccess idx pl c ->
  locks_ok (apply_result dur t j (ESuccess idx pl c)).
Proof.
  intros t j js pos idx pl c Hsh Hj Hout Hok He r Hr.
  destruct (eval_single_x_success t j js pos idx pl c He) as (_ & Hlt & Hev).
  destruct pl as [[[[pi l] s] a] b]. cbn [apply_result]. unfold place_act in Hev.
  apply lock_ok_resched.
  apply (eval_x_lock_sound dur dist g v closed t idx _ Hsh Hlt);
    [cbn [a_job]; exact Hj|exact Hev|exact Hr|cbn [a_job]; apply Hout; exact Hr|apply Hok; exact Hr].
Qed.

Inductive ins_history_xl : list act -> list act -> Prop :=
| ihl_nil : forall t, ins_history_xl t t
| ihl_cons : forall t j js pos idx pl c t'',
    simple_demand (s_dem j) -> 0 <= s_id j -> req (s_id j) = req_of js -> outside_rules (s_id j) ->
    eval_single_x dur dist g v shift_start closed t j js pos = ESuccess idx pl c ->
    ins_history_xl (apply_result dur t j (ESuccess idx pl c)) t'' -> ins_history_xl t t''.

Theorem construction_good_xl : forall t t', ins_history_xl t t' ->
  goodx dur dist g v closed req t /\ locks_ok t -> goodx dur dist g v closed req t' /\ locks_ok t'.
Proof.
  intros t t' H. induction H as [|t j js pos idx pl c t'' Hd Hj Hreq Hout He _ IH]; intros [Hg Hl]; [split; assumption|].
  apply IH. split.
  - apply (apply_success_good dur dist g v shift_start closed req t j js pos); assumption.
  - apply (apply_success_locks t j js pos); try assumption. destruct Hg as (_ & _ & _ & Hsh & _). exact Hsh.
Qed.

End WholeLocks.

(* ================================================================== the merge rule of the skills feature *)
Lemma check_skill_sets_subset : forall s c, check_skill_sets s c = true -> forall x, In x (olist c) -> In x (olist s).
Proof.
  intros [s|] [c|] H x Hx; cbn [olist] in *; try (destruct Hx; fail); try discriminate.
  cbn [check_skill_sets] in H. rewrite forallb_forall in H. apply zmem_In. apply H. exact Hx.
Qed.

(* SOUNDNESS of the merge rule (after the repair of C01-F10): the merged job keeps the SOURCE's skills; every vehicle that meets
   the source's requirement meets the candidate's.  The source record must not carry an EMPTY oneOf set (JobSkills::new, which the
   problem reader uses, never builds one: js_new_normal) *)
Theorem merge_skills_sound : forall vs src cand,
  merge_skills src cand = true -> (forall s, src = Some s -> js_one s <> Some []) ->
  SkillsSat vs (req_of src) -> SkillsSat vs (req_of cand).
Proof.
  intros vs src cand Hm Hn (S1 & S2 & S3). destruct cand as [c|].
  - destruct src as [s|]; [|discriminate]. cbn [merge_skills] in Hm. specialize (Hn s eq_refl).
    apply andb_true_iff in Hm as [Hm M3]. apply andb_true_iff in Hm as [M1 M2].
    unfold SkillsSat in *. cbn [req_of r_all r_one r_none] in *. split; [|split].
    + intros x Hx. apply S1. apply (check_skill_sets_subset _ _ M1). exact Hx.
    + destruct (js_one c) as [co|] eqn:Ec; cbn [olist]; [|left; reflexivity].
      destruct (js_one s) as [so|] eqn:Es; cbn [check_one_of_sets check_skill_sets olist] in *; [|discriminate].
      right. destruct S2 as [->|(x & Hx & Hin)]; [congruence|].
      exists x. split; [|exact Hin]. rewrite forallb_forall in M2. apply zmem_In. apply M2. exact Hx.
    + intros x Hx. apply S3. apply (check_skill_sets_subset _ _ M3). exact Hx.
  - unfold SkillsSat, req_of, no_req. cbn. split; [intros s []|]. split; [left; reflexivity|intros s []].
Qed.

(* in terms of the evaluator: a vehicle the route-level test accepts for the merged (= source) record satisfies the candidate *)
Corollary merge_skills_accepted_sound : forall vs src cand,
  merge_skills src cand = true -> (forall s, src = Some s -> js_one s <> Some []) ->
  eval_route_skills vs src = None -> SkillsSat (olist vs) (req_of cand).
Proof. intros vs src cand Hm Hn He. apply (merge_skills_sound _ src); [exact Hm|exact Hn|apply route_skills_sound; exact He]. Qed.

(* the rule BEFORE the repair asked candidate.oneOf to be a subset of source.oneOf: source {1,2}, candidate {1}, vehicle {2}
   (finding C01-F10, repaired by /repo commit ee5718d); the repaired rule refuses that pair *)
Theorem merge_skills_one_of_prefix_refuted : exists vs src cand,
  merge_skills_prefix src cand = true /\ eval_route_skills vs src = None /\ SkillsSat (olist vs) (req_of src) /\
  eval_route_skills vs cand = Some (CODE_SKILLS, true) /\ ~ SkillsSat (olist vs) (req_of cand) /\
  merge_skills src cand = false.
Proof.
  exists (Some [2]), (Some (mkJS None (Some [1; 2]) None)), (Some (mkJS None (Some [1]) None)).
  split; [reflexivity|]. split; [reflexivity|]. split; [apply route_skills_sound; reflexivity|]. split; [reflexivity|].
  split; [|reflexivity].
  intros (_ & [H|(s & Hs & Hin)] & _); cbn in *; [discriminate|]. destruct Hs as [<-|[]]. destruct Hin as [H|[]]. discriminate.
Qed.

(* the side condition is needed: an EMPTY oneOf set in the source (public fields only) is a subset of everything *)
Theorem merge_skills_empty_one_of_witness :
  let src := Some (mkJS None (Some []) None) in let cand := Some (mkJS None (Some [1]) None) in
  merge_skills src cand = true /\ eval_route_skills None src = None /\ ~ SkillsSat [] (req_of cand).
Proof.
  cbn. split; [reflexivity|]. split; [reflexivity|].
  intros (_ & [H|(s & _ & [])] & _). discriminate.
Qed.

(* an EMPTY oneOf set (not produced by JobSkills::new, but the fields are public): rejected for a vehicle with a skills
   dimension, accepted for one without *)
Theorem skills_empty_one_of_witness :
  let js := Some (mkJS None (Some []) None) in
  eval_route_skills (Some [1; 2]) js = Some (CODE_SKILLS, true) /\ SkillsSat [1; 2] (req_of js) /\ eval_route_skills None js = None.
Proof. cbn. split; [reflexivity|]. split; [|reflexivity]. split; [intros s []|]. split; [left; reflexivity|intros s []]. Qed.

(* ================================================================== witnesses *)
Definition m4 : list Z := [0;10;10;10; 10;0;10;10; 10;10;0;10; 10;10;10;0].
Definition w4 (end_ : option Z) : world := mkWorld 4 m4 m4 (mkVeh 1000 10 0 1 1 0 0) 0 end_ 0.

Ltac good_by_compute k :=
  split; [discriminate|]; split; [vm_compute; repeat split|]; split; [intros d; reflexivity|];
  split; [exists k; reflexivity|apply feasible_x_b_iff; vm_compute; reflexivity].

(* the duration test is only conservative: 0 -> 1 -> 2 (window opens at 100) -> 0 lasts 110, limit 115; a job at 3 in front of 1
   makes the vehicle leave 1 ten later (estimate 120: rejected, code 4), the wait at 2 absorbs it (the real duration stays 110) *)
Theorem duration_limit_conservative_witness :
  let w := w4 (Some 0) in
  let g := mkXGoal (mkLim None (Some 115) None) None [] [] in
  let t := build_tour w [(1, 1, 0, 0, 1000, dzero); (2, 2, 0, 100, 1000, dzero)] in
  let x := mkAct 9 3 0 0 1000 dzero 0 0 in
  goodx (wdur w) (wdist w) g (w_veh w) true (fun _ => no_req) t /\
  eval_activity_x (wdur w) (wdist w) g (w_veh w) t 0 x = Some (CODE_DUR, false) /\
  FeasibleX (wdur w) (wdist w) (w_veh w) (g_lim g) [] (fun _ => no_req) (insert_after t 0 x) /\
  tour_duration (wdur w) t = 110 /\ tour_duration (wdur w) (insert_after t 0 x) = 110.
Proof.
  cbv zeta. split; [good_by_compute 2%nat|]. split; [vm_compute; reflexivity|].
  split; [apply feasible_x_b_iff; vm_compute; reflexivity|]. split; vm_compute; reflexivity.
Qed.

(* the cached totals are needed: on a route WITHOUT tour state (`unwrap_or(0.)`) the distance of the empty closed tour 0 -> 1 (10)
   is forgotten and a job that brings the tour to 20 passes a limit of 15 *)
Theorem limits_need_cached_totals_witness :
  let w := w4 (Some 1) in
  let lim := mkLim (Some 15) None None in
  let t := build_tour w [] in
  let x := mkAct 9 2 0 0 1000 dzero 0 0 in
  eval_act_limits (wdur w) (wdist w) lim None (nth 0 t x) x (hd_error (skipn 1 t)) = None /\
  eval_act_limits (wdur w) (wdist w) lim (cached_totals (wdist w) t) (nth 0 t x) x (hd_error (skipn 1 t)) = Some (CODE_DIST, false) /\
  tour_distance (wdist w) (insert_after t 0 x) = 20.
Proof. cbv zeta. repeat split; vm_compute; reflexivity. Qed.

(* non-vacuity: a vehicle with all three limits and skills, a feasible tour, and a history of two accepted evaluations
   (the second one exactly reaching the distance limit 40 and the size limit 3; a strict departure lock on job 1 stays intact) *)
Definition nv_goal : xgoal := mkXGoal (mkLim (Some 40) (Some 200) (Some 3%nat)) (Some [1; 2]) [mkRule LDeparture [1]] [(1, true)].
Definition nv_req (j : Z) : skillreq := if j =? 8 then mkReq [1] [2; 3] [4] else no_req.
Definition nv_job8 : single := mkSingle 8 [mkPlace (Some 2) 0 [(0, 1000)]] dzero.
Definition nv_job9 : single := mkSingle 9 [mkPlace (Some 3) 0 [(500, 600); (0, 1000)]] dzero.
Definition nv_js8 : option jskills := Some (js_new (Some [1]) (Some [2; 3]) (Some [4])).
Definition nv_t0 : list act := build_tour (w4 (Some 0)) [(1, 1, 0, 0, 1000, dzero)].

Theorem limits_nonvacuous :
  let w := w4 (Some 0) in
  goodx (wdur w) (wdist w) nv_goal (w_veh w) true nv_req nv_t0 /\ locks_ok nv_goal nv_t0 /\
  exists t2, ins_history_xl (wdur w) (wdist w) nv_goal (w_veh w) 0 true nv_req nv_t0 t2 /\
             tour_distance (wdist w) t2 = 40 /\ job_count t2 = 3%nat /\ served t2 = [1; 9; 8].
Proof.
  cbv zeta. split; [good_by_compute 1%nat|]. split.
  { intros r [<-|[]]. exists [], []. split; [reflexivity|reflexivity]. }
  eexists. split.
  - eapply (ihl_cons _ _ _ _ _ _ _ nv_t0 nv_job8 nv_js8 PAny).
    + unfold simple_demand. cbn. lia.
    + vm_compute. discriminate.
    + reflexivity.
    + intros r [<-|[]] [H|[]]. discriminate.
    + vm_compute. reflexivity.
    + eapply (ihl_cons _ _ _ _ _ _ _ _ nv_job9 None PAny).
      * unfold simple_demand. cbn. lia.
      * vm_compute. discriminate.
      * reflexivity.
      * intros r [<-|[]] [H|[]]. discriminate.
      * vm_compute. reflexivity.
      * apply ihl_nil.
  - vm_compute. repeat split; reflexivity.
Qed.
