(* C13 — "bind exactly": lemmas about Model/SciBind.v.  The problem the readers produce, walked by the feasibility simulation
   of Spec/Feasible.v, accepts exactly the routes the textbook definition of the benchmark family accepts. *)
From VRP Require Import Base.Tac Model.Core Spec.Feasible.
From VRP Require Import Model.Scientific Model.SciText Model.SciBind Proofs.ScientificP Proofs.SciTextP.
From Coq Require Import String Ascii Permutation.

(* ---------- matrix entries through location indices ---------- *)
Lemma entry_dist cs a b : In a cs -> In b cs ->
  entry (matrix true (all_coords cs)) (loc_of (all_coords cs) a) (loc_of (all_coords cs) b) = dist true a b.
Proof.
  intros Ha Hb. destruct (distance_between true cs a b Ha Hb) as (i & j & row & -> & -> & R1 & R2).
  unfold entry. rewrite !Nat2Z.id. rewrite (nth_error_nth _ _ _ R1). now apply nth_error_nth.
Qed.

(* ---------- loads ---------- *)
Lemma sim_load_nonincr cap : forall acts l, l <= cap -> Forall (fun a => d_change (a_dem a) <= 0) acts -> sim_load cap l acts = true.
Proof.
  induction acts as [|a r IH]; intros l Hl Hd; [reflexivity|]. inversion Hd as [|? ? H1 H2]; subst. cbn [sim_load].
  replace (l + d_change (a_dem a) <=? cap) with true by (symmetry; apply Z.leb_le; lia). cbn [andb]. apply IH; [lia|exact H2].
Qed.
Lemma tsd_app A B : total_static_delivery (A ++ B) = total_static_delivery A + total_static_delivery B.
Proof. unfold total_static_delivery. induction A as [|a A IH]; cbn [app fold_right]; [lia|]. rewrite IH. lia. Qed.

(* ---------- Solomon ---------- *)
Section Solomon.
Variable I : sol_inst.
Let L := cxy (si_depot I) :: map cxy (si_custs I).
Let P := expected_solomon I.
Let fin := all_coords L.

Lemma sol_dur : dur_of P = entry (matrix true fin).
Proof. reflexivity. Qed.
Lemma sol_sim r : forall pos t, In pos L -> (forall c, In c r -> In (cxy c) L) ->
  sim_time (dur_of P) (loc_of fin pos) t (map act_of_single (map (sol_single I) r) ++ [end_act (p_fleet P)]) = sol_times (si_depot I) pos t r.
Proof.
  rewrite sol_dur. induction r as [|c r IH]; intros pos t Hpos Hr.
  - cbn [map app sim_time sol_times]. change (a_loc (end_act (p_fleet P))) with (loc_of fin (cxy (si_depot I))).
    change (a_twe (end_act (p_fleet P))) with (c_end (si_depot I)).
    assert (E : entry (matrix true fin) (loc_of fin pos) (loc_of fin (cxy (si_depot I))) = dist true pos (cxy (si_depot I))) by (apply entry_dist; [exact Hpos|now left]).
    rewrite E. now rewrite andb_true_r.
  - cbn [map app sim_time sol_times].
    change (a_loc (act_of_single (sol_single I c))) with (loc_of fin (cxy c)).
    change (a_twe (act_of_single (sol_single I c))) with (c_end c).
    change (a_tws (act_of_single (sol_single I c))) with (c_start c).
    change (a_svc (act_of_single (sol_single I c))) with (c_service c).
    assert (Hc : In (cxy c) L) by (apply Hr; now left).
    assert (E : entry (matrix true fin) (loc_of fin pos) (loc_of fin (cxy c)) = dist true pos (cxy c)) by (apply entry_dist; assumption).
    rewrite !E.
    rewrite IH by (exact Hc || (intros c' H'; apply Hr; now right)). reflexivity.
Qed.
Lemma sol_tsd r : total_static_delivery (tour_of P (map (sol_single I) r)) = sum_dem r.
Proof.
  unfold tour_of. change (start_act (p_fleet P) :: ?x) with ([start_act (p_fleet P)] ++ x). rewrite !tsd_app.
  change (total_static_delivery [start_act (p_fleet P)]) with 0. change (total_static_delivery [end_act (p_fleet P)]) with 0.
  induction r as [|c r IH]; [reflexivity|]. cbn [map sum_dem fold_right] in *. unfold total_static_delivery in *. cbn [fold_right].
  change (d_ds (a_dem (act_of_single (sol_single I c)))) with (c_dem c). fold (sum_dem r). lia.
Qed.
Lemma solomon_binds r : sol_wf I -> (forall c, In c r -> In c (si_custs I)) ->
  problem_feasible P (map (sol_single I) r) = sol_route_ok I r.
Proof.
  intros (Hn & Hc & Hd & Hcs) Hr. unfold problem_feasible, feasible, sol_route_ok. rewrite andb_comm. f_equal.
  - unfold load_feasible. rewrite sol_tsd. change (v_cap (veh_of P)) with (si_capacity I).
    destruct (Z.leb_spec (sum_dem r) (si_capacity I)) as [Le|Le]; [|reflexivity]. cbn [andb].
    apply sim_load_nonincr; [exact Le|]. unfold tour_of. constructor; [cbn; lia|]. apply Forall_app. split; [|repeat constructor; cbn; lia].
    apply Forall_forall. intros a Ha. apply in_map_iff in Ha. destruct Ha as (s & <- & Hs). apply in_map_iff in Hs. destruct Hs as (c & <- & Hc').
    change (d_change (a_dem (act_of_single (sol_single I c)))) with (0 + 0 - c_dem c - 0).
    rewrite Forall_forall in Hcs. destruct (Hcs c (Hr c Hc')) as (_ & _ & _ & Hdm & _). unfold nat32 in Hdm. lia.
  - unfold time_feasible, tour_of.
    change (a_loc (start_act (p_fleet P))) with (loc_of fin (cxy (si_depot I))).
    change (a_dep (start_act (p_fleet P))) with (c_start (si_depot I)).
    apply sol_sim; [now left|]. intros c Hc'. right. apply in_map. now apply Hr.
Qed.
End Solomon.

(* ---------- Li & Lim ---------- *)
Section Lilim.
Variable I : lil_inst.
Let L := nxy (li_depot I) :: flat_map (fun r => [nxy (rq_p r); nxy (rq_d r)]) (li_reqs I).
Let P := expected_lilim I.
Let fin := all_coords L.

Lemma ev_coord_in e : In (ev_req e) (li_reqs I) -> In (nxy (ev_node e)) L.
Proof.
  intros H. right. apply in_flat_map. exists (ev_req e). split; [exact H|]. destruct e; cbn; auto.
Qed.
Lemma lil_act e :
  a_loc (act_of_single (lil_ev_single I e)) = loc_of fin (nxy (ev_node e)) /\
  a_twe (act_of_single (lil_ev_single I e)) = n_end (ev_node e) /\
  a_tws (act_of_single (lil_ev_single I e)) = n_start (ev_node e) /\
  a_svc (act_of_single (lil_ev_single I e)) = n_service (ev_node e) /\
  d_change (a_dem (act_of_single (lil_ev_single I e))) = ev_delta e /\
  d_ds (a_dem (act_of_single (lil_ev_single I e))) = 0.
Proof. destruct e; repeat split; try reflexivity; unfold lil_ev_single, lil_single, act_of_single, core_demand, d_change; cbn [a_dem Scientific.s_dem d_ps d_pd d_ds d_dd ev_delta]; lia. Qed.
Lemma lil_sim r : forall pos t, In pos L -> (forall e, In e r -> In (ev_req e) (li_reqs I)) ->
  sim_time (dur_of P) (loc_of fin pos) t (map act_of_single (map (lil_ev_single I) r) ++ [end_act (p_fleet P)]) = lil_times (li_depot I) pos t r.
Proof.
  change (dur_of P) with (entry (matrix true fin)). induction r as [|e r IH]; intros pos t Hpos Hr.
  - cbn [map app sim_time lil_times]. change (a_loc (end_act (p_fleet P))) with (loc_of fin (nxy (li_depot I))).
    change (a_twe (end_act (p_fleet P))) with (n_end (li_depot I)).
    assert (E : entry (matrix true fin) (loc_of fin pos) (loc_of fin (nxy (li_depot I))) = dist true pos (nxy (li_depot I))) by (apply entry_dist; [exact Hpos|now left]).
    rewrite E. now rewrite andb_true_r.
  - cbn [map app sim_time lil_times]. destruct (lil_act e) as (-> & -> & -> & -> & _).
    assert (Hc : In (nxy (ev_node e)) L) by (apply ev_coord_in, Hr; now left).
    assert (E : entry (matrix true fin) (loc_of fin pos) (loc_of fin (nxy (ev_node e))) = dist true pos (nxy (ev_node e))) by (apply entry_dist; assumption).
    rewrite !E.
    rewrite IH by (exact Hc || (intros e' H'; apply Hr; now right)). reflexivity.
Qed.
Lemma lil_load cap r : forall l, l <= cap ->
  sim_load cap l (map act_of_single (map (lil_ev_single I) r) ++ [end_act (p_fleet P)]) = lil_loads cap l r.
Proof.
  induction r as [|e r IH]; intros l Hl.
  - cbn [map app sim_load lil_loads]. change (d_change (a_dem (end_act (p_fleet P)))) with 0.
    replace (l + 0 <=? cap) with true by (symmetry; apply Z.leb_le; lia). reflexivity.
  - cbn [map app sim_load lil_loads]. destruct (lil_act e) as (_ & _ & _ & _ & -> & _).
    destruct (Z.leb_spec (l + ev_delta e) cap) as [Le|Le]; [|reflexivity]. cbn [andb]. now apply IH.
Qed.
Lemma lil_tsd r : total_static_delivery (tour_of P (map (lil_ev_single I) r)) = 0.
Proof.
  unfold tour_of. change (start_act (p_fleet P) :: ?x) with ([start_act (p_fleet P)] ++ x). rewrite !tsd_app.
  change (total_static_delivery [start_act (p_fleet P)]) with 0. change (total_static_delivery [end_act (p_fleet P)]) with 0.
  induction r as [|e r IH]; [reflexivity|]. cbn [map] in *. unfold total_static_delivery in *. cbn [fold_right].
  destruct (lil_act e) as (_ & _ & _ & _ & _ & ->). lia.
Qed.
Lemma lilim_binds r : lil_wf I -> (forall e, In e r -> In (ev_req e) (li_reqs I)) ->
  problem_feasible P (map (lil_ev_single I) r) = lil_route_ok I r.
Proof.
  intros (Hn & Hc & _) Hr. unfold problem_feasible, feasible, lil_route_ok. rewrite andb_comm. f_equal.
  - unfold load_feasible. rewrite lil_tsd. change (v_cap (veh_of P)) with (li_capacity I).
    unfold nat32 in Hc. replace (0 <=? li_capacity I) with true by (symmetry; apply Z.leb_le; lia). cbn [andb].
    unfold tour_of. cbn [sim_load]. change (d_change (a_dem (start_act (p_fleet P)))) with 0.
    replace (0 + 0 <=? li_capacity I) with true by (symmetry; apply Z.leb_le; lia). cbn [andb Z.add].
    apply lil_load. lia.
  - unfold time_feasible, tour_of.
    change (a_loc (start_act (p_fleet P))) with (loc_of fin (nxy (li_depot I))).
    change (a_dep (start_act (p_fleet P))) with (n_start (li_depot I)).
    apply lil_sim; [now left|exact Hr].
Qed.
End Lilim.

(* ---------- CVRP: no windows; distances are bounded, so the open windows (INF) never bind ---------- *)
Lemma fold_add_subset cs : forall ci x, In x (fold_left add_coord cs ci) -> In x ci \/ In x cs.
Proof.
  induction cs as [|c cs IH]; intros ci x H; cbn [fold_left] in H; [now left|].
  apply IH in H. destruct H as [H|H]; [|right; now right].
  unfold add_coord in H. destruct (index_of c ci); [now left|]. apply in_app_or in H. destruct H as [H|[<-|[]]]; [now left|right; now left].
Qed.
Lemma all_coords_subset cs x : In x (all_coords cs) -> In x cs.
Proof. intros H. apply fold_add_subset in H. destruct H as [[]|H]. exact H. Qed.
Definition coord32 (c : coord) : Prop := i32 (fst c) /\ i32 (snd c).
Lemma dist_bound a b : coord32 a -> coord32 b -> 0 <= dist true a b <= 2 ^ 34.
Proof.
  intros [A1 A2] [B1 B2]. unfold dist. pose proof (sqdist_nonneg a b) as Hs.
  destruct (isqrt_round_spec (sqdist a b) Hs) as (R0 & _ & R2). set (r := isqrt_round (sqdist a b)) in *.
  split; [exact R0|]. destruct (Z_le_gt_dec r (2 ^ 34)) as [Hle|Hgt]; [exact Hle|exfalso].
  specialize (R2 ltac:(lia)).
  assert (Hs2 : sqdist a b <= 2 * (2 ^ 32 * 2 ^ 32)).
  { unfold sqdist, i32, i32_min, i32_max in *.
    set (dx := fst a - fst b). set (dy := snd a - snd b).
    assert (- 2 ^ 32 <= dx <= 2 ^ 32) by (subst dx; change (2 ^ 32) with 4294967296; lia).
    assert (- 2 ^ 32 <= dy <= 2 ^ 32) by (subst dy; change (2 ^ 32) with 4294967296; lia).
    assert (dx * dx <= 2 ^ 32 * 2 ^ 32) by nia. assert (dy * dy <= 2 ^ 32 * 2 ^ 32) by nia. lia. }
  assert (H1 : 2 ^ 35 <= 2 * r - 1) by (change (2 ^ 35) with (2 * 2 ^ 34); lia).
  assert (H2 : 2 ^ 35 * 2 ^ 35 <= (2 * r - 1) * (2 * r - 1)) by (apply Z.mul_le_mono_nonneg; lia).
  change (2 ^ 35 * 2 ^ 35) with 1180591620717411303424 in H2. change (2 ^ 32 * 2 ^ 32) with 18446744073709551616 in Hs2. lia.
Qed.
Lemma entry_bound cs i j : Forall coord32 cs -> 0 <= entry (matrix true cs) i j <= 2 ^ 34.
Proof.
  intros Hc. unfold entry, matrix. rewrite Forall_forall in Hc.
  destruct (nth_in_or_default (Z.to_nat i) (map (fun a => map (fun b => dist true a b) cs) cs) []) as [Hin| ->].
  - apply in_map_iff in Hin. destruct Hin as (a & <- & Ha).
    destruct (nth_in_or_default (Z.to_nat j) (map (fun b => dist true a b) cs) 0) as [Hin| ->].
    + apply in_map_iff in Hin. destruct Hin as (b & <- & Hb). apply dist_bound; auto.
    + change (2 ^ 34) with 17179869184. lia.
  - destruct (Z.to_nat j); cbn; change (2 ^ 34) with 17179869184; lia.
Qed.
Lemma sim_time_open dur B : (forall i j, 0 <= dur i j <= B) -> forall acts loc t,
  Forall (fun a => a_twe a = INF /\ a_tws a = 0 /\ a_svc a = 0) acts -> 0 <= t ->
  t + Z.of_nat (List.length acts) * B <= INF -> sim_time dur loc t acts = true.
Proof.
  intros Hd. induction acts as [|a r IH]; intros loc t Ha Ht Hb; [reflexivity|].
  inversion Ha as [|? ? (E1 & E2 & E3) Hr]; subst. cbn [sim_time]. rewrite E1, E2, E3.
  pose proof (Hd loc (a_loc a)) as D. cbn [List.length] in Hb. rewrite Nat2Z.inj_succ in Hb.
  replace (t + dur loc (a_loc a) <=? INF) with true by (symmetry; apply Z.leb_le; nia). cbn [andb].
  apply IH; [exact Hr|lia|]. nia.
Qed.

Section Tsplib.
Variable I : tsp_inst.
Variable pn : list tnode.
Let P := expected_tsplib pn I.

Lemma tsp_tsd r : total_static_delivery (tour_of P (map (tsp_single pn I) r)) = sum_tdem r.
Proof.
  unfold tour_of. change (start_act (p_fleet P) :: ?x) with ([start_act (p_fleet P)] ++ x). rewrite !tsd_app.
  change (total_static_delivery [start_act (p_fleet P)]) with 0. change (total_static_delivery [end_act (p_fleet P)]) with 0.
  induction r as [|c r IH]; [reflexivity|]. cbn [map sum_tdem fold_right] in *. unfold total_static_delivery in *. cbn [fold_right].
  change (d_ds (a_dem (act_of_single (tsp_single pn I c)))) with (t_dem c). fold (sum_tdem r). lia.
Qed.
Lemma depot_xy_32 : Forall tnode_wf (ti_nodes I) -> coord32 (depot_xy I).
Proof.
  intros Hwf. unfold depot_xy. destruct (find _ (ti_nodes I)) as [n|] eqn:E.
  - apply find_some in E. destruct E as [Hn _]. rewrite Forall_forall in Hwf. destruct (Hwf n Hn) as (_ & Hx & Hy & _). split; assumption.
  - split; cbn; unfold i32, i32_min, i32_max; lia.
Qed.
Lemma tsplib_binds r : tsp_wf I -> Permutation pn (ti_nodes I) ->
  Forall (fun n => 0 <= t_dem n) r -> Z.of_nat (List.length r) < 2 ^ 20 ->
  problem_feasible P (map (tsp_single pn I) r) = tsp_route_ok I r.
Proof.
  intros (Hwf & Hnd & Hdep & Hcap & Hlen) Hp Hd Hl. unfold problem_feasible, feasible, tsp_route_ok.
  replace (time_feasible (dur_of P) (tour_of P (map (tsp_single pn I) r))) with true.
  - cbn [andb]. unfold load_feasible. rewrite tsp_tsd. change (v_cap (veh_of P)) with (ti_capacity I).
    destruct (Z.leb_spec (sum_tdem r) (ti_capacity I)) as [Le|Le]; [|reflexivity]. cbn [andb].
    apply sim_load_nonincr; [exact Le|]. unfold tour_of. constructor; [cbn; lia|]. apply Forall_app. split; [|repeat constructor; cbn; lia].
    apply Forall_forall. intros a Ha. apply in_map_iff in Ha. destruct Ha as (s & <- & Hs). apply in_map_iff in Hs. destruct Hs as (c & <- & Hc').
    change (d_change (a_dem (act_of_single (tsp_single pn I c)))) with (0 + 0 - t_dem c - 0).
    rewrite Forall_forall in Hd. specialize (Hd c Hc'). lia.
  - symmetry. unfold time_feasible, tour_of. apply (sim_time_open _ (2 ^ 34)).
    + intros i j. apply entry_bound. apply Forall_forall. intros x Hx. change (p_coords P) with (tsp_final pn I) in Hx.
      unfold tsp_final in Hx. apply all_coords_subset in Hx. apply in_app_or in Hx. destruct Hx as [Hx|[<-|[]]].
      * apply in_map_iff in Hx. destruct Hx as (n & <- & Hn). apply filter_In in Hn. destruct Hn as [Hn _].
        assert (Hn' : In n (ti_nodes I)) by (eapply Permutation_in; eassumption).
        rewrite Forall_forall in Hwf. destruct (Hwf n Hn') as (_ & Hx & Hy & _). split; assumption.
      * now apply depot_xy_32.
    + apply Forall_app. split; [|repeat constructor].
      apply Forall_forall. intros a Ha. apply in_map_iff in Ha. destruct Ha as (s & <- & Hs). apply in_map_iff in Hs. destruct Hs as (c & <- & _).
      repeat split.
    + cbn. lia.
    + rewrite app_length, !map_length. cbn [List.length]. change (a_dep (start_act (p_fleet P))) with 0.
      change INF with (2 ^ 60). rewrite Nat2Z.inj_add. change (Z.of_nat 1) with 1.
      change (2 ^ 60) with (2 ^ 26 * 2 ^ 34). assert (0 < 2 ^ 34) by reflexivity. change (2 ^ 20) with 1048576 in Hl. change (2 ^ 26) with 67108864. nia.
Qed.
End Tsplib.


(* ---------- composed with the character-level parse (print I) theorems ---------- *)
Lemma solomon_text_binds lay I r :
  sol_wf I -> List.length (sl_h1 lay) = 4%nat -> List.length (sl_h2 lay) = 4%nat ->
  (forall c, In c r -> In c (si_custs I)) ->
  exists P, read_solomon_text (print_solomon_text lay I) = Ok P /\
            problem_feasible P (map (sol_single I) r) = sol_route_ok I r.
Proof.
  intros Hwf L1 L2 Hr. exists (expected_solomon I). split; [now apply parse_print_solomon_text|now apply solomon_binds].
Qed.
Lemma lilim_text_binds lay I r :
  lil_wf I -> (forall e, In e r -> In (ev_req e) (li_reqs I)) ->
  exists P, read_lilim_text (print_lilim_text lay I) = Ok P /\
            problem_feasible P (map (lil_ev_single I) r) = lil_route_ok I r.
Proof.
  intros Hwf Hr. exists (expected_lilim I). split; [now apply parse_print_lilim_text|now apply lilim_binds].
Qed.
Lemma tsplib_text_binds lay k I pn r :
  tsp_wf I -> List.length (tl_h lay) = 2%nat -> Permutation pn (ti_nodes I) ->
  Forall (fun n => 0 <= t_dem n) r -> Z.of_nat (List.length r) < 2 ^ 20 ->
  exists P, read_tsplib_text (map t_id pn) (print_tsplib_text lay k I) = Ok P /\
            problem_feasible P (map (tsp_single pn I) r) = tsp_route_ok I r.
Proof.
  intros Hwf Lh Hp Hd Hl. exists (expected_tsplib pn I). split; [now apply parse_print_tsplib_text|now apply tsplib_binds].
Qed.

(* ---------- binding is not vacuous: one unit of demand / of time decides ---------- *)
Definition bind_inst (Q due : Z) : sol_inst :=
  mkSol 1 Q (mkCust 0 0 0 0 0 100 0) [mkCust 1 3 4 5 0 due 0].
Definition lay0 : sol_lay := mkSolLay [[]; []; []; []] [[]; []; []; []] llay0 llay0 [] true.
Definition bind_verdict (Q due : Z) : bool :=
  match read_solomon_text (print_solomon_text lay0 (bind_inst Q due)) with
  | Ok P => problem_feasible P (all_singles P)
  | _ => false
  end.
Lemma bind_witness : bind_verdict 5 5 = true /\ bind_verdict 4 5 = false /\ bind_verdict 5 4 = false.
Proof. repeat split; vm_compute; reflexivity. Qed.
