(* Lemmas about Model/Routing.v (C16).  All Qed, no axioms. *)
From VRP Require Import Base.Tac Model.Routing.
From Coq Require Import QArith Qround Permutation Sorted Lqa Psatz.
Open Scope Z_scope.

(* ------------------------------------------------------------------ rounded square root *)
Lemma rsqrt_square n : rsqrt (n * n) = n.
Proof.
  unfold rsqrt. rewrite Nat2Z.inj_mul.
  rewrite Z.sqrt_square by lia.
  replace (Z.of_nat n * Z.of_nat n - Z.of_nat n * Z.of_nat n) with 0 by lia.
  destruct (0 >? Z.of_nat n) eqn:E; [lia|]. apply Nat2Z.id.
Qed.

Lemma round_sqrt_square a : 0 <= a -> round_sqrt (a * a) = a.
Proof.
  intros Ha. unfold round_sqrt. rewrite Z.sqrt_square by lia.
  replace (a * a - a * a) with 0 by lia. destruct (0 >? a) eqn:E; lia.
Qed.

(* ------------------------------------------------------------------ stable insertion sort *)
Section SortP.
  Context {A : Type} (key : A -> Z).
  Definition kle (a b : A) := key a <= key b.
  Definition klt (a b : A) := key a < key b.

  Lemma insert_perm x l : Permutation (insert_by key x l) (x :: l).
  Proof.
    induction l as [|y r IH]; cbn [insert_by]; [reflexivity|].
    destruct (key x <=? key y); [reflexivity|].
    rewrite IH. apply perm_swap.
  Qed.

  Lemma sort_perm l : Permutation (sort_by key l) l.
  Proof.
    induction l as [|x r IH]; cbn [sort_by]; [reflexivity|].
    rewrite insert_perm. now constructor.
  Qed.

  Lemma insert_sorted x l : StronglySorted kle l -> StronglySorted kle (insert_by key x l).
  Proof.
    induction l as [|y r IH]; intros Hs; cbn [insert_by].
    - repeat constructor.
    - apply StronglySorted_inv in Hs. destruct Hs as [Hr Hy].
      destruct (key x <=? key y) eqn:E.
      + constructor; [constructor; assumption|].
        constructor; [unfold kle; lia|].
        rewrite Forall_forall in *. intros b Hb. specialize (Hy b Hb). unfold kle in *. lia.
      + constructor; [apply IH; assumption|].
        rewrite Forall_forall in *. intros b Hb.
        apply (Permutation_in _ (insert_perm x r)) in Hb. destruct Hb as [<-|Hb].
        * unfold kle. lia.
        * apply Hy; assumption.
  Qed.

  Lemma sort_sorted l : StronglySorted kle (sort_by key l).
  Proof.
    induction l as [|x r IH]; cbn [sort_by]; [constructor|]. apply insert_sorted; assumption.
  Qed.

  Lemma sorted_strict l : StronglySorted kle l -> NoDup (map key l) -> StronglySorted klt l.
  Proof.
    induction l as [|a r IH]; intros Hs Hn; [constructor|].
    apply StronglySorted_inv in Hs. destruct Hs as [Hr Ha].
    cbn [map] in Hn. inversion Hn as [|? ? Hnotin Hnr]; subst.
    constructor; [apply IH; assumption|].
    rewrite Forall_forall in *. intros b Hb. specialize (Ha b Hb).
    assert (key a <> key b) by (intros E; apply Hnotin; rewrite E; apply in_map; assumption).
    unfold kle, klt in *. lia.
  Qed.

  Lemma sort_strict l : NoDup (map key l) -> StronglySorted klt (sort_by key l).
  Proof.
    intros Hn. apply sorted_strict; [apply sort_sorted|].
    eapply Permutation_NoDup; [|exact Hn]. apply Permutation_map. symmetry. apply sort_perm.
  Qed.

  (* ---------------- bsearch on a strictly sorted list of records ---------------- *)
  Lemma found_sorted ms m x :
    StronglySorted klt ms -> In m ms -> key m = x ->
    exists k, bsearch (map key ms) x = Found k /\ nth_error ms k = Some m.
  Proof.
    induction ms as [|y r IH]; intros Hs Hin Hk; [contradiction|].
    apply StronglySorted_inv in Hs. destruct Hs as [Hr Hy]. rewrite Forall_forall in Hy.
    cbn [map bsearch]. destruct (key y =? x) eqn:E.
    - exists O. split; [reflexivity|]. destruct Hin as [->|Hin]; [reflexivity|].
      specialize (Hy m Hin). unfold klt in Hy. lia.
    - destruct Hin as [->|Hin]; [lia|].
      pose proof (Hy m Hin) as Hlt. unfold klt in Hlt.
      destruct (x <? key y) eqn:E2; [lia|].
      destruct (IH Hr Hin Hk) as [k [Hb Hn]]. rewrite Hb. exists (S k). split; [reflexivity|exact Hn].
  Qed.

  Lemma before_sorted ms m0 x :
    StronglySorted klt ms -> In m0 ms -> (forall m, In m ms -> key m0 <= key m) -> x < key m0 ->
    bsearch (map key ms) x = Insert 0 /\ hd_error ms = Some m0.
  Proof.
    destruct ms as [|y r]; intros Hs Hin Hmin Hx; [contradiction|].
    apply StronglySorted_inv in Hs. destruct Hs as [Hr Hy]. rewrite Forall_forall in Hy.
    assert (y = m0) as ->.
    { destruct Hin as [->|Hin]; [reflexivity|]. specialize (Hy m0 Hin). specialize (Hmin y (or_introl eq_refl)).
      unfold klt in Hy. lia. }
    cbn [map bsearch hd_error]. destruct (key m0 =? x) eqn:E; [lia|].
    destruct (x <? key m0) eqn:E2; [|lia]. split; reflexivity.
  Qed.

  Lemma after_sorted ms ml x :
    StronglySorted klt ms -> In ml ms -> (forall m, In m ms -> key m <= key ml) -> key ml < x ->
    exists k, bsearch (map key ms) x = Insert (S k) /\ S k = length ms /\ nth_error ms k = Some ml.
  Proof.
    induction ms as [|y r IH]; intros Hs Hin Hmax Hx; [contradiction|].
    apply StronglySorted_inv in Hs. destruct Hs as [Hr Hy]. rewrite Forall_forall in Hy.
    cbn [map bsearch].
    pose proof (Hmax y (or_introl eq_refl)) as Hyl.
    destruct (key y =? x) eqn:E; [lia|]. destruct (x <? key y) eqn:E2; [lia|].
    destruct r as [|y2 r2].
    - destruct Hin as [->|[]]. exists O. cbn. repeat split.
    - assert (In ml (y2 :: r2)) as Hin2.
      { destruct Hin as [->|Hin]; [|exact Hin]. exfalso.
        specialize (Hy y2 (or_introl eq_refl)). specialize (Hmax y2 (or_intror (or_introl eq_refl))).
        unfold klt in Hy. lia. }
      destruct (IH Hr Hin2) as [k [Hb [Hl Hn]]]; [intros m Hm; apply Hmax; right; exact Hm|exact Hx|].
      rewrite Hb. exists (S k). repeat split; [cbn [length] in *; lia|exact Hn].
  Qed.

  Lemma between_sorted ms l r x :
    StronglySorted klt ms -> In l ms -> In r ms -> key l < x -> x < key r ->
    (forall m, In m ms -> ~ (key l < key m /\ key m < key r)) ->
    exists k, bsearch (map key ms) x = Insert (S k) /\ (S k < length ms)%nat /\
              nth_error ms k = Some l /\ nth_error ms (S k) = Some r.
  Proof.
    induction ms as [|y rest IH]; intros Hs Hl Hr Hlx Hxr Hadj; [contradiction|].
    apply StronglySorted_inv in Hs. destruct Hs as [Hrest Hy]. rewrite Forall_forall in Hy.
    cbn [map bsearch].
    destruct Hl as [->|Hl].
    - (* y = l *)
      assert (In r rest) as Hr'. { destruct Hr as [->|Hr]; [lia|exact Hr]. }
      destruct (key l =? x) eqn:E; [lia|]. destruct (x <? key l) eqn:E2; [lia|].
      destruct rest as [|h rest2]; [contradiction|].
      apply StronglySorted_inv in Hrest. destruct Hrest as [_ Hh]. rewrite Forall_forall in Hh.
      assert (h = r) as ->.
      { destruct Hr' as [->|Hr2]; [reflexivity|]. exfalso.
        specialize (Hh r Hr2). pose proof (Hy h (or_introl eq_refl)) as Hlh.
        apply (Hadj h); [right; left; reflexivity|]. unfold klt in *. lia. }
      cbn [map bsearch]. destruct (key r =? x) eqn:E3; [lia|]. destruct (x <? key r) eqn:E4; [|lia].
      exists O. cbn [length nth_error]. repeat split. lia.
    - (* l in rest *)
      pose proof (Hy l Hl) as Hyl. unfold klt in Hyl.
      assert (In r rest) as Hr'. { destruct Hr as [->|Hr]; [lia|exact Hr]. }
      destruct (key y =? x) eqn:E; [lia|]. destruct (x <? key y) eqn:E2; [lia|].
      destruct (IH Hrest Hl Hr' Hlx Hxr) as [k [Hb [Hlen [Hnl Hnr]]]].
      { intros m Hm. apply Hadj. right. exact Hm. }
      rewrite Hb. exists (S k). cbn [length nth_error]. repeat split; [lia|exact Hnl|exact Hnr].
  Qed.
End SortP.

Lemma NoDup_map_inj {A B} (f : A -> B) l a b :
  NoDup (map f l) -> In a l -> In b l -> f a = f b -> a = b.
Proof.
  induction l as [|x r IH]; intros Hn Ha Hb E; [contradiction|].
  cbn [map] in Hn. inversion Hn as [|? ? Hx Hr]; subst.
  destruct Ha as [->|Ha], Hb as [->|Hb]; try reflexivity.
  - exfalso. apply Hx. rewrite E. apply in_map. exact Hb.
  - exfalso. apply Hx. rewrite <- E. apply in_map. exact Ha.
  - apply IH; assumption.
Qed.

(* ------------------------------------------------------------------ small helpers *)
Lemma existsb_false {A} (f : A -> bool) l : existsb f l = false -> forall x, In x l -> f x = false.
Proof.
  intros H x Hx. destruct (f x) eqn:E; [|reflexivity].
  assert (existsb f l = true) by (apply existsb_exists; exists x; split; assumption). congruence.
Qed.

Lemma has_ts_false m : has_ts m = false <-> m_ts m = None.
Proof. unfold has_ts. destruct (m_ts m); split; congruence. Qed.
Lemma has_ts_true m : has_ts m = true <-> m_ts m <> None.
Proof. unfold has_ts. destruct (m_ts m); split; congruence. Qed.

Lemma group_raw_In M p m : In m (group_raw M p) <-> In m M /\ m_index m = p.
Proof. unfold group_raw, same_idx. rewrite filter_In, Nat.eqb_eq. reflexivity. Qed.

Lemma idx_ok_seq k l : idx_ok k l = true -> l = seq k (length l).
Proof.
  revert k. induction l as [|i r IH]; intros k H; [reflexivity|].
  cbn [idx_ok] in H. apply andb_true_iff in H. destruct H as [H1 H2]. apply Nat.eqb_eq in H1. subst i.
  cbn [length seq]. f_equal. apply IH. exact H2.
Qed.

(* ------------------------------------------------------------------ specification predicates (independent of the code) *)
(* the natural reading of "consistent matrix set" *)
Definition consistent (M : list matrix) : Prop :=
  M <> [] /\
  (exists n, forall m, In m M -> length (m_dur m) = (n * n)%nat /\ length (m_dist m) = (n * n)%nat) /\
  (((forall m, In m M -> m_ts m = None) /\ Permutation (map m_index M) (seq 0 (length M)))
   \/ ((forall m, In m M -> m_ts m <> None) /\ (forall m, In m M -> length (group_raw M (m_index m)) <> 1%nat))).

(* what the code actually requires: squareness is only tested through the rounded square root *)
Definition accepts_cond (M : list matrix) : Prop :=
  M <> [] /\
  (exists n, forall m, In m M -> length (m_dist m) = length (m_dur m) /\ rsqrt (length (m_dur m)) = n) /\
  (((forall m, In m M -> m_ts m = None) /\ Permutation (map m_index M) (seq 0 (length M)))
   \/ ((forall m, In m M -> m_ts m <> None) /\ (forall m, In m M -> length (group_raw M (m_index m)) <> 1%nat))).

Lemma consistent_accepts_cond M : consistent M -> accepts_cond M.
Proof.
  intros [H0 [[n Hn] H2]]. split; [exact H0|]. split; [|exact H2].
  exists n. intros m Hm. destruct (Hn m Hm) as [E1 E2]. rewrite E1, E2. split; [reflexivity|apply rsqrt_square].
Qed.

(* ------------------------------------------------------------------ inversion of the constructors *)
Lemma build_ok_inv M p : build M = Ok p ->
  M <> [] /\
  (forall m, In m M -> length (m_dist m) = length (m_dur m) /\ rsqrt (length (m_dur m)) = psize p) /\
  ((existsb has_ts M = true /\ build_aware M (psize p) = Ok p)
   \/ (existsb has_ts M = false /\ build_agnostic M (psize p) = Ok p)).
Proof.
  unfold build. destruct M as [|c0 rest]; [discriminate|].
  set (M := c0 :: rest). set (size := rsqrt (length (m_dur c0))).
  destruct (existsb (fun m => negb (length (m_dist m) =? length (m_dur m))%nat) M) eqn:E1; [discriminate|].
  destruct (existsb (fun m => negb (rsqrt (length (m_dist m)) =? size)%nat) M) eqn:E2; [discriminate|].
  destruct (existsb (fun m => negb (rsqrt (length (m_dur m)) =? size)%nat) M) eqn:E3; [discriminate|].
  destruct (existsb (fun m => negb (((length (m_dist m) =? size * size) && (length (m_dur m) =? size * size))%nat)) M) eqn:E4;
    [discriminate|].
  intros H.
  assert (psize p = size) as Hsz.
  { destruct (existsb has_ts M).
    - unfold build_aware in H. repeat (destruct (existsb _ _) in H; try discriminate). inversion H. reflexivity.
    - unfold build_agnostic in H. destruct (existsb _ _) in H; try discriminate.
      destruct (negb _) in H; try discriminate. inversion H. reflexivity. }
  rewrite Hsz. split; [discriminate|]. split.
  - intros m Hm. pose proof (existsb_false _ _ E1 m Hm) as A1. pose proof (existsb_false _ _ E3 m Hm) as A3.
    cbn beta in A1, A3. apply negb_false_iff in A1, A3. apply Nat.eqb_eq in A1, A3. split; assumption.
  - destruct (existsb has_ts M); [left|right]; split; auto.
Qed.

(* since repair 17fc8e9: every accepted matrix has exactly size * size durations and distances *)
Lemma build_ok_square M p : build M = Ok p ->
  forall m, In m M -> length (m_dur m) = (psize p * psize p)%nat /\ length (m_dist m) = (psize p * psize p)%nat.
Proof.
  unfold build. destruct M as [|c0 rest]; [discriminate|].
  set (M := c0 :: rest). set (size := rsqrt (length (m_dur c0))).
  destruct (existsb (fun m => negb (length (m_dist m) =? length (m_dur m))%nat) M) eqn:E1; [discriminate|].
  destruct (existsb (fun m => negb (rsqrt (length (m_dist m)) =? size)%nat) M) eqn:E2; [discriminate|].
  destruct (existsb (fun m => negb (rsqrt (length (m_dur m)) =? size)%nat) M) eqn:E3; [discriminate|].
  destruct (existsb (fun m => negb (((length (m_dist m) =? size * size) && (length (m_dur m) =? size * size))%nat)) M) eqn:E4;
    [discriminate|].
  intros H.
  assert (psize p = size) as Hsz.
  { destruct (existsb has_ts M).
    - unfold build_aware in H. repeat (destruct (existsb _ _) in H; try discriminate). inversion H. reflexivity.
    - unfold build_agnostic in H. destruct (existsb _ _) in H; try discriminate.
      destruct (negb _) in H; try discriminate. inversion H. reflexivity. }
  rewrite Hsz. intros m Hm. pose proof (existsb_false _ _ E4 m Hm) as A. cbn beta in A.
  apply negb_false_iff in A. apply andb_true_iff in A. destruct A as [A1 A2].
  apply Nat.eqb_eq in A1, A2. split; assumption.
Qed.

Lemma build_agnostic_inv M size p : build_agnostic M size = Ok p ->
  p = PAgnostic (map m_dur (sort_by idx_key M)) (map m_dist (sort_by idx_key M)) size /\
  map m_index (sort_by idx_key M) = seq 0 (length M).
Proof.
  unfold build_agnostic. destruct (existsb has_ts _); [discriminate|].
  destruct (idx_ok 0 (map m_index (sort_by idx_key M))) eqn:E; cbn [negb]; [|discriminate].
  intros H. inversion H. split; [reflexivity|].
  apply idx_ok_seq in E. rewrite map_length in E. rewrite E. f_equal.
  apply Permutation_length. apply sort_perm.
Qed.

Lemma build_aware_inv M size p : build_aware M size = Ok p ->
  p = PAware M size /\ (forall m, In m M -> has_ts m = true) /\
  (forall m, In m M -> length (group_raw M (m_index m)) <> 1%nat).
Proof.
  unfold build_aware.
  destruct (existsb (fun m => negb (has_ts m)) M) eqn:E1; [discriminate|].
  destruct (existsb (fun m => (length (group_raw M (m_index m)) =? 1)%nat) M) eqn:E2; [discriminate|].
  intros H. inversion H. split; [reflexivity|]. split; intros m Hm.
  - pose proof (existsb_false _ _ E1 m Hm) as A. cbn beta in A. apply negb_false_iff in A. exact A.
  - pose proof (existsb_false _ _ E2 m Hm) as A. cbn beta in A. apply Nat.eqb_neq in A. exact A.
Qed.

(* ------------------------------------------------------------------ rejection *)
Theorem build_ok_cond M p : build M = Ok p -> accepts_cond M.
Proof.
  intros H. destruct (build_ok_inv _ _ H) as [H0 [Hlen Hbr]].
  split; [exact H0|]. split; [exists (psize p); exact Hlen|].
  destruct Hbr as [[_ Ha]|[Hn Ha]].
  - right. destruct (build_aware_inv _ _ _ Ha) as [_ [Hts Hg]]. split; [|exact Hg].
    intros m Hm. apply has_ts_true. apply Hts. exact Hm.
  - left. destruct (build_agnostic_inv _ _ _ Ha) as [_ Hseq]. split.
    + intros m Hm. apply has_ts_false. apply (existsb_false _ _ Hn). exact Hm.
    + rewrite <- Hseq. apply Permutation_map. symmetry. apply sort_perm.
Qed.

Theorem inconsistent_rejected_partial M : ~ accepts_cond M -> exists e, build M = Err e.
Proof.
  intros Hn. destruct (build M) as [p|e] eqn:E; [|exists e; reflexivity].
  exfalso. apply Hn. eapply build_ok_cond. exact E.
Qed.

(* the FULL clause (holds since repair 17fc8e9): whatever is accepted is a consistent matrix set *)
Theorem build_ok_consistent M p : build M = Ok p -> consistent M.
Proof.
  intros H. destruct (build_ok_cond _ _ H) as [H0 [_ H2]].
  split; [exact H0|]. split; [|exact H2].
  exists (psize p). apply build_ok_square. exact H.
Qed.

Theorem inconsistent_rejected M : ~ consistent M -> exists e, build M = Err e.
Proof.
  intros Hn. destruct (build M) as [p|e] eqn:E; [|exists e; reflexivity].
  exfalso. apply Hn. eapply build_ok_consistent. exact E.
Qed.

Theorem size_exact M p m n : build M = Ok p -> In m M -> length (m_dur m) = (n * n)%nat -> psize p = n.
Proof.
  intros H Hm Hl. destruct (build_ok_inv _ _ H) as [_ [Hlen _]].
  destruct (Hlen m Hm) as [_ E]. rewrite <- E, Hl. apply rsqrt_square.
Qed.

(* ------------------------------------------------------------------ time agnostic provider *)
Lemma agnostic_row M m :
  map m_index (sort_by idx_key M) = seq 0 (length M) -> In m M ->
  nth_error (sort_by idx_key M) (m_index m) = Some m.
Proof.
  intros Hseq Hm. set (s := sort_by idx_key M) in *.
  assert (In m s) as Hms by (apply (Permutation_in _ (Permutation_sym (sort_perm idx_key M))); exact Hm).
  assert (In (m_index m) (seq 0 (length M))) as Hi by (rewrite <- Hseq; apply in_map; exact Hms).
  apply in_seq in Hi.
  assert (length s = length M) as Hl by (apply Permutation_length, sort_perm).
  destruct (nth_error s (m_index m)) as [m'|] eqn:E.
  - f_equal. apply (NoDup_map_inj m_index s); [rewrite Hseq; apply seq_NoDup|eapply nth_error_In; exact E|exact Hms|].
    pose proof (map_nth_error m_index _ _ E) as E2. rewrite Hseq in E2.
    rewrite nth_error_nth' with (d := O) in E2 by (rewrite seq_length; lia).
    rewrite seq_nth in E2 by lia. inversion E2. lia.
  - apply nth_error_None in E. lia.
Qed.

Theorem agnostic_exact M prov fb m scale from to t v w :
  build M = Ok prov -> (forall x, In x M -> m_ts x = None) -> In m M ->
  nth_error (m_dur m) (from * psize prov + to) = Some v ->
  nth_error (m_dist m) (from * psize prov + to) = Some w ->
  duration prov fb (m_index m) scale from to t = Val (v * scale)%Q /\
  distance prov fb (m_index m) from to t = Val w.
Proof.
  intros H Hnone Hm Hv Hw. destruct (build_ok_inv _ _ H) as [_ [_ Hbr]].
  destruct Hbr as [[Ht _]|[_ Ha]].
  - exfalso. apply existsb_exists in Ht. destruct Ht as [x [Hx Hts]]. apply has_ts_true in Hts. apply Hts, Hnone, Hx.
  - destruct (build_agnostic_inv _ _ _ Ha) as [Hp Hseq]. pose proof (agnostic_row M m Hseq Hm) as Hrow.
    rewrite Hp in *. cbn [psize] in *. cbn [duration distance].
    rewrite (map_nth_error m_dur _ _ Hrow), (map_nth_error m_dist _ _ Hrow), Hv, Hw. cbn. split; reflexivity.
Qed.

(* ------------------------------------------------------------------ time aware provider *)
Lemma build_timed M prov m : build M = Ok prov -> In m M -> has_ts m = true ->
  prov = PAware M (psize prov) /\ (forall x, In x M -> has_ts x = true).
Proof.
  intros H Hm Hts. destruct (build_ok_inv _ _ H) as [_ [_ Hbr]]. destruct Hbr as [[_ Ha]|[Hn _]].
  - destruct (build_aware_inv _ _ _ Ha) as [Hp [Hall _]]. split; assumption.
  - pose proof (existsb_false _ _ Hn m Hm). congruence.
Qed.

Lemma aware_group_some M m :
  In m M -> aware_group M (m_index m) = Some (sort_by ts_key (group_raw M (m_index m))).
Proof.
  intros Hm. unfold aware_group.
  assert (In m (group_raw M (m_index m))) as Hg by (apply group_raw_In; split; [exact Hm|reflexivity]).
  destruct (group_raw M (m_index m)); [contradiction|reflexivity].
Qed.

Lemma sorted_group_In M p x : In x (sort_by ts_key (group_raw M p)) <-> In x M /\ m_index x = p.
Proof.
  rewrite <- group_raw_In. split; apply Permutation_in; [apply sort_perm|symmetry; apply sort_perm].
Qed.

Theorem aware_at_timestamp M prov fb m scale from to t v w :
  build M = Ok prov -> In m M -> has_ts m = true ->
  NoDup (map ts_key (group_raw M (m_index m))) ->
  ztrunc t = ts_key m ->
  nth_error (m_dur m) (from * psize prov + to) = Some v ->
  nth_error (m_dist m) (from * psize prov + to) = Some w ->
  duration prov fb (m_index m) scale from to t = Val (v * scale)%Q /\
  distance prov fb (m_index m) from to t = Val w.
Proof.
  intros H Hm Hts Hnd Ht Hv Hw. destruct (build_timed _ _ _ H Hm Hts) as [Hp _].
  rewrite Hp. cbn [psize duration distance]. rewrite (aware_group_some M m Hm).
  set (ms := sort_by ts_key (group_raw M (m_index m))).
  assert (In m ms) as Hms by (apply sorted_group_In; split; [exact Hm|reflexivity]).
  destruct (found_sorted ts_key ms m (ztrunc t) (sort_strict ts_key _ Hnd) Hms (eq_sym Ht)) as [k [Hb Hk]].
  unfold aware_dur_raw, aware_dist_raw. rewrite Hb, Hk. cbn [cell]. rewrite Hv, Hw. cbn. split; reflexivity.
Qed.

Theorem aware_before_first M prov fb m scale from to t v w :
  build M = Ok prov -> In m M -> has_ts m = true ->
  NoDup (map ts_key (group_raw M (m_index m))) ->
  (forall x, In x M -> m_index x = m_index m -> ts_key m <= ts_key x) ->
  ztrunc t < ts_key m ->
  nth_error (m_dur m) (from * psize prov + to) = Some v ->
  nth_error (m_dist m) (from * psize prov + to) = Some w ->
  duration prov fb (m_index m) scale from to t = Val (v * scale)%Q /\
  distance prov fb (m_index m) from to t = Val w.
Proof.
  intros H Hm Hts Hnd Hmin Ht Hv Hw. destruct (build_timed _ _ _ H Hm Hts) as [Hp _].
  rewrite Hp. cbn [psize duration distance]. rewrite (aware_group_some M m Hm).
  set (ms := sort_by ts_key (group_raw M (m_index m))).
  assert (In m ms) as Hms by (apply sorted_group_In; split; [exact Hm|reflexivity]).
  destruct (before_sorted ts_key ms m (ztrunc t) (sort_strict ts_key _ Hnd) Hms) as [Hb Hh]; [|exact Ht|].
  { intros x Hx. apply sorted_group_In in Hx. destruct Hx as [Hx Hi]. apply Hmin; assumption. }
  unfold aware_dur_raw, aware_dist_raw. rewrite Hb, Hh. cbn [cell]. rewrite Hv, Hw. cbn. split; reflexivity.
Qed.

Theorem aware_after_last M prov fb m scale from to t v w :
  build M = Ok prov -> In m M -> has_ts m = true ->
  NoDup (map ts_key (group_raw M (m_index m))) ->
  (forall x, In x M -> m_index x = m_index m -> ts_key x <= ts_key m) ->
  ts_key m < ztrunc t ->
  nth_error (m_dur m) (from * psize prov + to) = Some v ->
  nth_error (m_dist m) (from * psize prov + to) = Some w ->
  duration prov fb (m_index m) scale from to t = Val (v * scale)%Q /\
  distance prov fb (m_index m) from to t = Val w.
Proof.
  intros H Hm Hts Hnd Hmax Ht Hv Hw. destruct (build_timed _ _ _ H Hm Hts) as [Hp _].
  rewrite Hp. cbn [psize duration distance]. rewrite (aware_group_some M m Hm).
  set (ms := sort_by ts_key (group_raw M (m_index m))).
  assert (In m ms) as Hms by (apply sorted_group_In; split; [exact Hm|reflexivity]).
  destruct (after_sorted ts_key ms m (ztrunc t) (sort_strict ts_key _ Hnd) Hms) as [k [Hb [Hl Hk]]]; [|exact Ht|].
  { intros x Hx. apply sorted_group_In in Hx. destruct Hx as [Hx Hi]. apply Hmax; assumption. }
  unfold aware_dur_raw, aware_dist_raw. rewrite Hb, Hl, Nat.eqb_refl, Hk. cbn [cell]. rewrite Hv, Hw. cbn. split; reflexivity.
Qed.

(* the marker guard of repair d8f731f *)
Lemma is_neg_false q : (0 <= q)%Q -> is_neg q = false.
Proof. intros H. unfold is_neg. apply negb_false_iff. apply Qle_bool_iff. exact H. Qed.
Lemma is_neg_true q : (q < 0)%Q -> is_neg q = true.
Proof.
  intros H. unfold is_neg. apply negb_true_iff. destruct (Qle_bool 0 q) eqn:E; [|reflexivity].
  apply Qle_bool_iff in E. exfalso. apply (Qlt_not_le _ _ H). exact E.
Qed.
Lemma interp_marked_nonneg t tl tr lv rv : (0 <= lv)%Q -> (0 <= rv)%Q -> interp_marked t tl tr lv rv = interp t tl tr lv rv.
Proof. intros A B. unfold interp_marked. rewrite (is_neg_false _ A), (is_neg_false _ B). reflexivity. Qed.
Lemma interp_marked_neg t tl tr lv rv : (lv < 0)%Q \/ (rv < 0)%Q -> interp_marked t tl tr lv rv = lv.
Proof.
  intros [A|B]; unfold interp_marked.
  - rewrite (is_neg_true _ A). reflexivity.
  - rewrite (is_neg_true _ B), orb_true_r. reflexivity.
Qed.

Theorem aware_between_marked M prov fb l r scale from to t lv rv lw :
  build M = Ok prov -> In l M -> In r M -> has_ts l = true -> m_index r = m_index l ->
  NoDup (map ts_key (group_raw M (m_index l))) ->
  ts_key l < ztrunc t -> ztrunc t < ts_key r ->
  (forall x, In x M -> m_index x = m_index l -> ~ (ts_key l < ts_key x /\ ts_key x < ts_key r)) ->
  nth_error (m_dur l) (from * psize prov + to) = Some lv ->
  nth_error (m_dur r) (from * psize prov + to) = Some rv ->
  nth_error (m_dist l) (from * psize prov + to) = Some lw ->
  duration prov fb (m_index l) scale from to t = Val (interp_marked t (ts_of l) (ts_of r) lv rv * scale)%Q /\
  distance prov fb (m_index l) from to t = Val lw.
Proof.
  intros H Hl Hr Hts Hidx Hnd Hlt Htr Hadj Hlv Hrv Hlw. destruct (build_timed _ _ _ H Hl Hts) as [Hp _].
  rewrite Hp. cbn [psize duration distance]. rewrite (aware_group_some M l Hl).
  set (ms := sort_by ts_key (group_raw M (m_index l))).
  assert (In l ms) as Hlms by (apply sorted_group_In; split; [exact Hl|reflexivity]).
  assert (In r ms) as Hrms by (apply sorted_group_In; split; [exact Hr|exact Hidx]).
  destruct (between_sorted ts_key ms l r (ztrunc t) (sort_strict ts_key _ Hnd) Hlms Hrms Hlt Htr)
    as [k [Hb [Hlen [Hkl Hkr]]]].
  { intros x Hx. apply sorted_group_In in Hx. destruct Hx as [Hx Hi]. apply Hadj; assumption. }
  unfold aware_dur_raw, aware_dist_raw. rewrite Hb, Hkl, Hkr.
  replace (S k =? length ms)%nat with false by (symmetry; apply Nat.eqb_neq; lia).
  cbn [cell]. rewrite Hlv, Hrv, Hlw. cbn. split; reflexivity.
Qed.

Theorem aware_between M prov fb l r scale from to t lv rv lw :
  build M = Ok prov -> In l M -> In r M -> has_ts l = true -> m_index r = m_index l ->
  NoDup (map ts_key (group_raw M (m_index l))) ->
  ts_key l < ztrunc t -> ztrunc t < ts_key r ->
  (forall x, In x M -> m_index x = m_index l -> ~ (ts_key l < ts_key x /\ ts_key x < ts_key r)) ->
  nth_error (m_dur l) (from * psize prov + to) = Some lv ->
  nth_error (m_dur r) (from * psize prov + to) = Some rv ->
  nth_error (m_dist l) (from * psize prov + to) = Some lw ->
  (0 <= lv)%Q -> (0 <= rv)%Q ->
  duration prov fb (m_index l) scale from to t = Val (interp t (ts_of l) (ts_of r) lv rv * scale)%Q /\
  distance prov fb (m_index l) from to t = Val lw.
Proof.
  intros H Hl Hr Hts Hidx Hnd Hlt Htr Hadj Hlv Hrv Hlw A B.
  rewrite <- (interp_marked_nonneg t (ts_of l) (ts_of r) lv rv A B).
  eapply aware_between_marked; eassumption.
Qed.

(* one of the two bracketing values is the unreachable marker: the left value, as for the distance *)
Theorem aware_between_unreachable M prov fb l r scale from to t lv rv lw :
  build M = Ok prov -> In l M -> In r M -> has_ts l = true -> m_index r = m_index l ->
  NoDup (map ts_key (group_raw M (m_index l))) ->
  ts_key l < ztrunc t -> ztrunc t < ts_key r ->
  (forall x, In x M -> m_index x = m_index l -> ~ (ts_key l < ts_key x /\ ts_key x < ts_key r)) ->
  nth_error (m_dur l) (from * psize prov + to) = Some lv ->
  nth_error (m_dur r) (from * psize prov + to) = Some rv ->
  nth_error (m_dist l) (from * psize prov + to) = Some lw ->
  (lv < 0)%Q \/ (rv < 0)%Q ->
  duration prov fb (m_index l) scale from to t = Val (lv * scale)%Q /\
  distance prov fb (m_index l) from to t = Val lw.
Proof.
  intros H Hl Hr Hts Hidx Hnd Hlt Htr Hadj Hlv Hrv Hlw A.
  rewrite <- (interp_marked_neg t (ts_of l) (ts_of r) lv rv A).
  eapply aware_between_marked; eassumption.
Qed.

(* `as u64` is monotone, so a truncated time strictly after/before a truncated stamp is so in real time *)
Lemma ztrunc_mono a b : (a <= b)%Q -> ztrunc a <= ztrunc b.
Proof.
  intros Hab. unfold ztrunc.
  destruct (Qle_bool 0 a) eqn:Ea, (Qle_bool 0 b) eqn:Eb.
  - apply Qfloor_resp_le. exact Hab.
  - apply Qle_bool_iff in Ea. exfalso.
    assert (Qle_bool 0 b = true) by (apply Qle_bool_iff; eapply Qle_trans; eassumption). congruence.
  - apply Qle_bool_iff in Eb. change 0 with (Qfloor 0). apply Qfloor_resp_le. exact Eb.
  - lia.
Qed.

Lemma ztrunc_lt_real a b : ztrunc a < ztrunc b -> (a < b)%Q.
Proof.
  intros H. apply Qnot_le_lt. intros Hle. apply ztrunc_mono in Hle. lia.
Qed.

Lemma interp_bounds t tl tr lv rv : (tl < tr)%Q -> (tl <= t)%Q -> (t <= tr)%Q ->
  ((lv <= rv)%Q -> (lv <= interp t tl tr lv rv)%Q /\ (interp t tl tr lv rv <= rv)%Q) /\
  ((rv <= lv)%Q -> (rv <= interp t tl tr lv rv)%Q /\ (interp t tl tr lv rv <= lv)%Q).
Proof.
  intros Hlr Hlt Htr. unfold interp.
  set (rho := ((t - tl) / (tr - tl))%Q).
  assert (0 < tr - tl)%Q as Hpos by lra.
  assert (0 <= rho)%Q as H0.
  { unfold rho. apply Qle_shift_div_l; [exact Hpos|]. lra. }
  assert (rho <= 1)%Q as H1.
  { unfold rho. apply Qle_shift_div_r; [exact Hpos|]. lra. }
  split; intros Hv; split; nra.
Qed.

(* interpolation at whole steps of the gap is exact linear *)
Theorem aware_between_bounds M prov fb l r scale from to t lv rv lw :
  build M = Ok prov -> In l M -> In r M -> has_ts l = true -> m_index r = m_index l ->
  NoDup (map ts_key (group_raw M (m_index l))) ->
  ts_key l < ztrunc t -> ztrunc t < ts_key r ->
  (forall x, In x M -> m_index x = m_index l -> ~ (ts_key l < ts_key x /\ ts_key x < ts_key r)) ->
  nth_error (m_dur l) (from * psize prov + to) = Some lv ->
  nth_error (m_dur r) (from * psize prov + to) = Some rv ->
  nth_error (m_dist l) (from * psize prov + to) = Some lw ->
  (0 <= lv)%Q -> (0 <= rv)%Q ->
  exists d, duration prov fb (m_index l) scale from to t = Val (d * scale)%Q /\
            (ts_of l < t)%Q /\ (t < ts_of r)%Q /\
            ((lv <= rv)%Q -> (lv <= d)%Q /\ (d <= rv)%Q) /\ ((rv <= lv)%Q -> (rv <= d)%Q /\ (d <= lv)%Q).
Proof.
  intros H Hl Hr Hts Hidx Hnd Hlt Htr Hadj Hlv Hrv Hlw Hn1 Hn2.
  destruct (aware_between M prov fb l r scale from to t lv rv lw H Hl Hr Hts Hidx Hnd Hlt Htr Hadj Hlv Hrv Hlw Hn1 Hn2) as [Hd _].
  exists (interp t (ts_of l) (ts_of r) lv rv). split; [exact Hd|].
  assert (ts_of l < t)%Q as A by (apply ztrunc_lt_real; exact Hlt).
  assert (t < ts_of r)%Q as B by (apply ztrunc_lt_real; exact Htr).
  split; [exact A|]. split; [exact B|].
  apply interp_bounds; lra.
Qed.

(* ------------------------------------------------------------------ witnesses for the two deviations (findings) *)
Definition bad_square_set : list matrix := [mkMz 0 None [1; 2; 3] [5; 6; 7]].

(* finding C16-F1, about the function as it was BEFORE repair 17fc8e9 (build_prefix); the repaired build rejects the set *)
Theorem inconsistent_rejected_prefix_refuted :
  exists M p, ~ consistent M /\ build_prefix M = Ok p /\ psize p = 2%nat /\
              duration p no_fallback 0 1%Q 1 1 0%Q = Panic /\ build M = Err ENotSquare.
Proof.
  exists bad_square_set. eexists.
  split; [|split; [vm_compute; reflexivity|split; [vm_compute; reflexivity|split; vm_compute; reflexivity]]].
  intros [_ [[n Hn] _]]. destruct (Hn _ (or_introl eq_refl)) as [E _]. cbn in E.
  destruct n as [|[|[|n]]]; cbn in E; lia.
Qed.

(* on square data of one size the repair changes nothing *)
Lemma build_prefix_agrees M n :
  (forall m, In m M -> length (m_dur m) = (n * n)%nat /\ length (m_dist m) = (n * n)%nat) -> build M = build_prefix M.
Proof.
  intros Hsq. unfold build, build_prefix. destruct M as [|c0 rest]; [reflexivity|].
  set (M := c0 :: rest) in *. set (size := rsqrt (length (m_dur c0))).
  assert (size = n) as Hs.
  { unfold size. destruct (Hsq c0 (or_introl eq_refl)) as [E _]. rewrite E. apply rsqrt_square. }
  destruct (existsb (fun m => negb (length (m_dist m) =? length (m_dur m))%nat) M); [reflexivity|].
  destruct (existsb (fun m => negb (rsqrt (length (m_dist m)) =? size)%nat) M); [reflexivity|].
  destruct (existsb (fun m => negb (rsqrt (length (m_dur m)) =? size)%nat) M); [reflexivity|].
  destruct (existsb (fun m => negb (((length (m_dist m) =? size * size) && (length (m_dur m) =? size * size))%nat)) M) eqn:E4;
    [|reflexivity].
  exfalso. apply existsb_exists in E4. destruct E4 as [m [Hm A]]. destruct (Hsq m Hm) as [A1 A2].
  rewrite Hs, A1, A2, Nat.eqb_refl in A. discriminate.
Qed.

Definition two_stamp_set : list matrix :=
  [mkMz 0 (Some (10, 1)) [0; 10; 20; 0] [0; 100; 200; 0]; mkMz 0 (Some (18, 1)) [0; 50; 60; 0] [0; 500; 600; 0]].

(* the statement "linear in (real) time strictly between two neighbouring matrices" fails at t = 10.5 *)
Theorem aware_linear_in_real_time_refuted :
  exists M prov l r t d,
    build M = Ok prov /\ In l M /\ In r M /\ m_index r = m_index l /\
    (ts_of l < t)%Q /\ (t < ts_of r)%Q /\
    (forall x, In x M -> m_index x = m_index l -> ~ ((ts_of l < ts_of x)%Q /\ (ts_of x < ts_of r)%Q)) /\
    nth_error (m_dur l) 1 = Some (10 # 1)%Q /\ nth_error (m_dur r) 1 = Some (50 # 1)%Q /\
    duration prov no_fallback (m_index l) 1%Q 0 1 t = Val d /\
    ~ (d == interp t (ts_of l) (ts_of r) (10 # 1) (50 # 1) * 1)%Q.
Proof.
  exists two_stamp_set. eexists.
  exists (mkMz 0 (Some (10, 1)) [0; 10; 20; 0] [0; 100; 200; 0]).
  exists (mkMz 0 (Some (18, 1)) [0; 50; 60; 0] [0; 500; 600; 0]).
  exists (21 # 2)%Q. exists (10 # 1)%Q.
  split; [vm_compute; reflexivity|]. split; [left; reflexivity|]. split; [right; left; reflexivity|].
  split; [reflexivity|]. split; [vm_compute; reflexivity|]. split; [vm_compute; reflexivity|].
  split.
  { intros x [<-|[<-|[]]] _ [A B]; vm_compute in A, B; discriminate. }
  split; [reflexivity|]. split; [reflexivity|]. split; [vm_compute; reflexivity|].
  vm_compute. discriminate.
Qed.

(* ------------------------------------------------------------------ pragmatic mapping *)
Lemma with_codes_spec codes : forall i times dists du di,
  with_codes codes i times dists = Some (du, di) ->
  forall k e, nth_error codes k = Some e ->
    (e > 0 -> nth_error du k = Some (-1 # 1)%Q /\ nth_error di k = Some (-1 # 1)%Q) /\
    (e <= 0 -> exists tv dv, nth_error times (i + k) = Some tv /\ nth_error dists (i + k) = Some dv /\
                             nth_error du k = Some (inject_Z tv) /\ nth_error di k = Some (inject_Z dv)).
Proof.
  induction codes as [|c r IH]; intros i times dists du di H k e Hk; [destruct k; discriminate|].
  cbn [with_codes] in H. destruct (c >? 0) eqn:Ec.
  - destruct (with_codes r (S i) times dists) as [[du' di']|] eqn:Er; [|discriminate]. inversion H; subst.
    destruct k as [|k]; cbn [nth_error] in *.
    + inversion Hk; subst. split; [intros _; split; reflexivity|lia].
    + replace (i + S k)%nat with (S i + k)%nat by lia. eapply IH; eassumption.
  - destruct (nth_error times i) as [tv|] eqn:Et; [|discriminate].
    destruct (nth_error dists i) as [dv|] eqn:Ed; [|discriminate].
    destruct (with_codes r (S i) times dists) as [[du' di']|] eqn:Er; [|discriminate]. inversion H; subst.
    destruct k as [|k]; cbn [nth_error] in *.
    + inversion Hk; subst. split; [lia|]. intros _. exists tv, dv. rewrite Nat.add_0_r. repeat split; assumption.
    + replace (i + S k)%nat with (S i + k)%nat by lia. eapply IH; eassumption.
Qed.

Theorem unreachable_negative pm codes du di k e scale :
  pm_err pm = Some codes -> pm_data pm = Some (du, di) -> nth_error codes k = Some e -> e > 0 ->
  nth_error du k = Some (-1 # 1)%Q /\ nth_error di k = Some (-1 # 1)%Q /\
  ((0 < scale)%Q -> ((-1 # 1) * scale < 0)%Q) /\ ((-1 # 1) < 0)%Q.
Proof.
  intros He Hd Hk Hpos. unfold pm_data in Hd. rewrite He in Hd.
  destruct (length codes <? length (pm_dists pm))%nat; [discriminate|]. destruct (negb _); [discriminate|].
  destruct (with_codes_spec _ _ _ _ _ _ Hd k e Hk) as [A _]. destruct (A Hpos) as [A1 A2].
  split; [exact A1|]. split; [exact A2|]. split; [intros; nra|reflexivity].
Qed.

Theorem reachable_exact pm codes du di k e :
  pm_err pm = Some codes -> pm_data pm = Some (du, di) -> nth_error codes k = Some e -> e <= 0 ->
  exists tv dv, nth_error (pm_times pm) k = Some tv /\ nth_error (pm_dists pm) k = Some dv /\
                nth_error du k = Some (inject_Z tv) /\ nth_error di k = Some (inject_Z dv).
Proof.
  intros He Hd Hk Hle. unfold pm_data in Hd. rewrite He in Hd.
  destruct (length codes <? length (pm_dists pm))%nat; [discriminate|]. destruct (negb _); [discriminate|].
  destruct (with_codes_spec _ _ _ _ _ _ Hd k e Hk) as [_ B]. exact (B Hle).
Qed.

Theorem no_codes_exact pm du di k :
  pm_err pm = None -> pm_data pm = Some (du, di) ->
  nth_error du k = option_map inject_Z (nth_error (pm_times pm) k) /\
  nth_error di k = option_map inject_Z (nth_error (pm_dists pm) k).
Proof.
  intros He Hd. unfold pm_data in Hd. rewrite He in Hd. inversion Hd; subst.
  split; rewrite nth_error_map; reflexivity.
Qed.

Lemma pm_convert_in names : forall pms pos data pm,
  pm_convert names pos pms = Some data -> In pm pms ->
  exists pos' du di, pm_data pm = Some (du, di) /\
    In (mkM (pm_index names pos' pm) (option_map inject_Z (pm_ts pm)) du di) data.
Proof.
  induction pms as [|x r IH]; intros pos data pm H Hin; [contradiction|].
  cbn [pm_convert] in H. destruct (pm_data x) as [[du di]|] eqn:Ed; [|discriminate].
  destruct (pm_convert names (S pos) r) as [ms|] eqn:Er; [|discriminate]. inversion H; subst.
  destruct Hin as [->|Hin].
  - exists pos, du, di. split; [exact Ed|left; reflexivity].
  - destruct (IH _ _ _ Er Hin) as [pos' [du' [di' [A B]]]]. exists pos', du', di'. split; [exact A|right; exact B].
Qed.

Lemma pm_convert_from names : forall pms pos data m,
  pm_convert names pos pms = Some data -> In m data ->
  exists pm, In pm pms /\ m_ts m = option_map inject_Z (pm_ts pm).
Proof.
  induction pms as [|x r IH]; intros pos data m H Hin; cbn [pm_convert] in H.
  - inversion H; subst. contradiction.
  - destruct (pm_data x) as [[du di]|] eqn:Ed; [|discriminate].
    destruct (pm_convert names (S pos) r) as [ms|] eqn:Er; [|discriminate]. inversion H; subst.
    destruct Hin as [<-|Hin].
    + exists x. split; [left; reflexivity|reflexivity].
    + destruct (IH _ _ _ Er Hin) as [pm [A B]]. exists pm. split; [right; exact A|exact B].
Qed.

Lemma prag_build_ok profiles pms prov : prag_build profiles pms = POk prov ->
  exists data, pm_convert (profile_names profiles) 0 pms = Some data /\ build data = Ok prov.
Proof.
  unfold prag_build. destruct (_ && _); [discriminate|]. destruct (_ && _); [discriminate|].
  destruct (_ <? _)%nat; [discriminate|].
  destruct (pm_convert (profile_names profiles) 0 pms) as [data|]; [|discriminate].
  destruct (negb _); [discriminate|]. destruct (build data) eqn:E; [|discriminate].
  intros H. inversion H; subst. exists data. split; [reflexivity|exact E].
Qed.

(* a vehicle whose profile is called [name] is served by the matrix supplied under that name,
   durations multiplied by the vehicle's scale (default 1), distances unscaled *)
Theorem prag_named_exact profiles pms prov pm name sc k scale fb from to t du di v w :
  prag_build profiles pms = POk prov ->
  (forall x, In x pms -> pm_ts x = None) ->
  In pm pms -> pm_profile pm = Some name ->
  vehicle_profile profiles name sc = Some (k, scale) ->
  pm_data pm = Some (du, di) ->
  nth_error du (from * psize prov + to) = Some v ->
  nth_error di (from * psize prov + to) = Some w ->
  scale = match sc with Some s => s | None => 1%Q end /\
  duration prov fb k scale from to t = Val (v * scale)%Q /\
  distance prov fb k from to t = Val w.
Proof.
  intros H Hts Hin Hname Hveh Hd Hv Hw.
  destruct (prag_build_ok _ _ _ H) as [data [Hc Hb]].
  destruct (pm_convert_in _ _ _ _ _ Hc Hin) as [pos' [du' [di' [Hd' Hm]]]].
  rewrite Hd in Hd'. inversion Hd'; subst du' di'.
  unfold vehicle_profile in Hveh. destruct (index_of name (profile_names profiles)) as [k'|] eqn:Ei; [|discriminate].
  inversion Hveh; subst k' scale. split; [reflexivity|].
  set (m := mkM (pm_index (profile_names profiles) pos' pm) (option_map inject_Z (pm_ts pm)) du di) in *.
  assert (m_index m = k) as Hk by (cbn; unfold pm_index; rewrite Hname, Ei; reflexivity).
  rewrite <- Hk. apply (agnostic_exact data prov fb m); try assumption.
  intros x Hx. destruct (pm_convert_from _ _ _ _ _ Hc Hx) as [pm' [Hp' Ht']]. rewrite Ht', (Hts pm' Hp'). reflexivity.
Qed.

(* ------------------------------------------------------------------ SimpleTransportCost *)
Theorem simple_exact du di n from to v :
  length du = (n * n)%nat -> length di = (n * n)%nat ->
  simple_new du di = Some n /\
  (nth_error du (from * n + to) = Some v -> simple_get du n from to = v).
Proof.
  intros H1 H2. unfold simple_new, simple_get. rewrite H1, H2, rsqrt_square, Nat.eqb_refl.
  split; [reflexivity|]. intros ->. reflexivity.
Qed.

(* ------------------------------------------------------------------ coordinate based providers *)
Lemma nth_error_grid {A B C} (f : A -> B -> C) (lb : list B) : forall (la : list A) i j a b,
  nth_error la i = Some a -> nth_error lb j = Some b ->
  nth_error (flat_map (fun a => map (f a) lb) la) (i * length lb + j) = Some (f a b).
Proof.
  induction la as [|x r IH]; intros i j a b Ha Hb; [destruct i; discriminate|].
  cbn [flat_map]. destruct i as [|i]; cbn [nth_error] in Ha.
  - inversion Ha; subst. cbn [Nat.mul Nat.add]. rewrite nth_error_app1.
    + apply map_nth_error. exact Hb.
    + rewrite map_length. apply nth_error_Some. congruence.
  - replace (S i * length lb + j)%nat with (length (map (f x) lb) + (i * length lb + j))%nat
      by (rewrite map_length; lia).
    rewrite nth_error_app2 by lia.
    replace (length (map (f x) lb) + (i * length lb + j) - length (map (f x) lb))%nat with (i * length lb + j)%nat by lia.
    apply IH; assumption.
Qed.

Lemma length_grid {A B C} (f : A -> B -> C) (lb : list B) (la : list A) :
  length (flat_map (fun a => map (f a) lb) la) = (length la * length lb)%nat.
Proof.
  induction la as [|x r IH]; [reflexivity|]. cbn [flat_map length]. rewrite app_length, map_length, IH. lia.
Qed.

Lemma euclid_sym a b : euclid_rounded a b = euclid_rounded b a.
Proof. unfold euclid_rounded. f_equal. ring. Qed.
Lemma euclid_diag a : euclid_rounded a a = 0.
Proof. unfold euclid_rounded. rewrite !Z.sub_diag. reflexivity. Qed.

Theorem sci_exact_symmetric locs i j a b :
  nth_error locs i = Some a -> nth_error locs j = Some b ->
  sci_new (sci_values locs) = Some (length locs) /\
  sci_get (sci_values locs) (length locs) i j = Some (euclid_rounded a b) /\
  sci_get (sci_values locs) (length locs) i j = sci_get (sci_values locs) (length locs) j i /\
  sci_get (sci_values locs) (length locs) i i = Some 0.
Proof.
  intros Ha Hb. unfold sci_new, sci_get, sci_values.
  rewrite length_grid. split.
  - rewrite Nat2Z.inj_mul, Z.sqrt_square by lia. rewrite Nat2Z.id, Nat.eqb_refl. reflexivity.
  - pose proof (nth_error_grid (fun a b => euclid_rounded a b) locs locs i j a b Ha Hb) as G1.
    pose proof (nth_error_grid (fun a b => euclid_rounded a b) locs locs j i b a Hb Ha) as G2.
    pose proof (nth_error_grid (fun a b => euclid_rounded a b) locs locs i i a a Ha Ha) as G3.
    cbn beta in G1, G2, G3. rewrite G1, G2, G3.
    rewrite euclid_diag, (euclid_sym b a). repeat split.
Qed.

Section ApproxP.
  Context {L : Type} (hav : L -> L -> Q) (rnd : Q -> Z).
  Hypothesis hav_sym : forall a b, hav a b = hav b a.
  Hypothesis hav_diag : forall a, (hav a a == 0)%Q.
  Hypothesis rnd_compat : forall x y, (x == y)%Q -> rnd x = rnd y.
  Hypothesis rnd_zero : rnd 0%Q = 0.

  Theorem approx_symmetric_zero_diag (locs : list L) speed i j a b :
    nth_error locs i = Some a -> nth_error locs j = Some b ->
    let n := length locs in
    nth_error (approx_distances hav rnd locs) (i * n + j) = nth_error (approx_distances hav rnd locs) (j * n + i) /\
    nth_error (approx_durations hav rnd speed locs) (i * n + j) = nth_error (approx_durations hav rnd speed locs) (j * n + i) /\
    nth_error (approx_distances hav rnd locs) (i * n + i) = Some 0 /\
    nth_error (approx_durations hav rnd speed locs) (i * n + i) = Some 0.
  Proof.
    intros Ha Hb n. unfold approx_distances, approx_durations, n.
    pose proof (nth_error_grid (fun a b => rnd (hav a b)) locs locs i j a b Ha Hb) as G1.
    pose proof (nth_error_grid (fun a b => rnd (hav a b)) locs locs j i b a Hb Ha) as G2.
    pose proof (nth_error_grid (fun a b => rnd (hav a b)) locs locs i i a a Ha Ha) as G3.
    pose proof (nth_error_grid (fun a b => rnd (hav a b / speed)%Q) locs locs i j a b Ha Hb) as G4.
    pose proof (nth_error_grid (fun a b => rnd (hav a b / speed)%Q) locs locs j i b a Hb Ha) as G5.
    pose proof (nth_error_grid (fun a b => rnd (hav a b / speed)%Q) locs locs i i a a Ha Ha) as G6.
    cbn beta in G1, G2, G3, G4, G5, G6. rewrite G1, G2, G3, G4, G5, G6.
    rewrite (hav_sym b a). repeat split.
    - f_equal. rewrite <- rnd_zero. apply rnd_compat. apply hav_diag.
    - f_equal. rewrite <- rnd_zero. apply rnd_compat. rewrite (hav_diag a). unfold Qdiv. ring.
  Qed.
End ApproxP.

(* ------------------------------------------------------------------ non-vacuity *)
Definition two_profile_set : list matrix :=
  [mkMz 1 None [1; 2; 3; 4] [5; 6; 7; 8]; mkMz 0 None [11; 12; 13; 14] [15; 16; 17; 18]].

Theorem nonvacuous_agnostic :
  exists M prov m, consistent M /\ build M = Ok prov /\ (forall x, In x M -> m_ts x = None) /\ In m M /\
    m_index m = 1%nat /\ psize prov = 2%nat /\
    nth_error (m_dur m) (1 * psize prov + 0) = Some (3 # 1)%Q /\
    duration prov no_fallback 1 (3 # 2)%Q 1 0 0%Q = Val ((3 # 1) * (3 # 2))%Q.
Proof.
  exists two_profile_set. eexists. exists (mkMz 1 None [1; 2; 3; 4] [5; 6; 7; 8]).
  split.
  { split; [discriminate|]. split.
    - exists 2%nat. intros m [<-|[<-|[]]]; split; reflexivity.
    - left. split; [intros m [<-|[<-|[]]]; reflexivity|]. cbn. apply perm_swap. }
  split; [vm_compute; reflexivity|]. split; [intros x [<-|[<-|[]]]; reflexivity|].
  split; [left; reflexivity|]. repeat split.
Qed.

Theorem nonvacuous_aware :
  exists M prov l r t,
    consistent M /\ build M = Ok prov /\ In l M /\ In r M /\ has_ts l = true /\ m_index r = m_index l /\
    NoDup (map ts_key (group_raw M (m_index l))) /\
    ts_key l < ztrunc t /\ ztrunc t < ts_key r /\
    (forall x, In x M -> m_index x = m_index l -> ~ (ts_key l < ts_key x /\ ts_key x < ts_key r)) /\
    nth_error (m_dur l) (0 * psize prov + 1) = Some (10 # 1)%Q /\
    nth_error (m_dur r) (0 * psize prov + 1) = Some (50 # 1)%Q /\
    exists d, duration prov no_fallback (m_index l) 1%Q 0 1 t = Val d /\ (d == 15 # 1)%Q.
Proof.
  exists two_stamp_set. eexists.
  exists (mkMz 0 (Some (10, 1)) [0; 10; 20; 0] [0; 100; 200; 0]).
  exists (mkMz 0 (Some (18, 1)) [0; 50; 60; 0] [0; 500; 600; 0]).
  exists (11 # 1)%Q.
  split.
  { split; [discriminate|]. split.
    - exists 2%nat. intros m [<-|[<-|[]]]; split; reflexivity.
    - right. split; intros m [<-|[<-|[]]]; vm_compute; discriminate. }
  split; [vm_compute; reflexivity|]. split; [left; reflexivity|]. split; [right; left; reflexivity|].
  split; [reflexivity|]. split; [reflexivity|].
  split.
  { vm_compute. constructor; [intros [E|[]]; discriminate|]. constructor; [intros []|constructor]. }
  split; [vm_compute; reflexivity|]. split; [vm_compute; reflexivity|].
  split.
  { intros x [<-|[<-|[]]] _ [A B]; vm_compute in A, B; discriminate. }
  split; [reflexivity|]. split; [reflexivity|].
  eexists. split; [vm_compute; reflexivity|]. vm_compute. reflexivity.
Qed.
