(* C06, multi-task jobs: the result of eval_multi is a list of (activity, index) steps, each accepted on the
   shadow tour with refreshed state; any such certificate yields a feasible tour. *)
From VRP Require Import Base.Tac Model.Core Spec.Feasible Model.Eval Proofs.CoreTimeP Proofs.CoreCapP Proofs.CoreEvalP.

Section S.
Variable dur : Z -> Z -> Z.

Lemma sim_time_resched : forall r loc dep loc' dep',
  sim_time dur loc dep (resched_from dur loc' dep' r) = sim_time dur loc dep r.
Proof. induction r as [|a r IH]; intros; cbn [resched_from sim_time]; [reflexivity|]. cbn [a_loc a_twe a_tws a_svc set_sched]. rewrite IH. reflexivity. Qed.

Lemma sim_load_resched : forall r cap l loc' dep',
  sim_load cap l (resched_from dur loc' dep' r) = sim_load cap l r.
Proof. induction r as [|a r IH]; intros; cbn [resched_from sim_load]; [reflexivity|]. cbn [a_dem set_sched]. rewrite IH. reflexivity. Qed.

Lemma tsd_resched : forall r loc' dep',
  total_static_delivery (resched_from dur loc' dep' r) = total_static_delivery r.
Proof. unfold total_static_delivery. induction r as [|a r IH]; intros; cbn [resched_from fold_right]; [reflexivity|]. cbn [a_dem set_sched]. rewrite IH. reflexivity. Qed.

Lemma feasible_resched : forall v t, feasible dur v (reschedule dur t) = feasible dur v t.
Proof.
  intros v [|s r]; [reflexivity|]. unfold feasible, time_feasible, load_feasible, reschedule.
  rewrite sim_time_resched. f_equal.
  change (total_static_delivery (s :: resched_from dur (a_loc s) (a_dep s) r)) with (d_ds (a_dem s) + total_static_delivery (resched_from dur (a_loc s) (a_dep s) r)).
  change (total_static_delivery (s :: r)) with (d_ds (a_dem s) + total_static_delivery r).
  rewrite tsd_resched. cbn [sim_load]. rewrite sim_load_resched. reflexivity.
Qed.

Lemma sched_ok_reschedule : forall t, sched_ok dur (reschedule dur t).
Proof. intros [|s r]; cbn; [exact I|]. apply sched_ok_resched. Qed.

Lemma hd_reschedule : forall t d, hd d (reschedule dur t) = hd d t.
Proof. intros [|s r] d; reflexivity. Qed.

Lemma hd_insert_after : forall t idx a d, t <> [] -> hd d (insert_after t idx a) = hd d t.
Proof. intros [|s r] idx a d H; [congruence|]. reflexivity. Qed.

End S.

Lemma eval_multi_none : forall w t idx a,
  eval_activity_multi w t idx a = None -> eval_activity (wdur w) (w_veh w) t idx a = None.
Proof.
  intros w t idx a. unfold eval_activity_multi, eval_activity, eval_cap.
  destruct (eval_time _ _ _ _ _); [discriminate|].
  destruct (demand_violation (w_veh w) t idx (a_dem a) true); [discriminate|]. reflexivity.
Qed.

Theorem cert_steps_sound : forall w steps t t',
  t <> [] ->
  sched_ok (wdur w) t ->
  (forall d, d_change (a_dem (hd d t)) = 0) ->
  Forall (fun s => simple_demand (a_dem (snd s))) steps ->
  feasible (wdur w) (w_veh w) t = true ->
  cert_steps w t steps = (true, t') ->
  feasible (wdur w) (w_veh w) t' = true.
Proof.
  intros w steps; induction steps as [|[idx a] steps IH]; intros t t' Hne Hs Hh Hd Hf Hc.
  - cbn in Hc. inversion Hc; subst. exact Hf.
  - cbn [cert_steps] in Hc.
    destruct (idx <? length t)%nat eqn:El; [|discriminate].
    destruct (eval_activity_multi w t idx a) eqn:Ee; [discriminate|].
    inversion Hd as [|? ? Hda Hd']; subst. cbn [snd] in Hda.
    apply (IH (reschedule (wdur w) (insert_after t idx a)) t'); try assumption.
    + destruct t as [|s r]; [congruence|]. cbn. discriminate.
    + apply sched_ok_reschedule.
    + intros d. rewrite hd_reschedule, hd_insert_after by assumption. apply Hh.
    + rewrite feasible_resched. apply eval_activity_sound; try assumption.
      * apply Nat.ltb_lt. exact El.
      * apply Hh.
      * apply eval_multi_none. exact Ee.
Qed.
