(* C06: the evaluator's per-position verdict vs. the simulation, on whole tours. *)
From VRP Require Import Base.Tac Model.Core Spec.Feasible Proofs.CoreTimeP Proofs.CoreCapP.

(* one activity carries either static demand (pickup and/or delivery: an exchange stop, e.g. a merged job, may have both)
   or one kind of dynamic (shipment) demand: dynamic pickup | dynamic delivery *)
Definition simple_demand (d : demand) : Prop :=
  0 <= d_ps d /\ 0 <= d_pd d /\ 0 <= d_ds d /\ 0 <= d_dd d /\
  ((d_pd d = 0 /\ d_dd d = 0) \/ (d_ps d = 0 /\ d_ds d = 0 /\ d_dd d = 0) \/ (d_ps d = 0 /\ d_pd d = 0 /\ d_ds d = 0)).

Lemma Forall_map_iff {A B} (f : A -> B) (P : B -> Prop) l : Forall P (map f l) <-> Forall (fun x => P (f x)) l.
Proof. induction l as [|a l IH]; cbn; split; intros H; try constructor; inversion H; subst; try tauto; constructor; tauto. Qed.

Section Cap.
Variables (A : list act) (p : act) (B : list act) (x : act) (v : vehicle).
Hypothesis Hstart : d_change (a_dem (hd p A)) = 0.     (* the tour start carries no demand *)
Let t := A ++ p :: B.
Let cap := v_cap v.

Lemma L0_in_cA : In (start_delivery t) (currents (start_delivery t) (A ++ [p])).
Proof.
  generalize (start_delivery t). intros L. destruct A as [|a A']; cbn [app currents hd] in *.
  - left. lia.
  - left. lia.
Qed.

Lemma load_feasible_split : forall t0, load_feasible (v_cap v) t0 = true <->
  start_delivery t0 <= v_cap v /\ Forall (fun c => c <= v_cap v) (cur_states t0).
Proof.
  intros t0. unfold load_feasible. rewrite andb_true_iff, sim_load_forall, <- start_delivery_eq. unfold cur_states.
  rewrite Z.leb_le. tauto.
Qed.

Lemma cap_sound : forall st,
  simple_demand (a_dem x) ->
  load_feasible cap t = true ->
  demand_violation v t (length A) (a_dem x) st = None ->
  load_feasible cap (A ++ p :: x :: B) = true.
Proof.
  intros st Hd Hf Hv. unfold cap, t in *. apply load_feasible_split in Hf as [Hf0 Hf].
  apply load_feasible_split.
  rewrite (cur_after_insert A p B x).
  rewrite (cur_split A p B) in Hf. apply Forall_app in Hf as [HfA HfB].
  set (t' := A ++ p :: B) in *. set (L0 := start_delivery t') in *. set (c := sumch L0 (A ++ [p])) in *.
  set (cA := currents L0 (A ++ [p])) in *. set (cB := currents c B) in *.
  pose proof (in_cA_le_past A p B) as HP. pose proof (in_cB_le_fut A p B) as HF. pose proof (cur_at A p B) as HC.
  fold t' L0 c cA cB in HP, HF, HC.
  assert (HL0 : L0 <= nthz (past_states t') (length A)) by (apply HP, L0_in_cA).
  assert (Hc : c <= nthz (fut_states t') (length A)) by (apply HF; left; reflexivity).
  assert (Hccap : c <= v_cap v).
  { destruct (cA_shape A p B) as (X & HX & _). fold t' L0 c cA in HX. rewrite HX in HfA.
    apply Forall_app in HfA as [_ HfA]. inversion HfA; assumption. }
  unfold demand_violation in Hv. rewrite HC in Hv.
  set (P := nthz (past_states t') (length A)) in *. set (F := nthz (fut_states t') (length A)) in *.
  destruct Hd as (H1 & H2 & H3 & H4 & Hk). unfold d_change in *.
  assert (Hsum : start_delivery (A ++ p :: x :: B) = L0 + d_ds (a_dem x)).
  { unfold L0, t'. rewrite !start_delivery_eq.
    replace (A ++ p :: x :: B) with ((A ++ [p]) ++ x :: B) by (rewrite <- app_assoc; reflexivity).
    replace (A ++ p :: B) with ((A ++ [p]) ++ B) by (rewrite <- app_assoc; reflexivity).
    rewrite !total_static_delivery_app. cbn. unfold total_static_delivery. lia. }
  rewrite Hsum.
  destruct (negb (d_ds (a_dem x) =? 0) && (v_cap v <? P + d_ds (a_dem x))) eqn:E1; [discriminate|].
  destruct (negb (d_ps (a_dem x) =? 0) && (v_cap v <? F + d_ps (a_dem x))) eqn:E2; [discriminate|].
  destruct (negb (d_ps (a_dem x) + d_pd (a_dem x) - d_ds (a_dem x) - d_dd (a_dem x) =? 0) &&
            ((v_cap v <? F + (d_ps (a_dem x) + d_pd (a_dem x) - d_ds (a_dem x) - d_dd (a_dem x))) ||
             (v_cap v <? c + (d_ps (a_dem x) + d_pd (a_dem x) - d_ds (a_dem x) - d_dd (a_dem x))))) eqn:E3; [discriminate|].
  split; [lia|].
  apply Forall_app; split; [|constructor].
  - apply Forall_map_iff. rewrite Forall_forall in *. intros z Hz. specialize (HP z Hz). specialize (HfA z Hz). lia.
  - lia.
  - apply Forall_map_iff. rewrite Forall_forall in *. intros z Hz. specialize (HF z (or_intror Hz)). specialize (HfB z Hz). lia.
Qed.

Lemma cap_complete : forall st,
  simple_demand (a_dem x) -> 0 <= start_delivery t ->
  load_feasible cap t = true ->
  load_feasible cap (A ++ p :: x :: B) = true ->
  demand_violation v t (length A) (a_dem x) st = None.
Proof.
  intros st Hd Hnn Hf Hi. unfold cap, t in *. apply load_feasible_split in Hf as [Hf0 Hf].
  apply load_feasible_split in Hi as [Hi0 Hi].
  rewrite (cur_after_insert A p B x) in Hi.
  rewrite (cur_split A p B) in Hf. apply Forall_app in Hf as [HfA HfB].
  set (t' := A ++ p :: B) in *. set (L0 := start_delivery t') in *. set (c := sumch L0 (A ++ [p])) in *.
  set (cA := currents L0 (A ++ [p])) in *. set (cB := currents c B) in *.
  pose proof (past_attained A p B) as HP. pose proof (fut_attained A p B) as HF. pose proof (cur_at A p B) as HC.
  fold t' L0 c cA cB in HP, HF, HC.
  apply Forall_app in Hi as [HiA HiB]. inversion HiB as [|? ? Hic HiB']; subst.
  apply (proj1 (Forall_map_iff (fun z => z + d_ds (a_dem x)) (fun c => c <= v_cap v) cA)) in HiA.
  apply (proj1 (Forall_map_iff (fun z => z + (d_ds (a_dem x) + d_change (a_dem x))) (fun c => c <= v_cap v) cB)) in HiB'.
  assert (Hsum : start_delivery (A ++ p :: x :: B) = L0 + d_ds (a_dem x)).
  { unfold L0, t'. rewrite !start_delivery_eq.
    replace (A ++ p :: x :: B) with ((A ++ [p]) ++ x :: B) by (rewrite <- app_assoc; reflexivity).
    replace (A ++ p :: B) with ((A ++ [p]) ++ B) by (rewrite <- app_assoc; reflexivity).
    rewrite !total_static_delivery_app. cbn. unfold total_static_delivery. lia. }
  rewrite Hsum in Hi0.
  assert (Hccap : c <= v_cap v).
  { destruct (cA_shape A p B) as (X & HX & _). fold t' L0 c cA in HX. rewrite HX in HfA.
    apply Forall_app in HfA as [_ HfA]. inversion HfA; assumption. }
  unfold demand_violation. rewrite HC.
  set (P := nthz (past_states t') (length A)) in *. set (F := nthz (fut_states t') (length A)) in *.
  destruct Hd as (H1 & H2 & H3 & H4 & Hk). unfold d_change in *.
  assert (HPb : P + d_ds (a_dem x) <= v_cap v).
  { destruct HP as [HP|HP]; [fold P in HP; lia|]. rewrite Forall_forall in HiA. specialize (HiA _ HP). fold P in HiA. lia. }
  assert (HFb : F + (d_ds (a_dem x) + (d_ps (a_dem x) + d_pd (a_dem x) - d_ds (a_dem x) - d_dd (a_dem x))) <= v_cap v).
  { destruct HF as [HF|HF]; [lia|]. rewrite Forall_forall in HiB'. specialize (HiB' _ HF). lia. }
  assert (HFc : F <= v_cap v).
  { destruct HF as [HF|HF]; [lia|]. rewrite Forall_forall in HfB. specialize (HfB _ HF). lia. }
  destruct (negb (d_ds (a_dem x) =? 0) && (v_cap v <? P + d_ds (a_dem x))) eqn:E1; [lia|].
  destruct (negb (d_ps (a_dem x) =? 0) && (v_cap v <? F + d_ps (a_dem x))) eqn:E2; [lia|].
  destruct (negb (d_ps (a_dem x) + d_pd (a_dem x) - d_ds (a_dem x) - d_dd (a_dem x) =? 0) &&
            ((v_cap v <? F + (d_ps (a_dem x) + d_pd (a_dem x) - d_ds (a_dem x) - d_dd (a_dem x))) ||
             (v_cap v <? c + (d_ps (a_dem x) + d_pd (a_dem x) - d_ds (a_dem x) - d_dd (a_dem x))))) eqn:E3; [lia|].
  reflexivity.
Qed.
End Cap.

(* ---------- whole tours, index form ---------- *)
Lemma split_at {X} (t : list X) (idx : nat) (d : X) : (idx < length t)%nat ->
  t = firstn idx t ++ nth idx t d :: skipn (S idx) t /\ length (firstn idx t) = idx.
Proof.
  revert idx; induction t as [|a t IH]; intros idx H; cbn in H; [lia|].
  destruct idx as [|idx]; cbn [firstn nth skipn app length].
  - split; reflexivity.
  - destruct (IH idx ltac:(lia)) as [E L]. split; [f_equal; exact E|f_equal; exact L].
Qed.

Lemma insert_after_split (t : list act) idx d a : (idx < length t)%nat ->
  insert_after t idx a = firstn idx t ++ nth idx t d :: a :: skipn (S idx) t.
Proof.
  intros H. unfold insert_after.
  assert (E : firstn (S idx) t = firstn idx t ++ [nth idx t d]).
  { revert idx H; induction t as [|x t IH]; intros idx H; cbn in H; [lia|].
    destruct idx as [|idx]; [reflexivity|]. cbn [firstn nth app]. f_equal. apply IH. lia. }
  rewrite E, <- app_assoc. reflexivity.
Qed.

Lemma cap_complete_idx : forall v t k x st,
  (k < length t)%nat -> (forall d, d_change (a_dem (hd d t)) = 0) -> simple_demand (a_dem x) ->
  0 <= start_delivery t -> load_feasible (v_cap v) t = true -> load_feasible (v_cap v) (insert_after t k x) = true ->
  demand_violation v t k (a_dem x) st = None.
Proof.
  intros v t k x st Hk Hst Hd Hnn Hfl Hil.
  destruct (split_at t k x Hk) as [Et Hl].
  rewrite (insert_after_split t k x x Hk) in Hil.
  set (A := firstn k t) in *. set (q := nth k t x) in *. set (B := skipn (S k) t) in *.
  pose proof (Hst q) as Hst'. rewrite <- Hl. rewrite Et. rewrite Et in Hfl, Hst', Hnn.
  apply (cap_complete A q B x v); try assumption; try (destruct A; exact Hst').
Qed.

Section Whole.
Variable dur : Z -> Z -> Z.
Notation feasible := (feasible dur).
Notation eval_activity := (eval_activity dur).

Lemma time_feasible_insert : forall v A p B x,
  sched_ok dur (A ++ p :: B) ->
  eval_time dur v p x B = None ->
  time_feasible dur (A ++ p :: B) = true ->
  time_feasible dur (A ++ p :: x :: B) = true.
Proof.
  intros v A p B x Hs He Hf. destruct A as [|s A'].
  - cbn [app time_feasible] in *. apply (eval_time_sound dur v); assumption.
  - cbn [app time_feasible sched_ok] in *.
    assert (Hs' : sched_ok_from dur (a_loc s) (a_dep s) (A' ++ [p])).
    { apply (sched_ok_from_app dur _ B). rewrite <- app_assoc. exact Hs. }
    rewrite (sim_split dur A' p B _ _ Hs') in Hf. rewrite (sim_split dur A' p (x :: B) _ _ Hs').
    apply andb_true_iff in Hf as [Hf1 Hf2]. rewrite Hf1. cbn [andb].
    apply (eval_time_sound dur v); assumption.
Qed.

Lemma time_feasible_tail : forall A p B,
  sched_ok dur (A ++ p :: B) -> time_feasible dur (A ++ p :: B) = true ->
  sim_time dur (a_loc p) (a_dep p) B = true.
Proof.
  intros A p B Hs Hf. destruct A as [|s A'].
  - exact Hf.
  - cbn [app time_feasible sched_ok] in *.
    assert (Hs' : sched_ok_from dur (a_loc s) (a_dep s) (A' ++ [p])).
    { apply (sched_ok_from_app dur _ B). rewrite <- app_assoc. exact Hs. }
    rewrite (sim_split dur A' p B _ _ Hs') in Hf. apply andb_true_iff in Hf as [_ Hf]. exact Hf.
Qed.

Lemma time_feasible_insert_tail : forall A p B x,
  sched_ok dur (A ++ p :: B) -> time_feasible dur (A ++ p :: x :: B) = true ->
  sim_time dur (a_loc p) (a_dep p) (x :: B) = true.
Proof.
  intros A p B x Hs Hf. destruct A as [|s A'].
  - exact Hf.
  - cbn [app time_feasible sched_ok] in *.
    assert (Hs' : sched_ok_from dur (a_loc s) (a_dep s) (A' ++ [p])).
    { apply (sched_ok_from_app dur _ B). rewrite <- app_assoc. exact Hs. }
    rewrite (sim_split dur A' p (x :: B) _ _ Hs') in Hf. apply andb_true_iff in Hf as [_ Hf]. exact Hf.
Qed.

(* C06 soundness, single activity: an accepted position yields a tour the simulation finds feasible *)
Theorem eval_activity_sound : forall v t idx target,
  (idx < length t)%nat ->
  sched_ok dur t ->
  d_change (a_dem (hd target t)) = 0 ->
  simple_demand (a_dem target) ->
  feasible v t = true ->
  eval_activity v t idx target = None ->
  feasible v (insert_after t idx target) = true.
Proof.
  intros v t idx target Hidx Hs Hst Hd Hf He.
  destruct (split_at t idx target Hidx) as [Et Hl].
  rewrite (insert_after_split t idx target target Hidx).
  set (A := firstn idx t) in *. set (p := nth idx t target) in *. set (B := skipn (S idx) t) in *.
  unfold Core.eval_activity in He. fold p B in He.
  destruct (eval_time dur v p target B) eqn:ET; [discriminate|].
  destruct (eval_cap v t idx target) eqn:EC; [discriminate|]. clear He.
  unfold Feasible.feasible in *. apply andb_true_iff in Hf as [Hft Hfl].
  apply andb_true_iff; split.
  - rewrite Et in Hs, Hft. apply (time_feasible_insert v); assumption.
  - unfold eval_cap in EC. rewrite <- Hl in EC. rewrite Et in EC, Hfl, Hst.
    apply (cap_sound A p B target v) with (st := true); try assumption; try (destruct A; exact Hst).
Qed.

(* C06 completeness at an inner position (there is a next activity) for one place / one window *)
Theorem eval_activity_complete_inner : forall v t idx target,
  (S idx < length t)%nat ->
  sched_ok dur t ->
  (forall a b, 0 <= dur a b) -> 0 <= a_svc target ->
  Forall (fun a => a_tws a <= v_shift_end v) t -> a_tws target <= v_shift_end v ->
  d_change (a_dem (hd target t)) = 0 -> 0 <= start_delivery t ->
  simple_demand (a_dem target) ->
  feasible v t = true ->
  feasible v (insert_after t idx target) = true ->
  eval_activity v t idx target = None.
Proof.
  intros v t idx target Hidx Hs Hdur Hsvc Hw Hwt Hst Hnn Hd Hf Hi.
  assert (Hidx' : (idx < length t)%nat) by lia.
  destruct (split_at t idx target Hidx') as [Et Hl].
  rewrite (insert_after_split t idx target target Hidx') in Hi.
  set (A := firstn idx t) in *. set (p := nth idx t target) in *. set (B := skipn (S idx) t) in *.
  unfold Core.eval_activity. fold p B.
  unfold Feasible.feasible in *. apply andb_true_iff in Hf as [Hft Hfl]. apply andb_true_iff in Hi as [Hit Hil].
  assert (HB : exists n r, B = n :: r).
  { destruct B as [|n r] eqn:EB; [|eauto]. exfalso. apply (f_equal (@length act)) in Et. rewrite app_length in Et.
    cbn in Et. fold A in Hl. lia. }
  destruct HB as (n & r & EB).
  assert (Hin : forall a, In a t -> a_tws a <= v_shift_end v) by (apply Forall_forall; exact Hw).
  assert (ET : eval_time dur v p target B = None).
  { rewrite EB. apply eval_time_complete_inner; try assumption.
    - apply Hin. rewrite Et. apply in_or_app. right. left. reflexivity.
    - apply Hin. rewrite Et, EB. apply in_or_app. right. right. left. reflexivity.
    - rewrite <- EB. rewrite Et in Hs, Hft. apply (time_feasible_tail A p B); assumption.
    - rewrite <- EB. rewrite Et in Hs. apply (time_feasible_insert_tail A p B target); assumption. }
  rewrite ET.
  assert (EC : eval_cap v t idx target = None).
  { unfold eval_cap. rewrite <- Hl. rewrite Et. rewrite Et in Hfl, Hst, Hnn.
    apply (cap_complete A p B target v); try assumption; try (destruct A; exact Hst). }
  rewrite EC. reflexivity.
Qed.

End Whole.
