(* C11 — lemmas about the serde combinators and the generic round-trip tactic used by the generated codecs. *)
From VRP Require Import Base.Tac Base.Json Model.SerdeSem.
From Coq Require Import Eqdep_dec.
Open Scope string_scope.

(* ---- round-trip classes (instances are declared by the generated files after each lemma) ---- *)
Class RT {A} (enc : A -> json) (dec : json -> option A) : Prop :=
  rt : forall a, dec (enc a) = Some a.
(* round trip up to a normalisation (types containing the ambiguous untagged enum) *)
Class RTN {A} (enc : A -> json) (dec : json -> option A) (norm : A -> A) : Prop :=
  rtn : forall a, dec (enc a) = Some (norm a).
Class ENCN {A} (enc : A -> json) (norm : A -> A) : Prop :=
  encn : forall a, enc (norm a) = enc a.
(* serialised form is never `null` (so Option<T> distinguishes Some from None) *)
Class NN {A} (enc : A -> json) : Prop :=
  nn : forall a, is_null (enc a) = false.
(* decoder A rejects everything encoder B produces (untagged variant discrimination) *)
Class DJ {A B} (dec : json -> option A) (enc : B -> json) : Prop :=
  dj : forall b, dec (enc b) = None.

(* ---- bounded integers ---- *)
Lemma bool_uip (b c : bool) (p q : b = c) : p = q.
Proof. apply UIP_dec. apply Bool.bool_dec. Qed.

Lemma to_i64_val x : to_i64 (i64v x) = Some x.
Proof.
  destruct x as [z H]. unfold to_i64. cbn [i64v].
  generalize (@eq_refl bool (in_i64 z)).
  generalize (in_i64 z) at 2 3. intros b e. destruct b.
  - f_equal. f_equal. apply bool_uip.
  - congruence.
Qed.
Lemma to_usize_val x : to_usize (usizev x) = Some x.
Proof.
  destruct x as [z H]. unfold to_usize. cbn [usizev].
  generalize (@eq_refl bool (in_usize z)).
  generalize (in_usize z) at 2 3. intros b e. destruct b.
  - f_equal. f_equal. apply bool_uip.
  - congruence.
Qed.
Lemma to_i32_val x : to_i32 (i32v x) = Some x.
Proof.
  destruct x as [z H]. unfold to_i32. cbn [i32v].
  generalize (@eq_refl bool (in_i32 z)).
  generalize (in_i32 z) at 2 3. intros b e. destruct b.
  - f_equal. f_equal. apply bool_uip.
  - congruence.
Qed.
Lemma to_i64_some z x : to_i64 z = Some x -> i64v x = z.
Proof.
  unfold to_i64. generalize (@eq_refl bool (in_i64 z)). generalize (in_i64 z) at 2 3.
  intros b e. destruct b; intros E; inversion E. reflexivity.
Qed.
Lemma to_usize_some z x : to_usize z = Some x -> usizev x = z.
Proof.
  unfold to_usize. generalize (@eq_refl bool (in_usize z)). generalize (in_usize z) at 2 3.
  intros b e. destruct b; intros E; inversion E. reflexivity.
Qed.
Lemma to_i32_some z x : to_i32 z = Some x -> i32v x = z.
Proof.
  unfold to_i32. generalize (@eq_refl bool (in_i32 z)). generalize (in_i32 z) at 2 3.
  intros b e. destruct b; intros E; inversion E. reflexivity.
Qed.
Lemma to_i32_ok z : in_i32 z = true -> exists x, to_i32 z = Some x /\ i32v x = z.
Proof. intros H. exists (Mk_i32 z H). split; [apply (to_i32_val (Mk_i32 z H))|reflexivity]. Qed.
Lemma to_usize_ok z : in_usize z = true -> exists x, to_usize z = Some x /\ usizev x = z.
Proof. intros H. exists (Mk_usize z H). split; [apply (to_usize_val (Mk_usize z H))|reflexivity]. Qed.

(* ---- scalar instances ---- *)
#[export] Instance RT_string : RT enc_string dec_string. Proof. intros a; reflexivity. Qed.
#[export] Instance RT_bool : RT enc_bool dec_bool. Proof. intros a; reflexivity. Qed.
#[export] Instance RT_i64 : RT enc_i64 dec_i64. Proof. intros a; apply to_i64_val. Qed.
#[export] Instance RT_usize : RT enc_usize dec_usize. Proof. intros a; apply to_usize_val. Qed.
#[export] Instance RT_i32 : RT enc_i32 dec_i32. Proof. intros a; apply to_i32_val. Qed.
#[export] Instance RT_f64 : RT enc_f64 dec_f64. Proof. intros [m e]; reflexivity. Qed.
#[export] Instance NN_string : NN enc_string. Proof. intros a; reflexivity. Qed.
#[export] Instance NN_bool : NN enc_bool. Proof. intros a; reflexivity. Qed.
#[export] Instance NN_i64 : NN enc_i64. Proof. intros a; reflexivity. Qed.
#[export] Instance NN_usize : NN enc_usize. Proof. intros a; reflexivity. Qed.
#[export] Instance NN_i32 : NN enc_i32. Proof. intros a; reflexivity. Qed.
#[export] Instance NN_f64 : NN enc_f64. Proof. intros a; reflexivity. Qed.
#[export] Instance DJ_string_f64 : DJ dec_string enc_f64. Proof. intros b; reflexivity. Qed.
#[export] Instance DJ_f64_string : DJ dec_f64 enc_string. Proof. intros b; reflexivity. Qed.

(* ---- containers ---- *)
Lemma dec_all_map {A} (e : A -> json) d `{!RT e d} l : dec_all d (map e l) = Some l.
Proof. induction l as [|a l IH]; cbn; [reflexivity|]. rewrite rt. cbn. rewrite IH. reflexivity. Qed.
Lemma dec_all_map_n {A} (e : A -> json) d n `{!RTN e d n} l : dec_all d (map e l) = Some (map n l).
Proof. induction l as [|a l IH]; cbn; [reflexivity|]. rewrite rtn. cbn. rewrite IH. reflexivity. Qed.

#[export] Instance RT_list {A} (e : A -> json) d `{!RT e d} : RT (enc_list e) (dec_list d).
Proof. intros l. apply dec_all_map; assumption. Qed.
#[export] Instance RTN_list {A} (e : A -> json) d n `{!RTN e d n} : RTN (enc_list e) (dec_list d) (map n).
Proof. intros l. apply dec_all_map_n; assumption. Qed.
#[export] Instance ENCN_list {A} (e : A -> json) n `{!ENCN e n} : ENCN (enc_list e) (map n).
Proof.
  intros l. unfold enc_list. f_equal. rewrite map_map. apply map_ext. intros a. apply encn.
Qed.
#[export] Instance NN_list {A} (e : A -> json) : NN (enc_list e). Proof. intros a; reflexivity. Qed.

#[export] Instance RT_opt {A} (e : A -> json) d `{!RT e d} `{!NN e} : RT (enc_opt e) (dec_opt d).
Proof. intros [a|]; unfold dec_opt; cbn; [|reflexivity]. rewrite nn, rt. reflexivity. Qed.
#[export] Instance RTN_opt {A} (e : A -> json) d n `{!RTN e d n} `{!NN e} :
  RTN (enc_opt e) (dec_opt d) (option_map n).
Proof. intros [a|]; unfold dec_opt; cbn; [|reflexivity]. rewrite nn, rtn. reflexivity. Qed.
#[export] Instance ENCN_opt {A} (e : A -> json) n `{!ENCN e n} : ENCN (enc_opt e) (option_map n).
Proof. intros [a|]; cbn; [apply encn|reflexivity]. Qed.

#[export] Instance RT_pair {A B} (ea : A -> json) da (eb : B -> json) db `{!RT ea da} `{!RT eb db} :
  RT (enc_pair ea eb) (dec_pair da db).
Proof. intros [a b]. cbn. rewrite !rt. reflexivity. Qed.
#[export] Instance NN_pair {A B} (ea : A -> json) (eb : B -> json) : NN (enc_pair ea eb).
Proof. intros a; reflexivity. Qed.

#[export] Instance RT_smap : RT enc_smap dec_smap.
Proof.
  intros m. unfold enc_smap, dec_smap. induction m as [|[k v] m IH]; cbn; [reflexivity|].
  rewrite IH. reflexivity.
Qed.
#[export] Instance NN_smap : NN enc_smap. Proof. intros a; reflexivity. Qed.

(* a list decoder rejects a non-empty list of elements it rejects *)
Lemma dec_list_dj {A B} (d : json -> option A) (e : B -> json) `{!DJ d e} b l :
  dec_list d (enc_list e (b :: l)) = None.
Proof. cbn. rewrite dj. reflexivity. Qed.

(* ---- object lookup ---- *)
Lemma get_kv_of_absent ns fs : countf ns fs = 0%nat -> get ns (kv_of fs) = Absent.
Proof.
  induction fs as [|f fs IH]; cbn [countf kv_of get]; [reflexivity|].
  destruct f as [k v|k [v|]]; cbn [fkey get]; destruct (smem k ns); intros H; try (apply IH; lia); lia.
Qed.
Lemma get_kv_of ns fs : (countf ns fs <=? 1)%nat = true -> get ns (kv_of fs) = getf ns fs.
Proof.
  induction fs as [|f fs IH]; cbn [countf kv_of get getf]; [reflexivity|].
  intros H. apply Nat.leb_le in H.
  destruct f as [k v|k [v|]]; cbn [fkey flook olook get] in *; destruct (smem k ns) eqn:E.
  - rewrite get_kv_of_absent by lia. reflexivity.
  - apply IH. apply Nat.leb_le. lia.
  - rewrite get_kv_of_absent by lia. reflexivity.
  - apply IH. apply Nat.leb_le. lia.
  - apply get_kv_of_absent. lia.
  - apply IH. apply Nat.leb_le. lia.
Qed.

(* ---- field readers on what the serialiser wrote ---- *)
Lemma req_once {A} (e : A -> json) d `{!RT e d} a : req d (Once (e a)) = Some a.
Proof. cbn. apply rt. Qed.
Lemma req_once_n {A} (e : A -> json) d n `{!RTN e d n} a : req d (Once (e a)) = Some (n a).
Proof. cbn. apply rtn. Qed.
Lemma req_absent {A} (d : json -> option A) : req d Absent = None.
Proof. reflexivity. Qed.
Lemma opt_olook {A} (e : A -> json) d `{!RT e d} `{!NN e} o : opt d (olook (option_map e o)) = Some o.
Proof. destruct o; cbn; [|reflexivity]. rewrite nn, rt. reflexivity. Qed.
Lemma opt_olook_n {A} (e : A -> json) d n `{!RTN e d n} `{!NN e} o :
  opt d (olook (option_map e o)) = Some (option_map n o).
Proof. destruct o; cbn; [|reflexivity]. rewrite nn, rtn. reflexivity. Qed.
Lemma opt_once {A} (e : A -> json) d `{!RT e d} `{!NN e} o : opt d (Once (enc_opt e o)) = Some o.
Proof. destruct o; cbn; [|reflexivity]. rewrite nn, rt. reflexivity. Qed.
Lemma opt_once_n {A} (e : A -> json) d n `{!RTN e d n} `{!NN e} o :
  opt d (Once (enc_opt e o)) = Some (option_map n o).
Proof. destruct o; cbn; [|reflexivity]. rewrite nn, rtn. reflexivity. Qed.
Lemma dflt_once {A} (e : A -> json) d `{!RT e d} x a : dflt x d (Once (e a)) = Some a.
Proof. cbn. apply rt. Qed.
Lemma bind_none_r {A B} (m : option A) : bind m (fun _ => @None B) = None.
Proof. destruct m; reflexivity. Qed.
Lemma orelse_none_l {A} (k : option A) : orelse None k = k.
Proof. reflexivity. Qed.

Lemma req_once_dj {A B} (d : json -> option A) (e : B -> json) `{!DJ d e} b : req d (Once (e b)) = None.
Proof. cbn. apply dj. Qed.
Lemma dec_list_rt {A} (e : A -> json) d `{!RT e d} l : dec_list d (enc_list e l) = Some l.
Proof. apply (rt (enc := enc_list e)). Qed.
Lemma encn_list_l {A} (e : A -> json) n `{!ENCN e n} l : enc_list e (map n l) = enc_list e l.
Proof. apply (encn (enc := enc_list e)). Qed.
Lemma encn_opt_l {A} (e : A -> json) n `{!ENCN e n} o : enc_opt e (option_map n o) = enc_opt e o.
Proof. apply (encn (enc := enc_opt e)). Qed.
Lemma encn_omap {A} (e : A -> json) n `{!ENCN e n} o : option_map e (option_map n o) = option_map e o.
Proof. destruct o; cbn; [|reflexivity]. rewrite encn. reflexivity. Qed.

(* ---- the generic tactic ---- *)
(* evaluate closed boolean tests on strings *)
Ltac eval_closed :=
  repeat match goal with
  | |- context [smem ?k ?ns] =>
      let r := eval vm_compute in (smem k ns) in
      lazymatch r with
      | true => change (smem k ns) with true
      | false => change (smem k ns) with false
      end
  | |- context [String.eqb ?a ?b] =>
      let r := eval vm_compute in (String.eqb a b) in
      lazymatch r with
      | true => change (String.eqb a b) with true
      | false => change (String.eqb a b) with false
      end
  end.

Ltac rt_lookup1 :=
  first
  [ match goal with
    | |- context [vindex ?s ?nss] =>
        let r := eval vm_compute in (vindex s nss) in
        change (vindex s nss) with r
    end
  | match goal with
    | |- context [get ?ns (kv_of ?fs)] =>
        let r := eval lazy [getf smem existsb String.eqb Ascii.eqb Bool.eqb andb orb fkey flook] in (getf ns fs) in
        replace (get ns (kv_of fs)) with r by (symmetry; exact (get_kv_of ns fs eq_refl))
    end ];
  cbn [bind orelse option_map]; cbn beta iota.
Ltac rt_lookups := repeat rt_lookup1.

Ltac rt_fields :=
  repeat (first
    [ rewrite req_once by (typeclasses eauto)
    | erewrite req_once_n by (typeclasses eauto)
    | rewrite opt_olook by (typeclasses eauto)
    | erewrite opt_olook_n by (typeclasses eauto)
    | rewrite opt_once by (typeclasses eauto)
    | erewrite opt_once_n by (typeclasses eauto)
    | rewrite dflt_once by (typeclasses eauto)
    | rewrite req_once_dj by (typeclasses eauto)
    | rewrite req_absent ];
    cbn [bind orelse option_map]).

(* goal: dec_T (enc_T x) = Some x  (x already destructed, codec unfolded) *)
Ltac rt_step :=
  rt_lookups; cbn [bind orelse option_map]; cbn beta iota;
  rt_fields; rewrite ?bind_none_r; cbn [bind orelse option_map].
Ltac rt_go := repeat (progress rt_step); try reflexivity.

(* goal: enc_T (norm_T x) = enc_T x  (x destructed, unfolded); named tainted fields are rewritten by the caller *)
Ltac encn_go :=
  repeat (first
    [ rewrite encn_list_l by (typeclasses eauto)
    | rewrite encn_opt_l by (typeclasses eauto)
    | rewrite encn_omap by (typeclasses eauto) ]);
  try reflexivity.

(* recursive types: elements of a serialised list are strictly shallower than the list *)
Lemma rt_list_bounded {A} (e : A -> json) (d : json -> option A) l (n : nat) :
  (forall a, (jdepth (e a) < n)%nat -> d (e a) = Some a) ->
  (jdepth (enc_list e l) <= n)%nat -> dec_list d (enc_list e l) = Some l.
Proof.
  intros IH. unfold enc_list, dec_list. cbn [jdepth].
  induction l as [|a l IHl]; cbn; intros H; [reflexivity|].
  rewrite IH by lia. cbn. rewrite IHl by lia. reflexivity.
Qed.
