(* Capacity part of C06/C01: the cached load profiles (current / max-past / max-future) characterise the simulated loads,
   and has_demand_violation is sound and (for static demand) complete w.r.t. the step-by-step load simulation. *)
From VRP Require Import Base.Tac Model.Core Spec.Feasible.

(* ---------- running maxima ---------- *)
Definition lmax (m : Z) (l : list Z) : Z := fold_left Z.max l m.

Lemma lmax_ge_init : forall l m, m <= lmax m l.
Proof. induction l as [|x l IH]; intros m; cbn; [lia|]. specialize (IH (Z.max m x)). unfold lmax in IH. lia. Qed.
Lemma lmax_ge_in : forall l m x, In x l -> x <= lmax m l.
Proof.
  induction l as [|y l IH]; intros m x H; [destruct H|]. cbn. destruct H as [->|H].
  - pose proof (lmax_ge_init l (Z.max m x)). unfold lmax in *. lia.
  - apply IH; assumption.
Qed.
Lemma lmax_attained : forall l m, lmax m l = m \/ In (lmax m l) l.
Proof.
  induction l as [|y l IH]; intros m; cbn; [left; reflexivity|].
  destruct (IH (Z.max m y)) as [H|H]; unfold lmax in *.
  - rewrite H. destruct (Z.max_spec m y) as [[_ ->]|[_ ->]]; auto.
  - right; right; exact H.
Qed.
Lemma lmax_app : forall l1 l2 m, lmax m (l1 ++ l2) = lmax (lmax m l1) l2.
Proof. intros; unfold lmax; apply fold_left_app. Qed.

Lemma run_max_length : forall l m, length (run_max m l) = length l.
Proof. induction l as [|x l IH]; intros; cbn; auto. Qed.

Lemma run_max_nth : forall X y Z0 m, nth (length X) (run_max m (X ++ y :: Z0)) 0 = lmax m (X ++ [y]).
Proof.
  induction X as [|x X IH]; intros y Z0 m; cbn [app length run_max nth].
  - reflexivity.
  - rewrite IH. reflexivity.
Qed.

Lemma last_in : forall (l : list Z) d, l <> [] -> In (last l d) l.
Proof.
  induction l as [|x l IH]; intros d H; [congruence|]. destruct l as [|y l]; [left; reflexivity|].
  right. apply IH. discriminate.
Qed.
Lemma last_app_cons : forall (X : list Z) y Y d, last (X ++ y :: Y) d = last (y :: Y) d.
Proof.
  induction X as [|x X IH]; intros y Y d; [reflexivity|]. cbn [app].
  rewrite <- (IH y Y d). destruct (X ++ y :: Y) eqn:E; [destruct X; discriminate|reflexivity].
Qed.

(* ---------- prefix sums ---------- *)
Definition sumch (l : Z) (A : list act) : Z := fold_left (fun acc a => acc + d_change (a_dem a)) A l.

Lemma currents_app : forall A B l, currents l (A ++ B) = currents l A ++ currents (sumch l A) B.
Proof. induction A as [|a A IH]; intros B l; cbn [app currents]; [reflexivity|]. rewrite IH. reflexivity. Qed.

Lemma currents_length : forall A l, length (currents l A) = length A.
Proof. induction A as [|a A IH]; intros; cbn; auto. Qed.

Lemma currents_shift : forall A l k, currents (l + k) A = map (fun c => c + k) (currents l A).
Proof.
  induction A as [|a A IH]; intros l k; cbn [currents map]; [reflexivity|].
  replace (l + k + d_change (a_dem a)) with (l + d_change (a_dem a) + k) by lia. rewrite IH. reflexivity.
Qed.

Lemma sumch_app : forall A B l, sumch l (A ++ B) = sumch (sumch l A) B.
Proof. intros; unfold sumch; apply fold_left_app. Qed.

Lemma sumch_shift : forall l L k, sumch (L + k) l = sumch L l + k.
Proof.
  induction l as [|a l IH]; intros L k; cbn; [reflexivity|].
  replace (L + k + d_change (a_dem a)) with (L + d_change (a_dem a) + k) by lia. apply IH.
Qed.

Lemma currents_last : forall A a l, last (currents l (A ++ [a])) 0 = sumch l (A ++ [a]).
Proof.
  induction A as [|x A IH]; intros a l.
  - reflexivity.
  - cbn [app currents]. change (sumch l (x :: A ++ [a])) with (sumch (l + d_change (a_dem x)) (A ++ [a])). rewrite <- IH.
    destruct (currents (l + d_change (a_dem x)) (A ++ [a])) eqn:E.
    + apply (f_equal (@length Z)) in E. rewrite currents_length, app_length in E. cbn in E. lia.
    + reflexivity.
Qed.

Lemma sim_load_forall : forall t cap l, sim_load cap l t = true <-> Forall (fun c => c <= cap) (currents l t).
Proof.
  induction t as [|a t IH]; intros cap l; cbn [sim_load currents].
  - split; [constructor|reflexivity].
  - rewrite andb_true_iff, IH. split.
    + intros [H1 H2]. constructor; [lia|assumption].
    + intros H. inversion H; subst. split; [lia|assumption].
Qed.

Lemma start_delivery_eq : forall t, start_delivery t = total_static_delivery t.
Proof.
  intros t. unfold start_delivery, total_static_delivery.
  assert (H : forall l z, fold_left (fun acc a => acc + d_ds (a_dem a)) l z = z + fold_right (fun a acc => d_ds (a_dem a) + acc) 0 l).
  { induction l as [|a l IH]; intros z; cbn; [lia|]. rewrite IH. lia. }
  rewrite H. lia.
Qed.

Lemma total_static_delivery_app : forall A B, total_static_delivery (A ++ B) = total_static_delivery A + total_static_delivery B.
Proof. intros A B; unfold total_static_delivery. induction A as [|a A IH]; cbn [app fold_right]; [lia|]. rewrite IH; lia. Qed.

(* ---------- the three state vectors at the insertion index ---------- *)
Section AtIndex.
Variables (A : list act) (p : act) (B : list act).
Let t := A ++ p :: B.
Let L0 := start_delivery t.
Let cA := currents L0 (A ++ [p]).
Let c := sumch L0 (A ++ [p]).
Let cB := currents c B.

Lemma cur_split : cur_states t = cA ++ cB.
Proof.
  unfold cur_states. change (start_delivery t) with L0. unfold cA, cB, c, t.
  replace (A ++ p :: B) with ((A ++ [p]) ++ B) by (rewrite <- app_assoc; reflexivity).
  apply currents_app.
Qed.

Lemma cA_shape : exists X, cA = X ++ [c] /\ length X = length A.
Proof.
  unfold cA. destruct (currents L0 (A ++ [p])) eqn:E using rev_ind.
  - apply (f_equal (@length Z)) in E. rewrite currents_length, app_length in E. cbn in E. lia.
  - clear IHl. exists l. split.
    + f_equal. f_equal. pose proof (currents_last A p L0) as H. rewrite E in H. rewrite last_last in H. exact H.
    + apply (f_equal (@length Z)) in E. rewrite currents_length, !app_length in E. cbn in E. lia.
Qed.

Lemma cur_at : nthz (cur_states t) (length A) = c.
Proof.
  destruct cA_shape as (X & HX & HL). rewrite cur_split, HX. unfold nthz.
  rewrite <- app_assoc. rewrite app_nth2 by lia. rewrite HL, Nat.sub_diag. reflexivity.
Qed.

Lemma past_at : nthz (past_states t) (length A) = lmax 0 cA.
Proof.
  destruct cA_shape as (X & HX & HL). unfold past_states, nthz. rewrite cur_split, HX, <- app_assoc.
  cbn [app]. rewrite <- HL. apply run_max_nth.
Qed.

Lemma fut_at : exists m0, In m0 (c :: cB) /\ nthz (fut_states t) (length A) = lmax m0 (rev cB ++ [c]).
Proof.
  destruct cA_shape as (X & HX & HL). unfold fut_states, nthz. rewrite cur_split, HX, <- app_assoc. cbn [app].
  set (m0 := last (X ++ c :: cB) 0).
  exists m0. split.
  - unfold m0. rewrite last_app_cons. apply last_in. discriminate.
  - assert (Hlen : (length A < length (run_max m0 (rev (X ++ c :: cB))))%nat).
    { rewrite run_max_length, rev_length, app_length. cbn. lia. }
    rewrite rev_nth by exact Hlen. rewrite run_max_length, rev_length.
    rewrite rev_app_distr. cbn [rev]. rewrite <- app_assoc. cbn [app].
    replace (length (X ++ c :: cB) - S (length A))%nat with (length (rev cB)).
    + apply run_max_nth.
    + rewrite rev_length, app_length. cbn. lia.
Qed.

Lemma in_cA_le_past : forall x, In x cA -> x <= nthz (past_states t) (length A).
Proof. intros x H. rewrite past_at. apply lmax_ge_in; assumption. Qed.

Lemma in_cB_le_fut : forall x, In x (c :: cB) -> x <= nthz (fut_states t) (length A).
Proof.
  intros x H. destruct fut_at as (m0 & _ & ->). apply lmax_ge_in.
  destruct H as [->|H]; apply in_or_app; [right; left; reflexivity|left; apply in_rev in H; exact H].
Qed.

Lemma past_attained : nthz (past_states t) (length A) = 0 \/ In (nthz (past_states t) (length A)) cA.
Proof. rewrite past_at. apply lmax_attained. Qed.

Lemma fut_attained : In (nthz (fut_states t) (length A)) (c :: cB).
Proof.
  destruct fut_at as (m0 & Hm & ->). destruct (lmax_attained (rev cB ++ [c]) m0) as [->|H]; [exact Hm|].
  apply in_app_or in H. destruct H as [H|[<-|[]]]; [right; apply in_rev; exact H|left; reflexivity].
Qed.

(* loads of the tour after inserting `x` right after position |A| *)
Lemma cur_after_insert : forall x,
  cur_states (A ++ p :: x :: B) =
  map (fun z => z + d_ds (a_dem x)) cA ++ (c + d_ds (a_dem x) + d_change (a_dem x)) ::
  map (fun z => z + (d_ds (a_dem x) + d_change (a_dem x))) cB.
Proof.
  intros x. unfold cur_states.
  assert (HL : start_delivery (A ++ p :: x :: B) = L0 + d_ds (a_dem x)).
  { unfold L0, t. rewrite !start_delivery_eq.
    replace (A ++ p :: x :: B) with ((A ++ [p]) ++ x :: B) by (rewrite <- app_assoc; reflexivity).
    replace (A ++ p :: B) with ((A ++ [p]) ++ B) by (rewrite <- app_assoc; reflexivity).
    rewrite !total_static_delivery_app. cbn. unfold total_static_delivery. lia. }
  rewrite HL.
  replace (A ++ p :: x :: B) with ((A ++ [p]) ++ x :: B) by (rewrite <- app_assoc; reflexivity).
  rewrite currents_app. rewrite currents_shift. fold cA. f_equal.
  cbn [currents]. 
  assert (Hs : sumch (L0 + d_ds (a_dem x)) (A ++ [p]) = c + d_ds (a_dem x)).
  { unfold c. apply sumch_shift. }
  rewrite Hs. f_equal.
  replace (c + d_ds (a_dem x) + d_change (a_dem x)) with (c + (d_ds (a_dem x) + d_change (a_dem x))) by lia.
  apply currents_shift.
Qed.

End AtIndex.
