(* C06: the exhaustive scan is complete on closed tours for jobs with one place / one window:
   if the simulation finds some position feasible, analyze returns a place (and by soundness a feasible one). *)
From VRP Require Import Base.Tac Model.Core Spec.Feasible Proofs.CoreTimeP Proofs.CoreCapP Proofs.CoreEvalP Proofs.CoreScanP.

Lemma run_max_ge_init : forall l m k, (k < length l)%nat -> m <= nth k (run_max m l) 0.
Proof.
  induction l as [|x l IH]; intros m k H; cbn in H; [lia|]. cbn [run_max]. destruct k as [|k]; cbn [nth]; [lia|].
  specialize (IH (Z.max m x) k ltac:(lia)). lia.
Qed.

Lemma run_max_mono : forall l m i k, (i <= k < length l)%nat -> nth i (run_max m l) 0 <= nth k (run_max m l) 0.
Proof.
  induction l as [|x l IH]; intros m i k H; cbn in H; [lia|]. cbn [run_max].
  destruct i as [|i], k as [|k]; cbn [nth]; try lia.
  - apply run_max_ge_init. lia.
  - apply IH. lia.
Qed.

Lemma past_states_mono : forall t i k, (i <= k < length t)%nat -> nthz (past_states t) i <= nthz (past_states t) k.
Proof.
  intros t i k H. unfold nthz, past_states. apply run_max_mono. unfold cur_states. rewrite currents_length. exact H.
Qed.

Section Complete.
Variable dur : Z -> Z -> Z.
Variable est : list act -> nat -> act -> Z.
Variable v : vehicle.
Variable t : list act.
Variable j : single.
Variable p : place.
Variable w : Z * Z.
Variable rc : Z.
Hypothesis Hj : s_places j = [p].
Hypothesis Hp : p_tws p = [w].

Notation target := (target t j p w).

Hypothesis Hdur : forall a b, 0 <= dur a b.
Hypothesis Hsvc : 0 <= p_svc p.
Hypothesis Hsched : sched_ok dur t.
Hypothesis Hfeas : feasible dur v t = true.
Hypothesis Hwin : Forall (fun a => a_tws a <= v_shift_end v) t.
Hypothesis Hwt : fst w <= v_shift_end v.
Hypothesis Hstart : forall d, d_change (a_dem (hd d t)) = 0.
Hypothesis Hnn : 0 <= start_delivery t.
Hypothesis Hdem : simple_demand (s_dem j).

Lemma target_fields : forall idx, a_tws (target idx) = fst w /\ a_svc (target idx) = p_svc p /\ a_dem (target idx) = s_dem j.
Proof. intros idx. unfold CoreScanP.target, mk_target. cbn. auto. Qed.

(* on a feasible closed tour whose windows start within the shift, the time test never answers "stop" at an inner leg *)
Lemma no_time_stop_inner : forall idx, (S idx < length t)%nat ->
  eval_time dur v (nth idx t (target idx)) (target idx) (skipn (S idx) t) <> Some true.
Proof.
  intros idx Hidx Hstop.
  assert (Hidx' : (idx < length t)%nat) by lia.
  destruct (split_at t idx (target idx) Hidx') as [Et Hl].
  set (A := firstn idx t) in *. set (q := nth idx t (target idx)) in *. set (B := skipn (S idx) t) in *.
  assert (Hin : forall a, In a t -> a_tws a <= v_shift_end v) by (apply Forall_forall; exact Hwin).
  destruct (eval_time_stop_cases dur v q (target idx) B Hstop) as [H|[H|[H|H]]].
  - assert (In q t) by (rewrite Et; apply in_or_app; right; left; reflexivity). specialize (Hin q H0). lia.
  - destruct (target_fields idx) as (E1 & _). rewrite E1 in H. lia.
  - destruct H as (n & r & EB & [H|H]).
    + assert (In n t) by (rewrite Et, EB; apply in_or_app; right; right; left; reflexivity). specialize (Hin n H0). lia.
    + unfold feasible in Hfeas. apply andb_true_iff in Hfeas as [Hft _].
      rewrite Et in Hsched, Hft. pose proof (time_feasible_tail dur A q B Hsched Hft) as Htail.
      rewrite EB in Htail, H. pose proof (proj1 (latest_exact dur n r _ _ Htail _ _) Htail). lia.
  - destruct H as [EB _]. apply (f_equal (@length act)) in Et. rewrite app_length in Et. cbn [length] in Et.
    rewrite EB in Et. cbn in Et. fold A in Hl. lia.
Qed.

(* a capacity "stop" at leg i excludes a feasible insertion at any later leg k (max-past load is monotone) *)
Lemma no_stop_before_feasible : forall i k code,
  (i <= k)%nat -> (S k < length t)%nat ->
  feasible dur v (insert_after t k (target k)) = true ->
  eval_activity dur v t i (target i) <> Some (code, true).
Proof.
  intros i k code Hik Hk Hfk Hstop.
  assert (Hi : (S i < length t)%nat) by lia.
  unfold eval_activity in Hstop.
  destruct (eval_time dur v (nth i t (target i)) (target i) (skipn (S i) t)) as [st|] eqn:ET.
  - inversion Hstop; subst. apply (no_time_stop_inner i Hi). exact ET.
  - destruct (eval_cap v t i (target i)) as [st|] eqn:EC; [|discriminate]. inversion Hstop; subst. clear Hstop.
    (* completeness at k gives: no demand violation at k *)
    assert (Hck : demand_violation v t k (s_dem j) true = None).
    { assert (Hk' : (k < length t)%nat) by lia.
      pose proof Hfeas as Hf0. unfold feasible in Hf0, Hfk.
      apply andb_true_iff in Hf0 as [_ Hfl]. apply andb_true_iff in Hfk as [_ Hil].
      destruct (target_fields k) as (_ & _ & Ed). rewrite <- Ed.
      apply cap_complete_idx; try assumption; try (rewrite Ed; exact Hdem). }
    unfold eval_cap in EC. destruct (target_fields i) as (_ & _ & Ed). rewrite Ed in EC.
    unfold demand_violation in EC, Hck.
    pose proof (past_states_mono t i k ltac:(lia)) as Hm.
    destruct (negb (d_ds (s_dem j) =? 0) && (v_cap v <? nthz (past_states t) k + d_ds (s_dem j))) eqn:Ek; [discriminate|].
    destruct (negb (d_ds (s_dem j) =? 0) && (v_cap v <? nthz (past_states t) i + d_ds (s_dem j))) eqn:Ei; [lia|].
    destruct (negb (d_ps (s_dem j) =? 0) && (v_cap v <? nthz (fut_states t) i + d_ps (s_dem j))); [discriminate|].
    destruct (negb (d_change (s_dem j) =? 0) && _); discriminate.
Qed.

(* the scan over all legs of a closed tour finds a place whenever some leg is feasible for the simulation *)
Theorem scan_complete_closed : forall k,
  (2 <= length t)%nat -> (k < length t - 1)%nat ->
  feasible dur v (insert_after t k (target k)) = true ->
  let r := analyze dur est v true t j PAny rc in
  sc_place r <> None /\
  (forall pl, sc_place r = Some pl ->
     feasible dur v (insert_after t (sc_index r) (target (sc_index r))) = true /\ pl = pdata t j p w (sc_index r)).
Proof.
  intros k Hlen Hk Hfk r.
  assert (Hn : leg_count true t = (length t - 1)%nat).
  { unfold leg_count. destruct t as [|a [|b l]]; cbn in *; try lia. }
  assert (Hr : r = scan_legs dur est v t j rc 0 (length t - 1) (mkSctx None 0 None None)).
  { unfold r, analyze. rewrite Hn. reflexivity. }
  assert (Hacc : eval_activity dur v t k (target k) = None).
  { apply (eval_activity_complete_inner dur v t k (target k));
      [lia | exact Hsched | exact Hdur | exact Hsvc | exact Hwin | exact Hwt | apply Hstart | exact Hnn | exact Hdem
      | exact Hfeas | exact Hfk]. }
  split.
  - rewrite Hr. apply (scan_legs_complete dur est v t j p w rc Hj Hp (length t - 1) 0 _ k).
    + apply (ctx_ok_init dur est v t j p w rc).
    + lia.
    + exact Hacc.
    + intros i code Hi. apply (no_stop_before_feasible i k code); [lia|lia|exact Hfk].
  - intros pl Hpl.
    pose proof (scan_legs_ok dur est v t j p w rc Hj Hp (length t - 1) 0 _ (ctx_ok_init dur est v t j p w rc)) as [_ Hok].
    rewrite <- Hr in Hok. destruct (Hok pl Hpl) as [He Hd]. split; [|exact Hd].
    destruct (target_fields (sc_index r)) as (_ & _ & E3).
    assert (Hidx : (sc_index r < length t)%nat).
    { assert (Hb : (sc_index r < 0 + (length t - 1))%nat).
      { rewrite Hr. apply (scan_legs_index dur est v t j p w rc Hj Hp).
        - cbn. intros H; congruence.
        - rewrite <- Hr. rewrite Hpl. discriminate. }
      lia. }
    apply eval_activity_sound; try assumption; try apply Hstart; try (rewrite E3; exact Hdem).
Qed.
End Complete.
