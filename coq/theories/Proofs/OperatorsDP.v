(* C04 proofs, part 3: DecomposeSearch - the split into parts is a partition, any refinement that respects the contract
   `Refines` of its part can be merged back, and the merge is exactly the union of the chosen parts. *)
From VRP Require Import Base.Tac Model.Core Spec.Feasible Model.Eval Spec.Inv Model.Context Proofs.ContextP.
From VRP Require Import Model.Operators Proofs.OperatorsP.
From Coq Require Import Permutation.

(* ================= sums over the parts ================= *)
Definition sumn {A} (f : A -> nat) (l : list A) : nat := fold_right (fun p acc => (f p + acc)%nat) 0%nat l.
Lemma sumn_app : forall A (f : A -> nat) l1 l2, sumn f (l1 ++ l2) = (sumn f l1 + sumn f l2)%nat.
Proof. intros A f l1 l2; induction l1 as [|x l1 IH]; cbn [app sumn fold_right]; [reflexivity|]. fold (sumn f (l1 ++ l2)). fold (sumn f l1). lia. Qed.
Lemma sumn_In : forall A (f : A -> nat) l x, In x l -> (f x <= sumn f l)%nat.
Proof.
  intros A f l x; induction l as [|y l IH]; intros H; [destruct H|]. cbn [sumn fold_right]. fold (sumn f l).
  destruct H as [->|H]; [lia|]. specialize (IH H). lia.
Qed.
Lemma sumn_ext : forall A B (f : A -> nat) (g : B -> nat) l m, Forall2 (fun a b => f a = g b) l m -> sumn f l = sumn g m.
Proof. intros A B f g l m H; induction H; [reflexivity|]. cbn [sumn fold_right]. fold (sumn f l). fold (sumn g l'). lia. Qed.
Lemma sumn_le : forall A B (f : A -> nat) (g : B -> nat) l m, Forall2 (fun a b => (f a <= g b)%nat) l m -> (sumn f l <= sumn g m)%nat.
Proof. intros A B f g l m H; induction H; [reflexivity|]. cbn [sumn fold_right]. fold (sumn f l). fold (sumn g l'). lia. Qed.
Lemma sumn_map : forall A B (h : A -> B) (f : B -> nat) l, sumn f (map h l) = sumn (fun a => f (h a)) l.
Proof. intros A B h f l; induction l as [|x l IH]; [reflexivity|]. cbn [map sumn fold_right]. fold (sumn f (map h l)). rewrite IH. reflexivity. Qed.

Lemma filter_flat_map_length : forall A B (q : B -> bool) (f : A -> list B) l,
  length (filter q (flat_map f l)) = sumn (fun a => length (filter q (f a))) l.
Proof.
  intros A B q f l; induction l as [|x l IH]; [reflexivity|]. cbn [flat_map sumn fold_right]. rewrite filter_app, app_length, IH. reflexivity.
Qed.

(* ================= merge_all is the concatenation of the parts with the registry recomputed ================= *)
Definition concat_dumps (P : pworld) (parts : list dump) : dump :=
  mkDump (flat_map d_routes parts) (flat_map d_required parts) (flat_map d_ignored parts) (flat_map d_unassigned parts)
         (flat_map d_locked parts) (filter (fun v => negb (memz v (flat_map used parts))) (map vs_id (pw_vehicles P))).

Lemma used_flat_map : forall parts, map r_actor (flat_map d_routes parts) = flat_map used parts.
Proof. induction parts as [|p parts IH]; [reflexivity|]. cbn [flat_map]. rewrite map_app, IH. reflexivity. Qed.

Lemma fold_merge_eq : forall P parts acc,
  d_avail acc = filter (fun v => negb (memz v (used acc))) (map vs_id (pw_vehicles P)) ->
  fold_left (merge P) parts acc =
  mkDump (d_routes acc ++ flat_map d_routes parts) (d_required acc ++ flat_map d_required parts)
         (d_ignored acc ++ flat_map d_ignored parts) (d_unassigned acc ++ flat_map d_unassigned parts)
         (d_locked acc ++ flat_map d_locked parts)
         (filter (fun v => negb (memz v (used acc ++ flat_map used parts))) (map vs_id (pw_vehicles P))).
Proof.
  intros P parts; induction parts as [|p parts IH]; intros acc Ha; cbn [fold_left flat_map].
  - rewrite !app_nil_r. rewrite <- Ha. destruct acc; reflexivity.
  - rewrite IH.
    + unfold merge. cbn [d_routes d_required d_ignored d_unassigned d_locked d_avail]. unfold used at 1. cbn [d_routes].
      rewrite map_app. fold (used acc). fold (used p). rewrite <- !app_assoc. reflexivity.
    + unfold merge. cbn [d_avail]. unfold used at 3. cbn [d_routes]. rewrite map_app. reflexivity.
Qed.

Theorem merge_all_eq : forall P parts, merge_all P parts = concat_dumps P parts.
Proof.
  intros P parts. unfold merge_all. rewrite fold_merge_eq.
  - reflexivity.
  - cbn [empty_dump d_avail used d_routes map]. symmetry. induction (map vs_id (pw_vehicles P)) as [|v l IH]; [reflexivity|].
    cbn [filter memz existsb negb]. f_equal. exact IH.
Qed.

(* ================= the concatenation of parts that partition jobs and actors is consistent ================= *)
Lemma b2n_memz_app_nodup : forall k (l1 l2 : list Z), NoDup (l1 ++ l2) -> b2n (memz k (l1 ++ l2)) = (b2n (memz k l1) + b2n (memz k l2))%nat.
Proof.
  intros k l1 l2 Hn. destruct (memz k l1) eqn:E1, (memz k l2) eqn:E2; cbn [b2n].
  - exfalso. apply memz_In in E1. apply memz_In in E2. clear -Hn E1 E2.
    induction l1 as [|x l1 IH]; [destruct E1|]. cbn in Hn. inversion Hn; subst.
    destruct E1 as [->|E1]; [apply H1; apply in_app_iff; right; exact E2|apply IH; assumption].
  - apply b2n_memz_In. apply in_app_iff. left. apply memz_In. exact E1.
  - apply b2n_memz_In. apply in_app_iff. right. apply memz_In. exact E2.
  - apply b2n_memz_notin. rewrite in_app_iff. intros [Hc|Hc]; apply memz_In in Hc; congruence.
Qed.

Lemma NoDup_app_l : forall (l1 l2 : list Z), NoDup (l1 ++ l2) -> NoDup l1.
Proof. induction l1 as [|x l1 IH]; intros l2 H; [constructor|]. cbn in H. inversion H; subst. constructor; [rewrite in_app_iff in *; tauto|eapply IH; eassumption]. Qed.
Lemma NoDup_app_r : forall (l1 l2 : list Z), NoDup (l1 ++ l2) -> NoDup l2.
Proof. induction l1 as [|x l1 IH]; intros l2 H; [exact H|]. cbn in H. inversion H; subst. eapply IH; eassumption. Qed.

Lemma b2n_flat : forall (f : dump -> list Z) parts j, NoDup (flat_map f parts) ->
  b2n (memz j (flat_map f parts)) = sumn (fun p => b2n (memz j (f p))) parts.
Proof.
  intros f parts j; induction parts as [|p parts IH]; intros Hnd; [reflexivity|]. cbn [flat_map sumn fold_right] in *.
  rewrite b2n_memz_app_nodup by exact Hnd. rewrite IH by (eapply NoDup_app_r; exact Hnd). reflexivity.
Qed.

Lemma nodup_flat : forall (f : dump -> list Z) parts, (forall p, In p parts -> NoDup (f p)) ->
  (forall j, (sumn (fun p => b2n (memz j (f p))) parts <= 1)%nat) -> NoDup (flat_map f parts).
Proof.
  intros f parts; induction parts as [|p parts IH]; intros Hnd Hs; [constructor|]. cbn [flat_map].
  apply NoDup_app'.
  - apply Hnd. left. reflexivity.
  - apply IH; [intros q Hq; apply Hnd; right; exact Hq|]. intros j. specialize (Hs j). cbn [sumn fold_right] in Hs.
    fold (sumn (fun p0 => b2n (memz j (f p0))) parts) in Hs. lia.
  - intros x Hx Hc. apply in_flat_map in Hc as (q & Hq & Hxq). specialize (Hs x). cbn [sumn fold_right] in Hs.
    fold (sumn (fun p0 => b2n (memz x (f p0))) parts) in Hs.
    pose proof (sumn_In _ (fun p0 => b2n (memz x (f p0))) parts q Hq) as Hle. cbn beta in Hle.
    rewrite (b2n_memz_In x (f p) Hx) in Hs. rewrite (b2n_memz_In x (f q) Hxq) in Hle. lia.
Qed.

Lemma homes_ge_member : forall d j, In j (d_required d) \/ In j (d_ignored d) \/ In j (d_unassigned d) -> (1 <= homes d j)%nat.
Proof.
  intros d j H. unfold homes. destruct H as [H|[H|H]]; apply memz_In in H; rewrite H; cbn [b2n]; lia.
Qed.

Section Concat.
Variable P : pworld.
Variable parts : list dump.
Hypothesis Hhomes : forall s, In s (pw_jobs P) -> sumn (fun p => homes p (j_id s)) parts = 1%nat.
Hypothesis Hknown : forall p, In p parts -> forall j, In j (mentioned p) -> known P j = true.
Hypothesis Hpend : forall p, In p parts -> NoDup (d_required p) /\ NoDup (d_ignored p) /\ NoDup (d_unassigned p).
Hypothesis Hused : NoDup (flat_map used parts) /\ forall a, In a (flat_map used parts) -> actor_known P a = true.
Hypothesis Hroutes : forall p, In p parts -> forall r, In r (d_routes p) -> RouteOK0 P r.
Hypothesis Hgroups : forall g, In g (groups_of P) -> (sumn (count_group P g) parts <= 1)%nat.
Hypothesis Hlocks : forall l, In l (pw_locks P) -> exists p, In p parts /\ lock_ok p l = true.

Lemma pending_sum_le : forall (f : dump -> list Z),
  (forall p j, In j (f p) -> In j (mentioned p) /\ (1 <= homes p j)%nat) ->
  forall j, (sumn (fun p => b2n (memz j (f p))) parts <= 1)%nat.
Proof using Hhomes Hknown.
  intros f Hf j. destruct (known P j) eqn:Ek.
  - destruct (known_job P j Ek) as (s & Hs & <-). rewrite <- (Hhomes s Hs).
    apply sumn_le. clear -Hf. induction parts as [|p l IH]; constructor; [|exact IH].
    destruct (memz (j_id s) (f p)) eqn:E; cbn [b2n]; [|lia]. apply memz_In in E. apply (Hf p _ E).
  - assert (E : forall l, (forall p, In p l -> In p parts) -> sumn (fun p => b2n (memz j (f p))) l = 0%nat).
    { induction l as [|p l IH]; intros Hin; [reflexivity|]. cbn [sumn fold_right]. fold (sumn (fun p0 => b2n (memz j (f p0))) l).
      rewrite IH by (intros q Hq; apply Hin; right; exact Hq).
      destruct (memz j (f p)) eqn:E; [|reflexivity]. apply memz_In in E. destruct (Hf p j E) as [Hmen _].
      rewrite (Hknown p (Hin p (or_introl eq_refl)) j Hmen) in Ek. discriminate. }
    rewrite E by auto. apply Nat.le_0_l.
Qed.

Lemma concat_nodup_required : NoDup (flat_map d_required parts).
Proof using Hhomes Hknown Hpend.
  apply nodup_flat; [intros p Hp; apply (Hpend p Hp)|]. apply pending_sum_le. intros p j Hj.
  split; [apply mentioned_iff; right; left; exact Hj|apply homes_ge_member; left; exact Hj].
Qed.
Lemma concat_nodup_ignored : NoDup (flat_map d_ignored parts).
Proof using Hhomes Hknown Hpend.
  apply nodup_flat; [intros p Hp; apply (Hpend p Hp)|]. apply pending_sum_le. intros p j Hj.
  split; [apply mentioned_iff; right; right; left; exact Hj|apply homes_ge_member; right; left; exact Hj].
Qed.
Lemma concat_nodup_unassigned : NoDup (flat_map d_unassigned parts).
Proof using Hhomes Hknown Hpend.
  apply nodup_flat; [intros p Hp; apply (Hpend p Hp)|]. apply pending_sum_le. intros p j Hj.
  split; [apply mentioned_iff; right; right; right; left; exact Hj|apply homes_ge_member; right; right; exact Hj].
Qed.

Lemma concat_homes : forall j, homes (concat_dumps P parts) j = sumn (fun p => homes p j) parts.
Proof using Hhomes Hknown Hpend.
  intros j. unfold homes at 1. cbn [concat_dumps d_routes d_required d_ignored d_unassigned].
  rewrite filter_flat_map_length.
  rewrite (b2n_flat d_unassigned parts j concat_nodup_unassigned), (b2n_flat d_required parts j concat_nodup_required),
          (b2n_flat d_ignored parts j concat_nodup_ignored).
  clear. induction parts as [|p l IH]; [reflexivity|]. cbn [sumn fold_right] in *. unfold homes at 1.
  fold (sumn (fun a => length (filter (fun r => serves r j) (d_routes a))) l) in *.
  fold (sumn (fun p0 => b2n (memz j (d_unassigned p0))) l) in *. fold (sumn (fun p0 => b2n (memz j (d_required p0))) l) in *.
  fold (sumn (fun p0 => b2n (memz j (d_ignored p0))) l) in *. fold (sumn (fun p0 => homes p0 j) l). lia.
Qed.

Theorem inv0_concat : Inv0 P (concat_dumps P parts).
Proof.
  constructor.
  - intros s Hs. rewrite concat_homes. apply Hhomes. exact Hs.
  - intros j Hj. apply mentioned_iff in Hj. cbn [concat_dumps d_routes d_required d_ignored d_unassigned d_locked] in Hj.
    assert (X : exists p, In p parts /\ In j (mentioned p)).
    { destruct Hj as [(x & Hx & Hjx)|[Hj|[Hj|[Hj|Hj]]]].
      - apply in_flat_map in Hx as (p & Hp & Hx). exists p. split; [exact Hp|]. apply mentioned_iff. left. exists x. auto.
      - apply in_flat_map in Hj as (p & Hp & Hj). exists p. split; [exact Hp|apply mentioned_iff; tauto].
      - apply in_flat_map in Hj as (p & Hp & Hj). exists p. split; [exact Hp|apply mentioned_iff; tauto].
      - apply in_flat_map in Hj as (p & Hp & Hj). exists p. split; [exact Hp|apply mentioned_iff; tauto].
      - apply in_flat_map in Hj as (p & Hp & Hj). exists p. split; [exact Hp|apply mentioned_iff; tauto]. }
    destruct X as (p & Hp & Hm). apply (Hknown p Hp j Hm).
  - cbn [concat_dumps d_required d_ignored d_unassigned].
    split; [apply concat_nodup_required|]. split; [apply concat_nodup_ignored|apply concat_nodup_unassigned].
  - unfold used. cbn [concat_dumps d_routes d_avail]. rewrite used_flat_map. split; [apply Hused|].
    intros a Ha. apply in_app_iff in Ha as [Ha|Ha]; [apply (proj2 Hused); exact Ha|].
    apply filter_In in Ha as [Ha _]. apply in_map_iff in Ha as (v & <- & Hv). unfold actor_known.
    destruct (find_vs P (vs_id v)) eqn:E; [reflexivity|]. unfold find_vs in E.
    apply (find_none _ _ E) in Hv. rewrite Z.eqb_refl in Hv. discriminate.
  - intros v Hv. unfold used. cbn [concat_dumps d_routes d_avail]. rewrite used_flat_map, filter_In, negb_true_iff, memz_false. split.
    + tauto.
    + intros Hn. split; [apply in_map; exact Hv|exact Hn].
  - intros r Hr. cbn [concat_dumps d_routes] in Hr. apply in_flat_map in Hr as (p & Hp & Hr). apply (Hroutes p Hp r Hr).
  - intros g Hg. unfold group_ok. cbn [concat_dumps d_routes]. rewrite filter_flat_map_length. apply Nat.leb_le.
    apply (Hgroups g Hg).
  - intros l Hll. destruct (Hlocks l Hll) as (p & Hp & Hlo). unfold lock_ok in *. cbn [concat_dumps d_routes d_locked].
    apply andb_true_iff in Hlo as [H1 H2]. apply andb_true_iff. split.
    + rewrite forallb_forall in *. intros x Hx. specialize (H1 x Hx). apply memz_In. apply memz_In in H1.
      apply in_flat_map. exists p. auto.
    + apply existsb_exists in H2 as (x & Hx & Hxx). apply existsb_exists. exists x. split; [|exact Hxx].
      apply in_flat_map. exists p. auto.
Qed.
End Concat.

(* ================= the split is a partition of the tours ================= *)
Lemma memn_In : forall k l, memn k l = true <-> In k l.
Proof.
  intros k l. unfold memn. rewrite existsb_exists. split.
  - intros (x & Hx & E). apply Nat.eqb_eq in E. subst. exact Hx.
  - intros H. exists k. split; [exact H|apply Nat.eqb_refl].
Qed.
Lemma memn_false : forall k l, memn k l = false <-> ~ In k l.
Proof. intros k l. pose proof (memn_In k l) as H. destruct (memn k l); split; intros; try congruence; intuition congruence. Qed.

Lemma NoDup_firstn : forall A (l : list A) k, NoDup l -> NoDup (firstn k l).
Proof.
  intros A l k H; revert k; induction H as [|x l Hx Hnd IH]; intros k; [rewrite firstn_nil; constructor|].
  destruct k as [|k]; cbn [firstn]; [constructor|]. constructor; [|apply IH].
  intros Hc. apply Hx. rewrite <- (firstn_skipn k l). apply in_app_iff. left. exact Hc.
Qed.
Lemma In_firstn : forall A (l : list A) k x, In x (firstn k l) -> In x l.
Proof. intros A l k x H. rewrite <- (firstn_skipn k l). apply in_app_iff. left. exact H. Qed.

Lemma NoDup_app_nat : forall (l1 l2 : list nat), NoDup l1 -> NoDup l2 -> (forall x, In x l1 -> ~ In x l2) -> NoDup (l1 ++ l2).
Proof.
  induction l1 as [|a l1 IH]; intros l2 H1 H2 Hd; cbn; [exact H2|].
  inversion H1; subst. constructor.
  - rewrite in_app_iff. intros [Hc|Hc]; [contradiction|]. apply (Hd a); [left; reflexivity|exact Hc].
  - apply IH; [assumption|assumption|]. intros x Hx. apply Hd. right. exact Hx.
Qed.

Lemma split_groups_spec : forall n idxs orc used_,
  (forall k, In k idxs -> (k < n)%nat) ->
  let gs := split_groups n idxs orc used_ in
  (forall k, In k (concat gs) -> (k < n)%nat /\ ~ In k used_) /\
  (forall k, In k idxs -> In k (concat gs) \/ In k used_) /\
  NoDup (concat gs) /\ (forall g, In g gs -> g <> []).
Proof.
  intros n idxs; induction idxs as [|i rest IH]; intros orc used_ Hlt; cbn [split_groups].
  - cbn. repeat split; try tauto. constructor.
  - destruct (memn i used_) eqn:Eu.
    + destruct (IH orc used_ (fun k Hk => Hlt k (or_intror Hk))) as (A & B & C & D).
      repeat split; try assumption; try (apply A; assumption).
      intros k [<-|Hk]; [right; apply memn_In; exact Eu|apply B; exact Hk].
    + apply memn_false in Eu.
      destruct (match orc with [] => (1%nat, [], []) | (s, c) :: o => (s, c, o) end) as [[size cands] orc'].
      set (tail_ := firstn (size - 1) (nodup Nat.eq_dec (filter (fun k => negb (memn k (i :: used_)) && (k <? n)%nat) cands))).
      assert (Ht : forall k, In k tail_ -> (k < n)%nat /\ ~ In k (i :: used_)).
      { intros k Hk. unfold tail_ in Hk. apply In_firstn in Hk. apply nodup_In in Hk. apply filter_In in Hk as [_ Hk].
        apply andb_true_iff in Hk as [H1 H2]. apply negb_true_iff in H1. apply memn_false in H1. apply Nat.ltb_lt in H2. auto. }
      assert (Hndt : NoDup tail_) by (apply NoDup_firstn; apply NoDup_nodup).
      destruct (IH orc' ((i :: tail_) ++ used_) (fun k Hk => Hlt k (or_intror Hk))) as (A & B & C & D).
      cbn [concat]. split; [|split; [|split]].
      * intros k Hk. apply in_app_iff in Hk as [[<-|Hk]|Hk].
        -- split; [apply Hlt; left; reflexivity|exact Eu].
        -- destruct (Ht k Hk) as [H1 H2]. split; [exact H1|]. intros Hc. apply H2. right. exact Hc.
        -- destruct (A k Hk) as [H1 H2]. split; [exact H1|]. intros Hc. apply H2. apply in_app_iff. right. exact Hc.
      * intros k [<-|Hk]; [left; left; reflexivity|]. destruct (B k Hk) as [Hc|Hc].
        -- left. apply in_app_iff. right. exact Hc.
        -- apply in_app_iff in Hc as [Hc|Hc]; [left; apply in_app_iff; left; exact Hc|right; exact Hc].
      * apply NoDup_app_nat.
        -- constructor; [intros Hc; apply (proj2 (Ht i Hc)); left; reflexivity|exact Hndt].
        -- exact C.
        -- intros k Hk Hc. apply (proj2 (A k Hc)). apply in_app_iff. left. exact Hk.
      * intros g [<-|Hg]; [discriminate|apply D; exact Hg].
Qed.

Theorem route_groups_partition : forall d orc,
  Permutation (concat (route_groups d orc)) (seq 0 (length (d_routes d))) /\ (forall g, In g (route_groups d orc) -> g <> []).
Proof.
  intros d orc. unfold route_groups. set (n := length (d_routes d)).
  destruct (split_groups_spec n (seq 0 n) orc [] (fun k Hk => proj2 (proj1 (in_seq n 0 k) Hk))) as (A & B & C & D).
  split; [|exact D]. apply NoDup_Permutation; [exact C|apply seq_NoDup|].
  intros k. split.
  - intros Hk. apply in_seq. destruct (A k Hk). lia.
  - intros Hk. destruct (B k Hk) as [H|[]]. exact H.
Qed.

Lemma select_routes_seq : forall (rs pre : list rdump), select_routes (seq (length pre) (length rs)) (pre ++ rs) = rs.
Proof.
  induction rs as [|r rs IH]; intros pre; [reflexivity|]. cbn [length seq select_routes flat_map].
  rewrite nth_error_app2 by lia. rewrite Nat.sub_diag. cbn [nth_error app]. f_equal.
  specialize (IH (pre ++ [r])). rewrite app_length in IH. cbn [length] in IH. rewrite Nat.add_1_r in IH.
  rewrite <- app_assoc in IH. exact IH.
Qed.
Lemma select_routes_all : forall rs, select_routes (seq 0 (length rs)) rs = rs.
Proof. intros rs. apply (select_routes_seq rs []). Qed.
Lemma select_routes_concat : forall gs rs, select_routes (concat gs) rs = flat_map (fun g => select_routes g rs) gs.
Proof.
  induction gs as [|g gs IH]; intros rs; [reflexivity|]. cbn [concat flat_map]. unfold select_routes at 1. rewrite flat_map_app.
  fold (select_routes g rs). fold (select_routes (concat gs) rs). rewrite IH. reflexivity.
Qed.
Lemma select_routes_In : forall g rs x, In x (select_routes g rs) <-> exists k, In k g /\ nth_error rs k = Some x.
Proof.
  intros g rs x. unfold select_routes. rewrite in_flat_map. split.
  - intros (k & Hk & Hx). exists k. split; [exact Hk|]. destruct (nth_error rs k) as [y|]; [destruct Hx as [->|[]]; reflexivity|destruct Hx].
  - intros (k & Hk & E). exists k. split; [exact Hk|]. rewrite E. left. reflexivity.
Qed.
Lemma select_routes_incl : forall g rs x, In x (select_routes g rs) -> In x rs.
Proof. intros g rs x H. apply select_routes_In in H as (k & _ & E). apply (nth_error_In _ _ E). Qed.

Lemma perm_filter_length : forall A (q : A -> bool) l l', Permutation l l' -> length (filter q l) = length (filter q l').
Proof.
  intros A q l l' H; induction H; cbn [filter]; try reflexivity.
  - destruct (q x); cbn [length]; congruence.
  - destruct (q x), (q y); reflexivity.
  - congruence.
Qed.

(* all the tours of the solution, group by group *)
Lemma grouped_routes_perm : forall d orc,
  Permutation (flat_map (fun g => select_routes g (d_routes d)) (route_groups d orc)) (d_routes d).
Proof.
  intros d orc. rewrite <- select_routes_concat. rewrite <- (select_routes_all (d_routes d)) at 2.
  unfold select_routes. apply Permutation_flat_map. apply route_groups_partition.
Qed.

Lemma grouped_count : forall (q : rdump -> bool) d orc,
  sumn (fun g => length (filter q (select_routes g (d_routes d)))) (route_groups d orc) = length (filter q (d_routes d)).
Proof.
  intros q d orc. rewrite <- filter_flat_map_length. apply perm_filter_length. apply grouped_routes_perm.
Qed.

(* ================= the contract of a refinement of one part ================= *)
Record Refines (P : pworld) (part ref : dump) : Prop := {
  rf_homes : forall s, In s (pw_jobs P) -> homes ref (j_id s) = homes part (j_id s);   (* same jobs, each with as many homes as before *)
  rf_known : forall j, In j (mentioned ref) -> known P j = true;
  rf_pending : NoDup (d_required ref) /\ NoDup (d_ignored ref) /\ NoDup (d_unassigned ref);
  rf_used : NoDup (used ref) /\ incl (used ref) (used part ++ d_avail part);             (* only the actors the part could use *)
  rf_routes : forall r, In r (d_routes ref) -> RouteOK0 P r;
  rf_groups : forall g, In g (groups_of P) -> (count_group P g ref <= count_group P g part)%nat;
  rf_locks : forall l, In l (pw_locks P) -> lock_ok part l = true -> lock_ok ref l = true }.

Theorem refines_b_spec : forall P part ref, refines_b P part ref = true <-> Refines P part ref.
Proof.
  intros P part ref. unfold refines_b. rewrite !andb_true_iff, !forallb_forall, !nodupb_NoDup. split.
  - intros (((((((((H1 & H2) & H3) & H4) & H5) & H6) & H7) & H8) & H9) & H10). constructor.
    + intros s Hs. apply Nat.eqb_eq. apply H1. exact Hs.
    + exact H2.
    + auto.
    + split; [exact H6|]. intros a Ha. apply memz_In. apply H7. exact Ha.
    + intros r Hr. apply route_ok_spec. apply H8. exact Hr.
    + intros g Hg. apply Nat.leb_le. apply H9. exact Hg.
    + intros l Hl E. specialize (H10 l Hl). rewrite E in H10. exact H10.
  - intros [H1 H2 (H3 & H4 & H5) (H6 & H7) H8 H9 H10]. repeat split; try assumption.
    + intros s Hs. apply Nat.eqb_eq. apply H1. exact Hs.
    + intros a Ha. apply memz_In. apply H7. exact Ha.
    + intros r Hr. apply route_ok_spec. apply H8. exact Hr.
    + intros g Hg. apply Nat.leb_le. apply H9. exact Hg.
    + intros l Hl. destruct (lock_ok part l) eqn:E; [rewrite (H10 l Hl E)|]; reflexivity.
Qed.

Lemma forallb2_Forall2 : forall A B (p : A -> B -> bool) l m, forallb2 p l m = true <-> Forall2 (fun a b => p a b = true) l m.
Proof.
  intros A B p l; induction l as [|a l IH]; intros [|b m]; cbn [forallb2]; split; intros H; try discriminate; try constructor;
    try (inversion H; fail).
  - apply andb_true_iff in H. tauto.
  - apply IH. apply andb_true_iff in H. tauto.
  - inversion H; subst. apply andb_true_iff. split; [assumption|apply IH; assumption].
Qed.

(* ================= the parts of a consistent solution ================= *)
Fixpoint disjoint_family (As : list (list Z)) : Prop :=
  match As with [] => True | A :: r => (forall x, In x A -> ~ In x (concat r)) /\ disjoint_family r end.
Lemma nodup_concat_disjoint : forall As, NoDup (concat As) -> disjoint_family As.
Proof.
  induction As as [|A As IH]; intros H; [exact I|]. cbn [concat] in H. split; [|apply IH; eapply NoDup_app_r; exact H].
  intros x Hx Hc. clear IH. induction A as [|a A IHA]; [destruct Hx|]. cbn in H. inversion H; subst.
  destruct Hx as [->|Hx]; [apply H2; apply in_app_iff; right; exact Hc|apply IHA; assumption].
Qed.
Lemma disjoint_concat_nodup : forall us, Forall (@NoDup Z) us -> disjoint_family us -> NoDup (concat us).
Proof.
  induction us as [|u us IH]; intros Hn Hd; [constructor|]. inversion Hn; subst. destruct Hd as [Hd1 Hd2]. cbn [concat].
  apply NoDup_app'; auto.
Qed.
Lemma disjoint_incl : forall As us, Forall2 (fun u A => incl u A) us As -> disjoint_family As -> disjoint_family us.
Proof.
  intros As us H; induction H as [|u A us As Hi H IH]; intros Hd; [exact I|]. destruct Hd as [Hd1 Hd2]. split; [|apply IH; exact Hd2].
  intros x Hx Hc. apply (Hd1 x (Hi x Hx)). clear -H Hc. induction H as [|u' A' us As Hi' H IH]; [exact Hc|].
  cbn [concat] in *. apply in_app_iff in Hc as [Hc|Hc]; apply in_app_iff; [left; apply Hi'; exact Hc|right; apply IH; exact Hc].
Qed.
Lemma disjoint_app_last : forall As L, disjoint_family As -> (forall x, In x (concat As) -> ~ In x L) -> disjoint_family (As ++ [L]).
Proof.
  induction As as [|A As IH]; intros L Hd Hl; cbn [app disjoint_family]; [split; [intros x _ []|exact I]|].
  destruct Hd as [Hd1 Hd2]. split.
  - intros x Hx Hc. rewrite concat_app in Hc. apply in_app_iff in Hc as [Hc|Hc]; [apply (Hd1 x Hx Hc)|].
    cbn in Hc. rewrite app_nil_r in Hc. apply (Hl x); [cbn [concat]; apply in_app_iff; left; exact Hx|exact Hc].
  - apply IH; [exact Hd2|]. intros x Hx. apply Hl. cbn [concat]. apply in_app_iff. right. exact Hx.
Qed.

Lemma sumn_ext_fun : forall A (f g : A -> nat) l, (forall x, f x = g x) -> sumn f l = sumn g l.
Proof. intros A f g l H; induction l as [|x l IH]; [reflexivity|]. cbn [sumn fold_right]. fold (sumn f l). fold (sumn g l). rewrite H, IH. reflexivity. Qed.
Lemma Forall2_In_l : forall A B (R : A -> B -> Prop) l m a, Forall2 R l m -> In a l -> exists b, In b m /\ R a b.
Proof. intros A B R l m a H; induction H; intros Hin; [destruct Hin|]. destruct Hin as [->|Hin]; [exists y; split; [left; reflexivity|assumption]|]. destruct (IHForall2 Hin) as (b & Hb & Hr). exists b. split; [right; exact Hb|exact Hr]. Qed.
Lemma Forall2_In_r : forall A B (R : A -> B -> Prop) l m b, Forall2 R l m -> In b m -> exists a, In a l /\ R a b.
Proof. intros A B R l m b H; induction H; intros Hin; [destruct Hin|]. destruct Hin as [->|Hin]; [exists x; split; [left; reflexivity|assumption]|]. destruct (IHForall2 Hin) as (a & Ha & Hr). exists a. split; [right; exact Ha|exact Hr]. Qed.

Lemma Forall2_impl : forall A B (R Q : A -> B -> Prop), (forall a b, R a b -> Q a b) -> forall l m, Forall2 R l m -> Forall2 Q l m.
Proof. intros A B R Q HRQ l m H; induction H; constructor; auto. Qed.
Lemma Forall2_flip : forall A B (R : A -> B -> Prop) l m, Forall2 R l m -> Forall2 (fun b a => R a b) m l.
Proof. intros A B R l m H; induction H; constructor; auto. Qed.
Lemma has_leftover_false : forall d, has_leftover d = false ->
  d_required d = [] /\ d_unassigned d = [] /\ d_ignored d = [] /\ d_locked d = [].
Proof. intros d H. unfold has_leftover in H. destruct (d_required d), (d_unassigned d), (d_ignored d), (d_locked d); try discriminate. auto. Qed.

Section Split.
Variable P : pworld.
Variable d : dump.
Variable orc : list (nat * list nat).
Hypothesis Hl : locks_nonempty P.
Hypothesis H : Inv0 P d.

Let gs := route_groups d orc.
Let rs := d_routes d.

Lemma group_homes : forall g j, homes (group_ctx d g) j = length (filter (fun r => serves r j) (select_routes g rs)).
Proof. intros g j. unfold homes, group_ctx, memz. cbn [d_routes d_required d_ignored d_unassigned existsb b2n]. rewrite !Nat.add_0_r. reflexivity. Qed.

Lemma parts_homes : forall j, sumn (fun p => homes p j) (decompose_parts d orc) = homes d j.
Proof.
  intros j. unfold decompose_parts. rewrite sumn_app, sumn_map. fold gs.
  rewrite (sumn_ext_fun _ _ (fun g => length (filter (fun r => serves r j) (select_routes g rs))) gs (fun g => group_homes g j)).
  unfold gs, rs. rewrite grouped_count. unfold homes at 2.
  destruct (has_leftover d) eqn:E.
  - cbn [sumn fold_right]. unfold homes, leftover_ctx. cbn [d_routes d_required d_ignored d_unassigned filter length]. lia.
  - destruct (has_leftover_false d E) as (E1 & E2 & E3 & _). rewrite E1, E2, E3. cbn [sumn fold_right memz existsb b2n]. lia.
Qed.

Lemma group_mentioned : forall g j, In j (mentioned (group_ctx d g)) -> In j (mentioned d).
Proof.
  intros g j Hj. apply mentioned_iff in Hj. apply mentioned_iff. unfold group_ctx in Hj.
  cbn [d_routes d_required d_ignored d_unassigned d_locked] in Hj.
  destruct Hj as [(x & Hx & Hjx)|[[]|[[]|[[]|Hj]]]].
  - left. exists x. split; [apply (select_routes_incl g _ x Hx)|exact Hjx].
  - apply filter_In in Hj as [Hj _]. tauto.
Qed.
Lemma leftover_mentioned : forall j, In j (mentioned (leftover_ctx d)) -> In j (mentioned d).
Proof.
  intros j Hj. apply mentioned_iff in Hj. apply mentioned_iff. unfold leftover_ctx in Hj.
  cbn [d_routes d_required d_ignored d_unassigned d_locked] in Hj. destruct Hj as [(x & [] & _)|Hj]. tauto.
Qed.

Lemma group_nodup : forall g, In g gs -> NoDup g.
Proof.
  intros g Hg. destruct (route_groups_partition d orc) as [Hperm _]. fold gs in Hperm.
  assert (Hnd : NoDup (concat gs)) by (apply (Permutation_NoDup (Permutation_sym Hperm)); apply seq_NoDup).
  clear -Hg Hnd. induction gs as [|g0 l IH]; [destruct Hg|]. cbn [concat] in Hnd. destruct Hg as [->|Hg].
  - clear IH. induction g as [|a g IHg]; [constructor|]. cbn in Hnd. inversion Hnd; subst. constructor; [rewrite in_app_iff in *; tauto|apply IHg; assumption].
  - apply IH; [exact Hg|]. clear -Hnd. induction g0 as [|a g0 IHg]; [exact Hnd|]. cbn in Hnd. inversion Hnd; subst. apply IHg. assumption.
Qed.

Lemma grouped_used_perm : Permutation (flat_map (fun g => used (group_ctx d g)) gs) (used d).
Proof.
  unfold used. cbn [group_ctx d_routes]. fold rs.
  assert (E : flat_map (fun g => map r_actor (select_routes g rs)) gs = map r_actor (flat_map (fun g => select_routes g rs) gs)).
  { clear. induction gs as [|g l IH]; [reflexivity|]. cbn [flat_map]. rewrite map_app, IH. reflexivity. }
  rewrite E. apply Permutation_map. apply grouped_routes_perm.
Qed.

(* the actors each part may use: a group its own, the leftover the free ones *)
Definition allowed (p : dump) : list Z := used p ++ d_avail p.

Lemma parts_allowed_disjoint : disjoint_family (map allowed (decompose_parts d orc)).
Proof.
  unfold decompose_parts. rewrite map_app, map_map. fold gs.
  assert (Eg : map (fun g => allowed (group_ctx d g)) gs = map (fun g => used (group_ctx d g)) gs).
  { apply map_ext. intros g. unfold allowed. cbn [group_ctx d_avail]. apply app_nil_r. }
  rewrite Eg.
  assert (Hfam : disjoint_family (map (fun g => used (group_ctx d g)) gs)).
  { apply nodup_concat_disjoint. rewrite <- flat_map_concat_map.
    apply (Permutation_NoDup (Permutation_sym grouped_used_perm)). apply (inv_actors P d H). }
  destruct (has_leftover d); cbn [map]; [|rewrite app_nil_r; exact Hfam].
  apply disjoint_app_last; [exact Hfam|]. intros a Ha Hc. rewrite <- flat_map_concat_map in Ha.
  apply (Permutation_in _ grouped_used_perm) in Ha. unfold allowed, leftover_ctx in Hc. cbn [used d_routes d_avail map app] in Hc.
  assert (Hk : actor_known P a = true) by (apply (proj2 (inv_actors P d H)); apply in_app_iff; left; exact Ha).
  unfold actor_known in Hk. destruct (find_vs P a) as [v|] eqn:Ev; [|discriminate]. unfold find_vs in Ev.
  apply find_some in Ev as [Hv Eid]. apply Z.eqb_eq in Eid. subst a. apply (proj1 (inv_registry P d H v Hv) Hc Ha).
Qed.

Lemma group_refines_self : forall g, In g gs -> Refines P (group_ctx d g) (group_ctx d g).
Proof.
  intros g Hg. constructor; try reflexivity; try tauto.
  - intros j Hj. apply (inv_known P d H). apply (group_mentioned g j Hj).
  - cbn [group_ctx d_required d_ignored d_unassigned]. repeat split; constructor.
  - split; [|intros a Ha; apply in_app_iff; left; exact Ha]. unfold used. cbn [group_ctx d_routes]. fold rs.
    pose proof (proj1 (inv_actors P d H)) as Hnd. unfold used in Hnd. fold rs in Hnd. pose proof (group_nodup g Hg) as Hg'.
    clear -Hnd Hg'. induction Hg' as [|k g Hk Hg' IH]; [constructor|]. cbn [select_routes flat_map]. fold (select_routes g rs).
    destruct (nth_error rs k) as [x|] eqn:E; [|exact IH]. cbn [app map]. constructor; [|exact IH].
    intros Hc. apply in_map_iff in Hc as (y & Ey & Hy). apply select_routes_In in Hy as (k' & Hk' & E').
    assert (x = y) by (apply (actor_unique rs); [exact Hnd|apply (nth_error_In _ _ E)|apply (nth_error_In _ _ E')|congruence]). subst y.
    assert (k = k'); [|subst; contradiction].
    apply (proj1 (NoDup_nth_error rs)); [|apply nth_error_Some; congruence|congruence].
    clear -Hnd. induction rs as [|z l IH]; [constructor|]. cbn in Hnd. inversion Hnd; subst. constructor; [|apply IH; assumption].
    intros Hc. apply H1. apply in_map. exact Hc.
  - intros r Hr. apply (inv_routes P d H). apply (select_routes_incl g _ r Hr).
Qed.

Lemma leftover_refines_self : Refines P (leftover_ctx d) (leftover_ctx d).
Proof.
  constructor; try reflexivity; try tauto.
  - intros j Hj. apply (inv_known P d H). apply (leftover_mentioned j Hj).
  - exact (inv_pending P d H).
  - split; [constructor|intros a []].
  - intros r [].
Qed.
Lemma leftover_partial_refines : Refines P (leftover_ctx d) (leftover_partial d).
Proof.
  constructor; try reflexivity; try tauto.
  - intros j Hj. apply (inv_known P d H). apply mentioned_iff in Hj. apply mentioned_iff. unfold leftover_partial in Hj.
    cbn [d_routes d_required d_ignored d_unassigned d_locked] in Hj. destruct Hj as [(x & [] & _)|[Hj|[Hj|[Hj|Hj]]]]; try tauto.
    apply filter_In in Hj. tauto.
  - exact (inv_pending P d H).
  - split; [constructor|intros a []].
  - intros r [].
  - intros l _ E. unfold lock_ok, leftover_ctx in E. cbn [d_routes existsb] in E. rewrite andb_false_r in E. discriminate.
Qed.

Theorem parts_refine_self : Forall2 (Refines P) (decompose_parts d orc) (decompose_parts d orc).
Proof.
  unfold decompose_parts. apply Forall2_app.
  - fold gs. assert (X : forall l, (forall g, In g l -> In g gs) -> Forall2 (Refines P) (map (group_ctx d) l) (map (group_ctx d) l)).
    { induction l as [|g l IH]; intros Hin; constructor; [apply group_refines_self; apply Hin; left; reflexivity|apply IH; intros; apply Hin; right; assumption]. }
    apply X. auto.
  - destruct (has_leftover d); constructor; [apply leftover_refines_self|constructor].
Qed.
Theorem fallbacks_refine : Forall2 (Refines P) (decompose_parts d orc) (decompose_fallbacks d orc).
Proof.
  unfold decompose_parts, decompose_fallbacks. apply Forall2_app.
  - fold gs. assert (X : forall l, (forall g, In g l -> In g gs) -> Forall2 (Refines P) (map (group_ctx d) l) (map (group_ctx d) l)).
    { induction l as [|g l IH]; intros Hin; constructor; [apply group_refines_self; apply Hin; left; reflexivity|apply IH; intros; apply Hin; right; assumption]. }
    apply X. auto.
  - destruct (has_leftover d); constructor; [apply leftover_partial_refines|constructor].
Qed.

Lemma parts_groups : forall g, sumn (count_group P g) (decompose_parts d orc) = count_group P g d.
Proof.
  intros g. unfold decompose_parts. rewrite sumn_app, sumn_map. fold gs. unfold count_group at 1. cbn [group_ctx d_routes].
  fold rs. unfold gs, rs. rewrite grouped_count. destruct (has_leftover d); cbn [sumn fold_right count_group leftover_ctx d_routes filter length]; unfold count_group; lia.
Qed.

Lemma parts_locks : forall l, In l (pw_locks P) -> exists p, In p (decompose_parts d orc) /\ lock_ok p l = true.
Proof.
  intros l Hll. pose proof (inv_locks P d H l Hll) as Hlo. unfold lock_ok in Hlo. apply andb_true_iff in Hlo as [H1 H2].
  apply existsb_exists in H2 as (x & Hx & Hxx). apply In_nth_error in Hx as [k Hk].
  destruct (route_groups_partition d orc) as [Hperm _]. fold gs in Hperm.
  assert (Hkin : In k (concat gs)).
  { apply (Permutation_in _ (Permutation_sym Hperm)). apply in_seq. split; [lia|]. cbn. apply nth_error_Some. fold rs in Hk. unfold rs in Hk. congruence. }
  apply in_concat in Hkin as (g & Hg & Hkg). exists (group_ctx d g). split.
  - unfold decompose_parts. apply in_app_iff. left. apply in_map. exact Hg.
  - assert (Hxg : In x (select_routes g rs)) by (apply select_routes_In; exists k; auto).
    unfold lock_ok. cbn [group_ctx d_routes d_locked]. fold rs. apply andb_true_iff. split.
    + rewrite forallb_forall in *. intros j Hj. apply memz_In. apply filter_In. split; [apply memz_In; apply H1; exact Hj|].
      unfold served_by. apply existsb_exists. exists x. split; [exact Hxg|]. apply serves_In.
      apply andb_true_iff in Hxx as [_ Hxx]. unfold list_eqb in Hxx. destruct (list_eq_dec Z.eq_dec _ _) as [E|E]; [|discriminate].
      rewrite <- E in Hj. apply filter_In in Hj. tauto.
    + apply existsb_exists. exists x. auto.
Qed.
End Split.

(* ================= merging refinements back ================= *)
Lemma choose_Forall2 : forall A (R : A -> dump -> Prop) parts bs refined fallbacks,
  Forall2 R parts refined -> Forall2 R parts fallbacks -> Forall2 R parts (choose bs refined fallbacks).
Proof.
  intros A R parts; induction parts as [|p parts IH]; intros bs refined fallbacks H1 H2; inversion H1; inversion H2; subst; cbn [choose]; constructor.
  - destruct bs as [|[] bs]; assumption.
  - apply IH; assumption.
Qed.

Lemma refines_used_incl : forall P ps cs, Forall2 (Refines P) ps cs ->
  Forall2 (fun u A => incl u A) (map used cs) (map (fun p => used p ++ d_avail p) ps).
Proof. intros P ps cs H; induction H as [|p c ps cs Hr Hrest IH]; cbn [map]; constructor; [apply (proj2 (rf_used P p c Hr))|exact IH]. Qed.

Section Merge.
Variable P : pworld.
Variable d : dump.
Variable orc : list (nat * list nat).
Hypothesis Hl : locks_nonempty P.
Hypothesis H : Inv0 P d.
Variable cs : list dump.
Hypothesis Hcs : Forall2 (Refines P) (decompose_parts d orc) cs.

Lemma cs_part : forall c, In c cs -> exists p, In p (decompose_parts d orc) /\ Refines P p c.
Proof. intros c Hc. apply (Forall2_In_r _ _ _ _ _ c Hcs Hc). Qed.

Lemma part_allowed_known : forall p a, In p (decompose_parts d orc) -> In a (allowed p) -> actor_known P a = true.
Proof.
  intros p a Hp Ha. apply (proj2 (inv_actors P d H)). unfold decompose_parts in Hp. apply in_app_iff in Hp as [Hp|Hp].
  - apply in_map_iff in Hp as (g & <- & _). unfold allowed in Ha. cbn [group_ctx d_avail] in Ha. rewrite app_nil_r in Ha.
    unfold used in Ha. cbn [group_ctx d_routes] in Ha. apply in_map_iff in Ha as (x & <- & Hx). apply in_app_iff. left.
    unfold used. apply in_map. apply (select_routes_incl g _ x Hx).
  - destruct (has_leftover d); [|destruct Hp]. destruct Hp as [<-|[]]. unfold allowed, leftover_ctx in Ha.
    cbn [used d_routes d_avail map app] in Ha. apply in_app_iff. right. exact Ha.
Qed.

Theorem refined_concat_inv0 : Inv0 P (concat_dumps P cs).
Proof.
  apply inv0_concat.
  - intros s Hs. rewrite <- (inv_homes P d H s Hs). rewrite <- (parts_homes d orc (j_id s)). symmetry.
    apply sumn_ext. apply (Forall2_impl _ _ _ _ (fun p c Hr => eq_sym (rf_homes P p c Hr s Hs)) _ _ Hcs).
  - intros c Hc j Hj. destruct (cs_part c Hc) as (p & _ & Hr). apply (rf_known P p c Hr j Hj).
  - intros c Hc. destruct (cs_part c Hc) as (p & _ & Hr). apply (rf_pending P p c Hr).
  - split.
    + rewrite flat_map_concat_map. apply disjoint_concat_nodup.
      * apply Forall_forall. intros u Hu. apply in_map_iff in Hu as (c & <- & Hc). destruct (cs_part c Hc) as (p & _ & Hr).
        apply (proj1 (rf_used P p c Hr)).
      * apply (disjoint_incl (map (fun p => used p ++ d_avail p) (decompose_parts d orc))).
        -- apply (refines_used_incl P _ _ Hcs).
        -- apply (parts_allowed_disjoint P d orc H).
    + intros a Ha. apply in_flat_map in Ha as (c & Hc & Ha). destruct (cs_part c Hc) as (p & Hp & Hr).
      apply (part_allowed_known p a Hp). apply (proj2 (rf_used P p c Hr)). exact Ha.
  - intros c Hc r Hr. destruct (cs_part c Hc) as (p & _ & Hrf). apply (rf_routes P p c Hrf r Hr).
  - intros g Hg. pose proof (inv_groups P d H g Hg) as Hgo. unfold group_ok in Hgo. apply Nat.leb_le in Hgo.
    fold (count_group P g d) in Hgo. rewrite <- (parts_groups P d orc g) in Hgo.
    eapply Nat.le_trans; [|exact Hgo]. apply sumn_le. apply Forall2_flip. apply (Forall2_impl _ _ _ _ (fun p c Hr => rf_groups P p c Hr g Hg) _ _ Hcs).
  - intros l Hll. destruct (parts_locks P d orc H l Hll) as (p & Hp & Hlo).
    destruct (Forall2_In_l _ _ _ _ _ p Hcs Hp) as (c & Hc & Hr). exists c. split; [exact Hc|apply (rf_locks P p c Hr l Hll Hlo)].
Qed.
End Merge.

Theorem decompose_merge_inv : forall P orc refined better d d',
  locks_nonempty P -> Inv0 P d -> decompose_merge P orc refined better d = Some d' -> Inv P d'.
Proof.
  intros P orc refined better d d' Hl H E. unfold decompose_merge in E.
  destruct (forallb2 (refines_b P) (decompose_parts d orc) refined) eqn:Er; [|discriminate]. inversion E; subst d'. clear E.
  apply forallb2_Forall2 in Er.
  assert (Hr : Forall2 (Refines P) (decompose_parts d orc) refined).
  { clear -Er. induction Er; [constructor|constructor; [apply refines_b_spec; assumption|assumption]]. }
  rewrite merge_all_eq.
  pose proof (refined_concat_inv0 P d orc H _ (choose_Forall2 _ _ _ better _ _ Hr (fallbacks_refine P d orc H))) as H1.
  apply (inv_finalize_ctx P Hl). apply (inv0_p_drop_empty P Hl). exact H1.
Qed.

(* the merge is exactly the union of the chosen parts: tours and pending lists side by side, every job counted once,
   the registry = the vehicles no chosen part uses *)
Theorem decompose_merge_union : forall P orc refined better d d',
  Inv0 P d -> decompose_merge P orc refined better d = Some d' ->
  let cs := choose better refined (decompose_fallbacks d orc) in
  d' = finalize_ctx (p_drop_empty (concat_dumps P cs)) /\
  Forall2 (Refines P) (decompose_parts d orc) cs /\
  (forall j, homes (concat_dumps P cs) j = sumn (fun p => homes p j) cs) /\
  (forall s, In s (pw_jobs P) -> sumn (fun p => homes p (j_id s)) cs = 1%nat).
Proof.
  intros P orc refined better d d' H E cs. unfold decompose_merge in E.
  destruct (forallb2 (refines_b P) (decompose_parts d orc) refined) eqn:Er; [|discriminate]. inversion E; subst d'. clear E.
  apply forallb2_Forall2 in Er.
  assert (Hr : Forall2 (Refines P) (decompose_parts d orc) refined).
  { clear -Er. induction Er; [constructor|constructor; [apply refines_b_spec; assumption|assumption]]. }
  pose proof (choose_Forall2 _ _ _ better _ _ Hr (fallbacks_refine P d orc H)) as Hcs. fold cs in Hcs.
  assert (Hsum : forall s, In s (pw_jobs P) -> sumn (fun p => homes p (j_id s)) cs = 1%nat).
  { intros s Hs. rewrite <- (inv_homes P d H s Hs). rewrite <- (parts_homes d orc (j_id s)). symmetry.
    apply sumn_ext. apply (Forall2_impl _ _ _ _ (fun p c Hr => eq_sym (rf_homes P p c Hr s Hs)) _ _ Hcs). }
  split; [rewrite merge_all_eq; reflexivity|]. split; [exact Hcs|]. split; [|exact Hsum].
  intros j. apply (concat_homes P cs Hsum).
  - intros c Hc k Hk. destruct (Forall2_In_r _ _ _ _ _ c Hcs Hc) as (p & _ & Hrf). apply (rf_known P p c Hrf k Hk).
  - intros c Hc. destruct (Forall2_In_r _ _ _ _ _ c Hcs Hc) as (p & _ & Hrf). apply (rf_pending P p c Hrf).
Qed.

(* non-vacuity of the contract: the parts themselves are admissible refinements, so decompose_merge answers *)
Theorem decompose_identity_refines : forall P orc d, Inv0 P d ->
  forallb2 (refines_b P) (decompose_parts d orc) (decompose_parts d orc) = true.
Proof.
  intros P orc d H. apply forallb2_Forall2.
  apply (Forall2_impl _ _ _ _ (fun a b Hr => proj2 (refines_b_spec P a b) Hr) _ _ (parts_refine_self P d orc H)).
Qed.

(* ================= histories over the sum type of all modelled operator calls ================= *)
Theorem run_op_inv : forall P c d d', metric P -> locks_nonempty P -> Inv P d -> run_op P c d = Some d' -> Inv P d'.
Proof.
  intros P c d d' Hm Hl H E. pose proof (proj1 H) as H0.
  destruct c as [cs|rounds|cs rounds|o|o|idx j res|moves|deps|removals rounds|orc refined better fr fo]; cbn [run_op] in E.
  - inversion E; subst. apply composite_ruin_inv; assumption.
  - apply (recreate_inv P Hm Hl rounds d d' H0 E).
  - apply (ruin_recreate_inv P Hm Hl cs rounds d d' H0 E).
  - apply (exchange_sequence_inv P Hm Hl o d d' H E).
  - apply (exchange_inter_route_inv P Hm Hl o d d' H E).
  - apply (exchange_intra_route_inv P Hm Hl idx j res d d' H E).
  - apply (exchange_swap_star_inv P Hm Hl moves d d' H E).
  - apply (reschedule_departure_inv P Hm Hl deps d d' H E).
  - apply (redistribute_inv P Hm Hl removals rounds d d' H0 E).
  - destruct (d_routes d) as [|r0 rs0]; [apply (ruin_recreate_inv P Hm Hl fr fo d d' H0 E)|].
    destruct (length (decompose_parts d orc) <=? 1)%nat; [apply (ruin_recreate_inv P Hm Hl fr fo d d' H0 E)|].
    apply (decompose_merge_inv P orc refined better d d' Hl H0 E).
Qed.

Theorem run_calls_inv : forall P cs d d', metric P -> locks_nonempty P -> Inv P d -> run_calls P cs d = Some d' -> Inv P d'.
Proof.
  intros P cs; induction cs as [|c cs IH]; intros d d' Hm Hl H E; unfold run_calls in *; cbn [fold_left] in E.
  - inversion E; subst; exact H.
  - cbn [bind] in E. destruct (run_op P c d) as [d1|] eqn:E1.
    + apply (IH d1 d' Hm Hl); [apply (run_op_inv P c d d1 Hm Hl H E1)|exact E].
    + exfalso. clear -E. induction cs as [|c' cs IH]; cbn [fold_left bind] in E; [discriminate|apply IH; exact E].
Qed.

(* every solution of a history is consistent *)
Theorem trace_calls_inv : forall P cs d, metric P -> locks_nonempty P -> Inv P d -> Forall (Inv P) (trace_calls P cs d).
Proof.
  intros P cs; induction cs as [|c cs IH]; intros d Hm Hl H; cbn [trace_calls]; constructor; try exact H; [constructor|].
  destruct (run_op P c d) as [d1|] eqn:E1; [|constructor]. apply IH; auto. apply (run_op_inv P c d d1 Hm Hl H E1).
Qed.

(* "the parent is left unchanged", in the model: the solutions recorded so far are not affected by the calls that follow *)
Theorem trace_calls_prefix : forall P cs1 cs2 d k, (k <= length cs1)%nat ->
  nth_error (trace_calls P (cs1 ++ cs2) d) k = nth_error (trace_calls P cs1 d) k \/ nth_error (trace_calls P cs1 d) k = None.
Proof.
  intros P cs1; induction cs1 as [|c cs1 IH]; intros cs2 d k Hk.
  - cbn [length] in Hk. assert (k = 0%nat) by lia. subst. left. destruct cs2; reflexivity.
  - destruct k as [|k]; [left; reflexivity|]. cbn [app trace_calls nth_error length] in *.
    destruct (run_op P c d) as [d1|]; [apply IH; lia|left; reflexivity].
Qed.
